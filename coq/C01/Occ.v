(* C01, occurrence counting: lemmas about occ / nth_occ / joint_loads / group_of used to show that the constructor's
   fused plan is the plan by occurrence counting (Spec.spec_plan). *)
From Coq Require Import ZArith List Bool String Ascii Lia Arith.
Import ListNotations.
From KD Require Import C01.Model C01.Spec C01.Check C01.Proofs.
Local Open Scope nat_scope.
Local Notation length := List.length.

(* ------------------------------------------------------------------ *)
(* counting occurrences                                                *)
(* ------------------------------------------------------------------ *)
Lemma firstn_S_nth : forall A (l : list A) q x, nth_error l q = Some x -> firstn (S q) l = firstn q l ++ [x].
Proof.
  intros A l; induction l as [|y r IH]; intros q x H; [destruct q; discriminate|].
  destruct q; simpl in *.
  - inversion H; reflexivity.
  - f_equal. apply IH; auto.
Qed.

Lemma occ_app : forall s a b, occ s (a ++ b) = occ s a + occ s b.
Proof. intros s a; induction a; intros; simpl; auto. rewrite IHa. lia. Qed.

Lemma occ_firstn_S : forall s l q x, nth_error l q = Some x ->
  occ s (firstn (S q) l) = occ s (firstn q l) + (if String.eqb s x then 1 else 0).
Proof. intros. rewrite (firstn_S_nth _ _ _ _ H). rewrite occ_app. simpl. lia. Qed.

Lemma occ_firstn_mono : forall s l q q', q <= q' -> occ s (firstn q l) <= occ s (firstn q' l).
Proof.
  intros s l; induction l as [|y r IH]; intros q q' H; [destruct q, q'; simpl; lia|].
  destruct q; simpl; [lia|]. destruct q'; [lia|]. simpl. specialize (IH q q' ltac:(lia)). lia.
Qed.

Lemma occ_firstn_le : forall s l q, occ s (firstn q l) <= occ s l.
Proof.
  intros s l; induction l as [|y r IH]; intros q; [destruct q; simpl; lia|].
  destruct q; simpl; [lia|]. specialize (IH q). lia.
Qed.

Lemma occ_firstn_all : forall s l q, length l <= q -> occ s (firstn q l) = occ s l.
Proof. intros. rewrite firstn_all2; auto. Qed.

Lemma nth_occ_spec : forall s l k base q, nth_occ s k base l = Some q ->
  base <= q /\ nth_error l (q - base) = Some s /\ occ s (firstn (q - base) l) = k.
Proof.
  intros s l; induction l as [|x r IH]; intros k base q H; simpl in H; [discriminate|].
  destruct (String.eqb s x) eqn:E.
  - apply String.eqb_eq in E; subst x. destruct k.
    + inversion H; subst. rewrite Nat.sub_diag. simpl. auto.
    + destruct (IH _ _ _ H) as [H1 [H2 H3]].
      split; [lia|]. replace (q - base) with (S (q - S base)) by lia. simpl. rewrite String.eqb_refl.
      split; [exact H2 | lia].
  - destruct (IH _ _ _ H) as [H1 [H2 H3]].
    split; [lia|]. replace (q - base) with (S (q - S base)) by lia. simpl. rewrite E. split; [exact H2 | lia].
Qed.

Lemma nth_occ_complete : forall s l q base, nth_error l q = Some s ->
  nth_occ s (occ s (firstn q l)) base l = Some (base + q).
Proof.
  intros s l; induction l as [|x r IH]; intros q base H; [destruct q; discriminate|].
  destruct q; simpl in *.
  - inversion H; subst. rewrite String.eqb_refl. f_equal; lia.
  - destruct (String.eqb s x); simpl; rewrite (IH q (S base) H); f_equal; lia.
Qed.

Lemma nth_occ_some : forall s l k base, k < occ s l -> exists q, nth_occ s k base l = Some q.
Proof.
  intros s l; induction l as [|x r IH]; intros k base H; simpl in *; [lia|].
  destruct (String.eqb s x).
  - destruct k; [eauto|]. apply IH. lia.
  - apply IH. lia.
Qed.

Lemma nth_occ_none : forall s l k base, occ s l <= k -> nth_occ s k base l = None.
Proof.
  intros s l; induction l as [|x r IH]; intros k base H; simpl in *; [reflexivity|].
  destruct (String.eqb s x).
  - destruct k; [lia|]. apply IH. lia.
  - apply IH. lia.
Qed.

(* fold_left Nat.min *)
Lemma fold_min_le : forall l a, fold_left Nat.min l a <= a /\ forall x, In x l -> fold_left Nat.min l a <= x.
Proof.
  induction l as [|y r IH]; intros a; simpl; [split; [lia | intros x []]|].
  destruct (IH (Nat.min a y)) as [H1 H2]. split; [lia|].
  intros x [<-|Hx]; [lia | auto].
Qed.

Lemma fold_min_attained : forall l a, fold_left Nat.min l a = a \/ In (fold_left Nat.min l a) l.
Proof.
  induction l as [|y r IH]; intros a; simpl; [left; reflexivity|].
  destruct (IH (Nat.min a y)) as [H|H]; [|right; right; exact H].
  rewrite H. destruct (Nat.min_dec a y) as [E|E]; rewrite E; [left; reflexivity | right; left; reflexivity].
Qed.

Lemma joint_loads_le : forall items h tl op, In op (h :: tl) -> joint_loads items (h :: tl) <= occ op items.
Proof.
  intros items h tl op Hin. unfold joint_loads.
  destruct (fold_min_le (map (fun op => occ op items) tl) (occ h items)) as [H1 H2].
  destruct Hin as [<-|Hin]; [exact H1|]. apply H2. apply in_map_iff. eauto.
Qed.

Lemma joint_loads_attained : forall items h tl,
  joint_loads items (h :: tl) = occ h items \/ exists op, In op tl /\ joint_loads items (h :: tl) = occ op items.
Proof.
  intros items h tl. unfold joint_loads.
  destruct (fold_min_attained (map (fun op => occ op items) tl) (occ h items)) as [H|H]; [left; exact H|].
  right. apply in_map_iff in H. destruct H as [op [H1 H2]]. exists op. split; auto.
Qed.

(* group_of *)
Lemma mem_eqb_In : forall s (g : list string), mem String.eqb s g = true <-> In s g.
Proof. intros. apply mem_In_g. apply String.eqb_eq. Qed.

Lemma group_of_some : forall groups s g, group_of groups s = Some g -> In g groups /\ In s g.
Proof.
  intros groups s g H. unfold group_of in H. apply find_some in H. destruct H as [H1 H2].
  split; auto. apply mem_eqb_In; auto.
Qed.

Lemma group_of_in : forall groups s g, NoDup (List.concat groups) -> In g groups -> In s g -> group_of groups s = Some g.
Proof.
  intros groups s g Hnd Hg Hs. unfold group_of.
  destruct (find (fun g0 => mem String.eqb s g0) groups) as [g'|] eqn:E.
  - apply find_some in E. destruct E as [H1 H2]. apply mem_eqb_In in H2.
    f_equal. eapply groups_disjoint; eauto.
  - exfalso. pose proof (find_none _ _ E g Hg) as Hn. simpl in Hn.
    apply mem_eqb_In in Hs. congruence.
Qed.

Lemma group_of_none : forall groups s, group_of groups s = None -> forall g, In g groups -> ~ In s g.
Proof.
  intros groups s H g Hg Hs. unfold group_of in H. pose proof (find_none _ _ H g Hg) as Hn. simpl in Hn.
  apply mem_eqb_In in Hs. congruence.
Qed.

(* try_groups, decided by the group of the item *)
Lemma try_groups_result : forall groups s temp,
  groups_ok groups ->
  try_groups groups s temp =
  match group_of groups s with
  | Some (h :: tl) => if String.eqb h s && forallb (fun op => mem oeqb (Some op) temp) tl then Fire (h :: tl) else NoFire
  | _ => NoFire
  end.
Proof.
  intros groups s temp [Hg Hnd].
  assert (Hne : Forall (fun g => g <> []) groups).
  { rewrite Forall_forall in *. intros x Hx. apply (Hg x Hx). }
  destruct (try_groups groups s temp) as [|g'|] eqn:Et.
  - (* NoFire *)
    destruct (group_of groups s) as [[|h tl]|] eqn:Eg; auto.
    destruct (String.eqb h s) eqn:Eh; auto. simpl.
    destruct (forallb (fun op => mem oeqb (Some op) temp) tl) eqn:Ef; auto.
    apply String.eqb_eq in Eh; subst h. destruct (group_of_some _ _ _ Eg) as [Hin _].
    rewrite (try_groups_fires groups s tl temp Hnd Hne Hin Ef) in Et. discriminate.
  - destruct (try_groups_fire _ _ _ _ Et) as [Hin [tl [-> Hall]]].
    rewrite (group_of_in groups s (s :: tl) Hnd Hin (or_introl eq_refl)).
    rewrite String.eqb_refl, Hall. reflexivity.
  - exfalso. eapply try_groups_noerr; eauto.
Qed.
