(* list lemmas: chunk, emit *)
From Coq Require Import ZArith List Bool Lia.
Import ListNotations.
From KD Require Import C04.Model C04.Spec.
Open Scope Z_scope.

Lemma len_app a b : len (a ++ b) = len a + len b.
Proof. unfold len. rewrite app_length. lia. Qed.
Lemma len_nonneg a : 0 <= len a.
Proof. unfold len. lia. Qed.
Lemma len_cons x a : len (x :: a) = 1 + len a.
Proof. unfold len. simpl length. lia. Qed.
Lemma len_nil : len [] = 0. Proof. reflexivity. Qed.

Lemma skipn_length_le (b : nat) (l : list Z) : (length (skipn b l) <= length l)%nat.
Proof. rewrite skipn_length. lia. Qed.

Lemma chunk_fuel_nil f b : chunk_fuel f b [] = [].
Proof. destruct f; reflexivity. Qed.

Lemma chunk_fuel_irrel b : (1 <= b)%nat -> forall f1 f2 l,
  (length l <= f1)%nat -> (length l <= f2)%nat -> chunk_fuel f1 b l = chunk_fuel f2 b l.
Proof.
  intros Hb. induction f1 as [|f1 IH]; intros f2 l H1 H2.
  - destruct l; [|simpl in H1; lia]. now rewrite !chunk_fuel_nil.
  - destruct l as [|x l]; [now rewrite !chunk_fuel_nil|].
    destruct f2 as [|f2]; [simpl in H2; lia|].
    cbn [chunk_fuel]. f_equal. apply IH.
    + rewrite skipn_length. simpl length in *. lia.
    + rewrite skipn_length. simpl length in *. lia.
Qed.

Lemma chunk_cons b x l : (1 <= b)%nat ->
  chunk b (x :: l) = firstn b (x :: l) :: chunk b (skipn b (x :: l)).
Proof.
  intros Hb. unfold chunk at 1. simpl length. cbn [chunk_fuel]. f_equal.
  unfold chunk. apply chunk_fuel_irrel; auto.
  rewrite skipn_length. simpl length. lia.
Qed.
Lemma chunk_nil b : chunk b [] = []. Proof. reflexivity. Qed.

(* strong induction principle on list length, specialised to chunking *)
Lemma chunk_ind (b : nat) (P : list Z -> Prop) : (1 <= b)%nat ->
  P [] -> (forall x l, P (skipn b (x :: l)) -> P (x :: l)) -> forall l, P l.
Proof.
  intros Hb H0 Hs l.
  assert (forall n l, (length l <= n)%nat -> P l) as H.
  { induction n as [|n IH]; intros l0 Hl.
    - destruct l0; [exact H0|simpl in Hl; lia].
    - destruct l0 as [|x l0]; [exact H0|]. apply Hs. apply IH.
      rewrite skipn_length. simpl length in *. lia. }
  apply (H (length l)). lia.
Qed.

Lemma concat_chunk b l : (1 <= b)%nat -> concat (chunk b l) = l.
Proof.
  intros Hb. pattern l. apply (chunk_ind b); auto.
  intros x l0 IH. rewrite chunk_cons by auto. cbn [concat]. rewrite IH.
  apply firstn_skipn.
Qed.

(* shape of a chunking: every piece but the last has exactly b elements, the
   last one between 1 and b *)
Fixpoint shape (b : nat) (bs : list (list Z)) : Prop :=
  match bs with
  | [] => True
  | [x] => x <> [] /\ (length x <= b)%nat
  | x :: bs' => length x = b /\ shape b bs'
  end.

Lemma chunk_shape b l : (1 <= b)%nat -> shape b (chunk b l).
Proof.
  intros Hb. pattern l. apply (chunk_ind b); auto.
  - exact I.
  - intros x l0 IH. rewrite chunk_cons by auto.
    remember (skipn b (x :: l0)) as r eqn:Hr.
    destruct r as [|y r].
    + rewrite chunk_nil. cbn [shape]. split.
      * destruct b; [lia|]. discriminate.
      * rewrite firstn_length. lia.
    + assert (chunk b (y :: r) <> []) as Hne by (rewrite chunk_cons by auto; discriminate).
      destruct (chunk b (y :: r)) as [|c0 cs] eqn:Hc; [congruence|].
      cbn [shape]. split; [|exact IH].
      rewrite firstn_length. 
      assert (length (skipn b (x :: l0)) = length (y :: r)) as Hl by (now rewrite Hr).
      rewrite skipn_length in Hl. simpl length in *. lia.
Qed.

Lemma chunk_nonempty b l : (1 <= b)%nat -> l <> [] -> chunk b l <> [].
Proof. intros Hb Hl. destruct l; [congruence|]. rewrite chunk_cons by auto. discriminate. Qed.

(* number of pieces = ceil(len / b) *)
Lemma chunk_length b l : (1 <= b)%nat ->
  Z.of_nat (length (chunk b l)) = (len l + Z.of_nat b - 1) / Z.of_nat b.
Proof.
  intros Hb. pattern l. apply (chunk_ind b); auto.
  - rewrite chunk_nil. unfold len. simpl length.
    symmetry. apply Z.div_small. lia.
  - intros x l0 IH. rewrite chunk_cons by auto. simpl length at 1.
    rewrite Nat2Z.inj_succ, IH. unfold len. rewrite skipn_length.
    set (n := length (x :: l0)). assert (1 <= n)%nat by (subst n; simpl; lia).
    destruct (Nat.le_gt_cases n b) as [Hle|Hgt].
    + replace (n - b)%nat with 0%nat by lia.
      replace (Z.of_nat 0 + Z.of_nat b - 1) with (Z.of_nat b - 1) by lia.
      rewrite (Z.div_small (Z.of_nat b - 1)) by lia.
      apply Z.div_unique with (r := Z.of_nat n - 1); lia.
    + replace (Z.of_nat n + Z.of_nat b - 1) with ((Z.of_nat (n - b) + Z.of_nat b - 1) + 1 * Z.of_nat b) by lia.
      rewrite Z.div_add by lia. lia.
Qed.

Lemma emit_cons2 {E} (mk : bool -> Z -> E) i j b : emit mk (i :: j :: b) = mk false i :: emit mk (j :: b).
Proof. reflexivity. Qed.
Lemma emit_single {E} (mk : bool -> Z -> E) i : emit mk [i] = [mk true i].
Proof. reflexivity. Qed.

Lemma firstn_app_exact {A} (a b : list A) : firstn (length a) (a ++ b) = a.
Proof. rewrite firstn_app, Nat.sub_diag, firstn_all. simpl. now rewrite app_nil_r. Qed.
Lemma firstn_app_S {A} (a : list A) x b : firstn (S (length a)) (a ++ x :: b) = a ++ [x].
Proof.
  rewrite firstn_app. rewrite firstn_all2 by lia.
  replace (S (length a) - length a)%nat with 1%nat by lia. reflexivity.
Qed.
Lemma nth_app_exact {A} (a : list A) x b d : nth (length a) (a ++ x :: b) d = x.
Proof. rewrite app_nth2 by lia. now rewrite Nat.sub_diag. Qed.
