(* Proofs about samples that are object graphs (Graph.v): copy.deepcopy yields a sample none of whose tensors
   is a tensor of any sample that existed before, so no in-place write through the copy is visible anywhere else. *)
From Coq Require Import ZArith List Bool Lia.
Import ListNotations.
From KD Require Import C19.Model C19.Graph C19.Proofs.
Open Scope Z_scope.

Lemma shape_ind' : forall P : shape -> Prop,
  (forall a, P (SLeaf a)) -> (forall o ks, Forall P ks -> P (SNode o ks)) -> forall s, P s.
Proof.
  intros P Hl Hn. fix IH 1. intros [a|o ks]; [apply Hl|]. apply Hn.
  induction ks as [|x r IHr]; constructor; [apply IH | exact IHr].
Qed.

Lemma Forall_flat_map_iff : forall A B (P : B -> Prop) (f : A -> list B) l,
  Forall P (flat_map f l) <-> Forall (fun x => Forall P (f x)) l.
Proof.
  intros A B P f l. induction l as [|x r IH]; simpl.
  - split; constructor.
  - rewrite Forall_app. split.
    + intros [H1 H2]. constructor; [exact H1 | apply IH; exact H2].
    + intros H. inversion H; subst. split; [assumption | apply IH; assumption].
Qed.

Lemma below_node : forall n o ks, below n (SNode o ks) <-> Forall (below n) ks.
Proof. intros. unfold below. simpl. apply Forall_flat_map_iff. Qed.

Lemma below_weaken : forall n m s, (n <= m)%nat -> below n s -> below m s.
Proof.
  intros n m s Hnm H. unfold below in *. eapply Forall_impl; [|exact H]. simpl. intros; lia.
Qed.

Lemma value_ext : forall s h e, below (length h) s -> value (h ++ e) s = value h s.
Proof.
  induction s as [a|o ks IH] using shape_ind'; intros h e Hb.
  - simpl. unfold below in Hb. simpl in Hb. inversion Hb; subst. rewrite hget_app_l by assumption. reflexivity.
  - simpl. f_equal. apply below_node in Hb.
    induction ks as [|x r IHr]; [reflexivity|].
    inversion IH; subst. inversion Hb; subst. simpl. f_equal; [apply H1; assumption | apply IHr; assumption].
Qed.

Lemma value_hset_other : forall s h b v, ~ In b (leaves s) -> value (hset b v h) s = value h s.
Proof.
  induction s as [a|o ks IH] using shape_ind'; intros h b v Hn.
  - simpl. rewrite hget_hset_neq; [reflexivity|]. intro; subst. apply Hn. simpl. tauto.
  - simpl. f_equal. simpl in Hn.
    induction ks as [|x r IHr]; [reflexivity|].
    inversion IH; subst. simpl in Hn. simpl. f_equal.
    + apply H1. intro. apply Hn. apply in_or_app. tauto.
    + apply IHr; [assumption|]. intro. apply Hn. apply in_or_app. tauto.
Qed.

Lemma value_writes_other : forall ws s h,
  (forall a, In a (leaves s) -> ~ In a (targets ws)) -> value (writes ws h) s = value h s.
Proof.
  induction ws as [|[b v] r IH]; intros s h H; [reflexivity|].
  unfold writes in *. simpl. rewrite IH.
  - apply value_hset_other. intro Hin. apply (H b Hin). simpl. tauto.
  - intros a Ha Hr. apply (H a Ha). simpl. tauto.
Qed.

Lemma length_writes : forall ws h, length (writes ws h) = length h.
Proof.
  induction ws as [|w r IH]; intros h; [reflexivity|]. unfold writes in *. simpl. rewrite IH. apply length_hset.
Qed.

(* r is a faithful copy of s all of whose tensors are new *)
Definition copied (h : heap) (s : shape) (r : heap * shape) : Prop :=
  exists e, fst r = h ++ e /\ value (h ++ e) (snd r) = value h s /\
            Forall (fun a => (length h <= a < length h + length e)%nat) (leaves (snd r)).

Lemma copy_list_spec : forall ks,
  Forall (fun s => forall h, below (length h) s -> copied h s (dcopy h s)) ks ->
  forall h, Forall (below (length h)) ks ->
  exists e, fst (copy_list dcopy h ks) = h ++ e /\
            map (value (h ++ e)) (snd (copy_list dcopy h ks)) = map (value h) ks /\
            Forall (fun a => (length h <= a < length h + length e)%nat) (flat_map leaves (snd (copy_list dcopy h ks))).
Proof.
  induction ks as [|x r IHr]; intros IH h Hb.
  - exists []. simpl. rewrite app_nil_r. repeat split; constructor.
  - inversion IH as [|? ? Hx Hr]; subst. inversion Hb as [|? ? Hbx Hbr]; subst.
    simpl. destruct (Hx h Hbx) as [e1 [E1 [V1 F1]]].
    destruct (dcopy h x) as [h1 x'] eqn:Ex. simpl in E1, V1, F1. subst h1.
    assert (Hbr' : Forall (below (length (h ++ e1))) r).
    { eapply Forall_impl; [|exact Hbr]. intros s Hs. eapply below_weaken; [|exact Hs]. rewrite app_length. lia. }
    destruct (IHr Hr (h ++ e1) Hbr') as [e2 [E2 [V2 F2]]].
    destruct (copy_list dcopy (h ++ e1) r) as [h2 r'] eqn:Er. simpl in E2, V2, F2. subst h2.
    exists (e1 ++ e2). simpl. rewrite app_assoc. split; [reflexivity|]. split.
    + f_equal.
      * rewrite value_ext; [exact V1|]. unfold below. eapply Forall_impl; [|exact F1]. simpl. intros a Ha.
        rewrite app_length. lia.
      * rewrite V2. apply map_ext_in. intros s Hs. apply value_ext. rewrite Forall_forall in Hbr. apply Hbr. exact Hs.
    + apply Forall_app. split.
      * eapply Forall_impl; [|exact F1]. simpl. intros a Ha. rewrite app_length. lia.
      * eapply Forall_impl; [|exact F2]. simpl. intros a Ha. rewrite !app_length in *. lia.
Qed.

Lemma dcopy_spec : forall s h, below (length h) s -> copied h s (dcopy h s).
Proof.
  induction s as [a|o ks IH] using shape_ind'; intros h Hb.
  - exists [hget a h]. simpl. repeat split.
    + rewrite hget_alloc. reflexivity.
    + constructor; [simpl; lia | constructor].
  - apply below_node in Hb. destruct (copy_list_spec ks IH h Hb) as [e [E [V F]]].
    simpl. destruct (copy_list dcopy h ks) as [h' ks'] eqn:Ec. simpl in E, V, F.
    exists e. simpl. repeat split; [exact E | f_equal; exact V | exact F].
Qed.

(* THE statement: whatever object graph the sample is, the deep copy reads like the sample, and no sequence of in-place
   writes to tensors of the copy changes what ANY sample that existed before the copy (the cached entry, the object the
   storing process keeps, what other processes hold) reads like. *)
Lemma deepcopy_private_l : forall h sample ws other,
  below (length h) sample -> below (length h) other ->
  incl (targets ws) (leaves (snd (dcopy h sample))) ->
  value (fst (dcopy h sample)) (snd (dcopy h sample)) = value h sample /\
  value (writes ws (fst (dcopy h sample))) other = value h other.
Proof.
  intros h sample ws other Hs Ho Hw.
  destruct (dcopy_spec sample h Hs) as [e [E [V F]]]. rewrite E. split; [exact V|].
  rewrite value_writes_other.
  - apply value_ext. exact Ho.
  - intros a Ha Ht. apply Hw in Ht. rewrite Forall_forall in F. apply F in Ht.
    unfold below in Ho. rewrite Forall_forall in Ho. apply Ho in Ha. lia.
Qed.

(* ... and the copies of two accesses are private to each other as well: a second copy taken AFTER the writes through the
   first still reads like the sample *)
Lemma deepcopy_again_l : forall h sample ws,
  below (length h) sample ->
  incl (targets ws) (leaves (snd (dcopy h sample))) ->
  let h1 := writes ws (fst (dcopy h sample)) in
  value (fst (dcopy h1 sample)) (snd (dcopy h1 sample)) = value h sample.
Proof.
  intros h sample ws Hs Hw h1.
  destruct (deepcopy_private_l h sample ws sample Hs Hs Hw) as [_ H2].
  destruct (dcopy_spec sample h Hs) as [e [E _]].
  assert (Hb1 : below (length h1) sample).
  { unfold h1. rewrite length_writes, E, app_length. eapply below_weaken; [|exact Hs]. lia. }
  destruct (dcopy_spec sample h1 Hb1) as [e1 [E1 [V1 _]]]. rewrite E1, V1. exact H2.
Qed.

(* a copy that treats objects as atoms is not private: a tuple holding an object holding a tensor *)
Lemma object_as_atom_copy_aliases_l :
  let h := [5] in
  let s := SNode false [SNode true [SLeaf 0]] in
  let h' := fst (pcopy h s) in
  let s' := snd (pcopy h s) in
  value h' s' = value h s /\ incl [0%nat] (leaves s') /\
  value (writes [(0%nat, 105)] h') s <> value h s.
Proof. vm_compute. repeat split; try discriminate. intros a [H|[]]. left. exact H. Qed.

(* the same copy IS private as long as no object is in the way (that is why the change looked fine on tensors, tuples,
   lists and dicts of tensors): on samples without opaque nodes it is deepcopy *)
Fixpoint no_opaque (s : shape) : bool :=
  match s with SLeaf _ => true | SNode o ks => negb o && forallb no_opaque ks end.

Lemma copy_list_ext : forall (f g : heap -> shape -> heap * shape) ks,
  Forall (fun s => forall h, f h s = g h s) ks -> forall h, copy_list f h ks = copy_list g h ks.
Proof.
  induction ks as [|x r IH]; intros H h; [reflexivity|].
  inversion H; subst. simpl. rewrite H2. destruct (g h x) as [h1 x']. rewrite IH by assumption. reflexivity.
Qed.

Lemma pcopy_is_dcopy_without_objects_l : forall s h, no_opaque s = true -> pcopy h s = dcopy h s.
Proof.
  induction s as [a|o ks IH] using shape_ind'; intros h Hn; [reflexivity|].
  simpl in Hn. apply andb_prop in Hn. destruct Hn as [Ho Hk]. destruct o; [discriminate|]. simpl.
  rewrite (copy_list_ext pcopy dcopy ks); [reflexivity|].
  rewrite forallb_forall in Hk. rewrite Forall_forall in *. intros s Hs h0. apply IH; [exact Hs | apply Hk; exact Hs].
Qed.
