(* C02 — property theorems (statements only; proofs in Proofs.v).
   stack = any nesting of KDSubset (Sub), KDConcatDataset (Cat, balanced or not) and
   KDWrapper (Wrap) layers over root datasets; resolve/slen/getall/util_getall/root/
   wrappers/dispose = the model of the code (Model.v); map_of/den_of = the
   compositional index map (Spec.v). *)
From Coq Require Import ZArith List Bool.
Import ListNotations.
From KD Require Import C02.Model C02.Spec C02.Proofs.
Open Scope Z_scope.

(* item k of the composed dataset is item map(k) of the underlying datasets; negative k
   counts from the end; for every nesting *)
Theorem resolve_is_nth_map : forall s k,
  valid s = true -> is_fin (den_of s) = true ->
  - zlen (map_of s) <= k < zlen (map_of s) ->
  resolve s k = nth_error (map_of s) (Z.to_nat (if k <? 0 then zlen (map_of s) + k else k)).
Proof. exact Proofs.resolve_is_nth_map. Qed.
Print Assumptions resolve_is_nth_map.

(* the same for stacks whose top is a balanced concat (endless round-robin denotation) *)
Theorem resolve_is_at : forall s k,
  valid s = true -> in_dom (den_of s) k = true -> resolve s k = at_ (den_of s) k.
Proof. exact Proofs.resolve_is_at. Qed.
Print Assumptions resolve_is_at.

(* every valid index resolves (no exception) *)
Theorem resolve_defined : forall s k,
  valid s = true -> in_dom (den_of s) k = true -> resolve s k <> None.
Proof. exact Proofs.resolve_defined. Qed.
Print Assumptions resolve_defined.

Theorem len_is_length_map : forall s,
  valid s = true -> is_fin (den_of s) = true -> slen s = Some (zlen (map_of s)).
Proof. exact Proofs.len_is_length_map. Qed.
Print Assumptions len_is_length_map.

(* balanced sampling: index j*P + d is sample (j mod len_d) of part d *)
Theorem balanced_round_robin : forall parts j d,
  valid (Cat true parts) = true ->
  0 <= j -> (d < length parts)%nat ->
  let part := map_of (nth d parts stack_dflt) in
  resolve (Cat true parts) (j * zlen parts + Z.of_nat d) =
  nth_error part (Z.to_nat (j mod zlen part)).
Proof. exact Proofs.balanced_round_robin. Qed.
Print Assumptions balanced_round_robin.

(* bisect over the cumulative sizes returns the unique (part, offset) with
   sizes[0] + ... + sizes[part-1] + offset = k *)
Theorem to_concat_idx_inverse : forall sizes k,
  Forall (fun x => 0 <= x) sizes -> 0 <= k < zsum sizes ->
  exists d j, to_concat_idx (cumsum 0 sizes) k = Some (d, j)
    /\ (d < length sizes)%nat /\ 0 <= j < nth d sizes 0 /\ zsum (firstn d sizes) + j = k
    /\ forall d' j', (d' < length sizes)%nat -> 0 <= j' < nth d' sizes 0 ->
                     zsum (firstn d' sizes) + j' = k -> d' = d /\ j' = j.
Proof. exact Proofs.to_concat_idx_inverse. Qed.
Print Assumptions to_concat_idx_inverse.

Theorem to_concat_idx_negative : forall sizes k,
  sizes <> [] -> - zsum sizes <= k < 0 ->
  to_concat_idx (cumsum 0 sizes) k = to_concat_idx (cumsum 0 sizes) (zsum sizes + k).
Proof. exact Proofs.to_concat_idx_negative. Qed.
Print Assumptions to_concat_idx_negative.

(* getall (fast path when offered, sample-wise slow path otherwise) returns the index map
   and agrees element-wise with getitem, through any nesting without balanced concat *)
Theorem getall_eq_map_getitem : forall s,
  valid s = true -> no_balanced s = true -> lists_ok s = true ->
  exists b, util_getall s = GOk b (map_of s)
    /\ (has_getall s = true -> getall s = GOk b (map_of s))
    /\ slen s = Some (zlen (map_of s))
    /\ forall k, 0 <= k < zlen (map_of s) -> nth_error (map_of s) (Z.to_nat k) = resolve s k.
Proof. exact Proofs.getall_eq_map_getitem. Qed.
Print Assumptions getall_eq_map_getitem.

(* the slow path alone is right even below balanced concats *)
Theorem util_getall_slow : forall s,
  valid s = true -> is_fin (den_of s) = true -> has_getall s = false ->
  util_getall s = GOk true (map_of s).
Proof. exact Proofs.util_getall_slow. Qed.
Print Assumptions util_getall_slow.

(* the fast path below a balanced concat is NOT the map (recorded finding) *)
Theorem getall_balanced_refuted :
  exists s, valid s = true /\ has_getall s = true /\ lists_ok s = true /\
            getall s <> GOk true (map_of s).
Proof. exact Proofs.getall_balanced_refuted. Qed.
Print Assumptions getall_balanced_refuted.

(* introspection through every linear chain of layers *)
Theorem root_of_linear_chain : forall ls id n pk, root (build ls (Root id n pk)) = id.
Proof. exact Proofs.root_of_linear_chain. Qed.
Print Assumptions root_of_linear_chain.

Theorem wrappers_of_linear_chain : forall ls id n pk,
  wrappers (build ls (Root id n pk)) = map ltag ls.
Proof. exact Proofs.wrappers_of_linear_chain. Qed.
Print Assumptions wrappers_of_linear_chain.

Theorem wrappers_of_type_linear_chain : forall t ls id n pk,
  wrappers_of_type t (build ls (Root id n pk)) = positions t 0 (map ltag ls).
Proof. exact Proofs.wrappers_of_type_linear_chain. Qed.
Print Assumptions wrappers_of_type_linear_chain.

Theorem has_wrapper_type_linear_chain : forall t ls id n pk,
  has_wrapper_type t (build ls (Root id n pk)) = existsb (Z.eqb t) (map ltag ls).
Proof. exact Proofs.has_wrapper_type_linear_chain. Qed.
Print Assumptions has_wrapper_type_linear_chain.

Theorem every_stack_is_a_chain_over_its_base : forall s,
  build (fst (unbuild s)) (snd (unbuild s)) = s.
Proof. exact Proofs.build_unbuild. Qed.
Print Assumptions every_stack_is_a_chain_over_its_base.

Theorem dispose_linear_chain : forall ls id n pk, dispose (build ls (Root id n pk)) = [id].
Proof. exact Proofs.dispose_linear_chain. Qed.
Print Assumptions dispose_linear_chain.

(* dispose reaches every root below the stack (also through concats) *)
Theorem dispose_reaches_root : forall s, dispose s = roots s.
Proof. exact Proofs.dispose_reaches_root. Qed.
Print Assumptions dispose_reaches_root.

Theorem root_is_first_root : forall s, ctor_ok s = true -> hd_error (roots s) = Some (root s).
Proof. exact Proofs.root_is_first_root. Qed.
Print Assumptions root_is_first_root.

(* non-vacuity of the premises: a valid 4-layer stack with a negative subset entry, an
   empty concat part and a balanced concat below a subset *)
Example nonvacuous_valid :
  let s := Wrap 3 (Sub 1 [2; -1; 0] (Cat false [Root 0 2 PList; Root 1 0 PList; Sub 0 [1; 1] (Root 2 3 PArray)])) in
  valid s = true /\ is_fin (den_of s) = true /\ no_balanced s = true /\ lists_ok s = true
  /\ map_of s = [(2, 1); (2, 1); (0, 0)] /\ resolve s (-3) = Some (2, 1).
Proof. vm_compute. repeat split; reflexivity. Qed.

Example nonvacuous_balanced :
  let s := Cat true [Root 0 2 PList; Root 1 3 PList] in
  valid s = true /\ map (resolve s) [0; 1; 2; 3; 4; 5] =
                    [Some (0, 0); Some (1, 0); Some (0, 1); Some (1, 1); Some (0, 0); Some (1, 2)].
Proof. vm_compute. split; reflexivity. Qed.
