"""C04 — interleaved scheduler: main stream, batch cutting and stopping point."""
from . import interleaved as I
from .common import coq

ID = "C04"
COQ_FILES = I.COQ_FILES + ["C04/PropertyC04.v"]
COQ_PRELUDE = I.COQ_PRELUDE
COQ_CHECK = "check_c04"
COQ_CASE_TYPE = "case_t"
TRUSTED = I.TRUSTED
ASSUMPTIONS = ["main sampler yields len(sampler) indices per epoch", "Python int arithmetic = Z arithmetic",
               "the main sampler's order in an epoch is a function of the epoch it holds when its iteration starts "
               "(__iter__ call, eager samplers) or when the first index is pulled (generators)"]
RULE = ("random geometries N in 1..40 (thorough ..79, some 80..300 with up to 6 configs), B<=N incl. 1 and N, drop_last "
        "on/off, drop_last_batch_size multiples of B, three budget kinds around multiples of epoch/update/batch sizes, "
        "0-4 configs (some with an order that changes on every pass), optional resume; plus: constructor-argument "
        "mutations (invalid batch sizes / drop_last_batch_size / budgets / configs / several checkpoints), several "
        "budgets at once (assigned after construction), the real DataLoader with num_workers=0 (thorough: also 2); "
        "main + side samplers drawing every index lazily (at next()) from ONE shared recorded draw source, the spec "
        "consuming the source in stream order; main / side samplers in a lazy (generator) and an eager (order fixed in __iter__) flavour, 5% torch "
        "DistributedSampler(shuffle=True) mains, main sampler objects holding a stale epoch; set_epoch and __iter__ "
        "calls logged as events; object histories (earlier complete / abandoned iterations of the same object, other "
        "InterleavedSamplers with other batch sizes / budgets / checkpoints on the same main sampler and config "
        "objects, foreign set_epoch calls), every iteration of the history compared with a fresh model; "
        "non-trivial = at least 2 updates; distinct by (N,B,drop_last,D,budget,start,#configs,variant)")
search_cases = I.search_cases
run_impl = I.run_impl


def gen_cases(rng, tier):
    out = I.gen_cases(rng, tier)
    n_mut, n_multi, n_loader = (120, 60, 12) if tier == "quick" else (1200, 600, 60)
    # objects with a history; epoch-dependent orders favoured (what a wrongly timed announcement changes)
    for k in range(120 if tier == "quick" else 1500):
        c = I.gen_history_case(rng, size="mid" if (tier == "thorough" and k % 5 == 0) else "small")
        if c["perm_seed"] is None and rng.random() < 0.6:
            c["perm_seed"] = rng.randint(0, 999)
        out.append(c)
    # torch's DistributedSampler(shuffle=True) as main sampler over several epochs, fresh and resumed
    k = 0
    while k < (16 if tier == "quick" else 150):
        c = I.gen_bounded(rng)
        if c["budget"][1] == 0 or c.get("mut"):
            continue
        c["main_kind"], c["pre_epoch"] = "torch", c["pre_epoch"] or 0
        I.set_dsn(c, c["N"])
        c["perm_seed"] = rng.randint(0, 999)
        out.append(c)
        k += 1
    # main and side samplers drawing lazily from ONE shared draw source (side passes due inside the epoch)
    out += [I.gen_drawn_case(rng) for _ in range(60 if tier == "quick" else 600)]
    # constructor arguments the assertions are about
    for _ in range(n_mut):
        c = I.gen_bounded(rng)
        c["mut"] = I.gen_mut(rng, c)
        out.append(c)
    # several budgets at once: which one ends the run
    k = 0
    while k < n_multi:
        c = I.gen_bounded(rng)
        if c["start"] is not None or c["budget"][1] == 0:
            continue
        spe, upe = I.geometry(c)
        pb = {"epochs": None, "updates": None, "samples": None}
        for kind in rng.sample(["epochs", "updates", "samples"], rng.choice([2, 2, 3])):
            e = rng.choice([1, 1, 2, 3])
            pb[kind] = {"epochs": e, "updates": max(1, upe * e + rng.randint(-upe, upe)),
                        "samples": max(1, spe * e + rng.randint(-spe, spe))}[kind]
        c["post_budget"] = pb
        out.append(c)
        k += 1
    # the real DataLoader: batches as delivered = the batches of the stream
    k = 0
    while k < n_loader:
        c = I.gen_bounded(rng)
        if c["N"] <= 16 and c["budget"][1] > 0:
            c["loader"] = 0 if (tier == "quick" or k % 3) else 2
            out.append(c)
            k += 1
    return out


def coq_applicable(case, obs):
    return "harness_exception" not in obs


def coq_case(case, obs):
    return coq(I.coq_case_common(case, obs))


def main_proj(case, log):
    return [ev[:3] for ev in log if ev[0] in ("E", "I") or (ev[0] == "Y" and ev[2] < case["dsN"])]


def oracle(case, obs):
    """the stream first, then: index tensors the samplers keep were not changed by the scheduler"""
    return stream_oracle(case, obs) or ("harness_exception" not in obs and I.storage_violation(obs)) or None


def stream_oracle(case, obs):
    if "harness_exception" in obs:
        return "harness exception: " + obs["harness_exception"] + obs.get("tb", "")
    msg = I.history_violation(case, obs, main_proj, "main stream (set_epoch / iter calls and main indices)")
    if msg:
        return msg
    e0 = I.start_epoch_of(case)
    if isinstance(e0, str) or obs["result"] in ("NotImplementedError",):
        return None  # the constructor's answer to its arguments / a checkpoint: correspondence with the model, C06
    if obs["result"] == "AssertionError" and not obs["log"]:
        return None
    if not I.before_budget(case, e0):
        return None  # a checkpoint at / past the budget: outside the claim
    if obs["result"] == "RUNAWAY":
        return f"stream does not end (more than {I.MAX_EVENTS} events)"
    if obs["result"] != "ok":
        return "iteration raised " + obs["result"]
    exp = I.spec_stream(case, e0, pass0=obs.get("pass0"))
    a, b = main_proj(case, exp), main_proj(case, obs["log"])
    if a != b:
        k = next((i for i in range(min(len(a), len(b))) if a[i] != b[i]), min(len(a), len(b)))
        return (I.items_tag(a, b) + f"main stream (E = set_epoch(e) received, I = iter(main_sampler) called while the sampler held e, "
                f"Y = yielded) differs from the epoch-wise concatenation cut by batch size at event {k}: "
                f"expected {a[k:k + 6]} got {b[k:k + 6]} (expected {len(a)} events, got {len(b)})")
    if obs.get("batches") == "AssertionError":
        return "batch sampler's final assertion fired: stream did not end on a batch boundary"
    ys = [ev for ev in obs["log"] if ev[0] == "Y"]
    if ys and not ys[-1][1]:
        return "stream does not end on a batch boundary"
    # "always ends", quantitatively: the explicit bounds of theorem c04_yield_bound
    msg = bound_violation(case, e0, ys)
    if msg:
        return msg
    if isinstance(obs.get("batches"), list):
        flat = [i for bt in obs["batches"] for i in bt]
        if flat != [ev[2] for ev in ys]:
            return "batch sampler yields other indices than the sampler"
        # cut points = full flags
        cuts = []
        cur = []
        for ev in ys:
            cur.append(ev[2])
            if ev[1]:
                cuts.append(cur)
                cur = []
        if cuts != obs["batches"]:
            return "batch sampler cuts differ from the is_full_batch flags"
    if case.get("loader") is not None:
        lb = obs.get("loader_batches")
        if not isinstance(lb, list):
            return f"DataLoader(num_workers={case['loader']}) failed: {lb}"
        got = [bt for bt in lb if bt[0] == 0]
        want = [bt for bt in I.expected_loader_batches(case, exp) if bt[0] == 0]
        if got != want:
            k = next((i for i in range(min(len(got), len(want))) if got[i] != want[i]), min(len(got), len(want)))
            return (f"DataLoader(num_workers={case['loader']}) main batch {k}: expected {want[k:k + 1]} "
                    f"got {got[k:k + 1]} ({len(want)} vs {len(got)} main batches)")
    return None


def bound_violation(case, e0, ys):
    bud = I.budgets(case)
    if any(v == 0 for v in bud.values()):
        return None
    spe, upe = I.geometry(case)
    n_main = sum(1 for ev in ys if ev[2] < case["dsN"])
    n_upd = sum(1 for ev in ys if ev[2] < case["dsN"] and ev[1])
    slen = sum(len(s["idx"]) for s in case["sides"])
    if bud["epochs"] is not None and e0 < bud["epochs"]:
        if n_main > (bud["epochs"] - e0) * spe or n_upd > (bud["epochs"] - e0) * upe:
            return f"{n_main} main indices / {n_upd} updates exceed the epochs budget {bud['epochs']} from epoch {e0}"
    if bud["updates"] is not None and e0 * upe < bud["updates"] and n_upd > bud["updates"] - e0 * upe:
        return f"{n_upd} updates exceed the updates budget {bud['updates']} from update {e0 * upe}"
    if bud["samples"] is not None and e0 * spe < bud["samples"] and n_main > bud["samples"] - e0 * spe + case["B"] - 1:
        return f"{n_main} main indices overshoot the samples budget {bud['samples']} by a batch or more"
    if n_main > n_upd * case["B"] or len(ys) > n_main + n_upd * slen:
        return f"{len(ys)} indices for {n_upd} updates: more than batch_size main indices or one pass per config per update"
    return None


def features(case, obs):
    bud = I.budgets(case)
    yield "budget=" + "+".join(k for k in ("epochs", "updates", "samples") if bud[k] is not None) + \
        ("0" if any(v == 0 for v in bud.values()) else "")
    yield "drop_last=%s" % case["drop_last"]
    yield "D=%s" % (case["D"] is not None)
    yield "configs=%d" % len(case["sides"])
    yield "start=%s" % (case["start"][0] if case["start"] else None)
    yield "result=" + obs.get("result", "harness_exception")
    yield "N%%B=%s" % ("0" if case["N"] % case["B"] == 0 else "!=0")
    yield "shuffling_sides=%d" % sum(1 for s in case["sides"] if s.get("shuffle") is not None)
    yield "mut=%s" % (case["mut"][0] if case.get("mut") else None)
    yield "loader=%s" % case.get("loader")
    yield "N>=80=%s" % (case["N"] >= 80)
    yield "main_kind=%s" % case.get("main_kind", "lazy")
    yield "pre_epoch=%s" % ("none" if case.get("pre_epoch") is None else "held")
    yield "eager_sides=%d" % sum(1 for s in case["sides"] if s.get("eager"))
    yield "main_repr=%s" % (case.get("main_repr") or "int")
    for r in sorted({s.get("repr") or "int" for s in case["sides"]}):
        yield "side_repr:%s" % r
    sc = case.get("scenario") or []
    yield "history=%s" % ("none" if len(sc) <= 2 else "%d+ steps" % min(len(sc) - 2, 4))
    if len(sc) > 2:
        yield "history:others=%d" % len(case.get("others") or [])
        yield "history:earlier_iterations_of_same_object=%d" % sum(1 for st in sc[:-1] if st[0] == "iter" and st[1] == 0)
        yield "history:abandoned=%d" % sum(1 for st in sc[:-1] if st[0] == "iter" and st[2] is not None)
        yield "history:foreign_set_epoch=%d" % sum(1 for st in sc if st[0] == "set_epoch")


def nontrivial_key(case, obs):
    n_upd = sum(1 for ev in obs.get("log", []) if ev[0] == "Y" and ev[1] and ev[2] < case["dsN"])
    if n_upd < 2:
        return None
    return (case["N"], case["B"], case["drop_last"], case["D"], tuple(case["budget"]),
            tuple(case["start"] or ()), len(case["sides"]),
            tuple(sorted((case.get("post_budget") or {}).items(), key=str)), case.get("loader"),
            case.get("main_kind", "lazy"), len(case.get("scenario") or []))


shrink = I.shrink_keeping(oracle, run_impl)
