(* C10 -- executable comparison of what the harness decoded from the real collator's output
   with the model (Model.collate_batch) and with the boolean spec (Spec.spec_obs). *)
From Coq Require Import ZArith QArith Qabs List Bool.
Import ListNotations.
From KD Require Import C10.Model C10.Spec.
Open Scope Z_scope.

Definition img_match (h w : Z) (i : nat) (d : img_desc) (o : img_obs) : bool :=
  match d, o with
  | Mix p wt, OUniform v1 v2 => close2 (v1, v2) (render_mix i p wt)
  | Cut p b, OPatch q b' => Nat.eqb p q && box_eqb b b'
  | Cut p b, OUniform v1 v2 =>
      if (box_area b =? 0) || Nat.eqb p i then close2 (v1, v2) (pat i)
      else if box_area b =? h * w then close2 (v1, v2) (pat p) else false
  | Keep, OUniform v1 v2 => close2 (v1, v2) (pat i)
  | _, _ => false
  end.

Fixpoint forall2i {A B} (f : nat -> A -> B -> bool) (i : nat) (a : list A) (b : list B) : bool :=
  match a, b with
  | [], [] => true
  | x :: a', y :: b' => f i x y && forall2i f (S i) a' b'
  | _, _ => false
  end.
Fixpoint zlist_eqb (x y : list Z) : bool :=
  match x, y with [], [] => true | u :: x', v :: y' => (u =? v) && zlist_eqb x' y' | _, _ => false end.

Definition item_match (a : item) (b : obs_item) : bool :=
  match a, b with
  | IX _, BX => true
  | IY _, BY => true
  | IOther u, BRaw v => zlist_eqb u v
  | _, _ => false
  end.

Definition model_matches (c : cfg) (Y : list (list Q)) (ob : list item) (r : result) (o : obs) : bool :=
  forall2i (img_match (img_h c) (img_w c)) 0 (imgs r) (o_imgs o)
  && match labs r, o_labs o with
     | None, None => true
     | Some l, Some rows => forall2i (fun i d row => close_row row (render_label Y i d)) 0 l rows
     | _, _ => false
     end
  && forall2i (fun _ a b => Bool.eqb a b) 0 (ctx_apply r) (o_apply o)
  && forall2i (fun _ a b => Bool.eqb a b) 0 (ctx_cutmix r) (o_cutmix o)
  && forall2i (fun _ a b => close tol_lab a b) 0 (ctx_lambda r) (o_lambda o)
  && forall2i (fun _ a b => item_match a b) 0 ob (o_batch o).

(* cfg, half box sizes, recorded draws, input label matrix, input batch (placeholders at x / class),
   outcome (0 = returned, 1 = AssertionError), decoded output *)
Definition case_t : Type := cfg * list (Z * Z) * trace * list (list Q) * list item * nat * obs.

(* 0 = implementation, model and spec agree; 1 = model differs from the implementation;
   2 = the spec is false on the implementation's output *)
Definition check (t : case_t) : nat :=
  let '(c, halves, tr, Y, batch, outcome, o) := t in
  match outcome with
  | O =>
      if negb (spec_obs c Y tr batch o) then 2%nat else
      match collate_batch c halves batch tr with
      | Some ((ob, r), []) => if model_matches c Y ob r o then 0%nat else 1%nat
      | _ => 1%nat
      end
  | _ =>
      match collate_batch c halves batch tr with
      | None => 0%nat
      | Some _ => 1%nat
      end
  end.
