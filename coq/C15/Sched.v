(* C15 — hand model of KDScheduledTransform (kappadata/transforms/base/kd_scheduled_transform.py).
   No proofs in this file.

   _worker_init_fn(rank, num_workers, batch_size, epochs|updates|samples ...) stores rank, num_workers,
   batch_size and the total number of batches; __call__ computes

       batch_idx = self.sample_counter // self.batch_size * self.num_workers + self.rank
       strength  = self.schedule.get_value(batch_idx, self.n_batches)
       self.sample_counter += 1
       self.transform.scale_strength(strength)
       ctx[self.ctx_key] = strength
       return self.transform(x, ctx=ctx)

   The schedule is an opaque function (kappaschedules object) of (step, total).  The wrapped transform is
   a tree of the generated model.  (Path `n_batches is None`, i.e. worker_init_fn never called: no scaling
   at all — not modelled, outside the property.) *)
From Coq Require Import ZArith QArith List Bool.
Import ListNotations.
From KD Require Import C15.Base C15.gen.Strength.
Open Scope Z_scope.

(* how the total number of batches was announced *)
Inductive init_t : Type :=
  | IEpochs (epochs dataset_len world_size : Z) (drop_last : bool)
  | IUpdates (updates : Z)
  | ISamples (samples : Z).

Definition n_batches_of (i : init_t) (batch_size : Z) : Z :=
  match i with
  | IEpochs epochs dataset_len world_size drop_last =>
      let dataset_len := dataset_len / world_size in
      let batches_per_epoch :=
        if drop_last then dataset_len / batch_size else (dataset_len + batch_size - 1) / batch_size in
      epochs * batches_per_epoch
  | IUpdates updates => updates
  | ISamples samples =>
      if samples mod batch_size =? 0 then samples / batch_size else samples / batch_size + 1
  end.

Record wstate : Type := mk_wstate {
  ws_rank : Z;
  ws_workers : Z;
  ws_bs : Z;
  ws_nb : Z;
  ws_counter : Z;
  ws_inner : tree
}.

Definition worker_init (rank num_workers batch_size : Z) (i : init_t) (inner : tree) : wstate :=
  mk_wstate rank num_workers batch_size (n_batches_of i batch_size) 0 inner.

Definition batch_idx (w : wstate) : Z := ws_counter w / ws_bs w * ws_workers w + ws_rank w.

(* one __call__: new state and the value written to ctx (the same variable that is passed to scale_strength) *)
Definition sched_call (schedule : Z -> Z -> Q) (w : wstate) : wstate * Q :=
  let strength := schedule (batch_idx w) (ws_nb w) in
  (mk_wstate (ws_rank w) (ws_workers w) (ws_bs w) (ws_nb w) (ws_counter w + 1)
             (tree_scale (ws_inner w) strength),
   strength).

(* k consecutive calls of one worker: the ctx values, in call order *)
Fixpoint worker_run (schedule : Z -> Z -> Q) (k : nat) (w : wstate) : list Q * wstate :=
  match k with
  | O => ([], w)
  | S k => let '(w1, v) := sched_call schedule w in
           let '(vs, w2) := worker_run schedule k w1 in
           (v :: vs, w2)
  end.

(* W workers (a list of states); global sample n is handed to worker `owner`; returns the updated pool and
   the observation (ctx value, wrapped state after the call) *)
Fixpoint set_nth {A} (n : nat) (x : A) (l : list A) : list A :=
  match l, n with
  | [], _ => []
  | _ :: r, O => x :: r
  | a :: r, S n => a :: set_nth n x r
  end.

Definition pool_call (schedule : Z -> Z -> Q) (pool : list wstate) (owner : nat) : option (list wstate * (Q * tree)) :=
  match nth_error pool owner with
  | Some w => let '(w1, v) := sched_call schedule w in Some (set_nth owner w1 pool, (v, ws_inner w1))
  | None => None
  end.

(* the pool in global sample order: owners = which worker gets the n-th sample *)
Fixpoint pool_run (schedule : Z -> Z -> Q) (pool : list wstate) (owners : list nat) : list (Q * tree) :=
  match owners with
  | [] => []
  | o :: r =>
      match pool_call schedule pool o with
      | Some (pool', ob) => ob :: pool_run schedule pool' r
      | None => []
      end
  end.

(* what DataLoader(num_workers=W, worker_init_fn=...) sets up: worker r gets rank r, every worker starts from a
   copy of the same transform with sample_counter = 0 *)
Definition init_pool (W : nat) (B : Z) (i : init_t) (inner : tree) : list wstate :=
  map (fun r => worker_init (Z.of_nat r) (Z.of_nat W) B i inner) (seq 0 W).
