(* C02 — executable comparison of what the real stack returned with the model
   (code 1 = differs) and with the spec (code >= 2 = spec false on the output). *)
From Coq Require Import ZArith List Bool String.
Import ListNotations.
From KD Require Import C02.Model C02.Spec C02.AttrModel C02.AttrSpec.
Open Scope Z_scope.

Definition sample_eqb (a b : sample) : bool := (fst a =? fst b) && (snd a =? snd b).

Fixpoint list_eqb {A} (eq : A -> A -> bool) (a b : list A) : bool :=
  match a, b with
  | [], [] => true
  | x :: a', y :: b' => eq x y && list_eqb eq a' b'
  | _, _ => false
  end.

Definition opt_eqb {A} (eq : A -> A -> bool) (a b : option A) : bool :=
  match a, b with
  | Some x, Some y => eq x y
  | None, None => true
  | _, _ => false
  end.

(* the kind of container is compared only as "list or not" *)
Definition gres_eqb (a b : gres) : bool :=
  match a, b with
  | GMissing, GMissing => true
  | GErr, GErr => true
  | GOk i l, GOk j m => Bool.eqb i j && list_eqb sample_eqb l m
  | _, _ => false
  end.

Definition gres_is (a : gres) (l : list sample) : bool :=
  match a with GOk _ m => list_eqb sample_eqb l m | _ => false end.

Record obs := {
  o_ctor : bool;                        (* construction succeeded *)
  o_len : option Z;                     (* len(stack), None = raised *)
  o_items : list (option sample);       (* stack.getitem_x(k) for every queried k *)
  o_hasall : bool;                      (* hasattr(stack, "getall_x") *)
  o_getall : gres;                      (* stack.getall_x() *)
  o_util : gres;                        (* utils.getall(stack, "x") *)
  o_root : Z;                           (* stack.root_dataset.id *)
  o_wrappers : list Z;                  (* all_wrapper_types *)
  o_oftype : list (Z * list nat);       (* get_wrappers_of_type(T) as positions in all_wrappers *)
  o_hastype : list (Z * bool);          (* has_wrapper_type(T) *)
  o_dispose : list Z                    (* roots disposed by stack.dispose(), in order *)
}.

(* what was observed of attribute lookup / introspection on the same real stack (AttrModel.v) *)
Record aobs := {
  a_queries : list (string * ares);      (* getattr(top, name), called when it is a method / partial *)
  a_fused : option (list Z);             (* fused_operations as group ids; None = RuntimeError *)
  a_req : option bool;                   (* requires_propagate_ctx *)
  a_coll : list Z;                       (* collators (ids) *)
  a_wreach : list Z;                     (* nodes whose (_)worker_init_fn ran on top.worker_init_fn(0) *)
  a_dispose : list Z;                    (* roots (uids) disposed by top.dispose() *)
  a_with : list Z;                       (* roots disposed by leaving `with top:` *)
  a_root : Z;                            (* uid of top.root_dataset *)
  a_wrappers : list Z;                   (* uids of top.all_wrappers *)
  a_haswrap : list (Z * bool);           (* top.has_wrapper(<node uid>) for every node of the stack *)
  a_oftype1 : list (Z * (option nat + unit))   (* get_wrapper_of_type(T): None / position in all_wrappers / AssertionError *)
}.

(* one observed step of the access history: the stack it addressed, the access, what it returned *)
Definition hstep : Type := (stack * hop * hres)%type.

Definition case_t : Type := (stack * list Z * obs * astack * aobs * list hstep)%type.

Definition hres_eqb (a b : hres) : bool :=
  match a, b with
  | HRAll x, HRAll y => gres_eqb x y
  | HRLen x, HRLen y => opt_eqb Z.eqb x y
  | HRItem x, HRItem y => opt_eqb sample_eqb x y
  | _, _ => false
  end.

(* model vs implementation: every step of the history returned what the (stateless) model says *)
Definition hist_model_agrees (h : list hstep) : bool :=
  list_eqb hres_eqb (run_hist (map fst h)) (map snd h).

(* the spec on one observed step: the same clauses as spec_holds, for the stack the step addressed, wherever the
   step stands in the history *)
Definition hstep_spec (st : hstep) : bool :=
  let '(s, o, r) := st in
  if negb (valid s) then true else
  let d := den_of s in
  match o, r with
  | HItem k, HRItem it => if in_dom d k then opt_eqb sample_eqb (at_ d k) it else true
  | HLen, HRLen n => if is_fin d then opt_eqb Z.eqb (Some (zlen (map_of s))) n else true
  | HGetall, HRAll g =>
      match g with
      | GOk _ _ => if is_fin d && lists_ok s then gres_is g (map_of s) else true
      | _ => true          (* whether it had to be offered: model comparison and Python oracle *)
      end
  | HUtil, HRAll g => if is_fin d && (negb (has_getall s) || lists_ok s) then gres_is g (map_of s) else true
  | _, _ => false
  end.

Definition model_agrees (s : stack) (ks : list Z) (o : obs) : bool :=
  opt_eqb Z.eqb (slen s) (o_len o)
  && list_eqb (opt_eqb sample_eqb) (map (resolve s) ks) (o_items o)
  && Bool.eqb (has_getall s) (o_hasall o)
  && gres_eqb (getall s) (o_getall o)
  && gres_eqb (util_getall s) (o_util o)
  && (root s =? o_root o)
  && list_eqb Z.eqb (wrappers s) (o_wrappers o)
  && forallb (fun '(t, ps) => list_eqb Nat.eqb (wrappers_of_type t s) ps) (o_oftype o)
  && forallb (fun '(t, b) => Bool.eqb (has_wrapper_type t s) b) (o_hastype o)
  && list_eqb Z.eqb (dispose s) (o_dispose o).

Definition spec_holds (s : stack) (ks : list Z) (o : obs) : bool :=
  let d := den_of s in
  (* item k = item map(k) *)
  forallb (fun '(k, it) => if in_dom d k then opt_eqb sample_eqb (at_ d k) it else true) (combine ks (o_items o))
  (* len = size of the map *)
  && (if is_fin d then opt_eqb Z.eqb (Some (zlen (map_of s))) (o_len o) else true)
  (* bulk accessor = the map: the direct call wherever getall is offered, utils.getall on every stack with a length *)
  && (if o_hasall o && lists_ok s then gres_is (o_getall o) (map_of s) else true)
  && (if is_fin d && (negb (o_hasall o) || lists_ok s) then gres_is (o_util o) (map_of s) else true)
  (* every root below is disposed *)
  && list_eqb Z.eqb (roots s) (o_dispose o)
  (* linear chains resolve to their root and list their layers *)
  && (let '(ls, b) := unbuild s in
      match b with
      | Root id _ _ =>
          (o_root o =? id) && list_eqb Z.eqb (map ltag ls) (o_wrappers o)
          && forallb (fun '(t, ps) => list_eqb Nat.eqb (positions t 0 (map ltag ls)) ps) (o_oftype o)
          && forallb (fun '(t, b) => Bool.eqb (existsb (Z.eqb t) (map ltag ls)) b) (o_hastype o)
      | _ => true
      end).

(* ---------------- attribute lookup / introspection ---------------- *)
Definition ares_eqb (a b : ares) : bool :=
  match a, b with
  | AFound u k, AFound v l => (u =? v) && Nat.eqb k l
  | AMissing, AMissing => true
  | AAssert, AAssert => true
  | ASpecial, ASpecial => true
  | _, _ => false
  end.

Definition wot_eqb (a b : option nat + unit) : bool :=
  match a, b with
  | inl x, inl y => opt_eqb Nat.eqb x y
  | inr _, inr _ => true
  | _, _ => false
  end.

Definition attr_model_agrees (s : stack) (a : astack) (o : aobs) : bool :=
  forallb (fun '(nm, r) => ares_eqb (aquery a nm) r) (a_queries o)
  && opt_eqb (list_eqb Z.eqb) (afused a) (a_fused o)
  && opt_eqb Bool.eqb (areq a) (a_req o)
  && list_eqb Z.eqb (acoll a) (a_coll o)
  && list_eqb Z.eqb (awreach a) (a_wreach o)
  && list_eqb Z.eqb (adispose a) (a_dispose o)
  && list_eqb Z.eqb (adispose a) (a_with o)
  && (aroot a =? a_root o)
  && list_eqb Z.eqb (awrappers a) (a_wrappers o)
  && forallb (fun '(w, b) => Bool.eqb (ahas_wrapper w a) b) (a_haswrap o)
  && forallb (fun '(t, r) => wot_eqb (wrapper_of_type (wrappers_of_type t s)) r) (a_oftype1 o).

(* the getdim_ alias of a chain no layer of which defines the alias name itself *)
Definition chain_dim_spec (ls : list alayer) (r : node) (nm : string) : option ares :=
  if forallb (fun n => match own n nm with None => true | Some _ => false end) (nodes_of ls r)
  then Some (shape1 (nearest (nodes_of (skip_to_kd ls) r) ("getshape_" ++ dim_kind nm)))
  else None.

Definition attr_spec_holds (s : stack) (a : astack) (o : aobs) : bool :=
  (* any nesting: dispose (directly and through the context manager) reaches every root, worker_init_fn every
     KDWrapper and every root, once, in pre-order *)
  list_eqb Z.eqb (uids_of_kind (Nat.eqb 0) a) (a_dispose o)
  && list_eqb Z.eqb (uids_of_kind (Nat.eqb 0) a) (a_with o)
  && list_eqb Z.eqb (uids_of_kind (fun k => Nat.eqb k 0 || Nat.eqb k 1) a) (a_wreach o)
  && match aunbuild a with
     | None => true
     | Some (ls, r) =>
         (* linear chains: the nearest provider answers; getdim_ = getshape_[0] seen from the first KDDataset layer *)
         forallb (fun '(nm, res) =>
                    if plain_name nm then ares_eqb (nearest (nodes_of ls r) nm) res
                    else if is_getdim nm then match chain_dim_spec ls r nm with
                                              | Some e => ares_eqb e res
                                              | None => true
                                              end
                    else true) (a_queries o)
         && (a_root o =? n_uid r)
         && list_eqb Z.eqb (map (fun l => n_uid (snd l)) ls) (a_wrappers o)
         && forallb (fun '(w, b) => Bool.eqb (existsb (fun l => n_uid (snd l) =? w) ls) b) (a_haswrap o)
         && list_eqb Z.eqb (bo_coll (n_bo r)) (a_coll o)
         && (if has_mode a then true
             else opt_eqb (list_eqb Z.eqb) (Some (bo_fo (n_bo r) ++ flat_map (fun l => if is_kd l then bo_fo (n_bo (snd l)) else []) (rev ls))) (a_fused o)
                  && opt_eqb Bool.eqb (Some (existsb (fun l => is_kd l && bo_req (n_bo (snd l))) ls || bo_req (n_bo r))) (a_req o))
         && (let tags := map ltag (fst (unbuild s)) in
             forallb (fun '(t, res) =>
                        wot_eqb (match positions t 0 tags with [] => inl None | [p] => inl (Some p) | _ => inr tt end) res)
                     (a_oftype1 o))
     end.

Definition check (c : case_t) : nat :=
  let '(s, ks, o, a, ao, h) := c in
  if negb (Bool.eqb (ctor_ok s && actor_ok a) (o_ctor o)) then 1%nat
  else if negb (o_ctor o) then 0%nat
  else if valid s && negb (spec_holds s ks o) then 2%nat
  else if negb (forallb hstep_spec h) then 2%nat
  else if negb (attr_spec_holds s a ao) then 2%nat
  else if negb (model_agrees s ks o) then 1%nat
  else if negb (hist_model_agrees h) then 1%nat
  else if negb (attr_model_agrees s a ao) then 1%nat
  else 0%nat.
