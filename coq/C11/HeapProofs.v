(* C11 -- proofs about the heap reading of getitem_xclass (Heap.v): the statements only ever write into tensors they
   created themselves, and the returned tensor is the one Model.getitem_xclass computes -- whatever the wrapped dataset
   hands out (its stored tensors or clones). *)
From Coq Require Import ZArith QArith List Bool Lia Arith.
Import ListNotations.
From KD Require Import C11.Model C11.Spec C11.Heap C11.Proofs.
Open Scope Z_scope.

Lemma deref_app_l h ext a : (a < length h)%nat -> deref (h ++ ext) a = deref h a.
Proof. intro H. unfold deref. apply app_nth1. exact H. Qed.
Lemma deref_app_new h t r : deref (h ++ t :: r) (length h) = t.
Proof. unfold deref. apply nth_middle'. Qed.
Lemma write_app_new h t r v : write (h ++ t :: r) (length h) v = h ++ v :: r.
Proof. unfold write. apply set_nth_middle. Qed.

(* the repaired mix statement: two new tensors, nothing else touched *)
Lemma h_mix_spec h lam ax ax2 : (ax < length h)%nat -> (ax2 < length h)%nat ->
  h_mix h lam ax ax2 =
    (h ++ [mix_tensor lam (deref h ax) (deref h ax2); t_scale (1 - lam) (deref h ax2)], length h).
Proof.
  intros Hx Hx2. unfold h_mix, h_clone, h_mul, h_mul_, h_add_, alloc.
  rewrite deref_app_new, write_app_new.
  rewrite (deref_app_l h [t_scale lam (deref h ax)] ax2 Hx2).
  replace (length (h ++ [t_scale lam (deref h ax)])) with (S (length h)) by (rewrite app_length; simpl; lia).
  rewrite <- app_assoc. cbn [app].
  rewrite deref_app_new.
  replace (deref (h ++ [t_scale lam (deref h ax); t_scale (1 - lam) (deref h ax2)]) (S (length h)))
    with (t_scale (1 - lam) (deref h ax2)).
  2:{ replace (h ++ [t_scale lam (deref h ax); t_scale (1 - lam) (deref h ax2)])
        with ((h ++ [t_scale lam (deref h ax)]) ++ [t_scale (1 - lam) (deref h ax2)])
        by (rewrite <- app_assoc; reflexivity).
      replace (S (length h)) with (length (h ++ [t_scale lam (deref h ax)])) by (rewrite app_length; simpl; lia).
      rewrite deref_app_new. reflexivity. }
  rewrite write_app_new. reflexivity.
Qed.

(* the pad / cut loop rebinds x2 to new tensors: same values as Model.unify_loop, the heap only grows *)
Lemma h_unify_loop_spec : forall dl n i sx h a2, (a2 < length h)%nat ->
  match unify_loop n i dl sx (deref h a2) with
  | Some t => exists ext a2', h_unify_loop n i dl sx h a2 = Some (h ++ ext, a2')
                              /\ (a2' < length (h ++ ext))%nat /\ deref (h ++ ext) a2' = t
  | None => h_unify_loop n i dl sx h a2 = None
  end.
Proof.
  induction dl as [|d dl IH]; intros n i sx h a2 Ha; cbn [unify_loop h_unify_loop].
  - exists [], a2. rewrite app_nil_r. auto.
  - destruct (d =? 0).
    + apply IH. exact Ha.
    + destruct (0 <? d).
      * unfold h_pad.
        destruct (torch_pad (repeat 0%nat ((n - i) * 2 - 1) ++ [Z.to_nat d]) (deref h a2)) as [t1|]; cbn [option_map]; [|reflexivity].
        unfold alloc.
        assert (Hn : (length h < length (h ++ [t1]))%nat) by (rewrite app_length; simpl; lia).
        pose proof (IH n (S i) sx (h ++ [t1]) (length h) Hn) as K.
        rewrite deref_app_new in K.
        destruct (unify_loop n (S i) dl sx t1) as [t|].
        -- destruct K as (ext & a2' & E & Hl & Hd). exists ([t1] ++ ext), a2'.
           rewrite app_assoc. auto.
        -- exact K.
      * unfold h_index_select, alloc.
        set (t1 := index_select_arange i (nth i sx 0%nat) (deref h a2)).
        assert (Hn : (length h < length (h ++ [t1]))%nat) by (rewrite app_length; simpl; lia).
        pose proof (IH n (S i) sx (h ++ [t1]) (length h) Hn) as K.
        rewrite deref_app_new in K.
        destruct (unify_loop n (S i) dl sx t1) as [t|].
        -- destruct K as (ext & a2' & E & Hl & Hd). exists ([t1] ++ ext), a2'.
           rewrite app_assoc. auto.
        -- exact K.
Qed.

(* what the wrapped dataset hands out denotes the stored tensor, whether it is that tensor or a clone *)
Lemma st_getitem_x_spec st h0 ext k : store_wf st h0 ->
  exists ext1 a, st_getitem_x st (h0 ++ ext) k = ((h0 ++ ext) ++ ext1, a)
                 /\ (a < length ((h0 ++ ext) ++ ext1))%nat
                 /\ deref ((h0 ++ ext) ++ ext1) a = deref h0 (st_addr st k).
Proof.
  intro Hwf. pose proof (Hwf k) as Hk. unfold st_getitem_x.
  assert (Hk' : (st_addr st k < length (h0 ++ ext))%nat) by (rewrite app_length; lia).
  destruct (st_alias st).
  - exists [], (st_addr st k). rewrite app_nil_r. split; [reflexivity|]. split; [exact Hk'|].
    apply deref_app_l. exact Hk.
  - unfold h_clone, alloc. exists [deref (h0 ++ ext) (st_addr st k)], (length (h0 ++ ext)).
    split; [reflexivity|]. split; [rewrite (app_length (h0 ++ ext)); simpl; lia|].
    rewrite deref_app_new. apply deref_app_l. exact Hk.
Qed.

(* one request, started in any heap that extends the heap h0 holding the stored tensors: the heap is only extended,
   and the outcome is the one of the value-level model on the dataset stored in h0 *)
Lemma getitem_h_general st c idx dr h0 ext : store_wf st h0 ->
  exists ext', fst (getitem_xclass_h st c idx dr (h0 ++ ext)) = (h0 ++ ext) ++ ext' /\
    match getitem_xclass (ds_of_store st h0) c idx dr with
    | Ok (s, _) => exists a, snd (getitem_xclass_h st c idx dr (h0 ++ ext)) = Ok a
                             /\ (a < length ((h0 ++ ext) ++ ext'))%nat /\ deref ((h0 ++ ext) ++ ext') a = s_x s
    | Err e => snd (getitem_xclass_h st c idx dr (h0 ++ ext)) = Err e
    end.
Proof.
  intro Hwf. unfold getitem_xclass_h, getitem_xclass.
  destruct (st_getitem_x_spec st h0 ext idx Hwf) as (ext1 & ax & E1 & Hax & Dx).
  rewrite E1. cbn [ds_of_store ds_x ds_cls ds_ncls ds_len].
  set (ha := (h0 ++ ext) ++ ext1) in *.
  destruct dr as [|[u|? ?|? ?] dr1]; try (exists ext1; split; reflexivity).
  destruct (Qltb (total_p c) u).
  { destruct (to_one_hot_vector (st_cls st idx) (st_ncls st)); exists ext1; (split; [reflexivity|]); [|reflexivity].
    exists ax. cbn [s_x snd]. auto. }
  destruct dr1 as [|[?|hi idx2|? ?] dr2]; try (exists ext1; split; reflexivity).
  destruct (negb (hi =? Z.of_nat (st_len st))); [exists ext1; split; reflexivity|].
  assert (Eha : ha = h0 ++ (ext ++ ext1)) by (unfold ha; rewrite app_assoc; reflexivity).
  destruct (st_getitem_x_spec st h0 (ext ++ ext1) (Z.to_nat idx2) Hwf) as (ext2 & ax2 & E2 & Hax2 & Dx2).
  rewrite <- Eha in E2, Hax2, Dx2. rewrite E2.
  set (hb := ha ++ ext2) in *.
  assert (Ehb : hb = (h0 ++ ext) ++ (ext1 ++ ext2)) by (unfold hb, ha; rewrite app_assoc; reflexivity).
  assert (Haxb : (ax < length hb)%nat) by (unfold hb; rewrite app_length; lia).
  assert (Dxb : deref hb ax = deref h0 (st_addr st idx)) by (unfold hb; rewrite deref_app_l by exact Hax; exact Dx).
  destruct (to_one_hot_vector (st_cls st idx) (st_ncls st)); [|exists (ext1 ++ ext2); rewrite <- Ehb; split; reflexivity].
  destruct (to_one_hot_vector (st_cls st (Z.to_nat idx2)) (st_ncls st)); [|exists (ext1 ++ ext2); rewrite <- Ehb; split; reflexivity].
  destruct (if Qltb u (cutmix_p c) then cutmix_alpha c else mixup_alpha c) as [alpha|];
    [|exists (ext1 ++ ext2); rewrite <- Ehb; split; reflexivity].
  destruct dr2 as [|[?|? ?|a lamb] dr3]; try (exists (ext1 ++ ext2); rewrite <- Ehb; split; reflexivity).
  destruct (negb (Qeq_bool a alpha)); [exists (ext1 ++ ext2); rewrite <- Ehb; split; reflexivity|].
  destruct (Qltb u (cutmix_p c)); [exists (ext1 ++ ext2); rewrite <- Ehb; split; reflexivity|].
  rewrite Dxb, Dx2.
  destruct (unify c).
  - destruct (list_eqb (shape (deref h0 (st_addr st idx))) (shape (deref h0 (st_addr st (Z.to_nat idx2)))));
      [|exists (ext1 ++ ext2); rewrite <- Ehb; split; reflexivity].
    rewrite (h_mix_spec hb lamb ax ax2 Haxb Hax2). rewrite Dxb, Dx2.
    eexists (ext1 ++ ext2 ++ [_; _]). split.
    + cbn [fst]. rewrite Ehb, <- !app_assoc. reflexivity.
    + exists (length hb). cbn [snd s_x]. split; [reflexivity|].
      replace ((h0 ++ ext) ++ ext1 ++ ext2 ++ _) with (hb ++ [mix_tensor lamb (deref h0 (st_addr st idx)) (deref h0 (st_addr st (Z.to_nat idx2)));
                                                               t_scale (1 - lamb) (deref h0 (st_addr st (Z.to_nat idx2)))])
        by (rewrite Ehb, <- !app_assoc; reflexivity).
      split; [rewrite app_length; simpl; lia|]. apply deref_app_new.
  - destruct (negb (length (shape (deref h0 (st_addr st idx))) =? length (shape (deref h0 (st_addr st (Z.to_nat idx2)))))%nat);
      [exists (ext1 ++ ext2); rewrite <- Ehb; split; reflexivity|].
    unfold h_pad_or_cut_end, pad_or_cut_end. rewrite Dxb, Dx2.
    pose proof (h_unify_loop_spec
                  (deltas (shape (deref h0 (st_addr st idx))) (shape (deref h0 (st_addr st (Z.to_nat idx2)))))
                  (length (deltas (shape (deref h0 (st_addr st idx))) (shape (deref h0 (st_addr st (Z.to_nat idx2))))))
                  0%nat (shape (deref h0 (st_addr st idx))) hb ax2 Hax2) as K.
    rewrite Dx2 in K.
    destruct (unify_loop _ 0 _ _ (deref h0 (st_addr st (Z.to_nat idx2)))) as [t|].
    + destruct K as (ext3 & ax2u & E3 & Hl3 & D3). rewrite E3.
      assert (Hax3 : (ax < length (hb ++ ext3))%nat) by (rewrite app_length; lia).
      rewrite (h_mix_spec (hb ++ ext3) lamb ax ax2u Hax3 Hl3).
      rewrite D3, (deref_app_l hb ext3 ax Haxb), Dxb.
      eexists (ext1 ++ ext2 ++ ext3 ++ [_; _]). split.
      * cbn [fst]. rewrite Ehb, <- !app_assoc. reflexivity.
      * exists (length (hb ++ ext3)). cbn [snd s_x]. split; [reflexivity|].
        replace ((h0 ++ ext) ++ ext1 ++ ext2 ++ ext3 ++ _)
          with ((hb ++ ext3) ++ [mix_tensor lamb (deref h0 (st_addr st idx)) t; t_scale (1 - lamb) t])
          by (rewrite Ehb, <- !app_assoc; reflexivity).
        split; [rewrite (app_length (hb ++ ext3)); simpl; lia|]. apply deref_app_new.
    + rewrite K. exists (ext1 ++ ext2). rewrite <- Ehb. split; reflexivity.
  - exists (ext1 ++ ext2). rewrite <- Ehb. split; reflexivity.
Qed.

(* ---------- one request ---------- *)
Lemma getitem_h_grows_l st c idx dr h : store_wf st h ->
  exists ext, fst (getitem_xclass_h st c idx dr h) = h ++ ext.
Proof.
  intro Hwf. destruct (getitem_h_general st c idx dr h [] Hwf) as (ext' & E & _).
  rewrite app_nil_r in E. exists ext'. exact E.
Qed.

Lemma getitem_h_functional_l st c idx dr h : store_wf st h ->
  match getitem_xclass (ds_of_store st h) c idx dr with
  | Ok (s, _) => exists a, snd (getitem_xclass_h st c idx dr h) = Ok a
                           /\ deref (fst (getitem_xclass_h st c idx dr h)) a = s_x s
  | Err e => snd (getitem_xclass_h st c idx dr h) = Err e
  end.
Proof.
  intro Hwf. destruct (getitem_h_general st c idx dr h [] Hwf) as (ext' & E & K).
  rewrite app_nil_r in E, K.
  destruct (getitem_xclass (ds_of_store st h) c idx dr) as [[s rest]|e]; [|exact K].
  destruct K as (a & Ea & _ & Da). exists a. rewrite E. auto.
Qed.

(* ---------- any history of requests ---------- *)
Definition answers (st : store) (c : cfg) (h0 hfin : heap) (q : nat * list draw) (r : res nat) : Prop :=
  match getitem_xclass (ds_of_store st h0) c (fst q) (snd q) with
  | Ok (s, _) => exists a, r = Ok a /\ deref hfin a = s_x s
  | Err e => r = Err e
  end.

Lemma run_history_general st c : forall reqs h0 ext, store_wf st h0 ->
  exists ext', fst (run_history st c reqs (h0 ++ ext)) = (h0 ++ ext) ++ ext' /\
    Forall2 (answers st c h0 ((h0 ++ ext) ++ ext')) reqs (snd (run_history st c reqs (h0 ++ ext))).
Proof.
  induction reqs as [|q reqs IH]; intros h0 ext Hwf; cbn [run_history].
  - exists []. rewrite app_nil_r. split; [reflexivity|constructor].
  - destruct (getitem_h_general st c (fst q) (snd q) h0 ext Hwf) as (ext1 & E1 & K1).
    destruct (getitem_xclass_h st c (fst q) (snd q) (h0 ++ ext)) as [h1 r] eqn:Eg. cbn [fst snd] in E1, K1. subst h1.
    destruct (IH h0 (ext ++ ext1) Hwf) as (ext2 & E2 & K2).
    replace (h0 ++ ext ++ ext1) with ((h0 ++ ext) ++ ext1) in E2, K2 by (rewrite app_assoc; reflexivity).
    destruct (run_history st c reqs ((h0 ++ ext) ++ ext1)) as [h2 rs] eqn:Er. cbn [fst snd] in E2, K2 |- *. subst h2.
    exists (ext1 ++ ext2). split; [rewrite app_assoc; reflexivity|].
    replace ((h0 ++ ext) ++ ext1 ++ ext2) with (((h0 ++ ext) ++ ext1) ++ ext2) by (rewrite <- !app_assoc; reflexivity).
    constructor; [|exact K2].
    unfold answers. destruct (getitem_xclass (ds_of_store st h0) c (fst q) (snd q)) as [[s rest]|e]; [|exact K1].
    destruct K1 as (a & Ea & Hla & Da). exists a. split; [exact Ea|].
    rewrite deref_app_l by exact Hla. exact Da.
Qed.

(* every request of any history returns -- and the final heap still holds -- what the value-level model computes on the
   dataset as it was BEFORE the history; the heap was only extended *)
Lemma run_history_l st c reqs h : store_wf st h ->
  (exists ext, fst (run_history st c reqs h) = h ++ ext) /\
  Forall2 (answers st c h (fst (run_history st c reqs h))) reqs (snd (run_history st c reqs h)).
Proof.
  intro Hwf. destruct (run_history_general st c reqs h [] Hwf) as (ext' & E & K).
  rewrite app_nil_r in E, K. split; [exists ext'; exact E|]. rewrite E. exact K.
Qed.

(* the wrapped dataset is unchanged after any request history *)
Lemma store_unchanged_l st c reqs h : store_wf st h ->
  forall a, (a < length h)%nat -> deref (fst (run_history st c reqs h)) a = deref h a.
Proof.
  intros Hwf a Ha. destruct (run_history_l st c reqs h Hwf) as ((ext & E) & _). rewrite E. apply deref_app_l. exact Ha.
Qed.

Lemma dataset_unchanged_l st c reqs h : store_wf st h ->
  forall k, ds_x (ds_of_store st (fst (run_history st c reqs h))) k = ds_x (ds_of_store st h) k.
Proof. intros Hwf k. cbn [ds_of_store ds_x]. apply store_unchanged_l; [exact Hwf|apply Hwf]. Qed.

Lemma Forall2_nth_error {A B} (R : A -> B -> Prop) l l' : Forall2 R l l' ->
  forall i x y, nth_error l i = Some x -> nth_error l' i = Some y -> R x y.
Proof.
  induction 1; intros [|i] a b Ha Hb; simpl in *; try discriminate.
  - inversion Ha; inversion Hb; subst. assumption.
  - eauto.
Qed.

(* the same request (same index, same draws -- e.g. a seeded wrapper) made twice anywhere in a history returns the
   same tensor values *)
Lemma repeated_requests_equal_l st c reqs h i j q a b : store_wf st h ->
  nth_error reqs i = Some q -> nth_error reqs j = Some q ->
  nth_error (snd (run_history st c reqs h)) i = Some (Ok a) ->
  nth_error (snd (run_history st c reqs h)) j = Some (Ok b) ->
  deref (fst (run_history st c reqs h)) a = deref (fst (run_history st c reqs h)) b.
Proof.
  intros Hwf Hi Hj Ha Hb. destruct (run_history_l st c reqs h Hwf) as (_ & K).
  pose proof (Forall2_nth_error _ _ _ K i q (Ok a) Hi Ha) as Ka.
  pose proof (Forall2_nth_error _ _ _ K j q (Ok b) Hj Hb) as Kb.
  unfold answers in Ka, Kb.
  destruct (getitem_xclass (ds_of_store st h) c (fst q) (snd q)) as [[s rest]|e].
  - destruct Ka as (a' & Ea & Da). destruct Kb as (b' & Eb & Db). inversion Ea; inversion Eb; subst. congruence.
  - discriminate.
Qed.

(* partner == idx on ANY dataset (also one that hands out its stored tensor twice): the returned tensor is sample idx and
   the stored tensor is what it was *)
Lemma self_partner_alias_l st c idx dr h s rest w : store_wf st h -> draws_ok dr ->
  getitem_xclass (ds_of_store st h) c idx dr = Ok (s, rest) -> s_mix s = Some (idx, w) ->
  exists a, snd (getitem_xclass_h st c idx dr h) = Ok a
    /\ same_tensor (deref (fst (getitem_xclass_h st c idx dr h)) a) (deref h (st_addr st idx))
    /\ deref (fst (getitem_xclass_h st c idx dr h)) (st_addr st idx) = deref h (st_addr st idx).
Proof.
  intros Hwf Hd Hg Hm.
  pose proof (getitem_h_functional_l st c idx dr h Hwf) as K. rewrite Hg in K. destruct K as (a & Ea & Da).
  exists a. split; [exact Ea|]. split.
  - rewrite Da. exact (proj1 (self_partner_l _ _ _ _ _ _ _ Hd Hg Hm)).
  - destruct (getitem_h_grows_l st c idx dr h Hwf) as (ext & E). rewrite E. apply deref_app_l. apply Hwf.
Qed.

(* ---------- labels: to_one_hot_vector allocates, returned labels are fresh objects ---------- *)
Lemma to_one_hot_h_grows h l st n h' a : to_one_hot_vector_h h l st n = Some (h', a) ->
  exists ext, h' = h ++ ext.
Proof.
  unfold to_one_hot_vector_h, l_alloc. destruct l.
  - destruct (to_one_hot_vector (LInt y) n); cbn; intro E; inversion E. eexists; reflexivity.
  - intro E; inversion E. exists []. rewrite app_nil_r. reflexivity.
Qed.

Lemma to_one_hot_h_int_fresh h y st n h' a : to_one_hot_vector_h h (LInt y) st n = Some (h', a) ->
  a = length h /\ exists v, to_one_hot_vector (LInt y) n = Some v /\ h' = h ++ [v].
Proof.
  unfold to_one_hot_vector_h, l_alloc. destruct (to_one_hot_vector (LInt y) n) as [v|]; cbn; intro E; inversion E.
  split; [reflexivity|]. exists v. auto.
Qed.

Lemma returned_label_is_fresh_l ds c idx dr h h' a s rest :
  getitem_xclass ds c idx dr = Ok (s, rest) ->
  label_request_h ds c idx dr h = Some (h', a) ->
  (s_mix s <> None \/ exists y, ds_cls ds idx = LInt y) ->
  (length h <= a)%nat /\ (a < length h')%nat /\ exists ext, h' = h ++ ext.
Proof.
  intros G. unfold label_request_h. rewrite G. destruct (s_mix s) as [[p w]|] eqn:Mx.
  - intros E _.
    destruct (to_one_hot_vector_h h (ds_cls ds idx) idx (ds_ncls ds)) as [[h1 a1]|] eqn:E1; [|discriminate].
    destruct (to_one_hot_vector_h h1 (ds_cls ds p) p (ds_ncls ds)) as [[h2 a2]|] eqn:E2; [|discriminate].
    destruct (to_one_hot_h_grows _ _ _ _ _ _ E1) as [e1 H1]. destruct (to_one_hot_h_grows _ _ _ _ _ _ E2) as [e2 H2].
    unfold l_alloc in E. cbn in E. inversion E; subst. clear E.
    repeat rewrite app_length. cbn. repeat split; try lia.
    eexists. repeat rewrite <- app_assoc. reflexivity.
  - intros E [K|[y Hy]]; [congruence|]. rewrite Hy in E.
    destruct (to_one_hot_h_int_fresh _ _ _ _ _ _ E) as (Ha & v & _ & Hh). subst.
    rewrite app_length. cbn. repeat split; try lia. eexists; reflexivity.
Qed.

(* everything that existed before the request -- stored labels, labels returned earlier and still alive, any table --
   is what it was: the label statements never write into an existing object *)
Lemma label_request_preserves_l ds c idx dr h h' a :
  label_request_h ds c idx dr h = Some (h', a) ->
  forall b, (b < length h)%nat -> lderef h' b = lderef h b.
Proof.
  unfold label_request_h. destruct (getitem_xclass ds c idx dr) as [[s rest]|]; [|discriminate].
  assert (P : forall h0 ext b, (b < length h0)%nat -> lderef (h0 ++ ext) b = lderef h0 b)
    by (intros; unfold lderef; apply app_nth1; auto).
  destruct (s_mix s) as [[p w]|].
  - destruct (to_one_hot_vector_h h (ds_cls ds idx) idx (ds_ncls ds)) as [[h1 a1]|] eqn:E1; [|discriminate].
    destruct (to_one_hot_vector_h h1 (ds_cls ds p) p (ds_ncls ds)) as [[h2 a2]|] eqn:E2; [|discriminate].
    destruct (to_one_hot_h_grows _ _ _ _ _ _ E1) as [e1 H1]. destruct (to_one_hot_h_grows _ _ _ _ _ _ E2) as [e2 H2].
    unfold l_alloc. cbn. intro E. inversion E; subst. intros b Hb.
    repeat rewrite <- app_assoc. apply P. exact Hb.
  - intros E b Hb. destruct (to_one_hot_h_grows _ _ _ _ _ _ E) as [e1 H1]. subst. apply P. exact Hb.
Qed.

(* two requests served one after the other whose labels are both still alive: different objects *)
Lemma successive_labels_distinct_l ds c i1 d1 i2 d2 h h1 a1 h2 a2 s2 r2 :
  label_request_h ds c i1 d1 h = Some (h1, a1) -> (a1 < length h1)%nat ->
  getitem_xclass ds c i2 d2 = Ok (s2, r2) ->
  label_request_h ds c i2 d2 h1 = Some (h2, a2) ->
  (s_mix s2 <> None \/ exists y, ds_cls ds i2 = LInt y) ->
  a1 <> a2 /\ lderef h2 a1 = lderef h1 a1.
Proof.
  intros E1 L1 G2 E2 F2.
  destruct (returned_label_is_fresh_l _ _ _ _ _ _ _ _ _ G2 E2 F2) as (Hge & _ & _).
  split; [lia|]. eapply label_request_preserves_l; eauto.
Qed.

(* the returned label object holds the label the value-level model computes *)
Lemma l_add_scale_mix w v v2 : l_add (l_scale w v) (l_scale (1 - w) v2) = mix_row w v v2.
Proof.
  unfold l_scale. revert v2. induction v as [|x v IH]; intros [|y v2]; cbn [map l_add mix_row]; try reflexivity.
  f_equal. apply IH.
Qed.

Lemma to_one_hot_h_value ds h l k n h' a : lstore_wf ds h -> ds_cls ds k = l ->
  to_one_hot_vector_h h l k n = Some (h', a) ->
  exists v, to_one_hot_vector l n = Some v /\ lderef h' a = v /\ (a < length h')%nat.
Proof.
  intros W Hl. unfold to_one_hot_vector_h, l_alloc. destruct l as [y|v].
  - destruct (to_one_hot_vector (LInt y) n) as [v|]; cbn; intro E; inversion E. exists v.
    split; [reflexivity|]. split; [unfold lderef; apply nth_middle'|rewrite app_length; cbn; lia].
  - intro E; inversion E; subst h' a. destruct (W k v Hl) as [L D]. exists v. cbn. auto.
Qed.

Lemma lstore_wf_app ds h ext : lstore_wf ds h -> lstore_wf ds (h ++ ext).
Proof.
  intros W k v Hk. destruct (W k v Hk) as [L D]. split; [rewrite app_length; lia|].
  unfold lderef in *. rewrite app_nth1; auto.
Qed.

Lemma label_request_value_l ds c idx dr h h' a s rest : lstore_wf ds h ->
  getitem_xclass ds c idx dr = Ok (s, rest) ->
  label_request_h ds c idx dr h = Some (h', a) ->
  lderef h' a = s_cls s.
Proof.
  intros W G. unfold label_request_h. rewrite G.
  unfold getitem_xclass in G.
  destruct dr as [|[apply| |] dr1]; try discriminate.
  destruct (Qltb (total_p c) apply).
  - destruct (to_one_hot_vector (ds_cls ds idx) (ds_ncls ds)) as [v|] eqn:T; [|discriminate].
    inversion G; subst; cbn. intro E.
    destruct (to_one_hot_h_value ds _ _ idx _ _ _ W eq_refl E) as (v' & T' & D & _). congruence.
  - destruct dr1 as [|[|hi idx2|] dr2]; try discriminate.
    destruct (negb (hi =? Z.of_nat (ds_len ds))); [discriminate|].
    destruct (to_one_hot_vector (ds_cls ds idx) (ds_ncls ds)) as [v|] eqn:T; [|discriminate].
    destruct (to_one_hot_vector (ds_cls ds (Z.to_nat idx2)) (ds_ncls ds)) as [v2|] eqn:T2; [|discriminate].
    destruct (if Qltb apply (cutmix_p c) then cutmix_alpha c else mixup_alpha c) as [alpha|]; [|discriminate].
    destruct dr2 as [|[| |al lamb] dr3]; try discriminate.
    destruct (negb (Qeq_bool al alpha)); [discriminate|].
    destruct (Qltb apply (cutmix_p c)); [discriminate|].
    match type of G with (match ?u with Ok _ => _ | Err _ => _ end) = _ => destruct u as [x2u|]; [|discriminate] end.
    inversion G; subst; cbn.
    destruct (to_one_hot_vector_h h (ds_cls ds idx) idx (ds_ncls ds)) as [[h1 a1]|] eqn:E1; [|discriminate].
    destruct (to_one_hot_vector_h h1 (ds_cls ds (Z.to_nat idx2)) (Z.to_nat idx2) (ds_ncls ds)) as [[h2 a2]|] eqn:E2; [|discriminate].
    destruct (to_one_hot_h_value ds _ _ idx _ _ _ W eq_refl E1) as (v' & T' & D1 & L1).
    destruct (to_one_hot_h_grows _ _ _ _ _ _ E1) as [e1 H1].
    assert (W1 : lstore_wf ds h1) by (subst h1; apply lstore_wf_app; exact W).
    destruct (to_one_hot_h_value ds _ _ (Z.to_nat idx2) _ _ _ W1 eq_refl E2) as (v2' & T2' & D2 & L2).
    destruct (to_one_hot_h_grows _ _ _ _ _ _ E2) as [e2 H2].
    assert (D1' : lderef h2 a1 = v') by (subst h2; unfold lderef in *; rewrite app_nth1; auto).
    unfold l_alloc. intro E. inversion E; subst a h'. clear E.
    assert (P : forall (h0 : lheap) t r, lderef (h0 ++ t :: r) (length h0) = t) by (intros; unfold lderef; apply nth_middle').
    assert (Pl : forall (h0 ext : lheap) b, (b < length h0)%nat -> lderef (h0 ++ ext) b = lderef h0 b)
      by (intros; unfold lderef; apply app_nth1; auto).
    rewrite P.
    rewrite (Pl (h2 ++ [l_scale lamb (lderef h2 a1)])) by (rewrite app_length; cbn; lia).
    rewrite P.
    rewrite (Pl h2 [l_scale lamb (lderef h2 a1)] a2 L2).
    rewrite P. rewrite D1', D2. rewrite l_add_scale_mix. congruence.
Qed.
