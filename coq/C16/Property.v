From KD Require Import C16.Model C16.Spec C16.Proofs.
Theorem placeholder_C16 : True. Proof. exact I. Qed.
Print Assumptions placeholder_C16.
