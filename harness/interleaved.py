"""Shared machinery for C04/C05/C06: case generation, running the real
InterleavedSampler with recording samplers, the closed-form Python spec
(independent of the Coq model) and the rendering of cases into Coq."""
import random

from .common import C, Nat, Opt, Raw, Rec, coq

MAX_EVENTS = 30000
GEN_EVENTS = 9000          # generated cases are kept below this many expected events

COQ_FILES = ["C04/Model.v", "C04/Spec.v", "C04/Check.v", "C04/Lists.v", "C04/Arith.v", "C04/Sides.v", "C04/Proofs.v",
             "C04/Corollaries.v", "C04/Batches.v", "C04/Bounds.v", "C04/Loader.v", "C04/Passes.v", "C04/Example.v"]

TRUSTED = [
    "hand-written model coq/C04/Model.v of InterleavedSampler (__init__ with all assertions, checkpoint derivation, "
    "index_offsets, __iter__, _eval_loop, _training_loop incl. its batch-size adjustment branches, batch sampler, "
    "concat-dataset lookup, collator dispatch); tied to /repo by this run's correspondence evaluation",
    "harness/interleaved.py: recording samplers, event log, case rendering",
    "side samplers may yield another order on every iteration (modelled: the k-th iteration of a sampler object is an "
    "arbitrary list of len(sampler) indices); main and side samplers yield exactly len(sampler) valid indices per "
    "iteration (the property's domain)",
    "torch DataLoader / ConcatDataset.cumulative_sizes / default_collate are not modelled: the model's loader_batches "
    "(lookup + collator dispatch per batch of the batch sampler) is compared with what get_data_loader delivers",
    "isinstance(int) assertions of the constructor, _get_data_source's attribute probing, __str__ of the config, "
    "get_data_loader's kwargs plumbing and worker_init_fn forwarding are not modelled",
]


# ---------------------------------------------------------------------------
# case generation
# ---------------------------------------------------------------------------
def main_iter(case, e):
    n, ds = case["N"], case["dsN"]
    if case["perm_seed"] is None:
        return list(range(n))
    r = random.Random(case["perm_seed"] * 7919 + e)
    return r.sample(range(ds), n)


def side_iter(sc, p):
    """what the p-th iteration (counted from 0) of this config's sampler object yields"""
    if sc.get("shuffle") is None:
        return list(sc["idx"])
    r = random.Random(sc["shuffle"] * 104729 + p)
    l = list(sc["idx"])
    r.shuffle(l)
    return l


def geometry(case):
    n, b = case["N"], case["B"]
    if case["drop_last"]:
        d = case["D"] or b
        spe = n // d * d
        upe = spe // b
    else:
        spe = n
        upe = -(-n // b)
    return spe, upe


def budgets(case):
    """the three budget attributes the loops see (after an optional post-construction assignment)"""
    if case.get("post_budget") is not None:
        return dict(case["post_budget"])
    out = {"epochs": None, "updates": None, "samples": None}
    out[case["budget"][0]] = case["budget"][1]
    return out


def gen_case(rng, big=False, size=None):
    size = size or ("mid" if big else "small")
    if size == "small":
        n = rng.choice([1, 2, 3, 4, 5, 6, 7, 8, 9, 10, 12, 13, 16, 17, 20, 24, 31, 40])
    elif size == "mid":
        n = rng.randint(1, 79)
    else:
        n = rng.randint(80, 300)
    b = rng.choice([1, n, max(1, n // 2), rng.randint(1, n), rng.randint(1, n)])
    if size == "large" and b < n // 40:
        b = rng.randint(max(1, n // 40), n)
    drop_last = rng.random() < 0.6
    d = None
    if drop_last and rng.random() < 0.3:
        mult = [m for m in (1, 2, 3, 4) if b * m <= n]
        d = b * rng.choice(mult)
    case = {"N": n, "dsN": n + rng.choice([0, 0, 0, 1, 3]), "B": b, "drop_last": drop_last, "D": d}
    case["perm_seed"] = rng.choice([None, rng.randint(0, 999)])
    spe, upe = geometry(case)
    kind = rng.choice(["epochs", "updates", "samples"])
    total_epochs = rng.choice([1, 1, 2, 2, 3, 4] if size != "large" else [1, 1, 2, 2, 3])
    if rng.random() < 0.07:
        val = 0
    elif kind == "epochs":
        val = total_epochs
    elif kind == "updates":
        val = max(1, upe * total_epochs + rng.choice([0, 0, -1, 1, rng.randint(-upe, upe)]))
    else:
        val = max(1, spe * total_epochs + rng.choice([0, 0, -1, 1, b, -b, rng.randint(-spe, spe)]))
    case["budget"] = [kind, val]
    sides = []
    n_sides = rng.choice([0, 1, 1, 2, 2, 3, 4]) if size != "large" else rng.choice([0, 1, 2, 3, 4, 5, 6, 6])
    for _ in range(n_sides):
        ln = rng.choice([0, 1, 2, 3, 5, 7] if size != "large" else [0, 1, 3, 5, 7, 12])
        dsl = ln + rng.choice([0, 0, 2])
        sc = {"ene": None, "enu": None, "ens": None, "bs": rng.choice([None, None, 1, 2, 3, 4]),
              "dslen": dsl}
        kinds = rng.sample(["ene", "enu", "ens"], rng.choice([1, 1, 1, 2, 2, 3]))
        for k in kinds:
            if k == "ene":
                sc[k] = rng.choice([1, 1, 2, 3])
            elif k == "enu":
                sc[k] = rng.choice([1, 2, 3, upe, upe + 1, 5, 7])
                sc[k] = max(1, sc[k])
            else:
                sc[k] = max(1, rng.choice([1, b, 2 * b, b + 1, spe, spe - 1, spe + 1, 3, 12, rng.randint(1, 2 * spe + 1)]))
        sc["idx"] = list(range(ln)) if rng.random() < 0.7 else [rng.randrange(max(dsl, 1)) for _ in range(ln)] if dsl else []
        # a stateful side sampler: another order on every iteration (like RandomSampler / set_epoch-driven shuffling)
        sc["shuffle"] = rng.randint(0, 999) if (ln >= 2 and rng.random() < 0.4) else None
        sides.append(sc)
    case["sides"] = sides
    # start checkpoint
    case["start"] = None
    if val > 0 and rng.random() < 0.45:
        skind = rng.choice(["epoch", "epoch", "update", "sample"])
        # epochs strictly before the budget
        if kind == "epochs":
            max_e = val - 1
        elif kind == "updates":
            max_e = (val - 1) // upe
        else:
            max_e = (val - 1) // spe
        if max_e >= 1:
            k = rng.randint(1, max_e)
            extra = 0 if rng.random() < 0.8 else rng.randint(1, max(1, upe))
            # off-boundary checkpoints (NotImplementedError expected) must still lie before the budget
            before = {"epochs": upe * val, "updates": val, "samples": -(-val // b)}[kind]
            if k * upe + extra >= before:
                extra = 0
            if skind == "epoch":
                case["start"] = ["epoch", k]
            elif skind == "update":
                case["start"] = ["update", k * upe + extra]
            else:
                case["start"] = ["sample", (k * upe + extra) * b]
    return case


def gen_bounded(rng, **kw):
    """gen_case, re-drawn until the expected stream is of moderate length"""
    for _ in range(50):
        c = gen_case(rng, **kw)
        if expected_events(c) <= GEN_EVENTS:
            return c
    return gen_case(rng)


def expected_events(case):
    spe, upe = geometry(case)
    kind, val = case["budget"]
    if val == 0:
        return sum(len(s["idx"]) for s in case["sides"])
    ups = {"epochs": val * upe, "updates": val, "samples": -(-val // case["B"]) + val // spe + 1}[kind]
    per = 0
    for s in case["sides"]:
        f = 0.0
        if s["ene"]:
            f += 1.0 / (upe * s["ene"])
        if s["enu"]:
            f += 1.0 / s["enu"]
        if s["ens"]:
            f += min(1.0, case["B"] / s["ens"])
        per += min(1.0, f) * len(s["idx"])
    return ups * (case["B"] + per)


# ---- invalid / unusual constructor arguments -------------------------------------------------
def gen_mut(rng, case):
    """one assignment [path..., value] applied to the raw constructor arguments: the class of argument
    combinations the constructor's assertions are about"""
    n, b = case["N"], case["B"]
    kind = case["budget"][0]
    other = [k for k in ("epochs", "updates", "samples") if k != kind]
    opts = [
        ["B", 0], ["B", -1], ["B", n + 1],
        ["D", b + 1 if b > 1 else 2 * n + 1], ["D", (n // b + 1) * b], ["D", 0],
        ["drop_last", False] if case["D"] is not None else ["D", b],   # D without drop_last / a plain valid D
        [kind, -1], [kind, None], [rng.choice(other), rng.choice([0, 1, 3])],
    ]
    if case["sides"]:
        i = rng.randrange(len(case["sides"]))
        opts += [["sides", i, rng.choice(["ene", "enu", "ens", "bs"]), rng.choice([0, -2])],
                 ["sides", i, "all_none", True]]
    if case["start"] is not None:
        others = [k for k in ("epoch", "update", "sample") if k != case["start"][0]]
        opts += [["start_" + rng.choice(others), rng.choice([0, 1, b])]] * 2
        if case["start"][0] == "sample":
            opts += [["start_sample", case["start"][1] + 1]] if b > 1 else []
    return rng.choice(opts)


def raw_args(case, start="case"):
    """the constructor arguments of this case (after its optional mutation)"""
    st = case["start"] if start == "case" else start
    raw = {"N": case["N"], "dsN": case["dsN"], "B": case["B"], "drop_last": case["drop_last"], "D": case["D"],
           "epochs": None, "updates": None, "samples": None,
           "start_epoch": None, "start_update": None, "start_sample": None,
           "sides": [{"ene": s["ene"], "enu": s["enu"], "ens": s["ens"], "bs": s["bs"]} for s in case["sides"]]}
    raw[case["budget"][0]] = case["budget"][1]
    if st is not None:
        raw["start_" + st[0]] = st[1]
    mut = case.get("mut")
    if mut:
        if mut[0] == "sides":
            if mut[2] == "all_none":
                raw["sides"][mut[1]].update({"ene": None, "enu": None, "ens": None})
            else:
                raw["sides"][mut[1]][mut[2]] = mut[3]
        else:
            raw[mut[0]] = mut[1]
    return raw


def ctor_expect(raw):
    """independent statement of which argument combinations the constructor accepts:
    'ok' | 'AssertionError' | 'NotImplementedError'"""
    n, b, d = raw["N"], raw["B"], raw["D"]
    if not (isinstance(b, int) and 0 < b <= n):
        return "AssertionError"
    if d is not None and not (raw["drop_last"] and d % b == 0 and b <= d <= n):
        return "AssertionError"
    given = [raw[k] for k in ("epochs", "updates", "samples") if raw[k] is not None]
    if len(given) != 1 or given[0] < 0:
        return "AssertionError"
    for s in raw["sides"]:
        if all(s[k] is None for k in ("ene", "enu", "ens")):
            return "AssertionError"
        if any(s[k] is not None and s[k] <= 0 for k in ("ene", "enu", "ens", "bs")):
            return "AssertionError"
    starts = [k for k in ("start_epoch", "start_update", "start_sample") if raw[k] is not None]
    if len(starts) > 1:
        return "AssertionError"
    if not starts or starts[0] == "start_epoch":
        return "ok"
    unit = d or b
    spe = n // unit * unit if raw["drop_last"] else n
    if starts[0] == "start_sample" and raw["start_sample"] % b != 0:
        return "AssertionError"
    pos = raw["start_update"] * b if starts[0] == "start_update" else raw["start_sample"]
    if not raw["drop_last"] or pos % spe != 0:
        return "NotImplementedError"
    return "ok"


def gen_cases(rng, tier):
    n = 700 if tier == "quick" else 6000
    out = [gen_bounded(rng) for _ in range(n)]
    if tier == "thorough":
        out += [gen_bounded(rng, size="mid") for _ in range(2500)]
        out += [gen_bounded(rng, size="large") for _ in range(800)]
    return out


def search_cases(rng, tier):
    for _ in range(20000):
        yield gen_bounded(rng, size="mid" if rng.random() < 0.3 else "small")


def shrink(case):
    """candidate smaller cases"""
    c = case
    for k in ("mut", "post_budget", "loader"):
        if c.get(k) is not None:
            yield {kk: v for kk, v in c.items() if kk != k}
    for i in range(len(c["sides"])):
        if c.get("mut") and c["mut"][0] == "sides":
            break
        yield {**c, "sides": c["sides"][:i] + c["sides"][i + 1:]}
    for i, sc in enumerate(c["sides"]):
        for k in ("ene", "enu", "ens", "bs"):
            if sc[k] is not None and sum(sc[x] is not None for x in ("ene", "enu", "ens")) > (1 if k != "bs" else 0):
                yield {**c, "sides": c["sides"][:i] + [{**sc, k: None}] + c["sides"][i + 1:]}
        if sc.get("shuffle") is not None:
            yield {**c, "sides": c["sides"][:i] + [{**sc, "shuffle": None}] + c["sides"][i + 1:]}
        if len(sc["idx"]) > 1:
            m = len(sc["idx"]) - 1
            yield {**c, "sides": c["sides"][:i] + [{**sc, "idx": list(range(m)), "dslen": m}] + c["sides"][i + 1:]}
    if c["perm_seed"] is not None:
        yield {**c, "perm_seed": None}
    if c["dsN"] != c["N"]:
        yield {**c, "dsN": c["N"]}
    if c["D"] is not None and not c.get("mut"):
        yield {**c, "D": None}
    if c["start"] is None and c["N"] > c["B"] and c["N"] > 1 and not c.get("mut"):
        yield {**c, "N": c["N"] - 1, "dsN": c["N"] - 1}
    if c["budget"][1] > 1 and c["start"] is None and c.get("post_budget") is None:
        yield {**c, "budget": [c["budget"][0], c["budget"][1] - 1]}


# ---------------------------------------------------------------------------
# running the implementation
# ---------------------------------------------------------------------------
class _DS:
    """data source whose items identify themselves"""

    def __init__(self, tag, n):
        self.tag, self.n = tag, n

    def __len__(self):
        return self.n

    def __getitem__(self, i):
        assert 0 <= i < self.n, (self.tag, i, self.n)
        return (self.tag, i)

    def worker_init_fn(self, rank, **kwargs):
        pass


class _TagCollator:
    """collator of dataset `tag`: returns its own tag and the samples it was given"""

    def __init__(self, tag):
        self.tag = tag

    def __call__(self, data):
        return [self.tag, [list(x) for x in data]]


class _RecMain:
    def __init__(self, case, raw, log):
        self.case, self.log, self.n = case, log, raw["N"]
        self.data_source = _DS(0, raw["dsN"])
        self.epoch = None

    def __len__(self):
        return self.n

    def set_epoch(self, e):
        self.log.append(["E", e])
        self.epoch = e

    def __iter__(self):
        yield from main_iter(self.case, self.epoch)


class _Side:
    """recording side sampler; its order may change with every iteration (pass counter = the object's state,
    starting at p0); it offers set_epoch and logs any call of it"""

    def __init__(self, tag, sc, p0, log, plog):
        # _get_data_source accepts either attribute name
        if tag % 2:
            self.data_source = _DS(tag, sc["dslen"])
        else:
            self.dataset = _DS(tag, sc["dslen"])
        self.tag, self.sc, self.p, self.log, self.plog = tag, sc, p0, log, plog

    def __len__(self):
        return len(self.sc["idx"])

    def set_epoch(self, e):
        self.log.append(["S", self.tag - 1, e])

    def __iter__(self):
        p = self.p
        self.p += 1
        self.plog.append([self.tag - 1, len(self.log)])
        yield from side_iter(self.sc, p)


def build(case, log, start="case", pass0=None, plog=None):
    from kappadata.samplers.interleaved_sampler import InterleavedSampler, InterleavedSamplerConfig
    raw = raw_args(case, start)
    main = _RecMain(case, raw, log)
    plog = plog if plog is not None else []
    pass0 = pass0 or [0] * len(case["sides"])
    cfgs = [InterleavedSamplerConfig(sampler=_Side(i + 1, sc, pass0[i], log, plog), every_n_epochs=rs["ene"],
                                     every_n_updates=rs["enu"], every_n_samples=rs["ens"], batch_size=rs["bs"])
            for i, (sc, rs) in enumerate(zip(case["sides"], raw["sides"]))]
    kw = {k: raw[k] for k in ("epochs", "updates", "samples", "start_epoch", "start_update", "start_sample")
          if raw[k] is not None}
    if case.get("loader") is not None:
        for i, cf in enumerate(cfgs):
            cf.collator = _TagCollator(i + 1)
        kw["main_collator"] = _TagCollator(0)
    s = InterleavedSampler(main_sampler=main, batch_size=raw["B"], configs=cfgs or None, drop_last=raw["drop_last"],
                           drop_last_batch_size=raw["D"], **kw)
    if case.get("post_budget") is not None:
        # several budgets at once: the constructor refuses them, the loop's end test handles them
        for k, v in case["post_budget"].items():
            setattr(s, k, v)
    return s


def _loader_batches(s, workers):
    try:
        lb = []
        for bt in s.get_data_loader(num_workers=workers):
            lb.append([int(bt[0]), [[int(a), int(b)] for a, b in bt[1]]])
            if len(lb) > MAX_EVENTS:
                break
        return lb
    except Exception as e:  # noqa
        return type(e).__name__ + ": " + str(e)[:300]


def run_stream(case, start="case", pass0=None):
    """-> dict(result=ok|NotImplementedError|AssertionError|RUNAWAY, log=[...], resolve=[...], ...)"""
    log, plog = [], []
    try:
        s = build(case, log, start, pass0, plog)
    except NotImplementedError:
        return {"result": "NotImplementedError", "log": []}
    except AssertionError:
        return {"result": "AssertionError", "log": []}
    res = "ok"
    out = {"index_offsets": [int(x) for x in s.index_offsets]}
    try:
        for full, idx in s:
            log.append(["Y", bool(full), int(idx)])
            if len(log) > MAX_EVENTS:
                res = "RUNAWAY"
                break
    except AssertionError:
        res = "AssertionError"
    out.update({"result": res, "log": log, "plog": plog})
    if res == "ok":
        # resolution of every distinct yielded index through the real concat dataset
        seen = {}
        for ev in log:
            if ev[0] == "Y" and ev[2] not in seen:
                try:
                    di, item = s.dataset[ev[2]]
                    seen[ev[2]] = [int(di), list(item)]
                except Exception as e:  # noqa
                    seen[ev[2]] = [type(e).__name__]
        out["resolve"] = sorted([k] + v for k, v in seen.items())
        # the batch sampler on a second, independent iteration
        s2 = build(case, [], start, pass0)
        try:
            bs = []
            for b in s2.batch_sampler:
                bs.append([int(i) for i in b])
                if len(bs) > MAX_EVENTS:
                    break
            out["batches"] = bs
        except AssertionError:
            out["batches"] = "AssertionError"
        if case.get("loader") is not None:
            # the real DataLoader (num_workers = case["loader"]) with one tagging collator per dataset
            out["loader_batches"] = _loader_batches(build(case, [], start, pass0), case["loader"])
    return out


def passes_before(fresh, e0, n_sides):
    """how often every side sampler was iterated in the run `fresh` before set_epoch(e0)"""
    try:
        k = fresh["log"].index(["E", e0])
    except ValueError:
        return None
    out = [0] * n_sides
    for ci, pos in fresh.get("plog", []):
        if pos <= k:
            out[ci] += 1
    return out


def run_impl(case):
    if case["start"] is None:
        obs = run_stream(case)
        obs["pass0"] = [0] * len(case["sides"])
        return obs
    # a resumed run: the side sampler objects carry on from the state they have at the checkpoint in the
    # uninterrupted run (for samplers yielding the same order every time this is immaterial)
    fresh = run_stream(case, start=None)
    e0 = start_epoch_of(case)
    pass0 = None
    if isinstance(e0, int) and fresh["result"] == "ok":
        pass0 = passes_before(fresh, e0, len(case["sides"]))
    pass0 = pass0 or [0] * len(case["sides"])
    obs = run_stream(case, pass0=pass0)
    obs["pass0"] = pass0
    if obs["result"] == "ok":
        obs["fresh"] = fresh["log"]
        if case.get("loader") is not None:
            obs["fresh_loader"] = fresh.get("loader_batches")
    return obs


# ---------------------------------------------------------------------------
# closed-form Python spec (independent of the Coq model)
# ---------------------------------------------------------------------------
def chunks(l, b):
    return [l[i:i + b] for i in range(0, len(l), b)]


def offsets(case):
    offs, acc = [], case["dsN"]
    for sc in case["sides"]:
        offs.append(acc)
        acc += sc["dslen"]
    return offs


def side_pass(case, ci, p=0):
    sc = case["sides"][ci]
    off = offsets(case)[ci]
    bs = sc["bs"] or case["B"]
    out = []
    for b in chunks(side_iter(sc, p), bs):
        out += [["Y", False, off + i] for i in b[:-1]] + [["Y", True, off + b[-1]]]
    return out


def crossed(n, a, b):
    """some multiple of n lies in (a, b]"""
    return any(m % n == 0 for m in range(a + 1, b + 1))


def start_epoch_of(case):
    """-> (e0 | 'NotImplementedError' | 'AssertionError')"""
    exp = ctor_expect(raw_args(case))
    if exp != "ok":
        return exp
    spe, upe = geometry(case)
    st = case["start"]
    if st is None:
        return 0
    if st[0] == "epoch":
        return st[1]
    u = st[1] // case["B"] if st[0] == "sample" else st[1]
    return u // upe


def spec_stream(case, e0, tag=False, pass0=None):
    """the stream an uninterrupted run shows from the beginning of epoch e0 on (side samplers iterated pass0
    times before); with tag=True every event carries 'M' (main) / config index"""
    bud = budgets(case)
    pn = list(pass0 or [0] * len(case["sides"]))
    if any(v == 0 for v in bud.values()):
        out = []
        for ci in range(len(case["sides"])):
            out += [ev + [ci] if tag else ev for ev in side_pass(case, ci, pn[ci])]
        return out
    spe, upe = geometry(case)
    out = []
    e = e0
    while True:
        out.append(["E", e, "M"] if tag else ["E", e])
        bs = chunks(main_iter(case, e)[:spe], case["B"])
        done = 0
        for j, b in enumerate(bs):
            out += [["Y", False, i] + (["M"] if tag else []) for i in b[:-1]]
            out.append(["Y", True, b[-1]] + (["M"] if tag else []))
            prev = e * spe + done
            done += len(b)
            sample = e * spe + done
            update = e * upe + j + 1
            end = j + 1 == len(bs)
            epoch = e + 1 if end else e
            for ci, sc in enumerate(case["sides"]):
                due = ((sc["ene"] is not None and end and epoch % sc["ene"] == 0)
                       or (sc["enu"] is not None and update % sc["enu"] == 0)
                       or (sc["ens"] is not None and crossed(sc["ens"], prev, sample)))
                if due:
                    out += [ev + [ci] if tag else ev for ev in side_pass(case, ci, pn[ci])]
                    pn[ci] += 1
            if ((bud["epochs"] is not None and epoch == bud["epochs"])
                    or (bud["updates"] is not None and update == bud["updates"])
                    or (bud["samples"] is not None and sample >= bud["samples"])):
                return out
            if len(out) > 4 * MAX_EVENTS:
                return out
        e += 1


def ds_ranges(case):
    offs = [0, case["dsN"]]
    for sc in case["sides"]:
        offs.append(offs[-1] + sc["dslen"])
    return offs


def ds_of(case, i):
    offs = ds_ranges(case)
    for d in range(len(offs) - 1):
        if offs[d] <= i < offs[d + 1]:
            return d, i - offs[d]
    return None, None


def expected_loader_batches(case, stream):
    """[collator tag, [[dataset, sample], ...]] per batch of `stream`"""
    expb, cur = [], []
    for ev in stream:
        if ev[0] != "Y":
            continue
        cur.append(ev[2])
        if ev[1]:
            d = ds_of(case, cur[0])[0]
            expb.append([d, [[d, ds_of(case, i)[1]] for i in cur]])
            cur = []
    return expb


def side_set_epoch_calls(obs):
    return [ev for ev in obs.get("log", []) if ev[0] == "S"]


# ---------------------------------------------------------------------------
# rendering to Coq
# ---------------------------------------------------------------------------
COQ_PRELUDE = """From Coq Require Import ZArith List Bool.
Import ListNotations.
From KD Require Import C04.Model C04.Spec C04.Check.
Open Scope Z_scope.
"""


def coq_args(case, obs):
    raw = raw_args(case)
    calls = [0] * len(case["sides"])
    for ci, _ in obs.get("plog", []):
        calls[ci] += 1
    pass0 = obs.get("pass0") or [0] * len(case["sides"])
    sides = []
    for i, (sc, rs) in enumerate(zip(case["sides"], raw["sides"])):
        if sc.get("shuffle") is None:
            sidx = Raw("(fun _ => " + coq(list(sc["idx"])) + ")")
        else:
            sidx = Raw("(passes_fun " + coq([side_iter(sc, p) for p in range(pass0[i] + calls[i] + 2)]) + ")")
        sides.append(Rec(ene=Opt(rs["ene"]), enu=Opt(rs["enu"]), ens=Opt(rs["ens"]), sbs=Opt(rs["bs"]),
                         sidx=sidx, slen=len(sc["idx"]), dslen=sc["dslen"]))
    return Rec(a_N=raw["N"], a_dsN=raw["dsN"], a_B=raw["B"], a_drop_last=bool(raw["drop_last"]), a_D=Opt(raw["D"]),
               a_epochs=Opt(raw["epochs"]), a_updates=Opt(raw["updates"]), a_samples=Opt(raw["samples"]),
               a_start_epoch=Opt(raw["start_epoch"]), a_start_update=Opt(raw["start_update"]),
               a_start_sample=Opt(raw["start_sample"]), a_sides=sides)


def coq_obs(log):
    out = []
    for ev in log:
        if ev[0] == "E":
            out.append(C("OSetEpoch", ev[1]))
        elif ev[0] == "S":
            out.append(C("OSideSetEpoch", Nat(ev[1]), ev[2]))
        else:
            out.append(C("OYield", ev[1], ev[2]))
    return out


def coq_case_common(case, obs):
    result = {"ok": 0, "NotImplementedError": 1, "AssertionError": 2, "RUNAWAY": 3}[obs["result"]]
    epochs = [ev[1] for ev in obs["log"] if ev[0] == "E"]
    emin = min(epochs) if epochs else 0
    emax = max(epochs) + 1 if epochs else 0
    iters = [main_iter(case, e) for e in range(emin, emax + 1)]
    batches = obs.get("batches")
    bat = Opt(None if not isinstance(batches, list) else batches)
    resolve = [(r[0], Nat(r[1]), r[2][1]) for r in obs.get("resolve", []) if len(r) == 3]
    pb = case.get("post_budget")
    ovr = Opt(None if pb is None else (Opt(pb["epochs"]), Opt(pb["updates"]), Opt(pb["samples"])))
    offs = Opt(obs.get("index_offsets"))
    lb = obs.get("loader_batches")
    lbt = Opt(None if not isinstance(lb, list) else [(Nat(t), [x[1] for x in items]) for t, items in lb])
    pass0 = [Nat(p) for p in (obs.get("pass0") or [0] * len(case["sides"]))]
    return (coq_args(case, obs), ovr, pass0, Nat(result), emin, iters, coq_obs(obs["log"]), bat, resolve, offs, lbt)
