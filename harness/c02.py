"""C02 — stacked subsets, concats and wrappers address the right underlying sample.

Cases are random nestings of KDSubset / KDConcatDataset / KDWrapper (and subclasses)
over root datasets whose item `x` is the sample identity id*1000+pos.  The real stack
is built and queried; the Coq model (coq/C02/Model.v) and spec (Spec.v) are evaluated
on the same stack; an independent Python oracle flattens the nesting with plain list
operations and states the property on what the real objects returned.  Every case also
performs a HISTORY of bulk and per-sample accesses on the objects of the stack (its parts
and extra stacks built over the same part objects included) and then re-queries every
object: accessors must be pure (identity and content snapshots of the containers the
roots keep and of every object an accessor handed out)."""
import itertools
import json
import os

from .common import C, Nat, Opt, Raw, Rec, Str, coq

ID = "C02"
COQ_FILES = ["C02/Model.v", "C02/Spec.v", "C02/AttrModel.v", "C02/AttrSpec.v", "C02/Check.v", "C02/Proofs.v",
             "C02/AttrProofs.v", "C02/Hist.v", "C02/Heap.v", "C02/Property.v"]
COQ_PRELUDE = ("From Coq Require Import ZArith List Bool String.\nImport ListNotations.\n"
               "From KD Require Import C02.Model C02.Spec C02.AttrModel C02.AttrSpec C02.Check.\nOpen Scope Z_scope.\n")
COQ_CHECK = "check"
COQ_CASE_TYPE = "case_t"
SHARD = 150
TRUSTED = [
    "hand-written models coq/C02/Model.v (KDSubset/KDConcatDataset/KDWrapper/KDDataset index translation, getall, "
    "utils.getall fast/slow path, wrapper lists) and coq/C02/AttrModel.v (__getattr__ delegation link by link incl. the "
    "getdim_ alias, fused_operations / requires_propagate_ctx / collators, worker_init_fn reach, dispose, ModeWrapper on "
    "top); tied to KD_REPO by this run's correspondence evaluation",
    "Python attribute lookup on one object (data descriptor > instance dict > method / class attribute; an "
    "AttributeError out of a property getter falls through to __getattr__) is modelled by AttrModel.own and exercised "
    "against CPython on every case; names defined by the kappadata base classes themselves are outside the environments",
    "torch.utils.data.Subset / ConcatDataset constructors (only their indices / cumulative_sizes results are used); "
    "bisect.bisect_right on a non-decreasing list = first position whose entry exceeds the key",
    "Python list / tuple / range / ndarray / tensor indexing (negative wraps once, IndexError beyond), also with numpy "
    "integer and 0-d tensor indices; int(idx / P) = truncated quotient (exact below 2**53)",
    "harness/c02.py: stack builder (dynamic subclasses carrying the environments, token objects naming the definition "
    "that answered), root dataset returning id*1000+pos, observation canonicalisation",
    "all raised exceptions are one error value (IndexError, ValueError, ZeroDivisionError, AssertionError)",
    "access histories: the model is stateless (Model.run_hist: every step answered by getall / util_getall / slen / "
    "resolve of the stack it addresses); that the REAL objects behave statelessly is checked on the real heap by this "
    "harness -- identity + content snapshots of every container a root keeps, content snapshots of every object an "
    "accessor returned (compared again at the end), every node and extra stack re-queried twice after the history",
    "coq/C02/Heap.v (getall on a heap of list objects: allocation, in-place +=, aliasing of kept containers) is proved "
    "equal in value to Model.getall and to write to no pre-existing object; its allocation / aliasing structure itself "
    "is hand-written from KDConcatDataset._call_getall / KDSubset._call_getall and not compared with the "
    "implementation object by object (caching wrappers are outside it)",
    "kept accessors: Model.kept_eval answers a kept accessor on the CURRENT stack (the stack at fetch time is not an "
    "input); the harness renders what the real kept accessors returned as history steps on the stack as it was at that "
    "moment (after the re-assignments so far) and compares with the model and the spec; the extra item kinds "
    "(getitem_/getall_<kind>) are checked by the Python oracle only (same index map, other values)",
]
ASSUMPTIONS = [
    "valid stacks: subset entries address existing items of the layer below (negative entries allowed), concats "
    "non-empty with finite parts, parts of a balanced concat non-empty (introspection is checked on every constructible stack)",
    "getall-vs-getitem agreement for every stack with a length: directly where getall_x is offered (no balanced concat "
    "below -- repaired by fixes/C02_balanced_getall_attr.patch -- and concat parts whose getall returns a list, the code "
    "asserts it), through utils.getall* everywhere",
    "balanced concat: non-negative indices (the spec is silent on negative ones; the model mirrors the code)",
    "attribute delegation: nearest-provider resolution is claimed for linear chains (KDSubset / KDWrapper / ModeWrapper "
    "over a root) and, through concats, along the first parts (what the code documents); getdim_<kind> is answered by the "
    "first KDDataset-family layer with ITS getshape_<kind>: a getshape_<kind> defined on a KDSubset subclass above it is "
    "not seen by getdim_<kind> (no kappadata class does that; observed, mirrored by the model, not claimed as a defect)",
    "accessors are pure: after any history of getall_x / utils.getall / len / getitem_x calls on the stack, its parts "
    "and other stacks over the same parts, every object answers as its own index map says, no container kept by a root "
    "dataset has changed (same object, same content) and no object handed out by an accessor has changed since it was "
    "returned; roots may hand out the container they keep (list / ndarray / tensor) or a fresh one, wrappers may cache "
    "the bulk result they hand out",
    "ModeWrapper on top is constructed with mode 'index' (its own item logic is property C01); its dispose() forwards "
    "(repaired by fixes/C02_mode_wrapper_dispose.patch)",
    "kept accessors: a bound getitem_x / getall_x of any layer or a ModeWrapper(layer, mode='x') obtained at time t and "
    "used at t' > t answers like one fetched at t', i.e. as the CURRENT index maps of the layers say, after any "
    "re-assignment (same / other length; list / ndarray / tensor / tuple) or in-place edit of a KDSubset layer's indices; "
    "the index map of a stack containing a KDConcatDataset is claimed only while the parts have the lengths they were "
    "concatenated with (torch's ConcatDataset computes cumulative_sizes once) -- kept == fresh is claimed always",
    "item / attribute names: any identifier (underscores, digits, names that are prefixes of each other); the kind of a "
    "getdim_<kind> alias is everything after 'getdim_'; every item kind has its own values / shape tokens",
]
RULE = ("directed cases (index containers list/tuple/range/ndarray/tensor x index types int/numpy/0-d tensor, negative "
        "entries through 5 layers, empty stacks, shadowed attribute environments) + random nestings depth 1-6 over 1-4 "
        "roots of size 0-12: subset index lists with repeats, negative entries, permutations / rotations / fixed end "
        "points, concats of 1-4 parts incl. empty parts, balanced concats at the top or under a subset, fixed and "
        "per-case wrapper classes (a class may occur twice), getall providers list/ndarray/tensor/absent -- fresh per call "
        "or the INTERNALLY KEPT container (return self.x) --, 20% of the wrappers caching the bulk result they hand out, "
        "0-2 extra stacks (concat / subset / wrapper) built over nodes of the main stack (often sharing a first part), a "
        "history of 0-9 accesses (getall / utils.getall / getitem / len, 35% of the bulk calls repeated) on random nodes / "
        "extras, then every object re-queried twice (getall, len, all items); random attribute "
        "environments on every node (methods / properties / raising properties / class attributes / instance attributes, "
        "getshape_/getdim_ pairs, names shadowed at several layers), fused_operations / requires_propagate_ctx / collators "
        "overrides, ModeWrapper on top in 30%, all valid k plus a few invalid; names per case out of an alphabet with "
        "underscores / digits / prefixes of each other (class, class_before_grouping, class_, multi_label_target, x_og, x_2, "
        "u, u_v, u_, _u, getdim_u, ...) for plain attributes and for the getshape_/getdim_ kinds (every token carries the "
        "NAME it was defined under; getdim_<k>(), getdim(k) and getshape_<k>() all asked), 1-3 extra item kinds "
        "getitem_/getall_<kind> with their own values on every root, redefined by 30% of the wrappers; in 60% of the "
        "stacks with a subset layer a second copy of the stack runs a MUTATION history: 1-5 accessors (getitem_x / "
        "getall_x / ModeWrapper(mode='x') of the top or of a layer around a subset) fetched and KEPT, 1-3 subset layers "
        "re-sampled (indices re-assigned with the same / a longer / a shorter map as list / ndarray / tensor / tuple, or "
        "edited in place), after every step every kept accessor and a fresh one asked for every k; "
        "non-trivial = depth >= 2 and at least one item resolved; distinct by stack shape")
ALLOWED_AXIOMS = []
KNOWN_FINDINGS_PROPOSED = []      # the balanced-getall finding is repaired (fixes/C02_balanced_getall_attr.patch)

SUB_TAGS = [0, 1]
WRAP_TAGS = [2, 3, 4]
EXPECTED_ERRORS = (IndexError, ValueError, ZeroDivisionError, AssertionError)


# ---------------------------------------------------------------------------
# tree helpers (independent of kappadata)
# ---------------------------------------------------------------------------
def t_len(t):
    """length of the tree's dataset or None when it has none / cannot be built"""
    k = t["t"]
    if k == "root":
        return t["n"]
    if k == "sub":
        return len(t["idxs"])
    if k == "wrap":
        return t_len(t["s"])
    if t["bal"]:
        return None
    ls = [t_len(p) for p in t["parts"]]
    return None if any(x is None for x in ls) else sum(ls)


def t_depth(t):
    k = t["t"]
    if k == "root":
        return 0
    if k == "cat":
        return 1 + max([t_depth(p) for p in t["parts"]] or [0])
    return 1 + t_depth(t["s"])


def t_shape(t):
    k = t["t"]
    if k == "root":
        return "R%d%s" % (t["n"], t["pk"][0])
    if k == "sub":
        return "S%d(%s)" % (len(t["idxs"]), t_shape(t["s"]))
    if k == "wrap":
        return "W%d(%s)" % (t["tag"], t_shape(t["s"]))
    return ("B" if t["bal"] else "C") + "[" + ",".join(t_shape(p) for p in t["parts"]) + "]"


def t_has(t, pred):
    if pred(t):
        return True
    if t["t"] == "cat":
        return any(t_has(p, pred) for p in t["parts"])
    if t["t"] == "root":
        return False
    return t_has(t["s"], pred)


# ---------------------------------------------------------------------------
# attribute environments (what Python's normal lookup finds on a node before __getattr__ is consulted)
# ---------------------------------------------------------------------------
KINDS = {"method": ("KMethod", 0), "prop": ("KProp", 1), "cattr": ("KCattr", 2), "shape2": ("KShape2", 4),
         "shapent": ("KShapeNT", 5), "prop_raise": ("KPropRaise", 6)}
KC_INST = 3
PLAIN_POOL = ["alpha", "beta", "gamma", "delta"]
SHAPE_KINDS = ["u", "v"]
# the name alphabet: underscores, digits, names that are prefixes of each other (a case uses a few of each; cases written
# before the alphabet was widened carry no "plain" / "skinds" and mean the two lists above)
PLAIN_NAMES = PLAIN_POOL + ["alpha_2", "al", "beta_gamma_1", "delta_", "_gamma", "get_alpha", "getshape2_u"]
SHAPE_NAMES = SHAPE_KINDS + ["class", "class_before_grouping", "multi_label_target", "x_og", "x_2", "u_v", "u_", "v2",
                             "class_", "_u", "getdim_u", "x__y"]


def c_plain(case):
    return list(case.get("plain") or PLAIN_POOL)


def c_skinds(case):
    return list(case.get("skinds") or SHAPE_KINDS)


def c_queries(plain, skinds):
    return list(plain) + ["getshape_" + k for k in skinds] + ["getdim_" + k for k in skinds] + ["getdim_w"]
MW_TAG = 99


def annotate(case):
    """deep copy of the case's tree with a pre-order "uid" on every node; a ModeWrapper on top (case["mw"]) becomes
    the node {"t": "mode", "s": tree} with uid 0"""
    cnt = itertools.count()

    def go(t):
        n = dict(t)
        n["uid"] = next(cnt)
        if t["t"] == "cat":
            n["parts"] = [go(q) for q in t["parts"]]
        elif t["t"] != "root":
            n["s"] = go(t["s"])
        return n
    t = case["stack"]
    if case.get("mw"):
        t = {"t": "mode", "tag": MW_TAG, "inst": list(case.get("mw_inst", [])), "s": t}
    return go(t)


def node_class(case, n):
    """class-level part of a node: {"cls": {name: kind}, "fo": [group ids], "req": bool}; KDSubset / KDWrapper nodes with
    tag >= 10 use entry tag-10 of the case's class table (several nodes may share a class)"""
    if n["t"] in ("sub", "wrap") and n["tag"] >= 10:
        return case["classes"][n["tag"] - 10]
    return {"cls": n.get("cls", {}), "fo": n.get("fo", []), "req": bool(n.get("req", False))}


def o_own(case, n, name):
    """normal lookup on the node itself: (uid, kind code) or None (-> __getattr__): a property wins over the
    instance dict, the instance dict over methods / class attributes, a property raising AttributeError falls through"""
    kind = node_class(case, n)["cls"].get(name)
    if kind == "prop":
        return (n["uid"], 1)
    if kind == "prop_raise":
        return None
    if name in n.get("inst", []):
        return (n["uid"], KC_INST)
    if kind is not None:
        return (n["uid"], KINDS[kind][1])
    return None


def o_path(t):
    """the nodes that answer for a stack, outermost first: a concat answers with its first part"""
    out = []
    while True:
        out.append(t)
        if t["t"] == "root":
            return out
        if t["t"] == "cat":
            if not t["parts"]:
                return out
            t = t["parts"][0]
        else:
            t = t["s"]


def o_nearest(case, nodes, name):
    for n in nodes:
        r = o_own(case, n, name)
        if r is not None:
            return ["found", r[0], r[1]]
    return ["missing"]


def o_query(case, top, name):
    """expected observation of getattr(top, name) (called when callable) through the path of the stack"""
    path = o_path(top)
    if not name.startswith("getdim_"):
        return o_nearest(case, path, name)
    for i, n in enumerate(path):
        r = o_own(case, n, name)
        if r is not None:
            return ["found", r[0], r[1]]
        if n["t"] in ("root", "wrap"):
            # the first KDDataset-family layer answers the alias with ITS getshape_<kind>
            got = o_nearest(case, path[i:], "getshape_" + name[len("getdim_"):])
            return got if got[0] == "found" and got[2] == 0 else ["assert"]
    return ["missing"]


def o_preorder(t):
    yield t
    if t["t"] == "cat":
        for q in t["parts"]:
            yield from o_preorder(q)
    elif t["t"] != "root":
        yield from o_preorder(t["s"])


def o_attr_ctor_ok(case, top):
    return not any(n["t"] in ("root", "wrap", "mode") and any(nm.startswith("getdim_") for nm in node_class(case, n)["cls"])
                   for n in o_preorder(top))


# ---------------------------------------------------------------------------
# independent oracle: flatten the nesting with list operations
# ---------------------------------------------------------------------------
IK_BASE, IK_BUMP = 10 ** 6, 10 ** 5


def o_den(t, ik=None):
    """('fin', [samples]) or ('cyc', [[samples] per part]); None when the stack is outside the property's domain.
    ik = None: item x; ik = j: the j-th extra item kind of the case (case["ikinds"]): sample + (j+1)*IK_BASE at the roots,
    + IK_BUMP at every wrapper that redefines that kind on the way (node["ri"] == j)"""
    k = t["t"]
    if k == "root":
        return ("fin", [t["id"] * 1000 + j + (0 if ik is None else (ik + 1) * IK_BASE) for j in range(t["n"])])
    if k == "wrap":
        d = o_den(t["s"], ik)
        if d is None or ik is None or t.get("ri") != ik:
            return d
        return ("fin", [v + IK_BUMP for v in d[1]]) if d[0] == "fin" else ("cyc", [[v + IK_BUMP for v in q] for q in d[1]])
    if k == "sub":
        d = o_den(t["s"], ik)
        if d is None:
            return None
        out = []
        for i in t["idxs"]:
            v = o_at(d, i)
            if v is None:
                return None
            out.append(v)
        return ("fin", out)
    parts = [o_den(p, ik) for p in t["parts"]]
    if not parts or any(p is None or p[0] != "fin" for p in parts):
        return None
    if t["bal"]:
        if any(len(p[1]) == 0 for p in parts):
            return None
        return ("cyc", [p[1] for p in parts])
    return ("fin", [v for p in parts for v in p[1]])


def o_at(d, k):
    if d[0] == "fin":
        return d[1][k] if -len(d[1]) <= k < len(d[1]) else None
    if k < 0:
        return None
    # round-robin: enumerate the endless stream part by part
    stream = (part[j % len(part)] for j in itertools.count() for part in d[1])
    return next(itertools.islice(stream, k, None))


def o_roots(t):
    if t["t"] == "root":
        return [t["id"]]
    if t["t"] == "cat":
        return [r for p in t["parts"] for r in o_roots(p)]
    return o_roots(t["s"])


def o_chain(t):
    """(tags of the layers, root id) of a linear chain, None when a concat is met"""
    tags = []
    while t["t"] in ("sub", "wrap"):
        tags.append(t["tag"])
        t = t["s"]
    return (tags, t["id"]) if t["t"] == "root" else None


def o_getall_claimed(t):
    """concat parts give lists (KDConcatDataset asserts it)"""
    def part_is_list(p):
        while p["t"] == "wrap":
            p = p["s"]
        return p["t"] != "root" or p["pk"] in ("list", "ilist")

    def ok(t):
        if t["t"] == "root":
            return True
        if t["t"] == "cat":
            return all(ok(p) and part_is_list(p) for p in t["parts"])
        return ok(t["s"])
    return ok(t)


# ---------------------------------------------------------------------------
# access histories on the objects of one heap
# ---------------------------------------------------------------------------
def h_targets(case):
    """what the steps of case["acc"] may address: {("n", uid): node of the annotated tree (not the ModeWrapper),
    ("e", i): the i-th extra stack of case["extra"] with its {"t": "ref", "uid": u} leaves replaced by the nodes they
    share with the main stack}; entries with dangling references are left out"""
    top = annotate(case)
    nodes = {n["uid"]: n for n in o_preorder(top) if n["t"] != "mode"}
    out = {("n", u): n for u, n in nodes.items()}

    def subst(e):
        if e["t"] == "ref":
            return nodes.get(e["uid"])
        if e["t"] == "cat":
            parts = [subst(q) for q in e["parts"]]
            return None if any(q is None for q in parts) or not parts else {"t": "cat", "bal": False, "parts": parts}
        inner = subst(e["s"])
        if inner is None:
            return None
        if e["t"] == "sub":
            return {"t": "sub", "tag": 0, "idxs": list(e["idxs"]), "ic": "list", "s": inner}
        return {"t": "wrap", "tag": 2, "s": inner}
    for i, e in enumerate(case.get("extra", [])):
        t = subst(e)
        if t is not None:
            out[("e", i)] = t
    return out


def h_order(case):
    """the objects re-checked after the history: the extras, then every node of the main stack, outermost first"""
    tg = h_targets(case)
    return sorted([k for k in tg if k[0] == "e"]) + sorted([k for k in tg if k[0] == "n"], key=lambda k: k[1])


def o_expect(t, op, k=None):
    """what a step on the stack t must return, from the index map alone; None = nothing claimed"""
    d = o_den(t)
    if d is None:
        return None
    no_provider = t_has(t, lambda n: n["t"] == "root" and n["pk"] == "none")
    balanced = t_has(t, lambda n: n["t"] == "cat" and n["bal"])
    has_all = not no_provider and not balanced
    if op == "len":
        return ["len", len(d[1])] if d[0] == "fin" else None
    if op == "item":
        v = o_at(d, k)
        return None if v is None else ["item", v]
    if d[0] != "fin":
        return None
    if op == "getall":
        return ["all", d[1]] if has_all and o_getall_claimed(t) else None
    return ["all", d[1]] if (not has_all or o_getall_claimed(t)) else None


def o_step(t, a, r):
    """None, or why the observed result r of step a on the stack t is wrong"""
    exp = o_expect(t, a["op"], a.get("k"))
    if a["op"] in ("getall", "util"):
        if r[0] == "ok" and o_den(t) is not None and o_den(t)[0] == "fin" and o_getall_claimed(t) and r[2] != o_den(t)[1]:
            return f"returned {r[2]}, the index map / the per-sample accessor gives {o_den(t)[1]}"
        if exp is not None and (r[0] != "ok" or r[2] != exp[1]):
            return f"returned {r}, the index map / the per-sample accessor gives {exp[1]}"
        return None
    if exp is not None and r != exp[1]:
        return f"returned {r}, the index map gives {exp[1]}"
    return None


def o_history(case, obs):
    """accessors are pure: every step of the history returns what the index map says (whatever was called before, on
    this or on any other stack sharing objects with it -- so getall is idempotent), afterwards EVERY object still
    answers len / getall / getitem as its own index map says, no container kept by a root dataset was touched, and no
    object handed out by an accessor was changed by a later call"""
    h = obs.get("h")
    if h is None:
        return None
    tg = h_targets(case)
    for t_, (a, r) in enumerate(zip(case.get("acc", []), h["steps"])):
        key = tuple(a["on"])
        if key not in tg or r == ["skip"]:
            continue
        msg = o_step(tg[key], a, r)
        if msg:
            before = [b["op"] + "@" + "".join(map(str, b["on"])) for b in case["acc"][:t_]]
            return (f"history step #{t_} {a['op']}{'(' + str(a['k']) + ')' if a['op'] == 'item' else ''} on "
                    f"{_tname(a['on'])} = {t_shape(tg[key])} {msg} (steps before it: {before})")
    for pno, pas in enumerate(h["after"]):
        for key, rec in zip(h_order(case), pas):
            t = tg[key]
            if rec["getall"] == ["skip"]:
                continue
            for op, r in (("len", rec["len"]), ("getall", rec["getall"])):
                msg = o_step(t, {"op": op}, r)
                if msg:
                    return (f"after the history (re-check pass {pno + 1}): {op} on {_tname(key)} = {t_shape(t)} {msg} "
                            f"(every object must still answer as its own index map says after the accesses before)")
            for k, v in enumerate(rec["items"]):
                msg = o_step(t, {"op": "item", "k": k}, v)
                if msg:
                    return (f"after the history (re-check pass {pno + 1}): getitem_x({k}) on {_tname(key)} = {t_shape(t)} "
                            f"{msg} (every object must still answer as its own index map says after the accesses before)")
    for uid, same, before, after in h["roots"]:
        if not same or before != after:
            return (f"the container kept by root node {uid} was {'replaced' if not same else 'mutated'} by the accessor "
                    f"calls: {before} -> {after} (accessors must not write to what a dataset keeps)")
    for step, at_return, now in h["returned"]:
        if at_return != now:
            return (f"the object returned by history step #{step} ({case['acc'][step]['op']} on "
                    f"{_tname(case['acc'][step]['on'])}) was changed by a later accessor call: {at_return} -> {now}")
    return None


def _tname(on):
    return f"node {on[1]}" if on[0] == "n" else f"extra stack {on[1]}"


def o_ikinds(case, obs):
    """the other item kinds (names with underscores / digits / prefixes of each other, different values per kind, some
    redefined by a wrapper on the way): getitem_<kind>(k) is entry k of the same composed index map over THAT kind's
    values, getall_<kind>() the whole map"""
    t = case["stack"]
    for j, items, hasall, ga in obs.get("ik") or []:
        kind = case["ikinds"][j]
        d = o_den(t, j)
        if d is None:
            continue
        for k, it in zip(case["ks"], items):
            exp = o_at(d, k)
            if exp is not None and it != exp:
                return (f"getitem_{kind}({k}) = {it}, the composed index map over the values of {kind!r} gives {exp} "
                        f"(kind offsets: {[(q, (i + 1) * IK_BASE) for i, q in enumerate(case['ikinds'])]}, +{IK_BUMP} per "
                        f"redefining wrapper)")
        no_provider = t_has(t, lambda n: n["t"] == "root" and n["pk"] == "none")
        balanced = t_has(t, lambda n: n["t"] == "cat" and n["bal"])
        if d[0] == "fin" and not no_provider and not balanced:
            if not hasall or ga[0] != "ok" or ga[2] != d[1]:
                return f"hasattr(stack, 'getall_{kind}') = {hasall}, getall_{kind}() = {ga}; the index map over {kind!r} gives {d[1]}"
    return None


# ---------------------------------------------------------------------------
# kept accessors and re-sampled index maps (case["mut"]): a history on a second, fresh copy of the stack
#   {"op": "keep", "slot": j, "on": uid, "what": "item" | "all" | "mw"}   fetch node.getitem_x / node.getall_x /
#                                                                         build ModeWrapper(node, mode="x") and KEEP it
#   {"op": "set", "on": uid, "idxs": [...], "ic": container, "how": "assign" | "inplace"}
#                                                        node.indices = container(idxs)  /  node.indices[:] = idxs
# after every step every kept accessor and a freshly fetched one are asked for every k
# ---------------------------------------------------------------------------
def m_tree(case):
    """annotated tree of the mutation phase (the caching wrappers are a device of the purity phase: not used here)"""
    top = annotate(case)
    for n in o_preorder(top):
        n.pop("ga", None)
    return top


def m_nodes(top):
    return {n["uid"]: n for n in o_preorder(top) if n["t"] != "mode"}


def m_sizes(top):
    return {n["uid"]: [t_len(q) for q in n["parts"]] for n in o_preorder(top) if n["t"] == "cat"}


def m_cats_fresh(t, sizes0):
    """torch's ConcatDataset computes its cumulative sizes once: the index map of a concat is claimed while its parts
    have the lengths they were concatenated with"""
    return all(sizes0.get(n["uid"]) == [t_len(q) for q in n["parts"]] for n in o_preorder(t) if n["t"] == "cat")


def m_inplace(n, st):
    """can the step be done as an edit of the container the layer holds now?"""
    cur = n.get("ic", "list")
    return st["how"] == "inplace" and (cur == "list" or (cur in ("np", "torch") and len(st["idxs"]) == len(n["idxs"])))


def m_apply(nodes, st):
    """the tree after a "set" step; False when the step does not address a subset layer"""
    n = nodes.get(st["on"])
    if n is None or n["t"] != "sub":
        return False
    if not m_inplace(n, st):
        n["ic"] = st["ic"] if st["ic"] != "range" or is_range(st["idxs"]) else "list"
    n["idxs"] = list(st["idxs"])
    return True


def m_ks(t):
    n = t_len(t)
    if n is None:
        return list(range(7))
    return [k for k in range(-n, n) if k < 3 - n or -3 <= k < 3 or k >= n - 3] + [n]


def m_replay(case, obs):
    """walks the recorded mutation phase: yields (step number, step, slots, probe record, node tree NOW, concats fresh)"""
    m = obs.get("m")
    if not m:
        return
    top = m_tree(case)
    nodes = m_nodes(top)
    sizes0 = m_sizes(top)
    slots = {}
    for i, (st, rec) in enumerate(zip(case.get("mut", []), m)):
        if not rec["ok"]:
            continue
        if st["op"] == "keep":
            slots[st["slot"]] = (st["on"], st["what"], i)
        else:
            m_apply(nodes, st)
        for pr in rec["probes"]:
            uid = slots[pr[0]][0]
            yield i, st, slots, pr, nodes[uid], m_cats_fresh(nodes[uid], sizes0)


def o_mut(case, obs):
    """a kept accessor answers like a freshly fetched one, and both as the CURRENT index maps of the layers say"""
    for i, st, slots, (j, k, kept, fresh), t, cats in m_replay(case, obs):
        uid, what, at = slots[j]
        acc = {"item": "getitem_x", "all": "getall_x", "mw": "ModeWrapper(., mode='x')"}[what]
        done = [f"{b['op']}@{b['on']}" + (f"={b['idxs']}({b['how']})" if b["op"] == "set" else "") for b in case["mut"][:i + 1]]
        where = (f"node {uid} = {t_shape(t)}: {acc} obtained at step #{at} and kept, "
                 + (f"asked for k={k} " if what != "all" else "called ") + f"after step #{i} (history: {done})")
        if kept != fresh:
            return f"{where}: the kept accessor answers {kept}, a freshly fetched one {fresh}"
        if not cats:
            continue
        msg = o_step(t, {"op": "getall"}, kept) if what == "all" else o_step(t, {"op": "item", "k": k}, kept)
        if msg:
            return f"{where}: {msg} (the index maps as they are NOW)"
    return None


def oracle(case, obs):
    if "harness_exception" in obs:
        return "harness exception: " + obs["harness_exception"] + obs.get("tb", "")
    t = case["stack"]
    d = o_den(t)
    attr_ok = o_attr_ctor_ok(case, annotate(case))
    if not attr_ok:
        # KDDataset.__init__ refuses classes that define getdim_* themselves (getshape_* is the primitive)
        return None if not obs["ctor"] else "a KDDataset-family class defining getdim_<kind> itself was accepted"
    if obs["ctor"]:
        # introspection does not depend on the subset entries being valid indices
        msg = o_attr(case, obs)
        if msg:
            return msg
    if d is None:
        # (the sub-stacks addressed by the history may be valid all the same)
        return (o_history(case, obs) or o_mut(case, obs)) if obs["ctor"] else None
    if not obs["ctor"]:
        return "a valid stack could not be constructed: " + str(obs.get("ctor_err"))
    if d[0] == "fin":
        if obs["len"] != len(d[1]):
            return f"len(stack) = {obs['len']} but the index map has {len(d[1])} entries"
    for k, it in zip(case["ks"], obs["items"]):
        exp = o_at(d, k)
        if exp is not None and it != exp:
            return f"getitem_x({k}) = {it}, the composed index map gives {exp} (root {exp // 1000} item {exp % 1000})"
    # getall_x is offered when every root provides it and no endless (balanced) concat is below; wherever it is offered
    # -- whatever hasattr says -- a returned list must be the index map (agreement with getitem_x element by element)
    no_provider = t_has(t, lambda n: n["t"] == "root" and n["pk"] == "none")
    balanced = t_has(t, lambda n: n["t"] == "cat" and n["bal"])
    has_all = not no_provider and not balanced
    if d[0] == "fin" and obs["getall"][0] == "ok" and o_getall_claimed(t) and obs["getall"][2] != d[1]:
        return (f"getall_x() = {obs['getall'][2]} but getitem_x over range(len) / the index map gives {d[1]}"
                + (" (balanced concat below)" if balanced else ""))
    if obs["hasall"] != has_all and not balanced:
        # (over a balanced concat the claim is on the lists returned -- above and below; that hasattr is False there is
        # how the repaired code achieves it and is left to the model comparison)
        return f"hasattr(stack, 'getall_x') = {obs['hasall']} although " + (
            "every root provides getall_x" if has_all else
            "a root below has no getall_x" if no_provider else "a balanced (endless) concat is below")
    if has_all and o_getall_claimed(t):
        if obs["getall"] != ["ok", obs["getall"][1], d[1]] or d[0] != "fin":
            return f"getall_x() = {obs['getall']} but the per-sample accessor / index map gives {d[1]}"
    if d[0] == "fin" and (not has_all or o_getall_claimed(t)):
        for nm in ("util", "util_list", "util_numpy", "util_tensor"):
            if obs[nm][0] != "ok" or obs[nm][2] != d[1]:
                return f"utils.{nm.replace('util', 'getall').replace('getall_', 'getall_as_')}(stack,'x') = {obs[nm]} but the index map gives {d[1]}"
    msg = o_history(case, obs) or o_mut(case, obs) or o_ikinds(case, obs)
    if msg:
        return msg
    if sorted(obs["dispose"]) != sorted(o_roots(t)) or obs["dispose"] != o_roots(t):
        return f"dispose() reached roots {obs['dispose']}, the stack contains roots {o_roots(t)}"
    ch = o_chain(t)
    if ch is not None:
        tags, rid = ch
        if case.get("mw"):
            tags = [MW_TAG] + tags
        if obs["root"] != rid:
            return f"root_dataset is root {obs['root']}, the chain ends in root {rid}"
        if obs["attr"] != [rid, rid + 3, rid + 3]:
            return f"attribute / getshape_x / getdim_x delegation gave {obs['attr']} for root {rid}"
        if obs["wrappers"] != tags:
            return f"all_wrapper_types = {obs['wrappers']}, the chain's layers are {tags}"
        for tg, ps in obs["oftype"]:
            if ps != [i for i, x in enumerate(tags) if x == tg]:
                return f"get_wrappers_of_type(tag {tg}) returned the layers at {ps} of {tags}"
        for tg, b in obs["hastype"]:
            if b != (tg in tags):
                return f"has_wrapper_type(tag {tg}) = {b} for layers {tags}"
    return None


def o_attr(case, obs):
    """attribute delegation and introspection, stated on the annotated tree"""
    a = obs.get("a")
    if a is None:
        return None
    top = annotate(case)
    nodes = list(o_preorder(top))
    roots = [n["uid"] for n in nodes if n["t"] == "root"]
    if a["dispose"] != roots:
        return f"dispose() disposed the roots (uids) {a['dispose']}, the stack contains {roots}" + \
            (" below a ModeWrapper" if case.get("mw") else "")
    if a["with"] != roots:
        return f"leaving `with stack:` disposed the roots (uids) {a['with']}, the stack contains {roots}"
    reach = [n["uid"] for n in nodes if n["t"] in ("root", "wrap")]
    if a["wreach"] != reach:
        return f"worker_init_fn(0) reached the KDWrapper / root nodes {a['wreach']}, the stack contains {reach}"
    path = o_path(top)
    linear = path[-1]["t"] == "root" and len(path) == len(nodes)
    for nm, got in a["queries"]:
        if nm.startswith(("getitem_", "getall_")) or nm == "__getitems__":
            continue
        exp = o_query(case, top, nm)
        if got != exp:
            return (f"getattr(stack, {nm!r}) gave {got}; the nearest provider through "
                    f"{'the chain' if linear else 'the first parts'} is {exp} (found: [node uid, kind code]"
                    + (f"; it was answered by the definition of {got[3]!r}, another name" if got[0] == "wrongname" else "")
                    + ")")
    for nm, got in a.get("dimcall", []):
        # stack.getdim(<kind>): answered by the first layer that HAS getdim (KDDataset family, a ModeWrapper included)
        # with the nearest getshape_<kind> from there on; equals the alias getdim_<kind>() unless the alias name itself
        # is defined on a layer or a ModeWrapper stands above a KDSubset subclass defining getshape_<kind>
        kind = nm[len("getdim_"):]
        exp = ["missing"]
        for i, n in enumerate(path):
            if n["t"] in ("root", "wrap", "mode"):
                r = o_nearest(case, path[i:], "getshape_" + kind)
                exp = r if r[0] == "found" and r[2] == 0 else ["assert"]
                break
        if got != exp:
            return (f"stack.getdim({kind!r}) gave {got}; getshape_{kind} seen from the first KDDataset-family layer is {exp}")
        alias = dict((q, r) for q, r in a["queries"]).get(nm)
        if alias is not None and got != alias and not case.get("mw") and not any(o_own(case, n, nm) is not None for n in path):
            return (f"stack.{nm}() gave {alias} but stack.getdim({kind!r}) gave {got} "
                    f"(the alias must resolve exactly the kind after 'getdim_')")
    if a["root"] != path[-1]["uid"] and path[-1]["t"] == "root":
        return f"root_dataset is node {a['root']}, the chain ends in node {path[-1]['uid']}"
    layers = [n for n in path if n["t"] in ("sub", "wrap", "mode")]
    if a["wrappers"] != [n["uid"] for n in layers]:
        return f"all_wrappers are the nodes {a['wrappers']}, the layers of the chain are {[n['uid'] for n in layers]}"
    for uid, b in a["haswrap"]:
        if b != (uid in [n["uid"] for n in layers]):
            return f"has_wrapper(<node {uid}>) = {b}; the layers of the chain are {[n['uid'] for n in layers]}"
    tags = [n["tag"] for n in layers]
    for tg, r in a["oftype1"]:
        pos = [i for i, x in enumerate(tags) if x == tg]
        exp = ["none"] if not pos else (["at", pos[0]] if len(pos) == 1 else ["assert"])
        if r != exp:
            return f"get_wrapper_of_type(tag {tg}) gave {r}, the chain's layer tags are {tags} (expected {exp})"
    if path[-1]["t"] == "root":
        rootn = path[-1]
        has_cat = any(n["t"] == "cat" for n in path)
        if not has_cat and a["coll"] != list(rootn.get("coll", [])):
            return f"collators = {a['coll']}, the root registers {rootn.get('coll', [])}"
        if not case.get("mw") and not has_cat:
            fo = list(rootn.get("fo", []))
            for n in reversed(layers):
                if n["t"] == "wrap":
                    fo += list(node_class(case, n)["fo"])
            if a["fused"] != fo:
                return f"fused_operations (group ids) = {a['fused']}, root + wrappers inside-out declare {fo}"
    if not case.get("mw"):
        # a stack requires ctx propagation when some layer on the way to ANY of its roots does (a concat: any part --
        # otherwise the loaders of that part would be handed ctx=None)
        def req_of(n):
            if n["t"] == "root":
                return bool(n.get("req"))
            if n["t"] == "cat":
                return any(req_of(q) for q in n["parts"])
            return (n["t"] == "wrap" and node_class(case, n)["req"]) or req_of(n["s"])
        if a["req"] != req_of(top):
            return f"requires_propagate_ctx = {a['req']}, the layers / parts of the stack declare {req_of(top)}"
    if case.get("mw") and (a["fused"] != "RuntimeError" or a["req"] != "RuntimeError"):
        return f"ModeWrapper.fused_operations / requires_propagate_ctx must refuse: {a['fused']} / {a['req']}"
    return None


# ---------------------------------------------------------------------------
# running the real code
# ---------------------------------------------------------------------------
_CLASSES = {}


class Tok:
    """what a definition of an attribute environment answers: (uid of the node it was found on, kind code)"""
    def __init__(self, uid, kc, name=None):
        self.uid, self.kc, self.name = uid, kc, name


class _ClassAttr:
    """a plain class attribute (non-data descriptor: the instance dict wins over it) that knows the node it is read on"""
    def __init__(self, name=None):
        self.name = name

    def __get__(self, obj, typ=None):
        return self if obj is None else Tok(obj._uid, 2, self.name)


def _raise_attr(self):
    raise AttributeError("property getter failed")


def _cls_namespace(cls_env):
    ns = {}
    for name, kind in cls_env.items():
        # (every definition answers with a token that also carries the NAME it was defined under: the per-kind value that
        # makes a lookup resolved under another name visible)
        if kind == "method":
            if name.startswith("getshape_"):
                ns[name] = lambda self, nm=name: (Tok(self._uid, 0, nm),)
            else:
                ns[name] = lambda self, nm=name: Tok(self._uid, 0, nm)
        elif kind == "shape2":
            ns[name] = lambda self, nm=name: (Tok(self._uid, 4, nm), 7)
        elif kind == "shapent":
            ns[name] = lambda self, nm=name: [Tok(self._uid, 5, nm)]
        elif kind == "prop":
            ns[name] = property(lambda self, nm=name: Tok(self._uid, 1, nm))
        elif kind == "prop_raise":
            ns[name] = property(_raise_attr)
        elif kind == "cattr":
            ns[name] = _ClassAttr(name)
    return ns


def _classes():
    if _CLASSES:
        return _CLASSES
    import numpy as np
    import torch
    from kappadata.datasets.kd_concat_dataset import KDConcatDataset
    from kappadata.datasets.kd_dataset import KDDataset
    from kappadata.datasets.kd_subset import KDSubset
    from kappadata.datasets.kd_wrapper import KDWrapper
    from kappadata.wrappers.mode_wrapper import ModeWrapper

    class Coll:
        def __init__(self, cid):
            self.cid = cid

        def set_rng(self, rng):
            pass

    class Root(KDDataset):
        def __init__(self, id, n, log, coll=()):
            super().__init__(collators=[Coll(c) for c in coll] or None)
            self.id = id
            self.marker = id
            self.x = [id * 1000 + j for j in range(n)]
            self.log = log

        def __len__(self):
            return len(self.x)

        def getitem_x(self, idx, ctx=None):
            return self.x[idx]

        def getshape_x(self):
            return (self.id + 3,)

        def dispose(self):
            self.log.append(self.id)

        def worker_init_fn(self, rank, **kwargs):
            self.wlog.append(self._uid)
            super().worker_init_fn(rank, **kwargs)

    class RootList(Root):
        def getall_x(self):
            return list(self.x)

    class RootNp(Root):
        def getall_x(self):
            return np.array(self.x, dtype=np.int64)

    class RootTorch(Root):
        def getall_x(self):
            return torch.tensor(self.x, dtype=torch.long)

    # the ordinary way to write getall_*: hand out the container the dataset keeps (`return self.targets`), no copy
    class RootIList(Root):
        def getall_x(self):
            return self.x

    class RootINp(Root):
        def __init__(self, *a, **kw):
            super().__init__(*a, **kw)
            self._all = np.array(self.x, dtype=np.int64)

        def getall_x(self):
            return self._all

    class RootITorch(Root):
        def __init__(self, *a, **kw):
            super().__init__(*a, **kw)
            self._all = torch.tensor(self.x, dtype=torch.long)

        def getall_x(self):
            return self._all

    class SubA(KDSubset):
        pass

    class WrapA(KDWrapper):
        pass

    class WrapB(KDWrapper):
        pass

    _CLASSES.update(root={"none": Root, "list": RootList, "np": RootNp, "torch": RootTorch,
                          "ilist": RootIList, "inp": RootINp, "itorch": RootITorch},
                    tag={0: KDSubset, 1: SubA, 2: KDWrapper, 3: WrapA, 4: WrapB, MW_TAG: ModeWrapper},
                    cat=KDConcatDataset, np=np, torch=torch, KDWrapper=KDWrapper, KDSubset=KDSubset,
                    ModeWrapper=ModeWrapper)
    return _CLASSES


def _groups(ids):
    return [[f"g{g}a", f"g{g}b"] for g in ids]


def _with_overrides(K, base, spec):
    """dynamic subclass of `base` carrying the class-level definitions of `spec` (node_class form); for KDWrapper
    classes also the fused_operations / requires_propagate_ctx overrides"""
    ns = _cls_namespace(spec["cls"])
    if issubclass(base, K["KDWrapper"]):
        if spec.get("fo"):
            ns["fused_operations"] = property(
                lambda self, add=_groups(spec["fo"]): super(type(self), self).fused_operations + [list(g) for g in add])
        if spec.get("req"):
            ns["requires_propagate_ctx"] = property(lambda self: True)
    return type(base.__name__ + "X", (base,), ns)


def build(case, t, env):
    """t: annotated node; env: {"log", "wlog", "objs": {uid: object}, "table": {tag: class}}"""
    K = _classes()
    k = t["t"]
    if k == "root":
        base = K["root"][t["pk"]]
        ns = _cls_namespace(t.get("cls", {}))
        if t.get("fo"):
            ns["fused_operations"] = property(lambda self, fo=_groups(t["fo"]): [list(g) for g in fo])
        if t.get("req"):
            ns["requires_propagate_ctx"] = property(lambda self: True)
        cls = type(base.__name__ + "X", (base,), ns) if ns else base
        o = cls(t["id"], t["n"], env["log"], coll=t.get("coll", ()))
        o.wlog = env["wlog"]
    elif k == "sub":
        inner = build(case, t["s"], env)
        o = _layer_class(case, t, env)(inner, _container(t["idxs"], t.get("ic")))
    elif k == "wrap":
        o = _layer_class(case, t, env)(build(case, t["s"], env))
        uid = t["uid"]
        o.__dict__["_worker_init_fn"] = lambda rank, **kw: env["wlog"].append(uid)
        if t.get("ga") == "cache" and hasattr(o.dataset, "getall_x"):
            # a wrapper that keeps the bulk result it computed once and hands out that very object on every call
            # (KDRandomClassWrapper.getall_class style)
            def cached_getall(o=o):
                if "_ga_cache" not in o.__dict__:
                    import copy
                    o.__dict__["_ga_cache"] = copy.copy(o.dataset.getall_x())
                return o.__dict__["_ga_cache"]
            o.__dict__["getall_x"] = cached_getall
    elif k == "mode":
        o = K["ModeWrapper"](build(case, t["s"], env), mode="index")
    else:
        parts = [build(case, q, env) for q in t["parts"]]
        cls = K["cat"]
        if t.get("cls"):
            cls = type("KDConcatDatasetX", (cls,), _cls_namespace(t["cls"]))
        o = cls(parts, balanced_sampling=t["bal"])
    o.__dict__["_uid"] = t["uid"]
    for j, kind in enumerate(case.get("ikinds") or []):
        # the other item kinds: every root provides them (getall_ unless the root provides no getall_x either), a
        # wrapper with "ri" == j redefines kind j on top of the layer below
        if k == "root":
            o.__dict__["getitem_" + kind] = lambda idx, ctx=None, o=o, off=(j + 1) * IK_BASE: o.x[idx] + off
            if t["pk"] != "none":
                o.__dict__["getall_" + kind] = lambda o=o, off=(j + 1) * IK_BASE: [v + off for v in o.x]
        elif k == "wrap" and t.get("ri") == j:
            o.__dict__["getitem_" + kind] = \
                lambda idx, ctx=None, o=o, nm="getitem_" + kind: getattr(o.dataset, nm)(idx) + IK_BUMP
            if hasattr(o.dataset, "getall_" + kind):
                o.__dict__["getall_" + kind] = lambda o=o, nm="getall_" + kind: [v + IK_BUMP for v in getattr(o.dataset, nm)()]
    for name in t.get("inst", []):
        o.__dict__[name] = Tok(t["uid"], KC_INST, name)
    env["objs"][t["uid"]] = o
    return o


def _container(idxs, ic):
    K = _classes()
    if ic == "np":
        return K["np"].array(idxs, dtype=K["np"].int64)
    if ic == "torch":
        return K["torch"].tensor(idxs, dtype=K["torch"].long)
    if ic == "tuple":
        return tuple(idxs)
    if ic == "range" and is_range(idxs):
        return _as_range(idxs)
    return list(idxs)


def _as_range(idxs):
    """range(...) with exactly these entries (the generator only asks for it when there is one)"""
    if len(idxs) == 0:
        return range(0)
    if len(idxs) == 1:
        return range(idxs[0], idxs[0] + 1)
    step = idxs[1] - idxs[0]
    r = range(idxs[0], idxs[-1] + (1 if step > 0 else -1), step)
    assert list(r) == list(idxs)
    return r


def is_range(idxs):
    if len(idxs) < 2:
        return all(i >= 0 for i in idxs)
    step = idxs[1] - idxs[0]
    return step != 0 and all(b - a == step for a, b in zip(idxs, idxs[1:])) and all(i >= 0 for i in idxs)


def _layer_class(case, t, env):
    K = _classes()
    tag = t["tag"]
    if tag < 10:
        return K["tag"][tag]
    if tag not in env["table"]:
        spec = case["classes"][tag - 10]
        env["table"][tag] = _with_overrides(K, K["KDSubset"] if spec["base"] == "sub" else K["KDWrapper"], spec)
    return env["table"][tag]


def _ints(v):
    K = _classes()
    if K["torch"].is_tensor(v) or isinstance(v, K["np"].ndarray):
        return [int(a) for a in v.tolist()]
    return [int(a) for a in v]


def _call(f):
    try:
        return f()
    except EXPECTED_ERRORS as e:
        return ("err", type(e).__name__)


def _decode(v, name=None):
    if isinstance(v, (tuple, list)) and v and isinstance(v[0], Tok):
        v = v[0]
    if isinstance(v, Tok):
        if name is not None and v.name is not None:
            # getdim_<kind> is answered by a definition of getdim_<kind> or getshape_<kind> for exactly that <kind>,
            # every other name by a definition of that very name
            okn = (name, "getshape_" + name[len("getdim_"):]) if name.startswith("getdim_") else (name,)
            if v.name not in okn:
                return ["wrongname", v.uid, v.kc, v.name]
        return ["found", v.uid, v.kc]
    return ["other", repr(v)[:60]]


def _query(top, name, call=None):
    try:
        v = getattr(top, name) if call is None else call()
    except AttributeError:
        return ["missing"]
    except AssertionError:
        return ["assert"]
    if call is None and callable(v) and not isinstance(v, Tok):
        try:
            v = v()
        except AssertionError:
            return ["assert"]
        except AttributeError:
            return ["missing-on-call"]
    return _decode(v, name)


def _build_extra(e, objs):
    K = _classes()
    if e["t"] == "ref":
        return objs[e["uid"]]
    if e["t"] == "cat":
        return K["cat"]([_build_extra(q, objs) for q in e["parts"]], balanced_sampling=False)
    if e["t"] == "sub":
        return K["tag"][0](_build_extra(e["s"], objs), list(e["idxs"]))
    return K["tag"][2](_build_extra(e["s"], objs))


def _history(case, top, env, bulk):
    """runs case["acc"] on the real objects (the nodes of the stack and the extra stacks built over them), then
    re-queries every object twice; identity and content snapshots of the containers the roots keep and of every
    object an accessor handed out"""
    from kappadata.utils.getall_as_tensor import getall
    tg = h_targets(case)
    objs = {}
    for key in tg:
        try:
            objs[key] = env["objs"][key[1]] if key[0] == "n" else _build_extra(case["extra"][key[1]], env["objs"])
        except EXPECTED_ERRORS:
            pass
    roots = [(u, env["objs"][u]) for (kind, u), n in sorted(tg.items()) if kind == "n" and n["t"] == "root"]

    def kept(o):
        return [o.x] + ([o._all] if hasattr(o, "_all") else [])
    before = [(u, kept(o), [_ints(c) for c in kept(o)]) for u, o in roots]
    returned = []

    def query(obj, op, k=None, step=None):
        if op == "len":
            r = _call(lambda: len(obj))
            return None if isinstance(r, tuple) else int(r)
        if op == "item":
            r = _call(lambda: obj.getitem_x(k))
            return None if isinstance(r, tuple) else int(r)
        if op == "getall" and not hasattr(obj, "getall_x"):
            return ["missing", None, None]
        keep = []

        def f():
            v = obj.getall_x() if op == "getall" else getall(obj, "x")
            keep.append(v)
            return v
        r = bulk(f)
        if keep and step is not None and r[0] == "ok":
            returned.append((step, keep[0], list(r[2])))
        return r
    steps = []
    for t_, a in enumerate(case.get("acc", [])):
        obj = objs.get(tuple(a["on"]))
        steps.append(["skip"] if obj is None else query(obj, a["op"], a.get("k"), t_))
    after = []
    for _ in range(2):
        pas = []
        for key in h_order(case):
            obj = objs.get(key)
            if obj is None:
                pas.append({"len": None, "getall": ["skip"], "items": []})
                continue
            n = query(obj, "len")
            pas.append({"len": n, "getall": query(obj, "getall"),
                        "items": [query(obj, "item", k) for k in range(min(n or 0, 30))]})
        after.append(pas)
    return {"steps": steps, "after": after,
            "roots": [[u, all(a is b for a, b in zip(cs, kept(o))), snap, [_ints(c) for c in kept(o)]]
                      for (u, cs, snap), (_, o) in zip(before, roots)],
            "returned": [[st, snap, _ints(v)] for st, v, snap in returned]}


def _mut_history(case, bulk):
    """the mutation phase on a fresh copy of the stack (see m_tree): kept accessors vs freshly fetched ones"""
    K = _classes()
    steps = case.get("mut") or []
    if not steps:
        return None
    top = m_tree(case)
    env = {"log": [], "wlog": [], "objs": {}, "table": {}}
    try:
        build(case, top, env)
    except EXPECTED_ERRORS:
        return None
    nodes = m_nodes(top)

    def fetch(obj, what):
        if what == "item":
            return getattr(obj, "getitem_x")
        if what == "all":
            return getattr(obj, "getall_x", None)
        try:
            return K["ModeWrapper"](obj, mode="x")
        except (AssertionError, RuntimeError, TypeError):
            return None

    def ask(acc, what, k):
        if acc is None:
            return "unavailable"
        try:
            r = _call(lambda: acc(k) if what == "item" else acc[k])
        except (AttributeError, TypeError) as e:
            return type(e).__name__ + ": " + str(e)[:80]
        return None if isinstance(r, tuple) else int(r)
    slots = {}
    out = []
    for st in steps:
        ok = False
        obj = env["objs"].get(st["on"])
        n = nodes.get(st["on"])
        if st["op"] == "keep" and n is not None:
            acc = fetch(obj, st["what"])
            if acc is not None:
                slots[st["slot"]] = (st["on"], st["what"], acc)
                ok = True
        elif st["op"] == "set" and n is not None and n["t"] == "sub":
            if m_inplace(n, st):
                obj.indices[:] = _container(st["idxs"], n.get("ic", "list"))
            else:
                obj.indices = _container(st["idxs"], st["ic"])
            ok = m_apply(nodes, st)
        rec = {"ok": ok, "probes": []}
        if ok:
            for j, (uid, what, acc) in sorted(slots.items()):
                fresh = fetch(env["objs"][uid], what)
                if what == "all":
                    rec["probes"].append([j, None, bulk(acc), ["missing", None, None] if fresh is None else bulk(fresh)])
                else:
                    for k in m_ks(nodes[uid]):
                        rec["probes"].append([j, k, ask(acc, what, k), ask(fresh, what, k)])
        out.append(rec)
    return out


def all_tags(case):
    return sorted(set(range(5)) | {10 + i for i in range(len(case.get("classes", [])))} | ({MW_TAG} if case.get("mw") else set()))


def run_impl(case):
    K = _classes()
    from kappadata.utils.getall_as_tensor import getall, getall_as_list, getall_as_numpy, getall_as_tensor
    log = []
    env = {"log": log, "wlog": [], "objs": {}, "table": {}}
    top = annotate(case)
    try:
        s = build(case, top, env)
    except EXPECTED_ERRORS as e:
        return {"ctor": False, "ctor_err": type(e).__name__}
    obs = {"ctor": True}
    r = _call(lambda: len(s))
    obs["len"] = None if isinstance(r, tuple) else int(r)
    items = []
    for k in case["ks"]:
        if case.get("kty") == "np":
            k = K["np"].int64(k)
        elif case.get("kty") == "torch":
            k = K["torch"].tensor(k)
        r = _call(lambda: s.getitem_x(k))
        items.append(None if isinstance(r, tuple) else int(r))
    obs["items"] = items
    obs["hasall"] = hasattr(s, "getall_x")

    def bulk(f):
        try:
            v = f()
        except EXPECTED_ERRORS as e:
            return ["err", type(e).__name__, None]
        except AttributeError as e:
            return ["attr", str(e)[:80], None]
        return ["ok", isinstance(v, list), _ints(v)]
    obs["getall"] = bulk(lambda: s.getall_x()) if obs["hasall"] else ["missing", None, None]
    obs["util"] = bulk(lambda: getall(s, "x"))
    obs["util_list"] = bulk(lambda: getall_as_list(s, "x"))
    obs["util_numpy"] = bulk(lambda: getall_as_numpy(s, "x"))
    obs["util_tensor"] = bulk(lambda: getall_as_tensor(s, "x"))
    obs["h"] = _history(case, top, env, bulk)
    obs["m"] = _mut_history(case, bulk)
    ik = []
    for j, kind in enumerate(case.get("ikinds") or []):
        its = []
        for k in case["ks"]:
            try:
                r = _call(lambda: getattr(s, "getitem_" + kind)(k))
            except (AttributeError, TypeError) as e:
                its.append(type(e).__name__ + ": " + str(e)[:80])
                continue
            its.append(None if isinstance(r, tuple) else int(r))
        has = hasattr(s, "getall_" + kind)
        ik.append([j, its, has, bulk(lambda: getattr(s, "getall_" + kind)()) if has else ["missing", None, None]])
    obs["ik"] = ik
    obs["root"] = s.root_dataset.id
    obs["attr"] = [s.marker, s.getshape_x()[0], s.getdim_x()]
    ws = s.all_wrappers
    tag_of = {}
    for tg in all_tags(case):
        tag_of[K["tag"][tg] if tg < 10 or tg == MW_TAG else _layer_class(case, {"tag": tg}, env)] = tg
    obs["wrappers"] = [tag_of[c] for c in s.all_wrapper_types]
    assert [type(w) for w in ws] == s.all_wrapper_types
    cls_of = {tg: c for c, tg in tag_of.items()}
    obs["oftype"] = [[tg, [next(i for i, w in enumerate(ws) if w is x) for x in s.get_wrappers_of_type(cls_of[tg])]]
                     for tg in sorted(cls_of)]
    obs["hastype"] = [[tg, bool(s.has_wrapper_type(cls_of[tg]))] for tg in sorted(cls_of)]

    # attribute delegation / introspection (AttrModel.v)
    a = {}
    a["queries"] = [[nm, _query(s, nm)] for nm in case.get("queries", [])]
    # the same dim asked as getdim(<kind>) (no alias name to take apart)
    a["dimcall"] = [[nm, _query(s, nm, call=lambda k=nm[len("getdim_"):]: s.getdim(k))]
                    for nm in case.get("queries", []) if nm.startswith("getdim_")]
    uid_of = {id(o): u for u, o in env["objs"].items()}
    for nm, key in (("fused_operations", "fused"), ("requires_propagate_ctx", "req")):
        try:
            v = getattr(s, nm)
            a[key] = [int(g[0][1:-1]) for g in v] if key == "fused" else bool(v)
        except RuntimeError:
            a[key] = "RuntimeError"
    a["coll"] = [c.cid for c in s.collators]
    env["wlog"].clear()
    s.worker_init_fn(0)
    a["wreach"] = list(env["wlog"])
    a["root"] = uid_of.get(id(s.root_dataset), -1)
    a["wrappers"] = [uid_of.get(id(w), -1) for w in ws]
    a["haswrap"] = [[u, bool(s.has_wrapper(o))] for u, o in sorted(env["objs"].items())]
    one = []
    for tg in sorted(cls_of):
        try:
            w = s.get_wrapper_of_type(cls_of[tg])
            one.append([tg, ["none"] if w is None else ["at", next(i for i, x in enumerate(ws) if x is w)]])
        except AssertionError:
            one.append([tg, ["assert"]])
    a["oftype1"] = one
    id2uid = {n["id"]: n["uid"] for n in o_preorder(top) if n["t"] == "root"}
    s.dispose()
    obs["dispose"] = list(log)
    a["dispose"] = [id2uid[i] for i in log]
    del log[:]
    with s as entered:
        a["enter"] = entered is s
    a["with"] = [id2uid[i] for i in log]
    obs["a"] = a
    return obs


# ---------------------------------------------------------------------------
# rendering into Coq
# ---------------------------------------------------------------------------
def coq_stack(t):
    k = t["t"]
    if k == "root":
        return C("Root", t["id"], Nat(t["n"]), Raw({"none": "PNone", "list": "PList", "ilist": "PList"}.get(t["pk"], "PArray")))
    if k == "sub":
        return C("Sub", t["tag"], list(t["idxs"]), coq_stack(t["s"]))
    if k == "wrap":
        return C("Wrap", t["tag"], coq_stack(t["s"]))
    return C("Cat", bool(t["bal"]), [coq_stack(p) for p in t["parts"]])


def _sample(v):
    return (v // 1000, v % 1000)


def _gres(g):
    if g[0] == "missing":
        return Raw("GMissing")
    if g[0] == "ok":
        return C("GOk", bool(g[1]), [_sample(v) for v in g[2]])
    return Raw("GErr")


def coq_applicable(case, obs):
    return "harness_exception" not in obs


def _cstr(x):
    return Str(x)


def coq_node(case, n):
    spec = node_class(case, n)
    return Rec(n_uid=n["uid"], n_cls=[(_cstr(nm), Raw(KINDS[k][0])) for nm, k in spec["cls"].items()],
               n_inst=[_cstr(nm) for nm in n.get("inst", [])],
               n_bo=Rec(bo_fo=list(n.get("fo", [])) if n["t"] == "root" else list(spec.get("fo", [])),
                        bo_req=bool(n.get("req", False)) if n["t"] == "root" else bool(spec.get("req", False)),
                        bo_coll=list(n.get("coll", []))))


def coq_astack(case, n):
    k = n["t"]
    if k == "root":
        return C("ARoot", coq_node(case, n))
    if k == "cat":
        return C("ACat", coq_node(case, n), [coq_astack(case, q) for q in n["parts"]])
    return C({"sub": "ASub", "wrap": "AWrap", "mode": "AMode"}[k], coq_node(case, n), coq_astack(case, n["s"]))


def _ares(r):
    if r[0] == "found":
        return C("AFound", r[1], Nat(r[2]))
    if r[0] == "wrongname":
        return C("AFound", -2 - r[1], Nat(r[2]))     # (answered by a definition of another name: no node of the model)
    return Raw({"missing": "AMissing", "assert": "AAssert"}.get(r[0], "ASpecial"))


def _wot(r):
    if r[0] == "none":
        return Raw("(inl None)")
    if r[0] == "at":
        return Raw(f"(inl (Some {r[1]}%nat))")
    return Raw("(inr tt)")


EMPTY_AOBS = ("{| a_queries := []; a_fused := None; a_req := None; a_coll := []; a_wreach := []; a_dispose := []; "
              "a_with := []; a_root := 0; a_wrappers := []; a_haswrap := []; a_oftype1 := [] |}")


def coq_case(case, obs):
    top = annotate(case)
    st = coq_stack(case["stack"])
    if case.get("mw"):
        st = C("Wrap", MW_TAG, st)
    if not obs["ctor"]:
        o = Rec(o_ctor=False, o_len=Opt(None), o_items=[], o_hasall=False, o_getall=Raw("GErr"), o_util=Raw("GErr"),
                o_root=0, o_wrappers=[], o_oftype=[], o_hastype=[], o_dispose=[])
        ao = Raw(EMPTY_AOBS)
    else:
        o = Rec(o_ctor=True, o_len=Opt(obs["len"]),
                o_items=[Opt(None if v is None else _sample(v)) for v in obs["items"]],
                o_hasall=bool(obs["hasall"]), o_getall=_gres(obs["getall"]), o_util=_gres(obs["util"]),
                o_root=obs["root"], o_wrappers=list(obs["wrappers"]),
                o_oftype=[(tg, [Nat(p) for p in ps]) for tg, ps in obs["oftype"]],
                o_hastype=[(tg, bool(b)) for tg, b in obs["hastype"]],
                o_dispose=list(obs["dispose"]))
        a = obs["a"]
        ao = Rec(a_queries=[(_cstr(nm), _ares(r)) for nm, r in a["queries"]],
                 a_fused=Raw("None") if a["fused"] == "RuntimeError" else Opt(list(a["fused"])),
                 a_req=Raw("None") if a["req"] == "RuntimeError" else Opt(bool(a["req"])),
                 a_coll=list(a["coll"]), a_wreach=list(a["wreach"]), a_dispose=list(a["dispose"]),
                 a_with=list(a["with"]), a_root=a["root"], a_wrappers=list(a["wrappers"]),
                 a_haswrap=[(u, bool(b)) for u, b in a["haswrap"]],
                 a_oftype1=[(tg, _wot(r)) for tg, r in a["oftype1"]])
    hist = []
    if obs["ctor"] and obs.get("h"):
        tg = h_targets(case)
        for a, r in zip(case.get("acc", []), obs["h"]["steps"]):
            if tuple(a["on"]) in tg and r != ["skip"]:
                hist.append(_hstep(tg[tuple(a["on"])], a["op"], a.get("k"), r))
        for key, rec in zip(h_order(case), obs["h"]["after"][1]):
            if rec["getall"] != ["skip"]:
                hist.append(_hstep(tg[key], "len", None, rec["len"]))
                hist.append(_hstep(tg[key], "getall", None, rec["getall"]))
        # kept accessors: what a KEPT accessor returned, as a step on the stack AS IT IS at that moment (the model
        # takes the current stack as the argument of every access)
        mh = []
        for _, _, slots, pr, t, cats in m_replay(case, obs):
            what = slots[pr[0]][1]
            if cats and pr[2] != "unavailable" and (what != "mw" or (t_len(t) is not None and -t_len(t) <= pr[1] < t_len(t))):
                mh.append(_hstep(t, "getall" if what == "all" else "item", pr[1], pr[2]))     # (rendered NOW: t changes)
        hist += mh[::max(1, len(mh) // 24)]
    return coq((st, list(case["ks"]), o, coq_astack(case, top), ao, hist))


def _hstep(t, op, k, r):
    cs = coq_stack(t)
    if op == "len":
        return (cs, Raw("HLen"), C("HRLen", Opt(r)))
    if op == "item":
        return (cs, C("HItem", k), C("HRItem", Opt(None if r is None else _sample(r))))
    return (cs, Raw("HGetall" if op == "getall" else "HUtil"), C("HRAll", _gres(r)))


# ---------------------------------------------------------------------------
# generation
# ---------------------------------------------------------------------------
def gen_tree(rng, depth, ids, allow_bal, big=False):
    maxn = 12 if not big else 25
    if depth <= 0 or rng.random() < 0.12:
        n = rng.choice([0, 1, 1, 2, 3, 3, 4, 5, 7, rng.randint(0, maxn)])
        return {"t": "root", "id": next(ids), "n": n, "pk": rng.choice(["list", "list", "ilist", "ilist", "ilist", "np", "torch", "inp", "itorch", "none"])}
    r = rng.random()
    if r < 0.40:
        under_bal = True
        s = gen_tree(rng, depth - 1, ids, under_bal, big)
        n = t_len(s)
        m = rng.choice([0, 1, 2, 3, 4, 5, 6, 8, 10])
        if n is None:      # balanced concat (possibly under wrappers) below
            total = sum((t_len(p) or 0) for p in _cat_of(s)["parts"]) if _cat_of(s) else 4
            idxs = [rng.randint(0, 3 * total + 2) for _ in range(m)]
            if rng.random() < 0.1 and idxs:
                idxs[rng.randrange(len(idxs))] = -rng.randint(1, 2 * total + 1)
        elif n == 0:
            idxs = [] if rng.random() < 0.85 else [rng.choice([0, -1])]
        else:
            idxs = [rng.randint(-n, n - 1) if rng.random() < 0.4 else rng.randint(0, n - 1) for _ in range(m)]
            r2 = rng.random()
            if r2 < 0.3:
                idxs = sorted(set(i % n for i in idxs))
            elif r2 < 0.42:
                # full-length index maps: permutations (shuffle-style wrappers), identity, rotations, reversed
                idxs = list(range(n))
                kind = rng.choice(["perm", "perm", "id", "rot", "rev", "ends"])
                if kind == "perm":
                    rng.shuffle(idxs)
                elif kind == "rot":
                    k0 = rng.randrange(n)
                    idxs = idxs[k0:] + idxs[:k0]
                elif kind == "rev":
                    idxs.reverse()
                elif kind == "ends" and n > 2:
                    # end points fixed, interior permuted or with repeats (sorted-by-class style maps)
                    mid = [rng.randrange(n) for _ in range(n - 2)] if rng.random() < 0.5 else rng.sample(range(1, n - 1), n - 2)
                    idxs = [0] + mid + [n - 1]
            if rng.random() < 0.06 and idxs:
                idxs[rng.randrange(len(idxs))] = rng.choice([n, -n - 1, n + 2])
        ic = rng.choice(["list", "list", "np", "torch", "tuple", "range"])
        if ic == "range" and not is_range(idxs):
            ic = "list"
        return {"t": "sub", "tag": rng.choice(SUB_TAGS), "idxs": idxs, "ic": ic, "s": s}
    if r < 0.65:
        w = {"t": "wrap", "tag": rng.choice(WRAP_TAGS), "s": gen_tree(rng, depth - 1, ids, allow_bal, big)}
        if rng.random() < 0.2:
            w["ga"] = "cache"
        return w
    bal = allow_bal and rng.random() < 0.5
    k = rng.choice([1, 2, 2, 3, 3, 4])
    inner_bal = rng.random() < 0.04     # not constructible: a part without len
    parts = [gen_tree(rng, depth - 1, ids, inner_bal, big) for _ in range(k)]
    if rng.random() < 0.01:
        parts = []
    return {"t": "cat", "bal": bal, "parts": parts}


def _cat_of(t):
    while t["t"] == "wrap":
        t = t["s"]
    return t if t["t"] == "cat" else None


QUERIES = PLAIN_POOL + ["getshape_u", "getshape_v", "getdim_u", "getdim_v", "getdim_w"]


def gen_names(rng):
    """the names of one case: 4 plain names and 2-4 item kinds out of the alphabet; half of the time a kind together with
    kinds it is a prefix of / that share its first token (class, class_before_grouping, class_ / x_og, x_2, x__y / u, u_v, u_)"""
    plain = rng.sample(PLAIN_NAMES, 4) if rng.random() < 0.7 else list(PLAIN_POOL)
    r = rng.random()
    if r < 0.5:
        fam = rng.choice([["class", "class_before_grouping", "class_", "multi_label_target"],
                          ["x_og", "x_2", "x__y", "multi_label_target"], ["u", "u_v", "u_", "_u"],
                          ["u", "getdim_u", "v", "v2"], ["class_before_grouping", "multi_label_target", "x_og", "u"]])
        skinds = rng.sample(fam, rng.choice([2, 3, 3, 4]))
    elif r < 0.85:
        skinds = rng.sample(SHAPE_NAMES, rng.choice([2, 3, 4]))
    else:
        skinds = list(SHAPE_KINDS)
    return plain, skinds


def gen_cls_env(rng, base, plain=PLAIN_POOL, skinds=SHAPE_KINDS):
    env = {}
    for nm in plain:
        if rng.random() < 0.3:
            env[nm] = rng.choice(["method", "prop", "cattr", "prop", "method", "prop_raise"])
    for k in skinds:
        if rng.random() < (0.45 if base == "root" else 0.2) * (1.0 if len(skinds) <= 2 else 0.8):
            env["getshape_" + k] = rng.choice(["method", "method", "method", "shape2", "shapent"])
    if rng.random() < (0.12 if base in ("sub", "cat") else 0.012):
        # only classes outside the KDDataset family may define getdim_ themselves (KDDataset.__init__ asserts)
        env["getdim_" + rng.choice(skinds)] = "method"
    return env


def decorate(rng, case):
    """attribute environments, class table, introspection overrides, ModeWrapper on top, queries, index types"""
    gid = itertools.count(1)
    classes = []
    plain, skinds = gen_names(rng)
    case["plain"], case["skinds"] = plain, skinds
    if rng.random() < 0.6:
        for _ in range(rng.choice([1, 2, 2, 3])):
            base = rng.choice(["sub", "wrap"])
            spec = {"base": base, "cls": gen_cls_env(rng, base, plain, skinds), "fo": [], "req": False}
            if base == "wrap":
                if rng.random() < 0.35:
                    spec["fo"] = [next(gid)]
                spec["req"] = rng.random() < 0.15
            classes.append(spec)
    case["classes"] = classes

    def go(t):
        k = t["t"]
        if k in ("sub", "wrap"):
            cands = [10 + i for i, c in enumerate(classes) if c["base"] == k]
            if cands and rng.random() < 0.5:
                t["tag"] = rng.choice(cands)
        if k == "root":
            if rng.random() < 0.6:
                t["cls"] = gen_cls_env(rng, "root", plain, skinds)
            if rng.random() < 0.2:
                t["fo"] = [next(gid)]
            if rng.random() < 0.15:
                t["req"] = True
            if rng.random() < 0.3:
                t["coll"] = [next(gid) for _ in range(rng.choice([1, 2]))]
        if k == "cat" and rng.random() < 0.25:
            t["cls"] = gen_cls_env(rng, "cat", plain, skinds)
        inst = [nm for nm in plain if rng.random() < 0.12]
        if rng.random() < 0.05:
            inst.append("getdim_" + rng.choice(skinds))
        if inst:
            t["inst"] = inst
        if k == "cat":
            for q in t["parts"]:
                go(q)
        elif k != "root":
            go(t["s"])
    go(case["stack"])
    case["queries"] = c_queries(plain, skinds)
    if rng.random() < 0.6:
        case["ikinds"] = rng.sample(skinds, rng.randint(1, min(3, len(skinds))))
        for n in o_preorder(case["stack"]):
            if n["t"] == "wrap" and rng.random() < 0.3:
                n["ri"] = rng.randrange(len(case["ikinds"]))
    if rng.random() < 0.3 and mw_possible(case):
        case["mw"] = True
        if rng.random() < 0.3:
            case["mw_inst"] = [rng.choice(plain)]
    r = rng.random()
    if r < 0.15:
        case["kty"] = "np"
    elif r < 0.22:
        case["kty"] = "torch"
    return case


def gen_history(rng, case):
    """extra stacks sharing objects with the main one, and a history of bulk / per-sample accesses on all of them:
    getall twice on the same stack, getall on a stack and then on a sub-stack / on another stack over the same parts,
    utils.getall (fast or slow path) in between, getitem / len interleaved"""
    top = annotate(case)
    nodes = [n for n in o_preorder(top) if n["t"] != "mode"]
    fin = [n for n in nodes if t_len(n) is not None and o_den(n) is not None]
    extra = []
    for _ in range(rng.choice([0, 0, 1, 1, 2])):
        if not fin:
            break
        kind = rng.choice(["cat", "cat", "cat", "sub", "wrap"])
        if kind == "cat":
            # often: the first part of an existing concat / the whole main stack as FIRST part of a new one
            first = [q["parts"][0] for q in nodes if q["t"] == "cat" and q["parts"] and q["parts"][0] in fin]
            p0 = rng.choice(first) if first and rng.random() < 0.5 else rng.choice(fin)
            parts = [p0] + [rng.choice(fin) for _ in range(rng.choice([0, 1, 1, 2]))]
            extra.append({"t": "cat", "parts": [{"t": "ref", "uid": q["uid"]} for q in parts]})
        elif kind == "sub":
            q = rng.choice(fin)
            n = t_len(q)
            idxs = [rng.randint(-n, n - 1) for _ in range(rng.choice([0, 1, 2, 3, 5]))] if n > 0 else []
            extra.append({"t": "sub", "idxs": idxs, "s": {"t": "ref", "uid": q["uid"]}})
        else:
            extra.append({"t": "wrap", "s": {"t": "ref", "uid": rng.choice(fin)["uid"]}})
    case["extra"] = extra
    targets = [["n", nodes[0]["uid"]]] * 3 + [["n", n["uid"]] for n in nodes] + [["e", i] for i in range(len(extra))] * 2
    acc = []
    tg = None
    for _ in range(rng.choice([0, 1, 2, 3, 4, 5, 6, 8])):
        on = list(rng.choice(targets))
        r = rng.random()
        if r < 0.45:
            a = {"op": "getall", "on": on}
        elif r < 0.6:
            a = {"op": "util", "on": on}
        elif r < 0.85:
            if tg is None:
                tg = h_targets(case)
            n = t_len(tg[tuple(on)])
            a = {"op": "item", "on": on, "k": rng.randint(-n, n - 1) if n else rng.randint(0, 7)}
        else:
            a = {"op": "len", "on": on}
        acc.append(a)
        if a["op"] in ("getall", "util") and rng.random() < 0.35:
            acc.append(dict(a, op=rng.choice(["getall", "getall", "util"])))     # the same stack asked again
    case["acc"] = acc
    return case


def gen_mut(rng, case, force=False):
    """kept accessors and re-sampled subsets: accessors (getitem_x / getall_x bound methods, a ModeWrapper(mode="x")) of
    the top and of inner layers are fetched and kept, the index map of subset layers is replaced (same / other length,
    list / ndarray / tensor / tuple) or edited in place, more accessors are kept in between"""
    top = m_tree(case)
    nodes = m_nodes(top)
    subs = [n for n in nodes.values() if n["t"] == "sub"]
    if not subs or not (force or rng.random() < 0.6):
        return case
    parent = {}
    for n in nodes.values():
        for q in (n["parts"] if n["t"] == "cat" else [] if n["t"] == "root" else [n["s"]]):
            parent[q["uid"]] = n

    def ancestors(n):
        out = []
        while n["uid"] in parent:
            n = parent[n["uid"]]
            out.append(n)
        return out
    first = min(nodes)
    mut, slot = [], itertools.count()

    def keep():
        on = first if rng.random() < 0.5 else rng.choice([a["uid"] for s_ in subs for a in [s_] + ancestors(s_)])
        mut.append({"op": "keep", "slot": next(slot), "on": on, "what": rng.choice(["item", "item", "all", "mw", "mw"])})
    for _ in range(rng.choice([1, 2, 2, 3])):
        keep()
    for _ in range(rng.choice([1, 1, 2, 3])):
        n = rng.choice(subs)
        below = t_len(n["s"])
        under_cat = any(a["t"] == "cat" for a in ancestors(n))
        m0 = len(n["idxs"])
        r = rng.random()
        m = m0 if (under_cat or r < 0.4) else m0 + rng.choice([1, 2, 3]) if r < 0.75 else max(0, m0 - rng.choice([1, 2]))
        if below is None:
            idxs = [rng.randint(0, 9) for _ in range(m)]
        elif below == 0:
            idxs = [] if not under_cat else list(n["idxs"])
        else:
            idxs = [rng.randint(-below, below - 1) if rng.random() < 0.3 else rng.randint(0, below - 1) for _ in range(m)]
            if rng.random() < 0.25 and m == m0 and all(-below <= i < below for i in n["idxs"]):
                idxs = [i % below for i in n["idxs"]]
                rng.shuffle(idxs)                           # the same samples in another order (a re-shuffled epoch)
        st = {"op": "set", "on": n["uid"], "idxs": idxs, "ic": rng.choice(["list", "list", "np", "np", "torch", "tuple"]),
              "how": rng.choice(["assign", "assign", "inplace"])}
        mut.append(st)
        m_apply(nodes, st)
        if rng.random() < 0.4:
            keep()
    case["mut"] = mut
    return case


def sanitize(case):
    """drops history steps / extra stacks whose references no longer exist (after the stack was shrunk)"""
    tg = h_targets(case)
    extra = case.get("extra", [])
    keep = [i for i in range(len(extra)) if ("e", i) in tg]
    ren = {i: j for j, i in enumerate(keep)}
    acc = []
    for a in case.get("acc", []):
        on = tuple(a["on"])
        if on not in tg:
            continue
        acc.append(dict(a, on=["e", ren[on[1]]]) if on[0] == "e" else a)
    return dict(case, extra=[extra[i] for i in keep], acc=acc)


def mw_possible(case):
    """ModeWrapper's constructor asserts that no fused op is declared twice"""
    path = o_path(annotate(dict(case, mw=False)))
    fo = []
    for n in path:
        if n["t"] == "root":
            fo += n.get("fo", [])
        elif n["t"] == "wrap":
            fo += node_class(case, n)["fo"]
    return len(set(fo)) == len(fo) and all(q["t"] != "cat" or q["parts"] for q in path)


def gen_case(rng, big=False):
    ids = itertools.count(rng.choice([0, 0, 1, 5]))
    depth = rng.choice([1, 2, 2, 3, 3, 4, 4, 5, 6])
    t = gen_tree(rng, depth, ids, True, big)
    n = t_len(t)
    if n is None:
        c = _cat_of(t)
        total = sum((t_len(p) or 0) for p in c["parts"]) if c else 3
        ks = list(range(0, 2 * total + 3)) + [-1, -2, -total, -total - 1]
    else:
        ks = list(range(-n, n)) + [n, -n - 1, n + 3]
    return gen_mut(rng, gen_history(rng, decorate(rng, {"stack": t, "ks": ks})))


def _root(id, n, pk="list", **kw):
    return dict({"t": "root", "id": id, "n": n, "pk": pk}, **kw)


def _sub(idxs, s, ic="list", tag=0, **kw):
    return dict({"t": "sub", "tag": tag, "idxs": list(idxs), "ic": ic, "s": s}, **kw)


def _wrap(s, tag=2, **kw):
    return dict({"t": "wrap", "tag": tag, "s": s}, **kw)


def _cat(parts, bal=False, **kw):
    return dict({"t": "cat", "bal": bal, "parts": parts}, **kw)


def directed_cases():
    out = []

    def add(stack, ks=None, **kw):
        n = t_len(stack)
        if ks is None:
            ks = list(range(-n, n)) + [n, -n - 1] if n is not None else list(range(0, 7)) + [-1]
        out.append(dict({"stack": stack, "ks": ks, "queries": list(QUERIES), "classes": []}, **kw))
    # index containers of KDSubset: list / tuple / range / ndarray / tensor; index types int / numpy int / 0-d tensor
    for ic in ("list", "tuple", "range", "np", "torch"):
        for kty in (None, "np", "torch"):
            add(_sub([1, 3, 5], _root(0, 7), ic=ic), kty=kty)
            add(_sub([2, 1, 0], _sub([0, 2, 4, 6], _wrap(_root(0, 7, pk="np")), ic=ic), ic=ic), kty=kty)
            add(_sub([0, 1, 2, 3], _cat([_root(0, 2), _sub([1], _root(1, 3), ic=ic)]), ic=ic), kty=kty)
            add(_sub([0, 1, 2, 3, 4], _cat([_root(0, 2), _root(1, 3)], bal=True), ic=ic), kty=kty)
    # negative k / negative entries through several layers
    deep = _root(0, 6)
    for idxs in ([-1, -2, -3, 0], [-4, 1, -1], [-3, -3, 2], [-1, 0], [-2]):
        deep = _wrap(_sub(idxs, deep), tag=3)
        add(deep)
        add(_cat([deep, _root(1, 2)]))
        add(_sub([-1, -2, 0], _cat([_root(2, 1), deep, _root(1, 0)])))
    # empty stacks: len 0 everywhere
    for st in (_root(0, 0), _sub([], _root(0, 0)), _sub([], _root(0, 5)), _cat([_root(0, 0)]), _cat([_root(0, 0), _root(1, 0)]),
               _sub([], _cat([_root(0, 0), _root(1, 0)])), _wrap(_sub([], _wrap(_root(0, 3)))),
               _cat([_sub([], _root(0, 4)), _sub([], _root(1, 0))]), _sub([], _cat([_root(0, 1)], bal=True)),
               _sub([], _sub([], _sub([], _root(0, 2))))):
        for pk in ("list", "np", "torch", "none"):
            add(_set_pk(st, pk))
            add(_set_pk(st, pk), mw=True)
    # attribute environments: shadowing at several layers, property vs instance vs method, raising property,
    # getshape_/getdim_ pairs, a type occurring twice (get_wrapper_of_type asserts), ModeWrapper on top
    classes = [{"base": "wrap", "cls": {"alpha": "method", "getshape_u": "method"}, "fo": [1], "req": False},
               {"base": "sub", "cls": {"alpha": "prop_raise", "beta": "cattr", "getshape_u": "shape2", "getdim_v": "method"},
                "fo": [], "req": False},
               {"base": "wrap", "cls": {"beta": "prop", "gamma": "cattr", "getshape_v": "shapent"}, "fo": [], "req": True}]
    r = _root(0, 4, cls={"alpha": "prop", "beta": "method", "gamma": "prop_raise", "getshape_u": "method",
                         "getshape_v": "method"}, fo=[7], coll=[8, 9], inst=["delta"])
    chains = [
        _wrap(_sub([0, 1], _wrap(r, tag=12, inst=["beta", "gamma"]), tag=11), tag=10),
        _sub([1, 0], _sub([0, 1, 2], _wrap(r, tag=10), tag=11), tag=11),
        _wrap(_wrap(r, tag=10, inst=["alpha"]), tag=12),
        _sub([0], r, tag=11, inst=["getshape_u"][:0] + ["alpha"]),
        _wrap(_wrap(_wrap(r, tag=12), tag=10), tag=12),
        _wrap(r, tag=10, inst=["getdim_u"]),
        r,
    ]
    for ch in chains:
        add(ch, classes=classes)
        add(ch, classes=classes, mw=True, mw_inst=["gamma"])
        add(_cat([ch, _wrap(_root(5, 2, cls={"delta": "method"}, req=True), tag=12)], cls={"delta": "prop", "getdim_u": "method"}),
            classes=classes)
        add(_sub([0, 1], _cat([_root(6, 1, coll=[3]), ch])), classes=classes, mw=True)
    add(_wrap(r, tag=10), classes=[{"base": "wrap", "cls": {"getdim_u": "method"}, "fo": [], "req": False}])
    add(_root(0, 2, cls={"getdim_u": "method"}))
    # access histories: roots / wrappers that hand out the container they keep, the same stack asked twice, a stack and
    # then its parts, other stacks built over the same parts, utils.getall and getitem in between
    def G(*on):
        return {"op": "getall", "on": list(on)}

    def U(*on):
        return {"op": "util", "on": list(on)}

    def It(k, *on):
        return {"op": "item", "on": list(on), "k": k}

    def ref(u):
        return {"t": "ref", "uid": u}
    for pk0 in ("ilist", "list", "inp", "itorch"):
        for pk1 in ("ilist", "list"):
            two = _cat([_root(0, 3, pk=pk0), _root(1, 2, pk=pk1)])
            add(two, acc=[G("n", 0), G("n", 0), G("n", 1), It(0, "n", 1), G("n", 2)])
            add(two, acc=[G("n", 0), U("n", 0), It(-1, "n", 0), {"op": "len", "on": ["n", 0]}, U("n", 1)])
            add(two, extra=[{"t": "cat", "parts": [ref(1), ref(2), ref(1)]}, {"t": "sub", "idxs": [2, 0], "s": ref(1)}],
                acc=[G("e", 0), G("n", 0), G("e", 0), G("e", 1), G("n", 1)])
            add(_sub([4, 0, 1], two), acc=[G("n", 0), G("n", 0), G("n", 2)])
            add(_cat([_wrap(_wrap(_root(0, 2, pk=pk0)), ga="cache"), _root(1, 1, pk=pk1), _root(2, 0, pk=pk1)]),
                acc=[G("n", 0), G("n", 1), G("n", 0), G("n", 2), G("n", 3)])
            add(_cat([_cat([_root(0, 2, pk=pk0), _root(1, 1, pk=pk1)]), _sub([1, 1], _root(2, 2, pk=pk0))]),
                acc=[G("n", 0), G("n", 1), G("n", 0), U("n", 5), G("n", 2)], mw=(pk0 == "list"))
            add(_sub([2, 2, 0], _wrap(_root(0, 3, pk=pk0), ga="cache")), extra=[{"t": "wrap", "s": ref(2)}],
                acc=[G("n", 0), G("n", 1), G("e", 0), G("n", 0), It(1, "n", 0)])
    # kept accessors / a ModeWrapper built before a subset layer is re-sampled (same and other length, list / ndarray,
    # assigned / edited in place), directly, through wrappers, nested subsets and a concat
    def Kp(j, on, what):
        return {"op": "keep", "slot": j, "on": on, "what": what}

    def St(on, idxs, ic="list", how="assign"):
        return {"op": "set", "on": on, "idxs": list(idxs), "ic": ic, "how": how}
    for ic in ("list", "np", "torch", "tuple"):
        for ic2 in ("list", "np"):
            for how in ("assign", "inplace"):
                add(_wrap(_sub([0, 1, 2, 3], _root(0, 10), ic=ic)),
                    mut=[Kp(0, 0, "item"), Kp(1, 0, "mw"), Kp(2, 0, "all"), Kp(3, 1, "item"), St(1, [9, 8, 7, 6], ic2, how),
                         St(1, [5, 5], ic2, how), Kp(4, 0, "mw"), St(1, [1, 2, 3, 4, 5, 6], ic2, how)])
                add(_sub([1, 0], _sub([0, 5], _cat([_root(0, 5), _root(1, 6)]), ic=ic), ic=ic2, tag=1),
                    mut=[Kp(0, 0, "mw"), Kp(1, 0, "item"), Kp(2, 1, "item"), St(1, [10, 4], ic2, how), Kp(3, 0, "all"),
                         St(0, [0, 0, 1], ic, how), St(1, [3, 7, -1], ic2, how)])
                add(_cat([_sub([2, 0], _root(0, 3), ic=ic), _wrap(_sub([1], _root(1, 2), ic=ic2))]),
                    mut=[Kp(0, 0, "item"), Kp(1, 0, "all"), Kp(2, 1, "item"), St(1, [1, 1], ic2, how), St(4, [0], ic, how)])
    return out


def _set_pk(t, pk):
    t = dict(t)
    if t["t"] == "root":
        t["pk"] = pk
    elif t["t"] == "cat":
        t["parts"] = [_set_pk(q, pk) for q in t["parts"]]
    else:
        t["s"] = _set_pk(t["s"], pk)
    return t


def gen_cases(rng, tier):
    n = 600 if tier == "quick" else 5000
    out = directed_cases() + [gen_case(rng) for _ in range(n)]
    if tier == "thorough":
        out += [gen_case(rng, big=True) for _ in range(1500)]
    if os.environ.get("C02_PROBE_BALANCED_GETALL"):
        out.append({"probe": "balanced_getall", "ks": [0, 1, 2, 3],
                    "stack": {"t": "sub", "tag": 0, "ic": "list", "idxs": [0, 1, 2, 3],
                              "s": {"t": "cat", "bal": True, "parts": [
                                  {"t": "root", "id": 0, "n": 2, "pk": "list"},
                                  {"t": "root", "id": 1, "n": 3, "pk": "list"}]}}})
    return out


def search_cases(rng, tier):
    for c in directed_cases():
        yield c
    for i in range(30000):
        yield gen_case(rng, big=(i % 4 == 3))


def features(case, obs):
    t = case["stack"]
    yield "depth=%d" % t_depth(t)
    yield "top=" + t["t"] + ("_bal" if t.get("bal") else "")
    yield "valid=%s" % (o_den(t) is not None)
    yield "ctor=%s" % obs.get("ctor")
    yield "has_balanced=%s" % t_has(t, lambda n: n["t"] == "cat" and n["bal"])
    yield "has_cat=%s" % t_has(t, lambda n: n["t"] == "cat")
    yield "neg_subset_entry=%s" % t_has(t, lambda n: n["t"] == "sub" and any(i < 0 for i in n["idxs"]))
    yield "empty_part=%s" % t_has(t, lambda n: n["t"] == "cat" and any(t_len(p) == 0 for p in n["parts"]))
    if case.get("mw"):
        yield "mode-wrapper-on-top"
    if case.get("kty"):
        yield "k-type=" + case["kty"]
    for n in o_preorder(t):
        if n["t"] == "sub":
            yield "indices=" + n.get("ic", "list")
    a = obs.get("a")
    if a:
        for nm, r in a["queries"]:
            yield "query:" + ("getdim" if nm.startswith("getdim_") else "getshape" if nm.startswith("getshape_") else "plain") \
                + "=" + r[0] + (("/kind%d" % r[2]) if r[0] == "found" else "")
        top = annotate(case)
        path = o_path(top)
        for nm in c_plain(case):
            prov = [n["uid"] for n in path if o_own(case, n, nm) is not None]
            if len(prov) > 1:
                yield "name-shadowed-at-several-layers"
                break
        for tg, r in a["oftype1"]:
            yield "get_wrapper_of_type=" + r[0]
    for st in case.get("mut") or []:
        yield "mut:" + (("keep-" + st["what"]) if st["op"] == "keep" else ("set-" + st["how"] + "-" + st["ic"]))
    for nm in case.get("ikinds") or []:
        yield "extra-item-kind" + ("-with-underscore" if "_" in nm else "")
    for nm in case.get("skinds") or []:
        if "_" in nm:
            yield "item-kind-with-underscore"
            break
    yield "getall=" + (obs.get("getall") or ["n/a"])[0]
    yield "util=" + (obs.get("util") or ["n/a"])[0]


def nontrivial_key(case, obs):
    if not obs.get("ctor") or t_depth(case["stack"]) < 2 or not any(v is not None for v in obs.get("items", [])):
        return None
    return t_shape(case["stack"])


def c_valid(case):
    """the stack is inside the property's domain, before and after every re-sampling step, and every step addresses a
    node of the right kind"""
    if o_den(case["stack"]) is None:
        return False
    nodes = m_nodes(m_tree(case))
    for st in case.get("mut") or []:
        if st["on"] not in nodes:
            return False
        if st["op"] == "set" and not (m_apply(nodes, st) and o_den(nodes[min(nodes)]) is not None):
            return False
    return True


def shrink(case):
    """smaller cases; a case inside the property's domain is only shrunk to cases inside it (so that the minimised
    failing input is a valid stack with a valid history)"""
    ok = c_valid(case)
    for c in _shrink_raw(case):
        if ok and not c_valid(c):
            continue
        yield c


def _shrink_raw(case):
    t = case["stack"]

    def variants(t):
        k = t["t"]
        if t.get("ri") is not None:
            yield {kk: vv for kk, vv in t.items() if kk != "ri"}
        for key in ("cls", "inst", "fo", "req", "coll", "ga"):
            if t.get(key):
                yield {kk: vv for kk, vv in t.items() if kk != key}
        if k in ("sub", "wrap") and t["tag"] >= 10:
            yield dict(t, tag=0 if k == "sub" else 2)
        if k == "root":
            if t["n"] > 0:
                yield dict(t, n=t["n"] - 1)
            if t["pk"] != "list":
                yield dict(t, pk="list")
            return
        if k == "cat":
            for p in t["parts"]:
                yield p
            for i in range(len(t["parts"])):
                if len(t["parts"]) > 1:
                    yield dict(t, parts=t["parts"][:i] + t["parts"][i + 1:])
            for i, p in enumerate(t["parts"]):
                for v in variants(p):
                    yield dict(t, parts=t["parts"][:i] + [v] + t["parts"][i + 1:])
            return
        yield t["s"]
        if k == "sub":
            for i in range(len(t["idxs"])):
                yield dict(t, idxs=t["idxs"][:i] + t["idxs"][i + 1:])
            if t.get("ic") != "list":
                yield dict(t, ic="list")
        for v in variants(t["s"]):
            yield dict(t, s=v)

    if case.get("mw"):
        yield sanitize(dict(case, mw=False))
    if case.get("kty"):
        yield dict(case, kty=None)
    if len(case.get("queries", [])) > 1:
        for q in case["queries"]:
            yield dict(case, queries=[q])
    if case.get("acc"):
        yield dict(case, acc=[])
        for i in range(len(case["acc"])):
            yield dict(case, acc=case["acc"][:i] + case["acc"][i + 1:])
    if case.get("ikinds"):
        yield dict(case, ikinds=[])
    if case.get("mut"):
        yield dict(case, mut=[])
        for i in range(len(case["mut"])):
            yield dict(case, mut=case["mut"][:i] + case["mut"][i + 1:])
        for i, st in enumerate(case["mut"]):
            if st["op"] == "set" and (st["how"] != "assign" or st["ic"] != "list"):
                yield dict(case, mut=case["mut"][:i] + [dict(st, how="assign", ic="list")] + case["mut"][i + 1:])
    if case.get("extra"):
        yield sanitize(dict(case, extra=[], acc=[a for a in case.get("acc", []) if a["on"][0] != "e"]))
    for v in variants(t):
        n = t_len(v)
        ks = [k for k in case["ks"] if n is None or -n <= k < n]
        yield sanitize(dict(case, stack=v, ks=ks))
    for i in range(len(case["ks"])):
        yield dict(case, ks=case["ks"][:i] + case["ks"][i + 1:])
