From KD Require Import C10.Model C10.Spec C10.Proofs.
Theorem tmp_c10 : True. Proof. exact tmp. Qed.
Print Assumptions tmp_c10.
