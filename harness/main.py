import argparse
import importlib
import os
import sys

from . import common


def main():
    ap = argparse.ArgumentParser()
    ap.add_argument("prop")
    ap.add_argument("--tier", default=os.environ.get("VERIF_TIER", "quick"), choices=["quick", "thorough"])
    ap.add_argument("--replay", default=None)
    ap.add_argument("--seed", type=int, default=int(os.environ.get("VERIF_SEED", "0")))
    a = ap.parse_args()
    if a.prop == "--setup" or a.prop == "setup":
        sys.exit(common.setup_all())
    mod = importlib.import_module("harness." + a.prop.lower())
    try:
        rc = common.run_check(mod, a.tier, a.seed, a.replay)
    except Exception as e:  # the check itself could not run to the end (e.g. the package no longer imports, a generator or
        # runner met something it cannot handle): the property is not shown to hold -> report it in the agreed format
        import traceback
        tb = traceback.format_exc()
        path = common.write_replay(a.prop, {"property": a.prop, "no_failing_input_found": True,
                                            "broken": "the check could not be completed: " + repr(e), "traceback": tb[-4000:]})
        print(f"VIOLATION property={a.prop} replay={path} no-failing-input-found")
        print("  the check could not be completed: " + repr(e))
        print(tb[-1500:])
        rc = 1
    sys.exit(rc)


if __name__ == "__main__":
    main()
