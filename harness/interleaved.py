"""Shared machinery for C04/C05/C06: case generation, running the real
InterleavedSampler with recording samplers, the closed-form Python spec
(independent of the Coq model) and the rendering of cases into Coq."""
import random

from .common import C, Nat, Opt, Raw, Rec, coq

MAX_EVENTS = 30000
GEN_EVENTS = 9000          # generated cases are kept below this many expected events

COQ_FILES = ["C04/Model.v", "C04/Spec.v", "C04/Check.v", "C04/Lists.v", "C04/Arith.v", "C04/Sides.v", "C04/Proofs.v",
             "C04/Corollaries.v", "C04/Batches.v", "C04/Bounds.v", "C04/Order.v", "C04/Loader.v", "C04/Passes.v",
             "C04/Example.v"]

TRUSTED = [
    "object histories: the harness runs the real InterleavedSampler objects through construction / iteration "
    "histories on shared main-sampler and config objects (re-iteration, abandoned iterations, other schedulers on "
    "the same objects, foreign set_epoch calls) and compares every iteration with the model of a fresh "
    "configuration; concurrently live iterations of schedulers sharing sampler objects are not exercised",
    "recording samplers log set_epoch and __iter__ calls; lazy (generator) and eager (order fixed in __iter__) "
    "flavours and torch's DistributedSampler(shuffle=True, num_replicas=1) as main sampler",
    "hand-written model coq/C04/Model.v of InterleavedSampler (__init__ with all assertions, checkpoint derivation, "
    "index_offsets, __iter__, _eval_loop, _training_loop incl. its batch-size adjustment branches, batch sampler, "
    "concat-dataset lookup, collator dispatch); tied to /repo by this run's correspondence evaluation",
    "harness/interleaved.py: recording samplers, event log, case rendering",
    "side samplers may yield another order on every iteration (modelled: the k-th iteration of a sampler object is an "
    "arbitrary list of len(sampler) indices); main and side samplers yield exactly len(sampler) valid indices per "
    "iteration (the property's domain)",
    "torch DataLoader / ConcatDataset.cumulative_sizes / default_collate are not modelled: the model's loader_batches "
    "(lookup + collator dispatch per batch of the batch sampler) is compared with what get_data_loader delivers",
    "isinstance(int) assertions of the constructor, _get_data_source's attribute probing, __str__ of the config, "
    "get_data_loader's kwargs plumbing and worker_init_fn forwarding are not modelled",
]


# ---------------------------------------------------------------------------
# case generation
# ---------------------------------------------------------------------------
_TORCH_REF = {}


def main_iter(case, e):
    """what the main sampler object yields when it is iterated while holding epoch e (None = it was never told
    an epoch)"""
    n, ds = case["N"], case["dsN"]
    if case.get("main_kind") == "torch":
        # torch's own DistributedSampler(shuffle=True): the reference order comes from a second instance
        key = (ds, case["perm_seed"])
        if key not in _TORCH_REF:
            from torch.utils.data.distributed import DistributedSampler
            if len(_TORCH_REF) > 64:
                _TORCH_REF.clear()
            _TORCH_REF[key] = (DistributedSampler(_DS(0, ds), num_replicas=1, rank=0, shuffle=True,
                                                  seed=case["perm_seed"]), {})
        ref, cache = _TORCH_REF[key]
        e = 0 if e is None else e
        if e not in cache:
            ref.set_epoch(e)
            cache[e] = [int(i) for i in ref]
        return list(cache[e])
    if case["perm_seed"] is None:
        return list(range(n))
    r = random.Random(case["perm_seed"] * 7919 + (e if e is not None else -4711))
    return r.sample(range(ds), n)


def side_iter(sc, p):
    """what the p-th iteration (counted from 0) of this config's sampler object yields"""
    if sc.get("shuffle") is None:
        return list(sc["idx"])
    r = random.Random(sc["shuffle"] * 104729 + p)
    l = list(sc["idx"])
    r.shuffle(l)
    return l


def geometry(case):
    n, b = case["N"], case["B"]
    if case["drop_last"]:
        d = case["D"] or b
        spe = n // d * d
        upe = spe // b
    else:
        spe = n
        upe = -(-n // b)
    return spe, upe


def budgets(case):
    """the three budget attributes the loops see (after an optional post-construction assignment)"""
    if case.get("post_budget") is not None:
        return dict(case["post_budget"])
    out = {"epochs": None, "updates": None, "samples": None}
    out[case["budget"][0]] = case["budget"][1]
    return out


def gen_case(rng, big=False, size=None):
    size = size or ("mid" if big else "small")
    if size == "small":
        n = rng.choice([1, 2, 3, 4, 5, 6, 7, 8, 9, 10, 12, 13, 16, 17, 20, 24, 31, 40])
    elif size == "mid":
        n = rng.randint(1, 79)
    else:
        n = rng.randint(80, 300)
    b = rng.choice([1, n, max(1, n // 2), rng.randint(1, n), rng.randint(1, n)])
    if size == "large" and b < n // 40:
        b = rng.randint(max(1, n // 40), n)
    drop_last = rng.random() < 0.6
    d = None
    if drop_last and rng.random() < 0.3:
        mult = [m for m in (1, 2, 3, 4) if b * m <= n]
        d = b * rng.choice(mult)
    case = {"N": n, "dsN": n + rng.choice([0, 0, 0, 1, 3]), "B": b, "drop_last": drop_last, "D": d}
    case["perm_seed"] = rng.choice([None, rng.randint(0, 999)])
    spe, upe = geometry(case)
    kind = rng.choice(["epochs", "updates", "samples"])
    total_epochs = rng.choice([1, 1, 2, 2, 3, 4] if size != "large" else [1, 1, 2, 2, 3])
    if rng.random() < 0.07:
        val = 0
    elif kind == "epochs":
        val = total_epochs
    elif kind == "updates":
        val = max(1, upe * total_epochs + rng.choice([0, 0, -1, 1, rng.randint(-upe, upe)]))
    else:
        val = max(1, spe * total_epochs + rng.choice([0, 0, -1, 1, b, -b, rng.randint(-spe, spe)]))
    case["budget"] = [kind, val]
    sides = []
    n_sides = rng.choice([0, 1, 1, 2, 2, 3, 4]) if size != "large" else rng.choice([0, 1, 2, 3, 4, 5, 6, 6])
    for _ in range(n_sides):
        ln = rng.choice([0, 1, 2, 3, 5, 7] if size != "large" else [0, 1, 3, 5, 7, 12])
        dsl = ln + rng.choice([0, 0, 2])
        sc = {"ene": None, "enu": None, "ens": None, "bs": rng.choice([None, None, 1, 2, 3, 4]),
              "dslen": dsl}
        kinds = rng.sample(["ene", "enu", "ens"], rng.choice([1, 1, 1, 2, 2, 3]))
        for k in kinds:
            if k == "ene":
                sc[k] = rng.choice([1, 1, 2, 3])
            elif k == "enu":
                sc[k] = rng.choice([1, 2, 3, upe, upe + 1, 5, 7])
                sc[k] = max(1, sc[k])
            else:
                sc[k] = max(1, rng.choice([1, b, 2 * b, b + 1, spe, spe - 1, spe + 1, 3, 12, rng.randint(1, 2 * spe + 1)]))
        sc["idx"] = list(range(ln)) if rng.random() < 0.7 else [rng.randrange(max(dsl, 1)) for _ in range(ln)] if dsl else []
        # a stateful side sampler: another order on every iteration (like RandomSampler / set_epoch-driven shuffling)
        sc["shuffle"] = rng.randint(0, 999) if (ln >= 2 and rng.random() < 0.4) else None
        sides.append(sc)
    case["sides"] = sides
    # start checkpoint
    case["start"] = None
    if val > 0 and rng.random() < 0.45:
        skind = rng.choice(["epoch", "epoch", "update", "sample"])
        # epochs strictly before the budget
        if kind == "epochs":
            max_e = val - 1
        elif kind == "updates":
            max_e = (val - 1) // upe
        else:
            max_e = (val - 1) // spe
        if max_e >= 1:
            k = rng.randint(1, max_e)
            extra = 0 if rng.random() < 0.8 else rng.randint(1, max(1, upe))
            # off-boundary checkpoints (NotImplementedError expected) must still lie before the budget
            before = {"epochs": upe * val, "updates": val, "samples": -(-val // b)}[kind]
            if k * upe + extra >= before:
                extra = 0
            if skind == "epoch":
                case["start"] = ["epoch", k]
            elif skind == "update":
                case["start"] = ["update", k * upe + extra]
            else:
                case["start"] = ["sample", (k * upe + extra) * b]
    add_flavours(rng, case)
    return case


# ---- sampler flavours and object histories -------------------------------------------------------
def add_flavours(rng, case):
    """the main / side sampler objects come as lazy generators (the epoch / order is read when the first index is
    pulled) or EAGER (__iter__ fixes the whole order at once from what the object holds at that moment), a few
    mains are torch's own DistributedSampler(shuffle=True); the main sampler object may hold an epoch of its own
    before the scheduler ever touches it"""
    r = rng.random()
    case["main_kind"] = "lazy" if r < 0.45 else "eager" if r < 0.95 else "torch"
    case["pre_epoch"] = rng.choice([None, None, 0, 1, 2, 5, 9])
    if case["main_kind"] == "torch":
        case["dsN"] = case["N"]          # num_replicas=1: len(sampler) = len(dataset)
        if case["perm_seed"] is None:
            case["perm_seed"] = rng.randint(0, 999)
        case["pre_epoch"] = case["pre_epoch"] or 0
    for sc in case["sides"]:
        sc["eager"] = rng.random() < 0.4


def gen_other(rng, case):
    """another InterleavedSampler on the same main sampler / config objects: own batch size, drop_last, budget
    (often eval-only), sometimes a checkpoint, sometimes only some of the configs (in any order)"""
    n = case["N"]
    for _ in range(30):
        b = rng.choice([1, n, max(1, n // 2), rng.randint(1, n), rng.randint(1, n)])
        drop_last = rng.random() < 0.6
        d = None
        if drop_last and rng.random() < 0.25:
            d = b * rng.choice([m for m in (1, 2, 3) if b * m <= n])
        o = {"B": b, "drop_last": drop_last, "D": d, "start": None, "sel": None}
        spe, upe = geometry({"N": n, **o})
        kind = rng.choice(["epochs", "updates", "samples"])
        e = rng.choice([1, 1, 2, 3])
        if rng.random() < 0.3:
            val = 0
        elif kind == "epochs":
            val = e
        elif kind == "updates":
            val = max(1, upe * e + rng.choice([0, 0, -1, 1]))
        else:
            val = max(1, spe * e + rng.choice([0, 0, -1, 1, b]))
        o["budget"] = [kind, val]
        if kind == "epochs" and val >= 2 and rng.random() < 0.4:
            o["start"] = ["epoch", rng.randint(1, val - 1)]
        if case["sides"] and rng.random() < 0.25:
            o["sel"] = rng.sample(range(len(case["sides"])), rng.randint(0, len(case["sides"])))
        tmp = dict(case)
        tmp["others"] = [o]
        if expected_events(obj_case(tmp, 1)) <= 2500:
            return o
    return {"B": n, "drop_last": True, "D": None, "start": None, "sel": None, "budget": ["epochs", 1]}


def add_history(rng, case):
    """objects have histories: the case's InterleavedSampler is iterated (completely, or abandoned after some
    items) before its observed iteration, other InterleavedSamplers are built on the same main sampler and config
    objects and iterated before / in between, somebody calls set_epoch on the main sampler"""
    others = [gen_other(rng, case) for _ in range(rng.choice([0, 1, 1, 1, 2]))]
    case["others"] = others
    unbuilt = list(range(len(others) + 1))
    rng.shuffle(unbuilt)
    actions = ["build"] * len(unbuilt) + ["iter"] * rng.choice([0, 1, 1, 2, 3]) + ["set_epoch"] * rng.choice([0, 0, 1, 2])
    rng.shuffle(actions)
    steps, built = [], []
    for a in actions:
        if a == "build" or (a == "iter" and not built):
            if unbuilt:
                j = unbuilt.pop()
                steps.append(["build", j])
                built.append(j)
            if a == "build":
                continue
        if a == "iter":
            steps.append(["iter", rng.choice(built), None if rng.random() < 0.5 else rng.randint(1, 40)])
        elif a == "set_epoch":
            steps.append(["set_epoch", rng.choice([0, 1, 2, 3, 5, 11])])
    for j in unbuilt:
        steps.append(["build", j])
    if rng.random() < 0.25:
        steps.append(["set_epoch", rng.choice([0, 1, 2, 3, 5, 11])])
    steps.append(["iter", 0, None])
    case["scenario"] = steps
    assert scenario_ok(case), steps
    return case


def gen_history_case(rng, want=None, size="small"):
    """a case with a non-trivial history; want(case) may filter the underlying configuration"""
    for _ in range(400):
        c = gen_case(rng, size=size)
        if expected_events(c) > 3000 or (want is not None and not want(c)):
            continue
        if isinstance(start_epoch_of(c), str):
            continue        # the history is about objects the constructor accepts
        add_history(rng, c)
        if len(c["scenario"]) > 2:
            return c
    return add_history(rng, gen_bounded(rng))


def gen_bounded(rng, **kw):
    """gen_case, re-drawn until the expected stream is of moderate length"""
    for _ in range(50):
        c = gen_case(rng, **kw)
        if expected_events(c) <= GEN_EVENTS:
            return c
    return gen_case(rng)


def expected_events(case):
    spe, upe = geometry(case)
    kind, val = case["budget"]
    if val == 0:
        return sum(len(s["idx"]) for s in case["sides"])
    ups = {"epochs": val * upe, "updates": val, "samples": -(-val // case["B"]) + val // spe + 1}[kind]
    per = 0
    for s in case["sides"]:
        f = 0.0
        if s["ene"]:
            f += 1.0 / (upe * s["ene"])
        if s["enu"]:
            f += 1.0 / s["enu"]
        if s["ens"]:
            f += min(1.0, case["B"] / s["ens"])
        per += min(1.0, f) * len(s["idx"])
    return ups * (case["B"] + per)


# ---- invalid / unusual constructor arguments -------------------------------------------------
def gen_mut(rng, case):
    """one assignment [path..., value] applied to the raw constructor arguments: the class of argument
    combinations the constructor's assertions are about"""
    n, b = case["N"], case["B"]
    kind = case["budget"][0]
    other = [k for k in ("epochs", "updates", "samples") if k != kind]
    opts = [
        ["B", 0], ["B", -1], ["B", n + 1],
        ["D", b + 1 if b > 1 else 2 * n + 1], ["D", (n // b + 1) * b], ["D", 0],
        ["drop_last", False] if case["D"] is not None else ["D", b],   # D without drop_last / a plain valid D
        [kind, -1], [kind, None], [rng.choice(other), rng.choice([0, 1, 3])],
    ]
    if case["sides"]:
        i = rng.randrange(len(case["sides"]))
        opts += [["sides", i, rng.choice(["ene", "enu", "ens", "bs"]), rng.choice([0, -2])],
                 ["sides", i, "all_none", True]]
    if case["start"] is not None:
        others = [k for k in ("epoch", "update", "sample") if k != case["start"][0]]
        opts += [["start_" + rng.choice(others), rng.choice([0, 1, b])]] * 2
        if case["start"][0] == "sample":
            opts += [["start_sample", case["start"][1] + 1]] if b > 1 else []
    return rng.choice(opts)


def raw_args(case, start="case"):
    """the constructor arguments of this case (after its optional mutation)"""
    st = case["start"] if start == "case" else start
    raw = {"N": case["N"], "dsN": case["dsN"], "B": case["B"], "drop_last": case["drop_last"], "D": case["D"],
           "epochs": None, "updates": None, "samples": None,
           "start_epoch": None, "start_update": None, "start_sample": None,
           "sides": [{"ene": s["ene"], "enu": s["enu"], "ens": s["ens"], "bs": s["bs"]} for s in case["sides"]]}
    raw[case["budget"][0]] = case["budget"][1]
    if st is not None:
        raw["start_" + st[0]] = st[1]
    mut = case.get("mut")
    if mut:
        if mut[0] == "sides":
            if mut[2] == "all_none":
                raw["sides"][mut[1]].update({"ene": None, "enu": None, "ens": None})
            else:
                raw["sides"][mut[1]][mut[2]] = mut[3]
        else:
            raw[mut[0]] = mut[1]
    return raw


def ctor_expect(raw):
    """independent statement of which argument combinations the constructor accepts:
    'ok' | 'AssertionError' | 'NotImplementedError'"""
    n, b, d = raw["N"], raw["B"], raw["D"]
    if not (isinstance(b, int) and 0 < b <= n):
        return "AssertionError"
    if d is not None and not (raw["drop_last"] and d % b == 0 and b <= d <= n):
        return "AssertionError"
    given = [raw[k] for k in ("epochs", "updates", "samples") if raw[k] is not None]
    if len(given) != 1 or given[0] < 0:
        return "AssertionError"
    for s in raw["sides"]:
        if all(s[k] is None for k in ("ene", "enu", "ens")):
            return "AssertionError"
        if any(s[k] is not None and s[k] <= 0 for k in ("ene", "enu", "ens", "bs")):
            return "AssertionError"
    starts = [k for k in ("start_epoch", "start_update", "start_sample") if raw[k] is not None]
    if len(starts) > 1:
        return "AssertionError"
    if not starts or starts[0] == "start_epoch":
        return "ok"
    unit = d or b
    spe = n // unit * unit if raw["drop_last"] else n
    if starts[0] == "start_sample" and raw["start_sample"] % b != 0:
        return "AssertionError"
    pos = raw["start_update"] * b if starts[0] == "start_update" else raw["start_sample"]
    if not raw["drop_last"] or pos % spe != 0:
        return "NotImplementedError"
    return "ok"


def gen_cases(rng, tier):
    n = 700 if tier == "quick" else 6000
    out = [gen_bounded(rng) for _ in range(n)]
    if tier == "thorough":
        out += [gen_bounded(rng, size="mid") for _ in range(2500)]
        out += [gen_bounded(rng, size="large") for _ in range(800)]
    return out


def search_cases(rng, tier):
    for _ in range(20000):
        if rng.random() < 0.3:
            yield gen_history_case(rng)
        else:
            yield gen_bounded(rng, size="mid" if rng.random() < 0.3 else "small")


ITEMS = "wrong (is_full_batch, index) items: "


def items_tag(a, b):
    """prefix of a violation message: do the yielded items differ, or only the calls the samplers received"""
    ya = [e for e in a if not isinstance(e, list) or not e or e[0] not in ("E", "I", "S")]
    yb = [e for e in b if not isinstance(e, list) or not e or e[0] not in ("E", "I", "S")]
    return ITEMS if ya != yb else ""


def shrink_keeping(oracle, run):
    """shrinker that keeps the strong kind of violation: a case whose yielded items are wrong is only shrunk to
    cases whose yielded items are wrong (not to one where merely a call arrives at another moment)"""
    def sh(case):
        try:
            m = oracle(case, run(case))
        except Exception:  # noqa
            m = None
        strong = bool(m) and m.startswith(ITEMS)
        for cand in shrink(case):
            if not strong:
                yield cand
                continue
            try:
                m2 = oracle(cand, run(cand))
            except Exception:  # noqa
                continue
            if m2 and m2.startswith(ITEMS):
                yield cand
    return sh


def shrink(case):
    """candidate smaller cases"""
    c = case
    for k in ("mut", "post_budget", "loader"):
        if c.get(k) is not None:
            yield {kk: v for kk, v in c.items() if kk != k}
    # the history: no history at all, fewer steps, fewer other objects, complete instead of abandoned iterations
    if c.get("scenario"):
        yield {kk: v for kk, v in c.items() if kk not in ("scenario", "others")}
        sc = c["scenario"]
        for i in range(len(sc) - 1):
            cand = sc[:i] + sc[i + 1:]
            if scenario_ok(c, cand):
                yield {**c, "scenario": cand}
        for j in range(1, len(c.get("others") or []) + 1):
            # drop object j (and renumber the later ones)
            cand = [[st[0], st[1] - 1 if (st[0] != "set_epoch" and st[1] > j) else st[1]] + st[2:]
                    for st in sc if st[0] == "set_epoch" or st[1] != j]
            c2 = {**c, "others": c["others"][:j - 1] + c["others"][j:], "scenario": cand}
            if scenario_ok(c2):
                yield c2
        for i, st in enumerate(sc[:-1]):
            if st[0] == "iter" and st[2] is not None:
                yield {**c, "scenario": sc[:i] + [["iter", st[1], None]] + sc[i + 1:]}
        for j, o in enumerate(c.get("others") or []):
            if o.get("sel") is not None:
                yield {**c, "others": c["others"][:j] + [{**o, "sel": None}] + c["others"][j + 1:]}
            if o.get("start") is not None:
                yield {**c, "others": c["others"][:j] + [{**o, "start": None}] + c["others"][j + 1:]}
    if c.get("main_kind") == "torch":
        yield {**c, "main_kind": "eager"}
    if c.get("main_kind") == "eager":
        yield {**c, "main_kind": "lazy"}
    if c.get("pre_epoch") is not None and c.get("main_kind") != "torch":
        yield {**c, "pre_epoch": None}
    for i, sc_ in enumerate(c["sides"]):
        if sc_.get("eager"):
            yield {**c, "sides": c["sides"][:i] + [{**sc_, "eager": False}] + c["sides"][i + 1:]}
    for i in range(len(c["sides"])):
        if (c.get("mut") and c["mut"][0] == "sides") or any(o.get("sel") is not None for o in c.get("others") or []):
            break
        yield {**c, "sides": c["sides"][:i] + c["sides"][i + 1:]}
    for i, sc in enumerate(c["sides"]):
        for k in ("ene", "enu", "ens", "bs"):
            if sc[k] is not None and sum(sc[x] is not None for x in ("ene", "enu", "ens")) > (1 if k != "bs" else 0):
                yield {**c, "sides": c["sides"][:i] + [{**sc, k: None}] + c["sides"][i + 1:]}
        if sc.get("shuffle") is not None:
            yield {**c, "sides": c["sides"][:i] + [{**sc, "shuffle": None}] + c["sides"][i + 1:]}
        if len(sc["idx"]) > 1:
            m = len(sc["idx"]) - 1
            yield {**c, "sides": c["sides"][:i] + [{**sc, "idx": list(range(m)), "dslen": m}] + c["sides"][i + 1:]}
    if c["perm_seed"] is not None:
        yield {**c, "perm_seed": None}
    if c["dsN"] != c["N"]:
        yield {**c, "dsN": c["N"]}
    if c["D"] is not None and not c.get("mut"):
        yield {**c, "D": None}
    if c["start"] is None and c["N"] > c["B"] and c["N"] > 1 and not c.get("mut"):
        yield {**c, "N": c["N"] - 1, "dsN": c["N"] - 1}
    if c["budget"][1] > 1 and c["start"] is None and c.get("post_budget") is None:
        yield {**c, "budget": [c["budget"][0], c["budget"][1] - 1]}


# ---------------------------------------------------------------------------
# running the implementation
# ---------------------------------------------------------------------------
class _DS:
    """data source whose items identify themselves"""

    def __init__(self, tag, n):
        self.tag, self.n = tag, n

    def __len__(self):
        return self.n

    def __getitem__(self, i):
        assert 0 <= i < self.n, (self.tag, i, self.n)
        return (self.tag, i)

    def worker_init_fn(self, rank, **kwargs):
        pass


class _TagCollator:
    """collator of dataset `tag`: returns its own tag and the samples it was given"""

    def __init__(self, tag):
        self.tag = tag

    def __call__(self, data):
        return [self.tag, [list(x) for x in data]]


class _World:
    """where the recording samplers write to: the log of the step that is being executed (an iteration of one of
    the InterleavedSampler objects, or `outside`: constructions and foreign calls)"""

    def __init__(self):
        self.outside = []
        self.log = self.outside
        self.plog = []


class _RecMain:
    """recording main sampler; its order depends on the epoch it HOLDS (the last set_epoch).  Two flavours, both
    common in practice: lazy (a generator: the epoch is read when the first index is pulled - all kappadata
    samplers) and eager (__iter__ fixes the whole epoch's order at once from the epoch held at that moment and
    returns iter(list) - torch's DistributedSampler).  Every set_epoch and every __iter__ call is logged."""

    def __init__(self, case, raw, world):
        self.case, self.world, self.n = case, world, raw["N"]
        self.data_source = _DS(0, raw["dsN"])
        self.eager = case.get("main_kind") == "eager"
        self.epoch = case.get("pre_epoch")

    def __len__(self):
        return self.n

    def set_epoch(self, e):
        self.world.log.append(["E", e])
        self.epoch = e

    def __iter__(self):
        self.world.log.append(["I", self.epoch])
        if self.eager:
            return iter(main_iter(self.case, self.epoch))
        return self._gen()

    def _gen(self):
        yield from main_iter(self.case, self.epoch)


def _torch_main(case, raw, world):
    from torch.utils.data.distributed import DistributedSampler

    class _RecTorchMain(DistributedSampler):
        """torch's DistributedSampler(shuffle=True) itself (order fixed eagerly in __iter__ from self.epoch)"""

        def set_epoch(self, e):
            world.log.append(["E", int(e)])
            super().set_epoch(e)

        def __iter__(self):
            world.log.append(["I", int(self.epoch)])
            return super().__iter__()

    m = _RecTorchMain(_DS(0, raw["dsN"]), num_replicas=1, rank=0, shuffle=True, seed=case["perm_seed"])
    m.epoch = case.get("pre_epoch") or 0
    return m


class _Side:
    """recording side sampler; its order may change with every iteration (pass counter = the object's state,
    starting at p0); lazy (generator) or eager (order fixed in __iter__) like the main sampler; it offers
    set_epoch and logs any call of it"""

    def __init__(self, tag, sc, p0, world):
        # _get_data_source accepts either attribute name
        if tag % 2:
            self.data_source = _DS(tag, sc["dslen"])
        else:
            self.dataset = _DS(tag, sc["dslen"])
        self.tag, self.sc, self.p, self.world = tag, sc, p0, world

    def __len__(self):
        return len(self.sc["idx"])

    def set_epoch(self, e):
        self.world.log.append(["S", self.tag - 1, e])

    def _begin(self):
        p = self.p
        self.p += 1
        self.world.plog.append([self.tag - 1, len(self.world.log)])
        return side_iter(self.sc, p)

    def __iter__(self):
        if self.sc.get("eager"):
            return iter(self._begin())
        return self._gen()

    def _gen(self):
        yield from self._begin()


CFG_FIELDS = ("sampler", "every_n_epochs", "every_n_updates", "every_n_samples", "collator", "batch_size")


def obj_case(case, j):
    """the configuration of InterleavedSampler object j of this case's history: 0 = the case itself, j >= 1 =
    another InterleavedSampler built on the SAME main sampler object and (a selection of) the SAME config
    objects, with its own batch size / drop_last / budget / checkpoint"""
    if j == 0:
        return case
    o = case["others"][j - 1]
    sel = o.get("sel")
    sides = case["sides"] if sel is None else [case["sides"][i] for i in sel]
    oc = {k: v for k, v in case.items() if k not in ("mut", "post_budget", "loader", "scenario", "others")}
    oc.update({"B": o["B"], "drop_last": o["drop_last"], "D": o["D"], "budget": list(o["budget"]),
               "start": o.get("start"), "sides": sides})
    return oc


def default_scenario():
    return [["build", 0], ["iter", 0, None]]


def scenario_ok(case, sc=None):
    """every object is built once and before it is iterated; the last step is the full iteration of object 0"""
    sc = case.get("scenario") if sc is None else sc
    if not sc or sc[-1] != ["iter", 0, None]:
        return False
    built = set()
    for st in sc:
        if st[0] == "build":
            if st[1] in built or not 0 <= st[1] <= len(case.get("others") or []):
                return False
            built.add(st[1])
        elif st[0] == "iter" and st[1] not in built:
            return False
    return True


class _Objects:
    """the objects of one case: ONE main sampler object, ONE sampler + config object per side config, and the
    InterleavedSampler objects built on them"""

    def __init__(self, case, start="case", pass0=None):
        from kappadata.samplers.interleaved_sampler import InterleavedSamplerConfig
        self.case, self.start = case, start
        self.world = _World()
        raw = raw_args(case, start)
        self.main = (_torch_main if case.get("main_kind") == "torch" else _RecMain)(case, raw, self.world)
        pass0 = pass0 or [0] * len(case["sides"])
        self.side_samplers = [_Side(i + 1, sc, pass0[i], self.world) for i, sc in enumerate(case["sides"])]
        self.cfgs = [InterleavedSamplerConfig(sampler=sm, every_n_epochs=rs["ene"], every_n_updates=rs["enu"],
                                              every_n_samples=rs["ens"], batch_size=rs["bs"])
                     for sm, rs in zip(self.side_samplers, raw["sides"])]
        self.main_collator = None
        if case.get("loader") is not None:
            for i, cf in enumerate(self.cfgs):
                cf.collator = _TagCollator(i + 1)
            self.main_collator = _TagCollator(0)
        self.samplers = {}

    def snapshot(self):
        return [[(id(v) if k in ("sampler", "collator") and v is not None else v)
                 for k, v in ((k, getattr(cf, k, "<deleted>")) for k in CFG_FIELDS)] for cf in self.cfgs]

    def held(self):
        e = self.main.epoch
        return None if e is None else int(e)

    def passes(self):
        return [sm.p for sm in self.side_samplers]

    def construct(self, j):
        from kappadata.samplers.interleaved_sampler import InterleavedSampler
        oc = obj_case(self.case, j)
        raw = raw_args(oc, self.start if j == 0 else "case")
        kw = {k: raw[k] for k in ("epochs", "updates", "samples", "start_epoch", "start_update", "start_sample")
              if raw[k] is not None}
        if self.main_collator is not None:
            kw["main_collator"] = self.main_collator
        sel = None if j == 0 else self.case["others"][j - 1].get("sel")
        cfgs = self.cfgs if sel is None else [self.cfgs[i] for i in sel]
        self.world.log = self.world.outside
        s = InterleavedSampler(main_sampler=self.main, batch_size=raw["B"], configs=cfgs or None,
                               drop_last=raw["drop_last"], drop_last_batch_size=raw["D"], **kw)
        if j == 0 and self.case.get("post_budget") is not None:
            # several budgets at once: the constructor refuses them, the loop's end test handles them
            for k, v in self.case["post_budget"].items():
                setattr(s, k, v)
        self.samplers[j] = s
        return s

    def iterate(self, j, k=None):
        """one iteration of object j (k = abandon it after k yielded items) -> (result, log, plog)"""
        w = self.world
        w.log, w.plog = log, plog = [], []
        res = "ok"
        it = None
        try:
            it = iter(self.samplers[j])
            n = 0
            for full, idx in it:
                log.append(["Y", bool(full), int(idx)])
                n += 1
                if k is not None and n >= k:
                    break
                if len(log) > MAX_EVENTS:
                    res = "RUNAWAY"
                    break
        except AssertionError:
            res = "AssertionError"
        finally:
            w.log, w.plog = w.outside, []
            if it is not None and hasattr(it, "close"):
                it.close()
        return res, log, plog


def build(case, log, start="case", pass0=None, plog=None):
    """fresh objects, the InterleavedSampler of the case itself; set_epoch / __iter__ calls go to `log`"""
    ob = _Objects(case, start, pass0)
    s = ob.construct(0)
    ob.world.outside = ob.world.log = log
    if plog is not None:
        ob.world.plog = plog
    return s


def _loader_batches(s, workers):
    try:
        lb = []
        for bt in s.get_data_loader(num_workers=workers):
            lb.append([int(bt[0]), [[int(a), int(b)] for a, b in bt[1]]])
            if len(lb) > MAX_EVENTS:
                break
        return lb
    except Exception as e:  # noqa
        return type(e).__name__ + ": " + str(e)[:300]


def run_stream(case, start="case", pass0=None):
    """runs the case's history (default: construct, iterate once) on one set of objects
    -> dict(result=ok|NotImplementedError|AssertionError|RUNAWAY, log=[...] of the final iteration of object 0,
            hist=[earlier iterations], cfg_mutations=[...], pass0 / held0 = state of the shared sampler objects
            right before the final iteration, resolve=[...], ...)"""
    scenario = case.get("scenario") or default_scenario()
    ob = _Objects(case, start, pass0)
    snap = ob.snapshot()
    hist, muts = [], []
    out = {}
    res, log, plog = "ok", [], []

    def note_mutations(k):
        nonlocal snap
        now = ob.snapshot()
        for ci, (a, b) in enumerate(zip(snap, now)):
            for f, x, y in zip(CFG_FIELDS, a, b):
                if x != y:
                    muts.append([k, scenario[k][0], ci, f, x if f not in ("sampler", "collator") else "<object>",
                                 y if f not in ("sampler", "collator") else "<other object>"])
        snap = now

    for k, st in enumerate(scenario):
        last = k == len(scenario) - 1
        if st[0] == "build":
            try:
                ob.construct(st[1])
            except (NotImplementedError, AssertionError) as e:
                if st[1] == 0:
                    return {"result": type(e).__name__, "log": [], "hist": hist, "cfg_mutations": muts}
                hist.append({"obj": st[1], "k": None, "result": "ctor:" + type(e).__name__, "log": [],
                             "pass0": ob.passes(), "held0": ob.held()})
        elif st[0] == "set_epoch":
            ob.world.log = ob.world.outside
            ob.main.set_epoch(st[1])
        elif st[0] == "iter":
            if st[1] not in ob.samplers:
                continue
            p0, h0 = ob.passes(), ob.held()
            r, lg, pl = ob.iterate(st[1], st[2])
            if last:
                res, log, plog = r, lg, pl
                out["pass0"], out["held0"] = p0, h0
            else:
                hist.append({"obj": st[1], "k": st[2], "result": r, "log": lg, "pass0": p0, "held0": h0})
        note_mutations(k)
    s = ob.samplers[0]
    out.update({"index_offsets": [int(x) for x in s.index_offsets], "result": res, "log": log, "plog": plog,
                "hist": hist, "cfg_mutations": muts,
                "outside": [ev for ev in ob.world.outside][:50]})
    if res == "ok":
        # resolution of every distinct yielded index through the real concat dataset
        seen = {}
        for ev in log:
            if ev[0] == "Y" and ev[2] not in seen:
                try:
                    di, item = s.dataset[ev[2]]
                    seen[ev[2]] = [int(di), list(item)]
                except Exception as e:  # noqa
                    seen[ev[2]] = [type(e).__name__]
        out["resolve"] = sorted([k] + v for k, v in seen.items())
        # the batch sampler on a second, independent iteration (fresh objects in the same state)
        s2 = build(case, [], start, out["pass0"])
        try:
            bs = []
            for b in s2.batch_sampler:
                bs.append([int(i) for i in b])
                if len(bs) > MAX_EVENTS:
                    break
            out["batches"] = bs
        except AssertionError:
            out["batches"] = "AssertionError"
        if case.get("loader") is not None:
            # the real DataLoader (num_workers = case["loader"]) with one tagging collator per dataset
            out["loader_batches"] = _loader_batches(build(case, [], start, out["pass0"]), case["loader"])
    return out


def passes_before(fresh, e0, n_sides):
    """how often every side sampler was iterated in the run `fresh` before set_epoch(e0)"""
    try:
        k = fresh["log"].index(["E", e0])
    except ValueError:
        return None
    out = [0] * n_sides
    for ci, pos in fresh.get("plog", []):
        if pos <= k:
            out[ci] += 1
    return out


def run_impl(case):
    if case["start"] is None:
        obs = run_stream(case)
        obs.setdefault("pass0", [0] * len(case["sides"]))
        return obs
    # a resumed run is compared with the uninterrupted run of the real code on objects of its own; the side
    # sampler objects of the two runs are in the same state at the checkpoint (for samplers yielding the same
    # order every time this is immaterial)
    plain = {k: v for k, v in case.items() if k not in ("scenario", "others")}
    fresh = run_stream(plain, start=None)
    e0 = start_epoch_of(case)
    before = None
    if isinstance(e0, int) and fresh["result"] == "ok":
        before = passes_before(fresh, e0, len(case["sides"]))
    before = before or [0] * len(case["sides"])
    if case.get("scenario"):
        # the resumed object lives in a history; the state its side samplers have when its final iteration starts
        # decides where the uninterrupted reference has to start
        obs = run_stream(case)
        p0 = obs.get("pass0") or [0] * len(case["sides"])
        if p0 != before and any(sc.get("shuffle") is not None for sc in case["sides"]):
            fresh = run_stream(plain, start=None, pass0=[a - b for a, b in zip(p0, before)])
    else:
        obs = run_stream(case, pass0=before)
    obs.setdefault("pass0", before)
    if obs["result"] == "ok":
        obs["fresh"] = fresh["log"]
        if case.get("loader") is not None:
            obs["fresh_loader"] = fresh.get("loader_batches")
    return obs


# ---------------------------------------------------------------------------
# closed-form Python spec (independent of the Coq model)
# ---------------------------------------------------------------------------
def chunks(l, b):
    return [l[i:i + b] for i in range(0, len(l), b)]


def offsets(case):
    offs, acc = [], case["dsN"]
    for sc in case["sides"]:
        offs.append(acc)
        acc += sc["dslen"]
    return offs


def side_pass(case, ci, p=0):
    sc = case["sides"][ci]
    off = offsets(case)[ci]
    bs = sc["bs"] or case["B"]
    out = []
    for b in chunks(side_iter(sc, p), bs):
        out += [["Y", False, off + i] for i in b[:-1]] + [["Y", True, off + b[-1]]]
    return out


def crossed(n, a, b):
    """some multiple of n lies in (a, b]"""
    return any(m % n == 0 for m in range(a + 1, b + 1))


def start_epoch_of(case):
    """-> (e0 | 'NotImplementedError' | 'AssertionError')"""
    exp = ctor_expect(raw_args(case))
    if exp != "ok":
        return exp
    spe, upe = geometry(case)
    st = case["start"]
    if st is None:
        return 0
    if st[0] == "epoch":
        return st[1]
    u = st[1] // case["B"] if st[0] == "sample" else st[1]
    return u // upe


def spec_stream(case, e0, tag=False, pass0=None):
    """the stream an uninterrupted run shows from the beginning of epoch e0 on (side samplers iterated pass0
    times before); with tag=True every event carries 'M' (main) / config index"""
    bud = budgets(case)
    pn = list(pass0 or [0] * len(case["sides"]))
    if any(v == 0 for v in bud.values()):
        out = []
        for ci in range(len(case["sides"])):
            out += [ev + [ci] if tag else ev for ev in side_pass(case, ci, pn[ci])]
        return out
    spe, upe = geometry(case)
    out = []
    e = e0
    while True:
        out.append(["E", e, "M"] if tag else ["E", e])
        out.append(["I", e, "M"] if tag else ["I", e])       # iter(main_sampler) is called with epoch e announced
        bs = chunks(main_iter(case, e)[:spe], case["B"])
        done = 0
        for j, b in enumerate(bs):
            out += [["Y", False, i] + (["M"] if tag else []) for i in b[:-1]]
            out.append(["Y", True, b[-1]] + (["M"] if tag else []))
            prev = e * spe + done
            done += len(b)
            sample = e * spe + done
            update = e * upe + j + 1
            end = j + 1 == len(bs)
            epoch = e + 1 if end else e
            for ci, sc in enumerate(case["sides"]):
                due = ((sc["ene"] is not None and end and epoch % sc["ene"] == 0)
                       or (sc["enu"] is not None and update % sc["enu"] == 0)
                       or (sc["ens"] is not None and crossed(sc["ens"], prev, sample)))
                if due:
                    out += [ev + [ci] if tag else ev for ev in side_pass(case, ci, pn[ci])]
                    pn[ci] += 1
            if ((bud["epochs"] is not None and epoch == bud["epochs"])
                    or (bud["updates"] is not None and update == bud["updates"])
                    or (bud["samples"] is not None and sample >= bud["samples"])):
                return out
            if len(out) > 4 * MAX_EVENTS:
                return out
        e += 1


def cut_after(stream, k):
    """the part of a stream an iteration abandoned after k yielded items shows"""
    if k is None:
        return stream
    n = 0
    for i, ev in enumerate(stream):
        if ev[0] == "Y":
            n += 1
            if n >= k:
                return stream[:i + 1]
    return stream


def expected_iteration(case, h):
    """what an earlier iteration h = {obj, k, pass0} of the case's history has to show: an InterleavedSampler has
    no memory and reads nothing the shared sampler objects held before, so it is the stream of a FRESH object of
    that configuration (side samplers continuing from their own iteration counts), cut where it was abandoned"""
    j = h["obj"]
    oc = obj_case(case, j)
    e0 = start_epoch_of(oc)
    if isinstance(e0, str):
        return None
    sel = None if j == 0 else case["others"][j - 1].get("sel")
    p0 = h["pass0"] if sel is None else [h["pass0"][i] for i in sel]
    return oc, cut_after(spec_stream(oc, e0, pass0=p0), h["k"])


def history_violation(case, obs, proj=None, what="stream"):
    """every earlier iteration of the history, projected by proj(case_of_object, log), against the fresh model"""
    for n, h in enumerate(obs.get("hist") or []):
        name = f"history step: iteration of InterleavedSampler object #{h['obj']}" + \
               (f" (abandoned after {h['k']} items)" if h["k"] is not None else "")
        if ctor_expect(raw_args(obj_case(case, h["obj"]))) != "ok":
            continue
        if h["result"].startswith("ctor:"):
            return f"history: constructing object #{h['obj']} with valid arguments raised {h['result'][5:]}"
        if h["result"] != "ok":
            return f"{name}: {h['result']}"
        e = expected_iteration(case, h)
        if e is None:
            continue
        oc, exp = e
        a, b = (exp, h["log"]) if proj is None else (proj(oc, exp), proj(oc, h["log"]))
        if a != b:
            k = next((i for i in range(min(len(a), len(b))) if a[i] != b[i]), min(len(a), len(b)))
            return (items_tag(a, b) + f"{name} (main sampler object held epoch {h['held0']} before, side samplers iterated "
                    f"{h['pass0']} times): {what} differs from what a fresh object of that configuration yields "
                    f"at event {k}: expected {a[k:k + 6]} got {b[k:k + 6]} ({len(a)} vs {len(b)} events)")
    return None


def config_mutation_violation(obs):
    m = obs.get("cfg_mutations")
    if m:
        k, op, ci, f, x, y = m[0]
        return (f"history step {k} ({op}) changed attribute {f!r} of the InterleavedSamplerConfig object #{ci} it "
                f"was given: {x!r} -> {y!r} (configs are shared between samplers; {len(m)} change(s) in all)")
    return None


def ds_ranges(case):
    offs = [0, case["dsN"]]
    for sc in case["sides"]:
        offs.append(offs[-1] + sc["dslen"])
    return offs


def ds_of(case, i):
    offs = ds_ranges(case)
    for d in range(len(offs) - 1):
        if offs[d] <= i < offs[d + 1]:
            return d, i - offs[d]
    return None, None


def expected_loader_batches(case, stream):
    """[collator tag, [[dataset, sample], ...]] per batch of `stream`"""
    expb, cur = [], []
    for ev in stream:
        if ev[0] != "Y":
            continue
        cur.append(ev[2])
        if ev[1]:
            d = ds_of(case, cur[0])[0]
            expb.append([d, [[d, ds_of(case, i)[1]] for i in cur]])
            cur = []
    return expb


def side_set_epoch_calls(obs):
    return [ev for ev in obs.get("log", []) if ev[0] == "S"]


# ---------------------------------------------------------------------------
# rendering to Coq
# ---------------------------------------------------------------------------
COQ_PRELUDE = """From Coq Require Import ZArith List Bool.
Import ListNotations.
From KD Require Import C04.Model C04.Spec C04.Check.
Open Scope Z_scope.
"""


def coq_args(case, obs):
    raw = raw_args(case)
    calls = [0] * len(case["sides"])
    for ci, _ in obs.get("plog", []):
        calls[ci] += 1
    pass0 = obs.get("pass0") or [0] * len(case["sides"])
    sides = []
    for i, (sc, rs) in enumerate(zip(case["sides"], raw["sides"])):
        if sc.get("shuffle") is None:
            sidx = Raw("(fun _ => " + coq(list(sc["idx"])) + ")")
        else:
            sidx = Raw("(passes_fun " + coq([side_iter(sc, p) for p in range(pass0[i] + calls[i] + 2)]) + ")")
        sides.append(Rec(ene=Opt(rs["ene"]), enu=Opt(rs["enu"]), ens=Opt(rs["ens"]), sbs=Opt(rs["bs"]),
                         sidx=sidx, slen=len(sc["idx"]), dslen=sc["dslen"]))
    return Rec(a_N=raw["N"], a_dsN=raw["dsN"], a_B=raw["B"], a_drop_last=bool(raw["drop_last"]), a_D=Opt(raw["D"]),
               a_epochs=Opt(raw["epochs"]), a_updates=Opt(raw["updates"]), a_samples=Opt(raw["samples"]),
               a_start_epoch=Opt(raw["start_epoch"]), a_start_update=Opt(raw["start_update"]),
               a_start_sample=Opt(raw["start_sample"]), a_sides=sides)


NEVER = -1000003      # rendering of "the sampler object was never told an epoch" inside an observed OIterStart


def coq_obs(log):
    out = []
    for ev in log:
        if ev[0] == "E":
            out.append(C("OSetEpoch", ev[1]))
        elif ev[0] == "I":
            out.append(C("OIterStart", NEVER if ev[1] is None else ev[1]))
        elif ev[0] == "S":
            out.append(C("OSideSetEpoch", Nat(ev[1]), ev[2]))
        else:
            out.append(C("OYield", ev[1], ev[2]))
    return out


def coq_case_common(case, obs):
    result = {"ok": 0, "NotImplementedError": 1, "AssertionError": 2, "RUNAWAY": 3}[obs["result"]]
    epochs = [ev[1] for ev in obs["log"] if ev[0] == "E"]
    emin = min(epochs) if epochs else 0
    emax = max(epochs) + 1 if epochs else 0
    iters = [main_iter(case, e) for e in range(emin, emax + 1)]
    batches = obs.get("batches")
    bat = Opt(None if not isinstance(batches, list) else batches)
    resolve = [(r[0], Nat(r[1]), r[2][1]) for r in obs.get("resolve", []) if len(r) == 3]
    pb = case.get("post_budget")
    ovr = Opt(None if pb is None else (Opt(pb["epochs"]), Opt(pb["updates"]), Opt(pb["samples"])))
    offs = Opt(obs.get("index_offsets"))
    lb = obs.get("loader_batches")
    lbt = Opt(None if not isinstance(lb, list) else [(Nat(t), [x[1] for x in items]) for t, items in lb])
    pass0 = [Nat(p) for p in (obs.get("pass0") or [0] * len(case["sides"]))]
    held0 = Opt(obs.get("held0"))
    return (coq_args(case, obs), ovr, pass0, held0, Nat(result), emin, iters, coq_obs(obs["log"]), bat, resolve, offs, lbt)
