(* Proofs for C13, part 5: several ranks.
   - SemiSampler, any world size W: how many labeled / unlabeled picks one rank makes in an epoch, and what the
     length modes "labeled" / "unlabeled" then mean for a rank;
   - ClassBalancedSampler when W does not divide C*spc: what the cut-off tail costs every class;
   - one SemiSampler object over several epochs; the (rank a, epoch b) / (rank b, epoch a) seed coincidence. *)
From Coq Require Import ZArith List Bool Arith Lia Permutation.
Import ListNotations.
From KD Require Import C12.Model C12.Spec C12.Proofs C13.Model C13.Spec C13.ProofsCB C13.ProofsSemi C13.ProofsModes
                       C13.Proofs.

(* ------------------------------------------------------------------ *)
(* counting the entries of a stream with the L / U pattern              *)
(* ------------------------------------------------------------------ *)
Section Count2.
  Context {A : Type}.
  Variable f : A -> bool.

  (* an unfinished chunk: its first min(r, L) entries satisfy f *)
  Lemma partial_chunk_count : forall L t,
      (forall i x, nth_error t i = Some x -> f x = (i <? L)) -> length (filter f t) = Nat.min (length t) L.
  Proof.
    intros L t H.
    assert (filter f t = filter f (firstn L t ++ skipn L t)) as E by (rewrite firstn_skipn; reflexivity).
    rewrite E, filter_app, app_length.
    rewrite (filter_all_true f), (filter_all_false f).
    - rewrite firstn_length. simpl. lia.
    - intros x Hx. apply In_nth_error in Hx. destruct Hx as [j Hj]. rewrite nth_error_skipn in Hj.
      rewrite (H _ _ Hj). apply Nat.ltb_ge. lia.
    - intros x Hx. apply In_nth_error in Hx. destruct Hx as [j Hj]. rewrite nth_error_firstn in Hj.
      destruct (Nat.ltb_spec j L); [|discriminate]. rewrite (H _ _ Hj). apply Nat.ltb_lt. auto.
  Qed.

  (* any number n of entries: floor(n / (L+U)) whole chunks and an unfinished one *)
  Lemma pattern_count : forall L U, 1 <= L + U -> forall s,
      (forall i x, nth_error s i = Some x -> f x = (i mod (L + U) <? L)) ->
      length (filter f s) = (length s / (L + U)) * L + Nat.min (length s mod (L + U)) L.
  Proof.
    intros L U HLU s H. set (q := length s / (L + U)).
    assert (length s = q * (L + U) + length s mod (L + U)) as Hn
        by (unfold q; pose proof (Nat.div_mod (length s) (L + U)); lia).
    assert (filter f s = filter f (firstn (q * (L + U)) s ++ skipn (q * (L + U)) s)) as E
        by (rewrite firstn_skipn; reflexivity).
    rewrite E, filter_app, app_length.
    rewrite (chunks_count f L U HLU q (firstn (q * (L + U)) s)).
    - rewrite (partial_chunk_count L (skipn (q * (L + U)) s)).
      + rewrite skipn_length. f_equal. f_equal. lia.
      + intros i x Hx. rewrite nth_error_skipn in Hx. rewrite (H _ _ Hx).
        assert (q * (L + U) + i < length s) as Hlt by (apply nth_error_Some; congruence).
        pose proof (Nat.mod_upper_bound (length s) (L + U)).
        replace (q * (L + U) + i) with (i + q * (L + U)) by lia. rewrite Nat.mod_add by lia.
        rewrite Nat.mod_small by lia. reflexivity.
    - rewrite firstn_length. lia.
    - intros i x Hx. rewrite nth_error_firstn in Hx.
      destruct (Nat.ltb_spec i (q * (L + U))); [|discriminate]. apply H. exact Hx.
  Qed.
End Count2.

(* ------------------------------------------------------------------ *)
(* arithmetic of len = q * c / W                                        *)
(* ------------------------------------------------------------------ *)
Lemma cdiv_exact_or_next : forall q W, 1 <= W ->
    (q mod W = 0 -> cdiv q W = q / W) /\ (q mod W <> 0 -> cdiv q W = q / W + 1).
Proof.
  intros q W HW. unfold cdiv. pose proof (Nat.div_mod q W). pose proof (Nat.mod_upper_bound q W). split; intro Hm.
  - symmetry. apply Nat.div_unique with (r := W - 1); nia.
  - symmetry. apply Nat.div_unique with (r := q mod W - 1); nia.
Qed.

Lemma cdiv_le_self : forall q W, 1 <= W -> cdiv q W <= q.
Proof.
  intros q W HW. destruct (cdiv_exact_or_next q W HW) as [H0 H1].
  pose proof (Nat.div_mod q W). pose proof (Nat.mod_upper_bound q W).
  destruct (Nat.eq_dec (q mod W) 0) as [e|ne].
  - rewrite (H0 e). nia.
  - rewrite (H1 ne). nia.
Qed.

Lemma rank_len_facts : forall q c W, 1 <= W -> 1 <= c ->
    let len := q * c / W in
    len / c = q / W /\ len mod c < c /\ (q mod W = 0 -> len mod c = 0).
Proof.
  intros q c W HW Hc len. split; [|split].
  - unfold len. rewrite Nat.div_div by lia. rewrite Nat.div_mul_cancel_r by lia. reflexivity.
  - apply Nat.mod_upper_bound. lia.
  - intro Hm. unfold len.
    assert (q = W * (q / W)) as Hq by (apply Nat.div_exact; lia).
    replace (q * c) with ((q / W * c) * W) by nia.
    rewrite Nat.div_mul by lia. apply Nat.mod_mul. lia.
Qed.

(* ------------------------------------------------------------------ *)
(* SemiSampler: the picks of one rank, any world size                   *)
(* ------------------------------------------------------------------ *)
Lemma semi_rank_counts : forall c rs es draw rank s, perm_oracle draw -> semi_ctor_ok c = true ->
    r_out (semi_run c rs es draw rank) = Ok s ->
    let cc := se_L c + se_U c in
    length s = semi_len c /\
    length (labeled_picks (se_classes c) s) = (semi_len c / cc) * se_L c + Nat.min (semi_len c mod cc) (se_L c) /\
    length (labeled_picks (se_classes c) s) + length (unlabeled_picks (se_classes c) s) = semi_len c.
Proof.
  intros c rs es draw rank s Hd Hc Hs cc.
  destruct (semi_epoch c rs es draw rank Hd Hc) as (s' & E1 & L1 & L2 & Halt & _).
  rewrite Hs in E1. inversion E1; subst s'. clear E1.
  destruct (semi_ctor_pools c Hc) as (_ & _ & HL & HU & _).
  assert (length s = semi_len c) as Hlen by congruence.
  split; auto. split.
  - unfold labeled_picks. rewrite <- Hlen. apply (pattern_count _ (se_L c) (se_U c)); [lia|].
    intros i x Hx. apply Halt. exact Hx.
  - pose proof (filter_partition_length (labeled (se_classes c)) s) as Hp.
    fold (labeled_picks (se_classes c) s) in Hp. fold (unlabeled_picks (se_classes c) s) in Hp. lia.
Qed.

(* length_mode = "labeled", any W: a rank visits every labeled sample at most once; it makes between
   floor(q/W)*L and ceil(q/W)*L labeled picks, q = floor(nl / L) the number of chunks of the whole epoch *)
Lemma labeled_mode_rank : forall c rs es draw rank s, perm_oracle draw -> semi_ctor_ok c = true -> 1 <= se_W c ->
    se_mode c = MLabeled -> r_out (semi_run c rs es draw rank) = Ok s ->
    let picks := labeled_picks (se_classes c) s in
    let nl := length (labeled_pool (se_classes c)) in
    let q := nl / se_L c in
    NoDup picks /\ (q / se_W c) * se_L c <= length picks /\ length picks <= cdiv q (se_W c) * se_L c /\
    length picks <= nl.
Proof.
  intros c rs es draw rank s Hd Hc HW Hm Hs picks nl q.
  destruct (semi_rank_counts c rs es draw rank s Hd Hc Hs) as (_ & Hl & _).
  destruct (semi_ctor_pools c Hc) as (Hne & _ & HL & HU & _).
  fold picks in Hl.
  assert (semi_len c = q * (se_L c + se_U c) / se_W c) as Hlen.
  { unfold semi_len, semi_E. rewrite Hm, labeled_idxs_pool. reflexivity. }
  rewrite Hlen in Hl.
  destruct (rank_len_facts q (se_L c + se_U c) (se_W c) HW ltac:(lia)) as (F1 & F2 & F3).
  destruct (cdiv_exact_or_next q (se_W c) HW) as [C0 C1].
  pose proof (cdiv_le_self q (se_W c) HW) as Cle.
  pose proof (floor_div_bounds nl (se_L c) HL) as [Hb1 _]. fold q in Hb1.
  rewrite F1 in Hl.
  set (m := (q * (se_L c + se_U c) / se_W c) mod (se_L c + se_U c)) in *.
  assert ((q / se_W c) * se_L c <= length picks) as Hlo by lia.
  assert (length picks <= cdiv q (se_W c) * se_L c) as Hhi.
  { destruct (Nat.eq_dec (q mod se_W c) 0) as [e|ne].
    - rewrite (C0 e). rewrite (F3 e) in Hl. simpl in Hl. lia.
    - rewrite (C1 ne). nia. }
  assert (length picks <= nl) as Hnl by nia.
  split; [|auto].
  destruct (semi_epoch c rs es draw rank Hd Hc) as (s' & E1 & _ & _ & _ & _ & _ & Hbl & _).
  rewrite Hs in E1. inversion E1; subst s'.
  apply (blocks_short_NoDup (labeled_pool (se_classes c))); auto.
  - rewrite <- labeled_idxs_pool. exact Hne.
  - apply NoDup_filter, seq_NoDup.
Qed.

Lemma unlabeled_mode_rank : forall c rs es draw rank s, perm_oracle draw -> semi_ctor_ok c = true -> 1 <= se_W c ->
    se_mode c = MUnlabeled -> r_out (semi_run c rs es draw rank) = Ok s ->
    let picks := unlabeled_picks (se_classes c) s in
    let nu := length (unlabeled_pool (se_classes c)) in
    let q := nu / se_U c in
    NoDup picks /\ (q / se_W c) * se_U c <= length picks /\ length picks <= cdiv q (se_W c) * se_U c /\
    length picks <= nu.
Proof.
  intros c rs es draw rank s Hd Hc HW Hm Hs picks nu q.
  destruct (semi_rank_counts c rs es draw rank s Hd Hc Hs) as (_ & Hl & Hsum).
  destruct (semi_ctor_pools c Hc) as (_ & Hne & HL & HU & _).
  fold picks in Hsum.
  assert (semi_len c = q * (se_L c + se_U c) / se_W c) as Hlen.
  { unfold semi_len, semi_E. rewrite Hm, unlabeled_idxs_pool. reflexivity. }
  rewrite Hlen in Hl, Hsum.
  destruct (rank_len_facts q (se_L c + se_U c) (se_W c) HW ltac:(lia)) as (F1 & F2 & F3).
  destruct (cdiv_exact_or_next q (se_W c) HW) as [C0 C1].
  pose proof (cdiv_le_self q (se_W c) HW) as Cle.
  pose proof (floor_div_bounds nu (se_U c) HU) as [Hb1 _]. fold q in Hb1.
  pose proof (Nat.div_mod (q * (se_L c + se_U c) / se_W c) (se_L c + se_U c) ltac:(lia)) as Hdm.
  rewrite F1 in Hl, Hdm.
  set (m := (q * (se_L c + se_U c) / se_W c) mod (se_L c + se_U c)) in *.
  set (len := q * (se_L c + se_U c) / se_W c) in *.
  set (k := q / se_W c) in *.
  assert (k * se_U c <= length picks) as Hlo by nia.
  assert (length picks <= cdiv q (se_W c) * se_U c) as Hhi.
  { destruct (Nat.eq_dec (q mod se_W c) 0) as [e|ne].
    - rewrite (C0 e). fold k. rewrite (F3 e) in Hl, Hdm. simpl in Hl. nia.
    - rewrite (C1 ne). fold k. nia. }
  assert (length picks <= nu) as Hnu by nia.
  split; [|auto].
  destruct (semi_epoch c rs es draw rank Hd Hc) as (s' & E1 & _ & _ & _ & _ & _ & _ & Hbu & _).
  rewrite Hs in E1. inversion E1; subst s'.
  apply (blocks_short_NoDup (unlabeled_pool (se_classes c))); auto.
  - rewrite <- unlabeled_idxs_pool. exact Hne.
  - apply NoDup_filter, seq_NoDup.
Qed.

(* ------------------------------------------------------------------ *)
(* ClassBalancedSampler: W does not divide C * spc                      *)
(* ------------------------------------------------------------------ *)
Lemma class_count_app : forall classes z a b,
    class_count classes z (a ++ b) = class_count classes z a + class_count classes z b.
Proof. intros. unfold class_count. rewrite map_app, count_occ_app. reflexivity. Qed.

Lemma count_occ_le_length : forall (l : list Z) z, count_occ Z.eq_dec l z <= length l.
Proof. induction l as [|a l IH]; intro z; simpl; auto. destruct (Z.eq_dec a z); specialize (IH z); simpl; lia. Qed.

Lemma class_count_le_length : forall classes z a, class_count classes z a <= length a.
Proof. intros. unfold class_count. rewrite <- (map_length (cls classes) a). apply count_occ_le_length. Qed.

(* the ranks together hold every class spc times minus what the cut-off tail (the last E mod W entries of the
   global draw) held of it: between spc - (E mod W) and spc *)
Lemma cb_ranks_class_counts : forall c draw G h, perm_oracle draw -> cb_ctor_ok c = true -> 1 <= cb_W c ->
    cb_global c draw = Ok (G, h) ->
    let E := cb_C c * cb_spc c in let W := cb_W c in
    let tail := skipn (W * (E / W)) G in
    let held := interleave (cb_streams c draw) in
    length tail = E mod W /\ length held = W * (E / W) /\
    forall i, i < cb_C c ->
      class_count (cb_classes c) (Z.of_nat i) held + class_count (cb_classes c) (Z.of_nat i) tail = cb_spc c /\
      cb_spc c - E mod W <= class_count (cb_classes c) (Z.of_nat i) held /\
      class_count (cb_classes c) (Z.of_nat i) held <= cb_spc c.
Proof.
  intros c draw G h Hd Hc HW HG E W tail held.
  destruct (p_ranks c draw G h Hd Hc HW HG) as (_ & Hpre & _ & _). fold E W held in Hpre.
  pose proof (cb_exact c draw G h Hd Hc HG) as [Hlen Hcnt]. fold E in Hlen.
  pose proof (floor_div_bounds E W HW) as [Hb1 Hb2].
  assert (length tail = E mod W) as Ht.
  { unfold tail. rewrite skipn_length, Hlen. rewrite (Nat.mod_eq E W) by lia. reflexivity. }
  split; auto. split.
  - rewrite Hpre, firstn_length. lia.
  - intros i Hi. specialize (Hcnt i Hi).
    assert (G = held ++ tail) as HGs by (rewrite Hpre; unfold tail; symmetry; apply firstn_skipn).
    rewrite HGs, class_count_app in Hcnt.
    pose proof (class_count_le_length (cb_classes c) (Z.of_nat i) tail). lia.
Qed.

(* ------------------------------------------------------------------ *)
(* one SemiSampler object over several epochs                           *)
(* ------------------------------------------------------------------ *)
Lemma semi_object_spec : forall c rnd draw rank ops,
    semi_object c rnd draw rank ops =
    map (fun e => semi_run_rnd (se_set_epoch c e) rnd draw rank) (iter_epochs (se_epoch c) ops).
Proof.
  intros. unfold semi_object.
  apply (run_ops_spec se_set_epoch (fun c' => semi_run_rnd c' rnd draw rank) se_epoch); auto. intros []; reflexivity.
Qed.

(* seed + f(rank) + f(epoch) is symmetric in (rank, epoch): rank a in epoch b draws from a generator seeded like
   the one of rank b in epoch a, and (same pools, same length) emits the same stream *)
Lemma semi_swap : forall c rnd draw a b,
    r_out (semi_run_rnd (se_set_epoch c (Z.of_nat b)) rnd draw a) =
    r_out (semi_run_rnd (se_set_epoch c (Z.of_nat a)) rnd draw b) /\
    nth 2 (r_seeds (semi_run_rnd (se_set_epoch c (Z.of_nat b)) rnd draw a)) 0%Z =
    nth 2 (r_seeds (semi_run_rnd (se_set_epoch c (Z.of_nat a)) rnd draw b)) 0%Z.
Proof.
  intros c rnd draw a b. unfold semi_run_rnd, semi_run, semi_iter, semi_gen_seed, semi_ctor_ok, semi_len, semi_E. simpl.
  replace (se_seed c + rnd (Z.of_nat a) + rnd (Z.of_nat b))%Z
    with (se_seed c + rnd (Z.of_nat b) + rnd (Z.of_nat a))%Z by lia.
  destruct (_ && _); simpl; [|split; reflexivity].
  destruct (semi_loop _ _ _ _ _ _ _ _ _ _) as [[s0 h0]| |]; simpl; split; reflexivity.
Qed.

(* ------------------------------------------------------------------ *)
(* SemiSampler with default rank / world_size arguments                 *)
(* ------------------------------------------------------------------ *)
Lemma semi_built_history : forall c rank world g evs rnd draw,
    semi_built c rank world (pg_after g evs) rnd draw
    = semi_built c rank world (pg_after g (filter (fun ev => negb (is_query ev)) evs)) rnd draw.
Proof. intros. unfold semi_built. rewrite (resolve_independent_of_history g evs). reflexivity. Qed.

Lemma semi_built_default : forall r W evs, joined_as r W evs -> forall c rnd draw,
    semi_built c None None (pg_after pg_fresh evs) rnd draw = semi_run_rnd (se_set_world c W) rnd draw r.
Proof. intros. unfold semi_built. rewrite (resolve_after_init r W) by auto. reflexivity. Qed.

Lemma semi_built_explicit : forall c r W g rnd draw,
    semi_built c (Some r) (Some W) g rnd draw = semi_run_rnd (se_set_world c W) rnd draw r.
Proof. reflexivity. Qed.

Lemma semi_default_ranks : forall c rnd draw W (hist : nat -> list pg_event),
    perm_oracle draw -> semi_ctor_ok c = true ->
    (forall r, r < W -> joined_as r W (hist r)) ->
    forall r, r < W ->
    let m := semi_built c None None (pg_after pg_fresh (hist r)) rnd draw in
    exists s, r_out m = Ok s /\ length s = semi_E c / W /\ r_len m = semi_E c / W /\
              r_seeds m = [Z.of_nat r; se_epoch c; (se_seed c + rnd (Z.of_nat r) + rnd (se_epoch c))%Z].
Proof.
  intros c rnd draw W hist Hd Hc Hj r Hr. simpl.
  rewrite (semi_built_default r W (hist r) (Hj r Hr)). unfold semi_run_rnd.
  assert (Hc' : semi_ctor_ok (se_set_world c W) = true) by exact Hc.
  destruct (p_equal_length (se_set_world c W) (rnd (Z.of_nat r)) (rnd (se_epoch c)) 0%Z 0%Z draw draw r 0 Hd Hd Hc')
    as (s1 & s2 & E1 & _ & _ & HL).
  exists s1. simpl in *. split; [exact E1|].
  pose proof (p_semi_seed (se_set_world c W) (rnd (Z.of_nat r)) (rnd (se_epoch c)) draw r Hd Hc') as Hs.
  simpl in Hs.
  assert (Hlen : r_len (semi_run (se_set_world c W) (rnd (Z.of_nat r)) (rnd (se_epoch c)) draw r) = semi_E c / W).
  { unfold semi_run. rewrite Hc'. simpl.
    destruct (semi_iter (se_set_world c W) (rnd (Z.of_nat r)) (rnd (se_epoch c)) draw) as [[? ?]| |]; reflexivity. }
  split; [rewrite HL; exact Hlen|]. split; [exact Hlen|exact Hs].
Qed.
