"""C19 — the in-memory cache SharedDictDataset is transparent for every access history,
also with several processes sharing the cache.

Three kinds of cases, all on the REAL class kappadata.caching.shared_dict_dataset.SharedDictDataset:
 seq    random sequential histories (get / repeated get / dispose / shared_dict.clear() / len, negative and
        out-of-range indices, np.int64 indices) over several holders of one cache (copy.copy / pickle round trip of
        the dataset object: all talk to the same REAL multiprocessing.Manager dict) and several independent caches
        over one base; load-counting base dataset, ticket-issuing transform.
 sched  2-4 logical processes (readers / clearers) whose individual dict operations are interleaved
        deterministically by an explicit schedule: `Manager` in the module under test is replaced by a factory of a
        scheduling dict (value semantics through pickle like the real proxy); every dict operation and every access
        of the wrapped dataset is a scheduling point; each logical process runs in its own thread and holds the
        baton only while the schedule says so (explicit hand-over, timeouts everywhere).
 procs  (thorough) real forked processes hammering the real Manager dict; order unknown -> order-free checks only.
"""
import copy
import itertools
import os
import pickle
import threading

from .common import C, Nat, Raw, Rec, coq

ID = "C19"
COQ_FILES = ["C19/Model.v", "C19/Spec.v", "C19/Check.v", "C19/Proofs.v", "C19/Property.v"]
COQ_PRELUDE = ("From Coq Require Import ZArith List Bool.\nImport ListNotations.\n"
               "From KD Require Import C19.Model C19.Spec C19.Check.\nOpen Scope Z_scope.\n")
COQ_CHECK = "check"
COQ_CASE_TYPE = "case_t"
SHARD = 400
ALLOWED_AXIOMS = []
TRUSTED = [
    "hand-written model coq/C19/Model.v of SharedDictDataset._cached_getitem / dispose and CachedDataset.__getitem__ / "
    "__len__ (repaired code); tied to KD_REPO by this run's correspondence evaluation: complete event logs (loads, "
    "clears, returns with values and transform call numbers, len) and final dict contents compared",
    "multiprocessing.Manager().dict(): every proxy operation (`in`, `[]`, `[]=`, clear) is atomic and by value "
    "(pickle round trip); exercised against the real Manager in the seq cases and, thorough tier, by real processes",
    "harness/c19.py: scheduling dict + baton (one logical process runs at a time, a scheduling point before every dict "
    "operation and every wrapped-dataset access), payload encoding/decoding into integer ids, ticket transform",
    "pickling is assumed faithful: observational equality is equality by value of the decoded payload",
    "an access of the wrapped dataset is one atomic step and has no effect other than producing the sample",
]
ASSUMPTIONS = [
    "the wrapped dataset is a pure function of the index (or raises, e.g. IndexError); payloads can be pickled",
    "indices are hashable and equal indices hash equally (int, np.int64); -1 and n-1 are different cache keys of equal samples",
    "the transform may be stateful/random: its k-th call in a process is an arbitrary recorded draw; it does not raise",
    "processes do nothing to the shared dict except through cached[i], dispose() and shared_dict.clear()",
]
RULE = ("seq 40% / sched 60% (thorough: + every schedule over {reader, reader, clearer} up to length 8 for three "
        "program sets + real-process cases); datasets of 0-6 samples of 10 payload types, indices in -n-1..n incl. "
        "repeats, 1-4 holders on 1-2 caches, transform on 80%; schedules of 0-40 steps over 2-4 processes with "
        "programs of 1-4 commands on 1-3 hot indices; non-trivial = seq: a cache hit and a reload after a clear in one "
        "history / sched: a process switch in the middle of an access; distinct by (history) resp. (programs, effective schedule)")

PTYPES = ["int", "str", "tuple", "dict", "ndarray", "tensor", "bytes", "nested", "list", "float"]
GARBAGE = 999          # id code of a payload that does not decode
T_STEP = 20.0          # seconds a logical process / the controller waits for the baton before giving up
TICKETS = 200          # tickets of process p are p*TICKETS + k


# ---------------------------------------------------------------------------
# payloads: built from an integer id, decoded back strictly
# ---------------------------------------------------------------------------
def make_payload(ptype, k):
    import numpy as np
    import torch
    if ptype == "int":
        return k
    if ptype == "str":
        return "s%d" % k
    if ptype == "tuple":
        return (torch.tensor([k, k + 1]), k % 10)
    if ptype == "dict":
        return {"x": k, "meta": [k, "a"]}
    if ptype == "ndarray":
        return np.full((2, 2), k, dtype=np.int64)
    if ptype == "tensor":
        return torch.arange(3) + k
    if ptype == "bytes":
        return b"b%d" % k
    if ptype == "nested":
        return ((k,), {"k": (k, None)})
    if ptype == "list":
        return [k, [k, k]]
    if ptype == "float":
        return k + 0.5
    raise ValueError(ptype)


def payload_id(ptype, o):
    """the id a payload was built from, None if it is not exactly such a payload"""
    import numpy as np
    import torch
    try:
        if ptype == "int":
            return o if type(o) is int else None
        if ptype == "str":
            return int(o[1:]) if type(o) is str and o[:1] == "s" else None
        if ptype == "tuple":
            if type(o) is tuple and len(o) == 2 and torch.is_tensor(o[0]) and o[0].shape == (2,) and type(o[1]) is int:
                k = int(o[0][0])
                return k if int(o[0][1]) == k + 1 and o[1] == k % 10 else None
            return None
        if ptype == "dict":
            if type(o) is dict and set(o) == {"x", "meta"} and type(o["x"]) is int and o["meta"] == [o["x"], "a"]:
                return o["x"]
            return None
        if ptype == "ndarray":
            if isinstance(o, np.ndarray) and o.shape == (2, 2) and o.dtype == np.int64 and (o == o[0, 0]).all():
                return int(o[0, 0])
            return None
        if ptype == "tensor":
            if torch.is_tensor(o) and o.shape == (3,) and o.dtype == torch.int64:
                k = int(o[0])
                return k if o.tolist() == [k, k + 1, k + 2] else None
            return None
        if ptype == "bytes":
            return int(o[1:]) if type(o) is bytes and o[:1] == b"b" else None
        if ptype == "nested":
            if type(o) is tuple and len(o) == 2 and type(o[0]) is tuple and len(o[0]) == 1 and type(o[0][0]) is int:
                k = o[0][0]
                return k if o[1] == {"k": (k, None)} else None
            return None
        if ptype == "list":
            if type(o) is list and len(o) == 2 and type(o[0]) is int and o[1] == [o[0], o[0]]:
                return o[0]
            return None
        if ptype == "float":
            return int(o - 0.5) if type(o) is float and o - 0.5 == int(o - 0.5) else None
    except Exception:
        return None
    return None


def id_code(ptype, o):
    k = payload_id(ptype, o)
    return GARBAGE if k is None or not (0 <= k < GARBAGE) else k


def result_code(ptype, has_tf, r):
    """integer code of what cached[i] returned: 1000*(ticket+1) + id with a transform, id without"""
    if not has_tf:
        return id_code(ptype, r)
    if type(r) is tuple and len(r) == 3 and r[0] == "T" and type(r[1]) is int and r[1] >= 0:
        return 1000 * (r[1] + 1) + id_code(ptype, r[2])
    return -1


class Ticket:
    """post-cache transform: wraps the sample together with a fresh ticket (stateful like an augmentation)"""

    def __init__(self, pid):
        self.pid = pid
        self.issued = []

    def __call__(self, sample):
        t = self.pid * TICKETS + len(self.issued)
        self.issued.append(t)
        return ("T", t, sample)


class CountingBase:
    """the wrapped dataset: a Python list of payloads; every access is logged (and is a scheduling point)"""

    def __init__(self, payloads, log, pid, baton=None):
        self.payloads = payloads
        self.log = log
        self.pid = pid
        self.baton = baton

    def __len__(self):
        return len(self.payloads)

    def __getitem__(self, idx):
        if self.baton is not None:
            self.baton.point(self.pid)
        self.log.append(["L", self.pid, int(idx)])
        return self.payloads[idx]


# ---------------------------------------------------------------------------
# one command of one holder on the real object
# ---------------------------------------------------------------------------
def do_op(log, p, ds, op, nret, baton=None):
    import numpy as np
    name = op[0]
    if name == "get":
        i = op[1]
        idx = np.int64(i) if len(op) > 2 and op[2] == "np" else i
        k = nret[p]
        try:
            r = ds[idx]
        except KeyError:
            log.append(["R", p, i, k, "KeyError"])
            return
        except IndexError:
            log.append(["R", p, i, k, "BaseError"])
            return
        except Abort:
            raise
        except Exception as e:  # anything else is not transparent
            log.append(["R", p, i, k, "X:" + type(e).__name__])
            return
        nret[p] += 1
        log.append(["R", p, i, k, ("ok", r)])  # the payload is replaced by its code in finish_log
    elif name == "dispose":
        ds.dispose()
        log.append(["C", p])
    elif name == "clear":
        ds.shared_dict.clear()
        log.append(["C", p])
    elif name == "len":
        if baton is not None:
            baton.point(p)
        log.append(["N", p, len(ds)])
    else:
        raise ValueError(name)


def finish_log(log, ptype, has_tf):
    out = []
    for e in log:
        if e[0] == "R" and isinstance(e[4], tuple):
            e = e[:4] + [["V", result_code(ptype, has_tf, e[4][1])]]
        out.append(e)
    return out


def dict_content(ptype, d):
    out = []
    for k, v in d.items():
        try:
            kk = int(k)
        except Exception:
            kk = 99999
        out.append([kk, id_code(ptype, v)])
    return sorted(out)


# ---------------------------------------------------------------------------
# kind "seq": the real Manager dict
# ---------------------------------------------------------------------------
_SHARED_MANAGER = []


def shared_manager():
    """one real multiprocessing Manager server for the whole run (starting one per dataset costs ~0.3 s); cases with
    own_manager=True go through the untouched `Manager()` of the module under test"""
    if not _SHARED_MANAGER:
        import atexit
        from multiprocessing import Manager
        m = Manager()
        _SHARED_MANAGER.append(m)
        atexit.register(m.shutdown)
    return _SHARED_MANAGER[0]


def run_seq(case):
    import kappadata.caching.shared_dict_dataset as mod
    ptype, has_tf = case["ptype"], case["has_tf"]
    payloads = [make_payload(ptype, k) for k in case["ids"]]
    log = []
    firsts = {}
    handles = []
    tfs = []
    own = case.get("own_manager", False)
    real_manager = mod.Manager
    if not own:
        mod.Manager = shared_manager
    try:
        for p, (c, how) in enumerate(zip(case["handles"], case["how"])):
            base = CountingBase(payloads, log, p)
            tf = Ticket(p) if has_tf else None
            if c not in firsts:
                ds = (mod.SharedDictDataset(base, transform=tf) if has_tf or how == "kw"
                      else mod.SharedDictDataset(base))
                firsts[c] = ds
            else:
                orig = firsts[c]
                ds = pickle.loads(pickle.dumps(orig)) if how == "pickle" else copy.copy(orig)
                ds.dataset = base
                ds.transform = tf
            handles.append(ds)
            tfs.append(tf)
        nret = [0] * len(handles)
        for op in case["hist"]:
            do_op(log, op[0], handles[op[0]], op[1:], nret)
        dicts = [dict_content(ptype, firsts[c].shared_dict.copy()) for c in sorted(firsts)]
    finally:
        mod.Manager = real_manager
        handles.clear()
        if own:
            for ds in firsts.values():
                try:
                    ds.shared_dict._manager.shutdown()
                except Exception:
                    pass
    return {"log": finish_log(log, ptype, has_tf), "dicts": dicts,
            "draws": [tf.issued if tf else [] for tf in tfs]}


# ---------------------------------------------------------------------------
# kind "sched": scheduling dict + baton
# ---------------------------------------------------------------------------
class Abort(BaseException):
    """unwinds a logical process that the schedule left unfinished"""


class HarnessHang(Exception):
    pass


def _locked():
    lk = threading.Lock()
    lk.acquire()
    return lk


def _signal(lk):
    try:
        lk.release()
    except RuntimeError:       # already signalled (only happens while aborting)
        pass


class Baton:
    """strict hand-over: `turn[p]` is signalled by the controller, `back` by the logical process that ran"""

    def __init__(self, n):
        self.n = n
        self.turn = [_locked() for _ in range(n)]
        self.back = _locked()
        self.done = [False] * n
        self.abort = False

    def point(self, p):
        """called by logical process p right before an atomic operation: hand the baton back, wait for the next turn"""
        _signal(self.back)
        if not self.turn[p].acquire(timeout=T_STEP):
            raise Abort()
        if self.abort:
            raise Abort()

    def finished(self, p):
        self.done[p] = True
        _signal(self.back)

    def wait_back(self, what):
        if not self.back.acquire(timeout=T_STEP):
            raise HarnessHang(what)

    def step(self, p):
        """controller: let p perform its pending operation and run up to its next scheduling point"""
        if p >= self.n or self.done[p]:
            return False
        _signal(self.turn[p])
        self.wait_back("process %d did not reach its next scheduling point" % p)
        return True


class SchedDict:
    """what logical process `pid` sees of the shared dict: every operation is one scheduling point and one atomic
    operation on the common store; values go through pickle like with the Manager proxy"""

    def __init__(self, store, baton, pid, ops):
        self._store, self._baton, self._pid, self._ops = store, baton, pid, ops

    def _pt(self, name, key=None):
        self._baton.point(self._pid)
        self._ops.append([self._pid, name, key if isinstance(key, int) else None])

    def __contains__(self, k):
        self._pt("in", k)
        r = k in self._store
        self._ops[-1].append(r)
        return r

    def __getitem__(self, k):
        self._pt("get", k)
        if k not in self._store:
            self._ops[-1].append(False)
            raise KeyError(k)
        self._ops[-1].append(True)
        return pickle.loads(self._store[k])

    def __setitem__(self, k, v):
        self._pt("set", k)
        self._store[k] = pickle.dumps(v)

    def __delitem__(self, k):
        self._pt("del", k)
        del self._store[k]

    def __len__(self):
        self._pt("len")
        return len(self._store)

    def clear(self):
        self._pt("clear")
        self._store.clear()

    def get(self, k, default=None):
        self._pt("get?", k)
        return pickle.loads(self._store[k]) if k in self._store else default

    def setdefault(self, k, default=None):
        self._pt("setdefault", k)
        if k not in self._store:
            self._store[k] = pickle.dumps(default)
        return pickle.loads(self._store[k])

    def pop(self, k, *default):
        self._pt("pop", k)
        if k in self._store:
            return pickle.loads(self._store.pop(k))
        if default:
            return default[0]
        raise KeyError(k)

    def keys(self):
        self._pt("keys")
        return list(self._store.keys())

    def __iter__(self):
        return iter(self.keys())

    def copy(self):
        self._pt("copy")
        return {k: pickle.loads(v) for k, v in self._store.items()}

    def items(self):
        return list(self.copy().items())

    def values(self):
        return list(self.copy().values())

    def update(self, other):
        self._pt("update")
        for k, v in dict(other).items():
            self._store[k] = pickle.dumps(v)


def run_sched(case):
    import kappadata.caching.shared_dict_dataset as mod
    ptype, has_tf = case["ptype"], case["has_tf"]
    payloads = [make_payload(ptype, k) for k in case["ids"]]
    progs = case["progs"]
    n = len(progs)
    log, ops, store = [], [], {}
    baton = Baton(n)

    class FakeManager:
        def dict(self):
            return SchedDict(store, baton, 0, ops)

    tfs = [Ticket(p) if has_tf else None for p in range(n)]
    real_manager = mod.Manager
    mod.Manager = FakeManager
    try:
        ds0 = mod.SharedDictDataset(CountingBase(payloads, log, 0, baton), transform=tfs[0])
    finally:
        mod.Manager = real_manager
    handles = [ds0]
    for p in range(1, n):
        ds = copy.copy(ds0)
        ds.dataset = CountingBase(payloads, log, p, baton)
        ds.transform = tfs[p]
        ds.shared_dict = SchedDict(store, baton, p, ops)
        handles.append(ds)
    nret = [0] * n
    crashed = []

    def body(p):
        try:
            for op in progs[p]:
                do_op(log, p, handles[p], op, nret, baton)
        except Abort:
            pass
        except BaseException as e:  # harness bug
            crashed.append("process %d: %r" % (p, e))
        finally:
            baton.finished(p)

    threads = [threading.Thread(target=body, args=(p,), daemon=True) for p in range(n)]
    effective = []
    hang = None
    try:
        for t in threads:                      # every process runs up to its first scheduling point
            t.start()
            baton.wait_back("process did not start")
        for p in case["sched"]:
            if baton.step(p):
                effective.append(p)
    except HarnessHang as e:
        hang = str(e)
    finally:
        baton.abort = True
        for p in range(n):
            _signal(baton.turn[p])
        for t in threads:
            t.join(timeout=T_STEP)
    if hang or crashed or any(t.is_alive() for t in threads):
        return {"harness_exception": hang or "; ".join(crashed) or "a logical process did not terminate"}
    content = dict_content(ptype, {k: pickle.loads(v) for k, v in store.items()})
    return {"log": finish_log(log, ptype, has_tf), "dicts": [content], "draws": [tf.issued if tf else [] for tf in tfs],
            "effective": effective, "ops": ops, "finished": [len([e for e in log if e[1] == p and e[0] in "RCN"]) == len(progs[p])
                                                           for p in range(n)]}


# ---------------------------------------------------------------------------
# kind "procs": real processes on the real Manager dict
# ---------------------------------------------------------------------------
def _worker(p, ds, blob, ptype, has_tf, payloads, prog, barrier, q):
    try:
        if blob is not None:
            ds = pickle.loads(blob)
        log = []
        ds.dataset = CountingBase(payloads, log, p)
        tf = Ticket(p) if has_tf else None
        ds.transform = tf
        nret = {p: 0}
        try:
            barrier.wait(timeout=30)
        except Exception:
            pass
        for op in prog:
            do_op(log, p, ds, op, nret)
        q.put((p, finish_log(log, ptype, has_tf), tf.issued if tf else [], None))
    except BaseException as e:
        q.put((p, [], [], repr(e)))


def run_procs(case):
    import multiprocessing as mp
    import queue as queue_mod
    from kappadata.caching.shared_dict_dataset import SharedDictDataset
    ptype, has_tf = case["ptype"], case["has_tf"]
    payloads = [make_payload(ptype, k) for k in case["ids"]]
    progs = case["progs"]
    n = len(progs)
    ctx = mp.get_context("fork")
    ds = SharedDictDataset(CountingBase(payloads, [], 0), transform=Ticket(0) if has_tf else None)
    workers = []
    q = ctx.Queue()
    barrier = ctx.Barrier(n)
    got = {}
    err = None
    try:
        blob = pickle.dumps(ds) if case.get("pickled") else None
        for p in range(n):
            w = ctx.Process(target=_worker, args=(p, None if blob else ds, blob, ptype, has_tf, payloads, progs[p], barrier, q),
                            daemon=True)
            w.start()
            workers.append(w)
        for _ in range(n):
            try:
                p, log, issued, e = q.get(timeout=120)
            except queue_mod.Empty:
                err = "a worker process did not report within 120 s"
                break
            if e:
                err = "worker %d: %s" % (p, e)
            got[p] = (log, issued)
        content = dict_content(ptype, ds.shared_dict.copy()) if err is None else []
    finally:
        for w in workers:
            w.join(timeout=10 if err is None else 0.1)
            if w.is_alive():
                w.terminate()
                w.join(timeout=5)
        try:
            ds.shared_dict._manager.shutdown()
        except Exception:
            pass
    if err:
        return {"harness_exception": err}
    log = [e for p in range(n) for e in got[p][0]]
    return {"log": log, "dicts": [content], "draws": [got[p][1] for p in range(n)]}


def run_impl(case):
    if case["kind"] == "seq":
        return run_seq(case)
    if case["kind"] == "sched":
        return run_sched(case)
    return run_procs(case)


# ---------------------------------------------------------------------------
# the independent oracle
# ---------------------------------------------------------------------------
def base_id(ids, i):
    n = len(ids)
    return ids[i] if -n <= i < n else None


def op_events_ok(p, op, evs, ids):
    """the events one completed command of p may produce (shape only): get -> [L] R, clear -> C, len -> N"""
    if op[0] == "get":
        i = op[1]
        if len(evs) == 1:
            return evs[0][0] == "R" and evs[0][2] == i
        return len(evs) == 2 and evs[0] == ["L", p, i] and evs[1][0] == "R" and evs[1][2] == i
    if op[0] in ("dispose", "clear"):
        return evs == [["C", p]]
    return len(evs) == 1 and evs[0][0] == "N"


def oracle(case, obs):
    if "harness_exception" in obs:
        return "harness exception: " + obs["harness_exception"] + obs.get("tb", "")
    ids, has_tf, kind = case["ids"], case["has_tf"], case["kind"]
    log, draws = obs["log"], obs["draws"]
    nproc = len(draws)
    # 1. every access returns transform(base[i]) with a fresh ticket, or the base's own exception
    nret = [0] * nproc
    for e in log:
        if e[0] == "N" and e[2] != len(ids):
            return f"len(cached) = {e[2]} but len(base) = {len(ids)}"
        if e[0] != "R":
            continue
        _, p, i, k, r = e
        want = base_id(ids, i)
        if want is None:
            if r != "BaseError":
                return f"process {p}: cached[{i}] gave {r} but base[{i}] raises IndexError"
            continue
        if isinstance(r, str):
            return f"process {p}: cached[{i}] raised {r} but base[{i}] exists (id {want})"
        if k != nret[p]:
            return f"harness: call number {k} != {nret[p]}"
        if has_tf:
            if k >= len(draws[p]):
                return (f"process {p}: the transform was called {len(draws[p])} times in {k + 1} successful accesses "
                        f"(it must run on every access)")
            exp = 1000 * (draws[p][k] + 1) + want
        else:
            exp = want
        if r[1] != exp:
            return (f"process {p}: access #{k} cached[{i}] returned code {r[1]}, expected {exp} "
                    f"(= transform ticket {draws[p][k] if has_tf else None} around sample id {want})")
        nret[p] += 1
    for p in range(nproc):
        if has_tf and len(draws[p]) != nret[p]:
            return f"process {p}: transform called {len(draws[p])} times for {nret[p]} successful accesses"
    # 2. the cache holds only samples of the base
    for d in obs["dicts"]:
        for k, v in d:
            if base_id(ids, k) != v:
                return f"cache holds {v} under key {k} but base[{k}] is {base_id(ids, k)}"
    # 3. loads
    if kind == "seq":
        have = {c: set() for c in case["handles"]}
        pos = 0
        for op in case["hist"]:
            p, name = op[0], op[1]
            c = case["handles"][p]
            if name == "get":
                i = op[2]
                if i not in have[c]:
                    if pos >= len(log) or log[pos] != ["L", p, i]:
                        return (f"cached[{i}] (holder {p}, cache {c}) not fetched since the last clear but the base was "
                                f"not asked: next event {log[pos] if pos < len(log) else None}")
                    pos += 1
                if pos >= len(log) or log[pos][:3] != ["R", p, i]:
                    return (f"cached[{i}] (holder {p}): expected its return, got {log[pos] if pos < len(log) else None}"
                            + (" (sample loaded again without a clear)" if pos < len(log) and log[pos][0] == "L" else ""))
                pos += 1
                if base_id(ids, i) is not None:
                    have[c].add(i)
            elif name in ("dispose", "clear"):
                if pos >= len(log) or log[pos] != ["C", p]:
                    return "harness: clear event missing"
                pos += 1
                have[c] = set()
            else:
                if pos >= len(log) or log[pos][:2] != ["N", p]:
                    return "harness: len event missing"
                pos += 1
        if pos != len(log):
            return f"unexpected extra event {log[pos]}"
        for c, d in zip(sorted(have), obs["dicts"]):
            if sorted(k for k, _ in d) != sorted(have[c]):
                return f"cache {c} holds keys {sorted(k for k, _ in d)}, accessed since the last clear: {sorted(have[c])}"
    else:
        # per process: its events are the events of its commands in program order
        for p, prog in enumerate(case["progs"]):
            mine = [e for e in log if e[1] == p]
            pos = 0
            for op in prog:
                if pos >= len(mine):
                    break
                take = 2 if mine[pos][0] == "L" else 1
                evs = mine[pos:pos + take]
                if kind == "sched" and take == 2 and len(evs) == 1:
                    pos = len(mine)                         # the schedule ended between load and store
                    break
                if not op_events_ok(p, op, evs, ids):
                    return f"process {p}: command {op} produced {evs}"
                pos += take
            if pos != len(mine):
                return f"process {p}: events beyond its program: {mine[pos:]}"
            if kind == "procs" and len([e for e in mine if e[0] != "L"]) != len(prog):
                return f"process {p} did not finish its program"
        if kind == "sched":
            loaded = set()
            for e in log:
                if e[0] == "L":
                    loaded.add(e[2])
                if e[0] == "R" and not isinstance(e[4], str) and e[2] not in loaded:
                    return f"cached[{e[2]}] returned a value before anyone loaded it"
    return None


# ---------------------------------------------------------------------------
# Coq rendering
# ---------------------------------------------------------------------------
def coq_cmd(op):
    return C("CGet", op[1]) if op[0] == "get" else (Raw("CLen") if op[0] == "len" else Raw("CClear"))


def coq_ev(e):
    if e[0] == "L":
        return C("ELoad", Nat(e[1]), e[2])
    if e[0] == "C":
        return C("EClear", Nat(e[1]))
    if e[0] == "N":
        return C("ELen", Nat(e[1]), e[2])
    r = e[4]
    res = Raw("RKeyError") if r == "KeyError" else Raw("RBaseError") if r == "BaseError" else C("RVal", r[1])
    return C("ERet", Nat(e[1]), e[2], Nat(e[3]), res)


def coq_applicable(case, obs):
    if "harness_exception" in obs:
        return False
    return not any(e[0] == "R" and isinstance(e[4], str) and e[4].startswith("X:") for e in obs["log"])


def coq_case(case, obs):
    kind = {"seq": 0, "sched": 1, "procs": 2}[case["kind"]]
    caches, hist, progs, sched = [], [], [], []
    if kind == 0:
        for c in sorted(set(case["handles"])):
            caches.append([Nat(p) for p, cc in enumerate(case["handles"]) if cc == c])
        hist = [(Nat(op[0]), coq_cmd(op[1:])) for op in case["hist"]]
    else:
        progs = [[coq_cmd(op) for op in prog] for prog in case["progs"]]
        sched = [Nat(p) for p in case.get("sched", [])]
    return coq(Rec(c_kind=Nat(kind), c_ids=list(case["ids"]), c_has_tf=bool(case["has_tf"]),
                   c_draws=[list(d) for d in obs["draws"]], c_caches=caches, c_hist=hist, c_progs=progs,
                   c_sched=sched, c_log=[coq_ev(e) for e in obs["log"]],
                   c_dicts=[[(k, v) for k, v in d] for d in obs["dicts"]]))


# ---------------------------------------------------------------------------
# generation
# ---------------------------------------------------------------------------
def gen_ids(rng, n):
    if rng.random() < 0.15 and n:
        pool = rng.sample(range(900), max(1, n - 1))      # a duplicated sample
        return [rng.choice(pool) for _ in range(n)]
    return rng.sample(range(900), n)


def gen_index(rng, n, hot=None):
    r = rng.random()
    if hot and r < 0.6:
        return rng.choice(hot)
    if n and r < 0.85:
        return rng.randrange(-n, n)
    return rng.choice([n, n + 1, -n - 1, 0])


def gen_seq(rng, big=False):
    n = rng.choice([0, 1, 2, 3, 3, 4, 5, 6] + ([9, 12] if big else []))
    nh = rng.choice([1, 1, 2, 2, 3, 4])
    ncache = 1 if nh == 1 or rng.random() < 0.6 else 2
    handles = [0] + [rng.randrange(ncache) for _ in range(nh - 1)]
    if ncache == 2 and 1 not in handles:
        handles[-1] = 1
    how = [rng.choice(["kw", "plain"])] + [rng.choice(["copy", "pickle"]) for _ in range(nh - 1)]
    hot = [gen_index(rng, n) for _ in range(rng.randint(1, 3))]
    hist = []
    for _ in range(rng.randint(1, 30 if big else 14)):
        p = rng.randrange(nh)
        r = rng.random()
        if r < 0.70:
            op = [p, "get", gen_index(rng, n, hot)]
            if rng.random() < 0.15:
                op.append("np")
            hist.append(op)
            if rng.random() < 0.25:
                hist.append(list(op))                     # repeated get
        elif r < 0.80:
            hist.append([p, "dispose"])
        elif r < 0.88:
            hist.append([p, "clear"])
        else:
            hist.append([p, "len"])
    return {"kind": "seq", "ptype": rng.choice(PTYPES), "ids": gen_ids(rng, n), "has_tf": rng.random() < 0.8,
            "handles": handles, "how": how, "hist": hist, "own_manager": rng.random() < 0.1}


def gen_prog(rng, n, hot, role):
    prog = []
    for _ in range(rng.randint(1, 4)):
        r = rng.random()
        if role == "clearer":
            prog.append(["dispose"] if r < 0.7 else ["clear"] if r < 0.85 else ["get", rng.choice(hot)])
        else:
            prog.append(["get", rng.choice(hot)] if r < 0.8 else ["dispose"] if r < 0.9 else ["len"]
                        if r < 0.95 else ["get", gen_index(rng, n)])
    return prog


def gen_sched(rng, big=False):
    n = rng.choice([1, 2, 3, 4, 5])
    np_ = rng.choice([2, 2, 3, 3, 4])
    hot = [gen_index(rng, n) for _ in range(rng.randint(1, 3))]
    roles = ["reader"] + [rng.choice(["reader", "reader", "clearer"]) for _ in range(np_ - 1)]
    progs = [gen_prog(rng, n, hot, r) for r in roles]
    total = sum(4 * len(p) for p in progs)
    style = rng.random()
    if style < 0.6:       # uniformly random
        sched = [rng.randrange(np_ + (1 if rng.random() < 0.1 else 0)) for _ in range(rng.randint(0, total + 6))]
    elif style < 0.85:    # bursts: one process runs a few steps, then another
        sched = []
        while len(sched) < total:
            sched += [rng.randrange(np_)] * rng.randint(1, 4)
    else:                 # one step each in turn
        sched = [k % np_ for k in range(rng.randint(0, total + 4))]
    if rng.random() < 0.5:
        sched += [p for p in range(np_) for _ in range(4 * len(progs[p]))]   # let everybody finish
    return {"kind": "sched", "ptype": rng.choice(PTYPES), "ids": gen_ids(rng, n), "has_tf": rng.random() < 0.8,
            "progs": progs, "sched": sched}


def directed_sched():
    """the schedules around the repaired defect: membership test, somebody clears, lookup"""
    out = []
    for ptype, has_tf in (("int", True), ("tuple", False)):
        base = {"kind": "sched", "ptype": ptype, "ids": [11, 22, 33, 44], "has_tf": has_tf}
        out.append({**base, "progs": [[["get", 3], ["get", 3]], [["dispose"]]], "sched": [0, 0, 0, 0, 1, 0, 0, 0]})
        out.append({**base, "progs": [[["get", 3]], [["get", 3]], [["clear"]]], "sched": [0, 0, 0, 1, 2, 1, 1, 1]})
        out.append({**base, "progs": [[["get", -1], ["get", -1]], [["dispose"], ["get", -1]]],
                    "sched": [0, 0, 0, 0, 1, 1, 0, 1, 0, 1, 0]})
    return out


EXH_PROGS = [
    [[["get", 0], ["get", 0]], [["get", 0]], [["dispose"]]],
    [[["get", 1], ["get", 0]], [["get", 0], ["get", 1]], [["dispose"]]],
    [[["get", 0], ["get", 0]], [["get", 0], ["get", 0]], [["clear"]]],
]


def exhaustive_sched(max_len=8):
    """every schedule over {reader, reader, clearer} up to max_len (first program set) / max_len - 1 (the others)"""
    for k, progs in enumerate(EXH_PROGS):
        for ln in range(max_len + (1 if k == 0 else 0)):
            for sched in itertools.product(range(3), repeat=ln):
                yield {"kind": "sched", "ptype": "int", "ids": [5, 6], "has_tf": True, "progs": progs,
                       "sched": list(sched), "exh": True}


def gen_procs(rng, k):
    n = rng.choice([2, 3, 4])
    ids = gen_ids(rng, n)
    if k % 3 == 0:      # one reader hammers one index while another process keeps clearing
        progs = [[["get", 0]] * 400, [["dispose"]] * 400] + ([[["get", 0]] * 300] if k % 2 else [])
    else:
        np_ = rng.choice([2, 3])
        progs = []
        for p in range(np_):
            prog = []
            for _ in range(rng.randint(10, 40)):
                r = rng.random()
                prog.append(["get", rng.randrange(-n, n + 1)] if r < 0.8 else ["dispose"] if r < 0.93 else ["len"])
            progs.append(prog)
    return {"kind": "procs", "ptype": rng.choice(PTYPES), "ids": ids, "has_tf": rng.random() < 0.8, "progs": progs,
            "pickled": k % 2 == 1}


def gen_cases(rng, tier):
    cases = directed_sched()
    if tier == "quick":
        cases += [gen_seq(rng) for _ in range(200)]
        cases += [gen_sched(rng) for _ in range(700)]
        return cases
    cases += [gen_seq(rng) for _ in range(700)] + [gen_seq(rng, big=True) for _ in range(300)]
    cases += [gen_sched(rng) for _ in range(4000)]
    cases += list(exhaustive_sched(8))
    cases += [gen_procs(rng, k) for k in range(24)]
    return cases


def search_cases(rng, tier):
    yield from directed_sched()
    yield from exhaustive_sched(7)
    for k in range(20000):
        yield gen_sched(rng) if k % 3 else gen_seq(rng)


def shrink(c):
    if c["kind"] == "seq":
        h = c["hist"]
        for i in range(len(h)):
            yield {**c, "hist": h[:i] + h[i + 1:]}
        if c["has_tf"]:
            yield {**c, "has_tf": False}
        if c["ptype"] != "int":
            yield {**c, "ptype": "int"}
        for i, op in enumerate(h):
            if len(op) > 3:
                yield {**c, "hist": h[:i] + [op[:3]] + h[i + 1:]}
    elif c["kind"] == "sched":
        s = c["sched"]
        for i in range(len(s)):
            yield {**c, "sched": s[:i] + s[i + 1:]}
        for p, prog in enumerate(c["progs"]):
            for i in range(len(prog)):
                yield {**c, "progs": c["progs"][:p] + [prog[:i] + prog[i + 1:]] + c["progs"][p + 1:]}
        if c["ptype"] != "int":
            yield {**c, "ptype": "int"}
    else:
        for p, prog in enumerate(c["progs"]):
            if len(prog) > 4:
                yield {**c, "progs": c["progs"][:p] + [prog[:len(prog) // 2]] + c["progs"][p + 1:]}


# ---------------------------------------------------------------------------
# evidence
# ---------------------------------------------------------------------------
def _switch_inside_access(case, obs):
    """a process switch while some process is in the middle of cached[i]"""
    ops = obs.get("ops", [])
    for a, b in zip(ops, ops[1:]):
        if a[0] != b[0] and a[1] == "in":
            return True
    return False


def features(case, obs):
    yield "kind=" + case["kind"]
    yield "ptype=" + case["ptype"]
    yield "transform=%s" % case["has_tf"]
    if "log" not in obs:
        yield "harness_exception"
        return
    log = obs["log"]
    n = len(case["ids"])
    yield "n=%d" % n
    if case["kind"] == "seq":
        yield "seq:holders=%d" % len(case["handles"])
        yield "seq:caches=%d" % len(set(case["handles"]))
        loads = sum(1 for e in log if e[0] == "L")
        rets = sum(1 for e in log if e[0] == "R")
        if rets > loads:
            yield "seq:hit"
        if any(op[1] == "get" and op[2] < 0 for op in case["hist"]):
            yield "seq:negative-index"
        if any(len(op) > 3 for op in case["hist"]):
            yield "seq:np.int64-index"
        if any(h == "pickle" for h in case["how"][1:]):
            yield "seq:pickled-holder"
        if _reload_after_clear(log):
            yield "seq:reload-after-clear"
    else:
        yield "%s:processes=%d" % (case["kind"], len(case["progs"]))
        seen = set()
        for e in log:
            if e[0] == "C":
                seen = set()
            if e[0] == "L":
                if e[2] in seen and case["kind"] == "sched":
                    yield "sched:redundant-load"
                    break
                seen.add(e[2])
        if any(o[1] == "get" and o[3] is False for o in obs.get("ops", [])):
            yield "sched:lookup-after-clear (KeyError fallback taken)"
        if case.get("exh"):
            yield "sched:exhaustive"
        if case["kind"] == "procs" and sum(1 for e in log if e[0] == "L") > len({e[2] for e in log if e[0] == "L"}):
            yield "procs:reloads (clears interleaved with reads)"
        if obs.get("finished") and all(obs["finished"]):
            yield "sched:all-finished"
    if any(e[0] == "R" and e[4] == "BaseError" for e in log):
        yield "base-raises"
    if any(e[0] == "N" for e in log):
        yield "len"


def _reload_after_clear(log):
    loaded, cleared_after = set(), set()
    for e in log:
        if e[0] == "L":
            if e[2] in cleared_after:
                return True
            loaded.add(e[2])
        if e[0] == "C":
            cleared_after |= loaded
    return False


def nontrivial_key(case, obs):
    if "log" not in obs:
        return None
    if case["kind"] == "seq":
        log = obs["log"]
        hit = sum(1 for e in log if e[0] == "R") > sum(1 for e in log if e[0] == "L")
        if not (hit and _reload_after_clear(log)):
            return None
        return ("seq", tuple(case["handles"]), tuple(tuple(op[:3]) for op in case["hist"]))
    if case["kind"] == "sched":
        if not _switch_inside_access(case, obs):
            return None
        return ("sched", repr(case["progs"]), tuple(obs["effective"]))
    return ("procs", repr(case["progs"]))
