(* Executable comparison of observations of the real ModeWrapper with the model (Model.v)
   and the spec (Spec.v) on concrete stacks; used by harness/c01.py. *)
From Coq Require Import ZArith List Bool String Ascii.
Import ListNotations.
From KD Require Import C01.Model C01.Spec.
Open Scope Z_scope.

(* symbolic sample components: strings, ints, tuples, None *)
Inductive value := VStr (s : string) | VInt (z : Z) | Tup (l : list value) | VNone.

Fixpoint value_eqb (a b : value) : bool :=
  match a, b with
  | VStr x, VStr y => String.eqb x y
  | VInt x, VInt y => x =? y
  | VNone, VNone => true
  | Tup l, Tup m =>
      (fix go (l m : list value) : bool :=
         match l, m with
         | [], [] => true
         | x :: l', y :: m' => value_eqb x y && go l' m'
         | _, _ => false
         end) l m
  | _, _ => false
  end.

Definition cproj (v : value) (j : nat) : value :=
  match v with Tup l => nth j l VNone | _ => VNone end.

Fixpoint list_eqb {A} (eq : A -> A -> bool) (a b : list A) : bool :=
  match a, b with
  | [], [] => true
  | x :: a', y :: b' => eq x y && list_eqb eq a' b'
  | _, _ => false
  end.

Definition opt_eqb {A} (eq : A -> A -> bool) (a b : option A) : bool :=
  match a, b with
  | Some x, Some y => eq x y
  | None, None => true
  | _, _ => false
  end.

(* dict assignment ctx[k] = v *)
Fixpoint ctx_set (k : string) (v : value) (d : ctx value) : ctx value :=
  match d with
  | [] => [(k, v)]
  | (k', v') :: r => if String.eqb k k' then (k, v) :: r else (k', v') :: ctx_set k v r
  end.

(* loader table: name -> per sample index (value, [ctx writes]) *)
Definition lrow : Type := value * list (string * value).
Definition ltab : Type := list (string * list lrow).

Fixpoint tab_find (s : string) (t : ltab) : option (list lrow) :=
  match t with
  | [] => None
  | (n, rows) :: r => if String.eqb s n then Some rows else tab_find s r
  end.

(* call stamp (harness stacks with c_stamp): a loader called by the ModeWrapper reads the call counter ctx["#"],
   increments it and pairs every item it returns with the counter it read -- members of one joint load carry the same
   stamp, and it is visible which of several loads of an item was delivered *)
Definition stamp_v (n : Z) (v : value) : value :=
  match v with
  | Tup l => Tup (map (fun m => Tup [m; VInt n]) l)
  | _ => Tup [v; VInt n]
  end.

Definition tab_load (stamp : bool) (t : ltab) (s : string) (i : Z) (c : octx value) : value * octx value :=
  match tab_find s t with
  | None => (VNone, c)
  | Some rows =>
      let '(v, ws) := nth (Z.to_nat i) rows (VNone, []) in
      match c with
      | None => (v, None)
      | Some d =>
          if stamp then
            let n := match lookup value "#" d with Some (VInt n) => n | _ => 0 end in
            (stamp_v n v, Some (fold_left (fun d kv => ctx_set (fst kv) (snd kv) d) ws (ctx_set "#" (VInt (n + 1)) d)))
          else (v, Some (fold_left (fun d kv => ctx_set (fst kv) (snd kv) d) ws d))
      end
  end.

(* dict equality (keys are unique on both sides) *)
Definition ctx_eqb (a b : ctx value) : bool :=
  Nat.eqb (List.length a) (List.length b) &&
  forallb (fun kv => opt_eqb value_eqb (lookup value (fst kv) b) (Some (snd kv))) a.

Definition out_eqb (a b : out value) : bool :=
  match a, b with
  | Bare x, Bare y => opt_eqb value_eqb x y
  | Tuple l, Tuple m => list_eqb (opt_eqb value_eqb) l m
  | _, _ => false
  end.

Definition res_eqb (a b : res value) : bool :=
  match a, b with
  | RItems x, RItems y => out_eqb x y
  | RItemsCtx x c, RItemsCtx y d => out_eqb x y && opt_eqb ctx_eqb c d
  | RErr, RErr => true
  | RIndexErr, RIndexErr => true
  | _, _ => false
  end.

Definition slot_eqb (a b : slot) : bool :=
  match a, b with
  | Plain i, Plain j => Nat.eqb i j
  | Fused l, Fused m => list_eqb Nat.eqb l m
  | _, _ => false
  end.
Definition entry_eqb (a b : entry) : bool := String.eqb (fst a) (fst b) && slot_eqb (snd a) (snd b).

(* one observed __getitem__ call: the index form, outcome kind (0 = returned, 1 = ValueError,
   2 = KeyError, 3 = IndexError), whether a list was returned, the samples, the outermost loader calls *)
Record hobs := {
  h_op : op;                      (* the step: indexing, len(), iter(), next(it_k), for-loop over it_k *)
  h_kind : nat;                   (* ... 5 = a loader's own exception, 6 = StopIteration *)
  h_many : bool;
  h_res : list (res value);       (* for-loop over an iterator: also the samples yielded before an exception *)
  h_log : option (list string);
  h_len : Z                       (* what len() returned (OpLen) *)
}.

(* one observed use of the static helpers *)
Record helper := {
  hp_mode : string; hp_item : string; hp_batch : batch value; hp_value : value;
  hp_has : bool; hp_index : option nat; hp_get : option (batch value); hp_set : option (batch value);
  hp_add : string
}.

Record case_t := {
  c_len : Z;
  c_groups : list (list string);
  c_req : bool;
  c_has_type : list string;
  c_has : list string;
  c_tab : ltab;
  c_stamp : bool;
  c_mode : string;
  c_rc : bool;
  c_init : nat;                  (* 0 = constructed; 1,2,3 = the constructor's exception *)
  c_plan : list entry;           (* zip(mw.fused_items, mw.fused_to_idxs) *)
  c_prop : bool;                 (* mw.propagate_ctx *)
  c_hist : list hobs;
  c_iter : option (list (res value));
  c_iter_kind : nat;             (* how iteration ended: 0 = exhausted, 2 = KeyError, 5 = a loader's own exception *)
  c_lenobs : Z;
  c_helpers : list helper;
  c_torch : list (list string * list value * string * option value)
}.

Definition mkstack (c : case_t) : stack value :=
  {| s_len := c_len c; s_fused_ops := c_groups c; s_req_ctx := c_req c;
     s_has_type := fun s => mem String.eqb s (c_has_type c);
     s_has := fun s => mem String.eqb s (c_has c);
     s_load := tab_load (c_stamp c) (c_tab c) |}.

Definition named_only (names : list string) : list string :=
  filter (fun s => match classify s with Named _ => true | _ => false end) names.

Definition has_err (l : list (res value)) : bool :=
  existsb (fun r => match r with RErr => true | _ => false end) l.

(* the exception a list comprehension [self[i] for i in ...] ends with: that of its first failing element
   (0 = none, 2 = KeyError, 3 = IndexError) *)
Fixpoint first_err (l : list (res value)) : nat :=
  match l with
  | [] => 0%nat
  | RErr :: _ => 2%nat
  | RIndexErr :: _ => 3%nat
  | _ :: r => first_err r
  end.

(* an int index >= len: not checked by ModeWrapper, handed to the loaders (whose answer beyond len is not part of
   the rendered loader table): such accesses are compared neither with the model nor with the spec here; the Python
   oracle states what is claimed for them *)
Definition above_range (len : Z) (i : index) : bool :=
  match i with
  | IInt z => len <=? z
  | IList l => existsb (fun z => len <=? z) l
  | ISlice _ _ _ => false
  end.

Definition batch_eqb (a b : batch value) : bool :=
  match a, b with
  | BBare x, BBare y => value_eqb x y
  | BTuple l, BTuple m => list_eqb value_eqb l m
  | _, _ => false
  end.

(* model vs implementation for one call *)
Definition hist_model_ok (st : stack value) (m : mwrap) (idx : index) (h : hobs) : bool :=
  (* kind 5: a loader of the harness stack raised its own exception (loaders of the model are total functions);
     whether it had to is decided by the Python oracle.  The accesses AFTER it are compared as usual: nothing of
     the aborted sample may survive *)
  if Nat.eqb (h_kind h) 5 then true else
  if above_range (s_len value st) idx then true else
  match getitem value VInt cproj st m idx with
  | GValueError => Nat.eqb (h_kind h) 1
  | GOne r =>
      negb (h_many h) &&
      match r with
      | RErr => Nat.eqb (h_kind h) 2
      | RIndexErr => Nat.eqb (h_kind h) 3
      | _ => Nat.eqb (h_kind h) 0 && list_eqb res_eqb [r] (h_res h) &&
             match h_log h with None => true | Some lg => list_eqb String.eqb (named_only (m_names m)) lg end
      end
  | GMany l =>
      if negb (Nat.eqb (first_err l) 0) then Nat.eqb (h_kind h) (first_err l)
      else Nat.eqb (h_kind h) 0 && h_many h && list_eqb res_eqb l (h_res h) &&
           match h_log h with
           | None => true
           | Some lg => list_eqb String.eqb (List.concat (map (fun _ => named_only (m_names m)) l)) lg
           end
  end.

(* the samples a for-loop was given before the first failing one *)
Fixpoint good_prefix (l : list (res value)) : list (res value) :=
  match l with
  | [] => []
  | r :: t => if res_is_err value r then [] else r :: good_prefix t
  end.

Definition log_ok (m : mwrap) (nsamples : nat) (h : hobs) : bool :=
  match h_log h with
  | None => true
  | Some lg => list_eqb String.eqb (List.concat (repeat (named_only (m_names m)) nsamples)) lg
  end.

(* model vs implementation over a whole history of steps on ONE ModeWrapper object, iterator objects included: the
   model's iterator states are threaded through the steps *)
Fixpoint hist_model_all (st : stack value) (m : mwrap) (f : its) (hs : list hobs) : bool :=
  match hs with
  | [] => true
  | h :: rest =>
      match h_op h with
      | OpGet i =>
          (* (not through run_op: vm_compute is call-by-value and an index like 10^20 must not reach the loader table) *)
          hist_model_ok st m i h && hist_model_all st m f rest
      | o =>
          let '(x, f') := run_op value VInt cproj st m f o in
          let k5 := Nat.eqb (h_kind h) 5 in
          (* a loader's own exception left the generator frame: that iterator is finished *)
          let f'' := if k5 then match o with OpNext k | OpRest k => upd f' k None | _ => f' end else f' in
          (if k5 then true else
           match x with
           | PGet _ => false
           | PLen z => Nat.eqb (h_kind h) 0 && (z =? h_len h)
           | PIter => Nat.eqb (h_kind h) 0
           | PNext None => Nat.eqb (h_kind h) 6
           | PNext (Some r) =>
               match r with
               | RErr => Nat.eqb (h_kind h) 2
               | RIndexErr => Nat.eqb (h_kind h) 3
               | _ => Nat.eqb (h_kind h) 0 && negb (h_many h) && list_eqb res_eqb [r] (h_res h) && log_ok m 1 h
               end
           | PRest l =>
               Nat.eqb (h_kind h) (first_err l) && list_eqb res_eqb (good_prefix l) (h_res h) &&
               (if Nat.eqb (h_kind h) 0 then h_many h && log_ok m (List.length l) h else true)
           end) && hist_model_all st m f'' rest
      end
  end.

(* ---------- the spec, evaluated on what the implementation returned ---------- *)
(* indices selected by a slice, by stepping (not by the closed formula) *)
Fixpoint py_slice_walk (fuel : nat) (x stop step : Z) : list Z :=
  match fuel with
  | O => []
  | S f => if py_before step x stop then x :: py_slice_walk f (x + step) stop step else []
  end.

(* Python sequence semantics of s[i] on a sequence of length len: None = IndexError *)
Definition py_index_checked (len z : Z) : option Z :=
  if (z <? - len) || (len <=? z) then None else Some (py_index len z).

Definition spec_indices (len : Z) (i : index) : option (bool * list (option Z)) :=
  match i with
  | IInt z => Some (false, [py_index_checked len z])
  | IList l => Some (true, map (py_index_checked len) l)
  | ISlice a b s =>
      let step := match s with None => 1 | Some k => k end in
      if step =? 0 then None
      else Some (true, map Some (py_slice_walk (S (Z.to_nat len)) (py_start len step a) (py_stop len step b) step))
  end.

Definition hist_spec_ok (st : stack value) (items : list string) (rc : bool) (idx : index) (h : hobs) : bool :=
  if Nat.eqb (h_kind h) 5 then true else
  if above_range (s_len value st) idx then true else
  match spec_indices (s_len value st) idx with
  | None => Nat.eqb (h_kind h) 1
  | Some (many, idxs) =>
      let exp := map (fun oi => match oi with
                                | Some i => spec_sample value VInt cproj st items rc i
                                | None => RIndexErr
                                end) idxs in
      if negb (Nat.eqb (first_err exp) 0) then Nat.eqb (h_kind h) (first_err exp)
      else Nat.eqb (h_kind h) 0 && Bool.eqb many (h_many h) && list_eqb res_eqb exp (h_res h)
  end.

(* the spec over a whole history: indexing as above; iterator steps by counting over the steps before them
   (Spec.next_due / rest_due), with how those steps were OBSERVED to end *)
Fixpoint hist_spec_all (st : stack value) (items : list string) (rc : bool) (past : list (op * nat)) (hs : list hobs) : bool :=
  match hs with
  | [] => true
  | h :: rest =>
      (match h_op h with
       | OpGet i => hist_spec_ok st items rc i h
       | OpLen => Nat.eqb (h_kind h) 0 && (h_len h =? s_len value st)
       | OpIter _ => Nat.eqb (h_kind h) 0
       | OpNext k =>
           if Nat.eqb (h_kind h) 5 then true else
           match next_due (s_len value st) k past with
           | None => Nat.eqb (h_kind h) 6
           | Some j =>
               match spec_sample value VInt cproj st items rc (Z.of_nat j) with
               | RErr => Nat.eqb (h_kind h) 2
               | RIndexErr => Nat.eqb (h_kind h) 3
               | e => Nat.eqb (h_kind h) 0 && list_eqb res_eqb [e] (h_res h)
               end
           end
       | OpRest k =>
           if Nat.eqb (h_kind h) 5 then true else
           let exp := map (fun j => spec_sample value VInt cproj st items rc (Z.of_nat j)) (rest_due (s_len value st) k past) in
           Nat.eqb (h_kind h) (first_err exp) && list_eqb res_eqb (good_prefix exp) (h_res h)
       end) && hist_spec_all st items rc ((h_op h, h_kind h) :: past) rest
  end.

Definition helper_model_ok (h : helper) : bool :=
  let items := split_space (hp_mode h) in
  Bool.eqb (has_item items (hp_item h)) (hp_has h) &&
  opt_eqb Nat.eqb (get_item_index items (hp_item h)) (hp_index h) &&
  opt_eqb batch_eqb (get_item items (hp_item h) (hp_batch h)) (hp_get h) &&
  opt_eqb batch_eqb (set_item items (hp_item h) (hp_batch h) (hp_value h)) (hp_set h) &&
  String.eqb (add_item (hp_mode h) (hp_item h)) (hp_add h).

Definition torch_model_ok (t : list string * list value * string * option value) : bool :=
  let '(tmode, tup, it, o) := t in
  opt_eqb value_eqb (torch_getitem value tmode (fun _ => tup) it 0) o.

(* 0 = implementation, model and spec agree; 1 = model differs from the implementation;
   2 = the spec evaluated on the implementation's output is false *)
Definition check (c : case_t) : nat :=
  let st := mkstack c in
  let helpers_ok := forallb helper_model_ok (c_helpers c) && forallb torch_model_ok (c_torch c) in
  match init value st (c_mode c) (c_rc c) with
  | inr e => if Nat.eqb e (c_init c) && helpers_ok then 0%nat else 1%nat
  | inl m =>
      if negb (Nat.eqb (c_init c) 0) then 1%nat else
      let items := split_space (c_mode c) in
      let iter_idx := map Z.of_nat (seq 0 (Z.to_nat (c_len c))) in
      let spec_ok :=
          hist_spec_all st items (c_rc c) [] (c_hist c) &&
          (c_lenobs c =? c_len c) &&
          match c_iter c with
          | None => true
          | Some l => let exp := map (spec_sample value VInt cproj st items (c_rc c)) iter_idx in
                      if has_err exp then false else list_eqb res_eqb exp l
          end in
      let model_ok :=
          list_eqb entry_eqb (m_plan m) (c_plan c) && Bool.eqb (m_propagate m) (c_prop c) &&
          hist_model_all st m no_its (c_hist c) &&
          (mw_len value st =? c_lenobs c) &&
          match c_iter c with
          | None => Nat.eqb (c_iter_kind c) 5 || has_err (iter value VInt cproj st m)
          | Some l => list_eqb res_eqb (iter value VInt cproj st m) l
          end && helpers_ok in
      if negb spec_ok then 2%nat else if negb model_ok then 1%nat else 0%nat
  end.
