(* C02 -- the bulk accessors on a heap of list objects: who allocates, who writes, what may alias.
   KDConcatDataset._call_getall / KDSubset._call_getall / a root's getall_x, statement by statement, with list OBJECTS
   (locations) instead of list values: a root may hand out the very container it keeps (`return self.x`), a concat
   accumulates into a list it creates itself (`result = []; result += dataset_result`), a subset builds a new list
   (`[result[i] for i in self.indices]`).  Proved: the heap version computes the value the stateless model
   (Model.getall) computes, and it writes to no list object that existed before the call -- neither to a container a
   root keeps nor to a result handed out earlier.  Definitions and proofs; statements repeated in Property.v. *)
From Coq Require Import ZArith List Bool Lia.
Import ListNotations.
From KD Require Import C02.Model C02.Spec C02.Proofs.
Local Notation length := List.length.

(* heap of list objects: location = position *)
Definition heap : Type := list (list sample).
Definition cell (h : heap) (l : nat) : list sample := nth l h [].

(* in-place update of the object at l (list.__iadd__) *)
Fixpoint set_cell (l : nat) (c : list sample) (h : heap) : heap :=
  match h, l with
  | [], _ => []
  | _ :: r, O => c :: r
  | x :: r, S l' => x :: set_cell l' c r
  end.

(* getall_x(): AttributeError | an exception | the returned object (location, "is a list"), the heap afterwards *)
Inductive hout := HMissing | HErr | HOk (l : nat) (is_list : bool) (h : heap).

Definition root_content (id : Z) (n : nat) : list sample := map (fun k => (id, Z.of_nat k)) (seq 0 n).

(* for dataset in self.datasets: r = dataset.getall_x(); assert isinstance(r, list); result += r *)
Definition cat_loop (f : stack -> heap -> hout) (lr : nat) : list stack -> heap -> hout :=
  fix go (ps : list stack) (hc : heap) : hout :=
    match ps with
    | [] => HOk lr true hc
    | p :: ps' =>
        match f p hc with
        | HOk lp true h1 => go ps' (set_cell lr (cell h1 lr ++ cell h1 lp) h1)
        | HOk _ false _ => HErr
        | e => e
        end
    end.

Section Heap.
  (* where root dataset `id` keeps the container its getall_x hands out (`return self.x`); None: it builds a new object
     on every call (`return list(self.x)`) *)
  Variable kept : Z -> option nat.

  Fixpoint getall_h (s : stack) (h : heap) : hout :=
    match s with
    | Root id n pk =>
        match pk with
        | PNone => HMissing
        | _ => let b := match pk with PList => true | _ => false end in
               match kept id with
               | Some l => HOk l b h
               | None => HOk (length h) b (h ++ [root_content id n])
               end
        end
    | Sub _ idxs s' =>
        match getall_h s' h with
        | HOk l _ h1 =>
            match all_some (map (py_nth (cell h1 l)) idxs) with
            | Some c => HOk (length h1) true (h1 ++ [c])          (* a new list *)
            | None => HErr
            end
        | e => e
        end
    | Cat b parts =>
        if b then HMissing
        else if forallb has_getall parts
             then cat_loop getall_h (length h) parts (h ++ [[]])  (* result = [] : a new list *)
             else HMissing
    | Wrap _ s' => getall_h s' h
    end.

  (* (id, n) of every root below *)
  Fixpoint roots_n (s : stack) : list (Z * nat) :=
    match s with
    | Root id n _ => [(id, n)]
    | Sub _ _ s' => roots_n s'
    | Cat _ parts => flat_map roots_n parts
    | Wrap _ s' => roots_n s'
    end.

  (* the containers kept by the roots of s are objects below location B and hold the roots' data *)
  Definition wf (B : nat) (s : stack) (h : heap) : Prop :=
    forall id n l, In (id, n) (roots_n s) -> kept id = Some l -> (l < B)%nat /\ cell h l = root_content id n.

  (* ---- heap lemmas ---- *)
  Lemma length_set_cell : forall l c h, length (set_cell l c h) = length h.
  Proof. induction l as [|l IH]; intros c [|x r]; simpl; auto. Qed.

  Lemma cell_set_other : forall l0 c h l, l <> l0 -> cell (set_cell l0 c h) l = cell h l.
  Proof.
    unfold cell. induction l0 as [|l0 IH]; intros c [|x r] l N; simpl; auto.
    - destruct l; [congruence | reflexivity].
    - destruct l; [reflexivity | apply IH; congruence].
  Qed.

  Lemma cell_set_same : forall l0 c h, (l0 < length h)%nat -> cell (set_cell l0 c h) l0 = c.
  Proof.
    unfold cell. induction l0 as [|l0 IH]; intros c [|x r] L; simpl in *; try lia; auto.
    apply IH. lia.
  Qed.

  Lemma cell_app_l : forall h e l, (l < length h)%nat -> cell (h ++ e) l = cell h l.
  Proof. intros. unfold cell. now apply app_nth1. Qed.

  Lemma cell_app_new : forall h c, cell (h ++ [c]) (length h) = c.
  Proof. intros. unfold cell. rewrite app_nth2 by lia. now rewrite Nat.sub_diag. Qed.

  (* ---- frame: nothing that existed before the call is written to ---- *)
  Definition frame_ok (s : stack) : Prop := forall h l b h',
    getall_h s h = HOk l b h' ->
    (length h <= length h')%nat /\ forall l0, (l0 < length h)%nat -> cell h' l0 = cell h l0.

  Lemma cat_loop_frame : forall ps, Forall frame_ok ps -> forall lr hc l b h',
    (lr < length hc)%nat ->
    cat_loop getall_h lr ps hc = HOk l b h' ->
    l = lr /\ b = true /\ (length hc <= length h')%nat /\
    forall l0, (l0 < length hc)%nat -> l0 <> lr -> cell h' l0 = cell hc l0.
  Proof.
    induction ps as [|p ps IH]; intros F lr hc l b h' L H; simpl in H.
    - injection H as <- <- <-. repeat split; auto.
    - inversion F as [|? ? Fp Fps]; subst.
      destruct (getall_h p hc) as [| |lp bp h1] eqn:E; try discriminate.
      destruct bp; [|discriminate].
      destruct (Fp _ _ _ _ E) as [L1 C1].
      apply IH in H; [|assumption|rewrite length_set_cell; lia].
      destruct H as (-> & -> & L2 & C2). rewrite length_set_cell in L2.
      repeat split; auto; [lia|].
      intros q Q N. rewrite C2 by (rewrite ?length_set_cell; auto; lia).
      rewrite cell_set_other by assumption. apply C1. assumption.
  Qed.

  Lemma frame_all : forall s, frame_ok s.
  Proof.
    induction s as [id n pk | t idxs s IH | b parts IH | t s IH] using stack_ind'; intros h l bb h' H; simpl in H.
    - destruct pk; try discriminate; destruct (kept id); injection H as <- <- <-;
        (split; [rewrite ?app_length; lia | intros; rewrite ?cell_app_l; auto]).
    - destruct (getall_h s h) as [| |l1 b1 h1] eqn:E; try discriminate.
      destruct (all_some _); [|discriminate]. injection H as <- <- <-.
      destruct (IH _ _ _ _ E) as [L1 C1]. split; [rewrite app_length; lia|].
      intros q Q. rewrite cell_app_l by lia. now apply C1.
    - destruct b; [discriminate|]. destruct (forallb has_getall parts); [|discriminate].
      apply cat_loop_frame in H; [|assumption|rewrite app_length; simpl; lia].
      destruct H as (_ & _ & L2 & C2). rewrite app_length in L2. simpl in L2. split; [lia|].
      intros q Q. rewrite C2 by (rewrite ?app_length; simpl; lia). now apply cell_app_l.
    - now apply (IH h l bb h').
  Qed.

  (* ---- refinement: the heap version computes what the stateless model computes ---- *)
  Definition refines (s : stack) : Prop := forall B h, (B <= length h)%nat -> wf B s h ->
    match getall_h s h with
    | HOk l b h' => getall s = GOk b (cell h' l)
    | HMissing => getall s = GMissing
    | HErr => getall s = GErr
    end.

  Lemma wf_frame : forall B s h h', wf B s h -> (B <= length h)%nat ->
    (forall l0, (l0 < B)%nat -> cell h' l0 = cell h l0) -> wf B s h'.
  Proof.
    intros B s h h' W L C id n l I K. destruct (W id n l I K) as [LB E]. split; [assumption|].
    now rewrite C.
  Qed.

  Lemma wf_part : forall B b parts p h, wf B (Cat b parts) h -> In p parts -> wf B p h.
  Proof.
    intros B b parts p h W I id n l Ir K. apply (W id n l); [|assumption].
    simpl. apply in_flat_map. now exists p.
  Qed.

  Lemma cat_loop_refines : forall ps, Forall refines ps -> forall B lr hc,
    (B <= lr)%nat -> (lr < length hc)%nat -> (forall p, In p ps -> wf B p hc) ->
    match cat_loop getall_h lr ps hc with
    | HOk l b h' => exists r, cat_getall (map getall ps) = GOk true r /\ cell h' lr = cell hc lr ++ r
    | HMissing => cat_getall (map getall ps) = GMissing
    | HErr => cat_getall (map getall ps) = GErr
    end.
  Proof.
    induction ps as [|p ps IH]; intros R B lr hc BL L W; simpl.
    - exists []. now rewrite app_nil_r.
    - inversion R as [|? ? Rp Rps]; subst.
      pose proof (Rp B hc ltac:(lia) (W p (or_introl eq_refl))) as Hp.
      destruct (getall_h p hc) as [| |lp bp h1] eqn:E.
      + now rewrite Hp.
      + now rewrite Hp.
      + rewrite Hp. destruct bp; [|reflexivity].
        destruct (frame_all p _ _ _ _ E) as [L1 C1].
        set (h2 := set_cell lr (cell h1 lr ++ cell h1 lp) h1).
        assert (W2 : forall q, In q ps -> wf B q h2).
        { intros q Iq. apply (wf_frame B q hc); [apply W; now right | lia |].
          intros l0 L0. unfold h2. rewrite cell_set_other by lia. apply C1. lia. }
        specialize (IH Rps B lr h2 BL ltac:(unfold h2; rewrite length_set_cell; lia) W2).
        destruct (cat_loop getall_h lr ps h2) as [| |l b h'] eqn:E2.
        * now rewrite IH.
        * now rewrite IH.
        * destruct IH as (r & -> & C). exists (cell h1 lp ++ r). split; [reflexivity|].
          rewrite C. unfold h2. rewrite cell_set_same by lia. rewrite C1 by lia. now rewrite app_assoc.
  Qed.

  Lemma refines_all : forall s, refines s.
  Proof.
    induction s as [id n pk | t idxs s IH | b parts IH | t s IH] using stack_ind'; intros B h BL W; simpl.
    - destruct pk; [reflexivity| |];
        (destruct (kept id) as [l|] eqn:K;
         [destruct (W id n l (or_introl eq_refl) K) as [_ ->]; reflexivity | now rewrite cell_app_new]).
    - specialize (IH B h BL W). destruct (getall_h s h) as [| |l1 b1 h1]; rewrite IH; try reflexivity.
      destruct (all_some _); [now rewrite cell_app_new | reflexivity].
    - destruct b; [reflexivity|]. destruct (forallb has_getall parts); [|reflexivity].
      pose proof (cat_loop_refines parts IH B (length h) (h ++ [[]]) BL
                    ltac:(rewrite app_length; simpl; lia)) as H.
      assert (W2 : forall p, In p parts -> wf B p (h ++ [[]])).
      { intros p Ip. apply (wf_frame B p h); [now apply (wf_part B false parts) | assumption |].
        intros l0 L0. apply cell_app_l. lia. }
      specialize (H W2).
      destruct (cat_loop getall_h (length h) parts (h ++ [[]])) as [| |l bb h'] eqn:E; try assumption.
      destruct H as (r & -> & C). rewrite cell_app_new in C. simpl in C.
      apply cat_loop_frame in E; [|apply Forall_forall; intros; apply frame_all | rewrite app_length; simpl; lia].
      destruct E as (-> & -> & _). now rewrite C.
    - exact (IH B h BL W).
  Qed.

  (* ---- the two statements ---- *)
  Lemma getall_heap_frame : forall s h l b h',
    getall_h s h = HOk l b h' ->
    (length h <= length h')%nat /\ forall l0, (l0 < length h)%nat -> cell h' l0 = cell h l0.
  Proof. exact frame_all. Qed.

  Lemma getall_heap_refines : forall s h, wf (length h) s h ->
    match getall_h s h with
    | HOk l b h' => getall s = GOk b (cell h' l)
    | HMissing => getall s = GMissing
    | HErr => getall s = GErr
    end.
  Proof. intros s h W. now apply (refines_all s (length h) h). Qed.

  (* asked twice: the second call returns the same content, the object returned first still holds it, and so do the
     containers of the roots *)
  Lemma getall_heap_twice : forall s h l1 b1 h1 l2 b2 h2, wf (length h) s h ->
    getall_h s h = HOk l1 b1 h1 -> (l1 < length h1)%nat -> getall_h s h1 = HOk l2 b2 h2 ->
    b2 = b1 /\ cell h2 l2 = cell h1 l1 /\ cell h2 l1 = cell h1 l1 /\ wf (length h) s h2.
  Proof.
    intros s h l1 b1 h1 l2 b2 h2 W E1 L1 E2.
    destruct (frame_all s _ _ _ _ E1) as [La Ca]. destruct (frame_all s _ _ _ _ E2) as [Lb Cb].
    assert (W1 : wf (length h) s h1) by (apply (wf_frame _ s h); auto).
    assert (W2 : wf (length h) s h2) by (apply (wf_frame _ s h1); auto; intros; apply Cb; lia).
    pose proof (refines_all s (length h) h (le_n _) W) as R1. rewrite E1 in R1.
    pose proof (refines_all s (length h) h1 La W1) as R2. rewrite E2 in R2.
    rewrite R1 in R2. injection R2 as Eb Ec.
    split; [now symmetry|]. split; [now symmetry|]. split; [now apply Cb | exact W2].
  Qed.
End Heap.
