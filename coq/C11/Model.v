(* C11 -- executable model of KDMixWrapper (kappadata/wrappers/sample_wrappers/kd_mix_wrapper.py,
   REPAIRED tree: fixes/C11_partner_index_int.patch, fixes/C11_label_alias.patch, fixes/C11_partner_ctx.patch,
   fixes/C11_mix_x_out_of_place.patch), of
   to_one_hot_vector (kappadata/utils/one_hot.py) and of the part of ModeWrapper
   (kappadata/wrappers/mode_wrapper.py) that fuses "x" + "class" into one getitem_xclass call and
   unpacks the result.  No proofs in this file.

   Tensors are (shape, function from multi-indices to Q); values are the exact rationals of the
   float inputs, arithmetic is exact (the float32 rounding of the real code is absorbed by the
   tolerance of the comparison in Check.v).  Random draws are explicit: every generator the code
   creates -- np.random.default_rng(seed + idx) with a seed, GlobalRng() (the process-global numpy
   generator) without -- asks the oracle G for the draw stream of the k-th generator created with
   that seed argument (None: no seed).

   NOT modelled: float rounding; tensors of differing rank inside one dataset (ERank: torch's
   broadcasting rules decide there); label vectors whose length is not n_classes; the constructor's
   argument checks.  This file is the VALUE-level reading of the statements; which tensor objects they create and
   which they write into (aliasing: the dataset may hand out its stored tensors) is Heap.v, proved to agree with
   this file in HeapProofs.v. *)
From Coq Require Import ZArith QArith List Bool Arith.
Import ListNotations.
Open Scope Z_scope.

(* ---------- tensors ---------- *)
Record tensor := { shape : list nat; at_ : list nat -> Q }.

(* idx is a valid multi-index of a tensor of shape s *)
Fixpoint inside (s idx : list nat) : bool :=
  match s, idx with
  | [], [] => true
  | n :: s', j :: idx' => (j <? n)%nat && inside s' idx'
  | _, _ => false
  end.

Fixpoint ravel_acc (acc : nat) (s idx : list nat) : nat :=
  match s, idx with
  | n :: s', j :: idx' => ravel_acc (acc * n + j)%nat s' idx'
  | _, _ => acc
  end.
Definition ravel (s idx : list nat) : nat := ravel_acc 0 s idx.
(* a contiguous row-major tensor *)
Definition of_flat (s : list nat) (data : list Q) : tensor :=
  {| shape := s; at_ := fun idx => nth (ravel s idx) data 0%Q |}.
Fixpoint indices (s : list nat) : list (list nat) :=
  match s with
  | [] => [[]]
  | n :: s' => flat_map (fun j => map (cons j) (indices s')) (seq 0 n)
  end.
Definition flatten (t : tensor) : list Q := map (at_ t) (indices (shape t)).

Fixpoint list_eqb (a b : list nat) : bool :=
  match a, b with
  | [], [] => true
  | x :: a', y :: b' => (x =? y)%nat && list_eqb a' b'
  | _, _ => false
  end.

Fixpoint set_nth {A} (k : nat) (v : A) (l : list A) : list A :=
  match l, k with
  | [], _ => []
  | _ :: r, O => v :: r
  | x :: r, S k' => x :: set_nth k' v r
  end.

Fixpoint mapi_from {A B} (f : nat -> A -> B) (k : nat) (l : list A) : list B :=
  match l with [] => [] | a :: r => f k a :: mapi_from f (S k) r end.
Definition mapi {A B} (f : nat -> A -> B) (l : list A) : list B := mapi_from f 0 l.

(* torch.nn.functional.pad(t, pad=pads, mode="constant", value=0.): pads is a flat list
   (left_last, right_last, left_second_last, right_second_last, ...): the k-th pair belongs to
   dimension rank-1-k.  An odd-length or too long list is an error. *)
Definition pad_pair (pads : list nat) (k : nat) : nat * nat :=
  (nth (2 * k) pads 0%nat, nth (2 * k + 1) pads 0%nat).
Definition dim_pads (pads : list nat) (rank : nat) : list (nat * nat) :=
  map (fun d => pad_pair pads (rank - 1 - d)) (seq 0 rank).
(* source index of a padded index, None = the index lies in the padding *)
Fixpoint unpad_index (lr : list (nat * nat)) (s idx : list nat) : option (list nat) :=
  match lr, s, idx with
  | [], [], [] => Some []
  | (l, _) :: lr', n :: s', j :: idx' =>
      if (l <=? j)%nat && (j - l <? n)%nat
      then option_map (cons (j - l)%nat) (unpad_index lr' s' idx')
      else None
  | _, _, _ => None
  end.
Fixpoint padded_shape (lr : list (nat * nat)) (s : list nat) : list nat :=
  match lr, s with
  | (l, r) :: lr', n :: s' => (l + n + r)%nat :: padded_shape lr' s'
  | _, _ => []
  end.
Definition torch_pad (pads : list nat) (t : tensor) : option tensor :=
  let rank := length (shape t) in
  if Nat.even (length pads) && (length pads <=? 2 * rank)%nat then
    let lr := dim_pads pads rank in
    Some {| shape := padded_shape lr (shape t);
            at_ := fun idx => match unpad_index lr (shape t) idx with
                              | Some src => at_ t src
                              | None => 0%Q
                              end |}
  else None.

(* t.index_select(dim=i, index=torch.arange(n)) for n <= t.size(i): keeps entries 0..n-1 of dimension i *)
Definition index_select_arange (i n : nat) (t : tensor) : tensor :=
  {| shape := set_nth i n (shape t); at_ := at_ t |}.

(* deltas = [s - s2 for s, s2 in zip(x.shape, x2.shape)] *)
Fixpoint deltas (sx sx2 : list nat) : list Z :=
  match sx, sx2 with
  | s :: sx', s2 :: sx2' => (Z.of_nat s - Z.of_nat s2) :: deltas sx' sx2'
  | _, _ => []
  end.

(* for i, delta in enumerate(deltas): pad or cut dimension i of x2 (n = len(deltas)) *)
Fixpoint unify_loop (n i : nat) (dl : list Z) (sx : list nat) (x2 : tensor) : option tensor :=
  match dl with
  | [] => Some x2
  | d :: dl' =>
      if d =? 0 then unify_loop n (S i) dl' sx x2
      else if 0 <? d then
        (* paddings = [0] * ((len(deltas) - i) * 2 - 1) + [delta] *)
        match torch_pad (repeat 0%nat ((n - i) * 2 - 1) ++ [Z.to_nat d]) x2 with
        | Some x2' => unify_loop n (S i) dl' sx x2'
        | None => None
        end
      else
        (* x2.index_select(dim=i, index=torch.arange(x.size(i))) *)
        unify_loop n (S i) dl' sx (index_select_arange i (nth i sx 0%nat) x2)
  end.
Definition pad_or_cut_end (x x2 : tensor) : option tensor :=
  let dl := deltas (shape x) (shape x2) in
  unify_loop (length dl) 0 dl (shape x) x2.

(* x.clone().mul_(lamb).add_(x2 * (1 - lamb)): in place on the CLONE of x, so the result has x's shape (and dtype) *)
Definition mix_tensor (lam : Q) (x x2 : tensor) : tensor :=
  {| shape := shape x; at_ := fun idx => (lam * at_ x idx + (1 - lam) * at_ x2 idx)%Q |}.

(* ---------- labels ---------- *)
Inductive label :=
| LInt (y : Z)            (* Python int or 0-dim integer tensor *)
| LVec (v : list Q).      (* 1-dim tensor (one-hot / soft label) *)

Definition one_hot (y n : nat) : list Q := map (fun k => if (k =? y)%nat then 1%Q else 0%Q) (seq 0 n).
(* None: torch.nn.functional.one_hot raises (class value negative or >= num_classes) *)
Definition to_one_hot_vector (l : label) (n : nat) : option (list Q) :=
  match l with
  | LInt y => if (0 <=? y) && (y <? Z.of_nat n) then Some (one_hot (Z.to_nat y) n) else None
  | LVec v => Some v
  end.
Fixpoint mix_row (w : Q) (a b : list Q) : list Q :=
  match a, b with
  | x :: a', y :: b' => (x * w + y * (1 - w))%Q :: mix_row w a' b'
  | _, _ => []
  end.

(* ---------- wrapped dataset, configuration, draws ---------- *)
Record dataset := {
  ds_len : nat;
  ds_x : nat -> tensor;        (* the values of dataset.getitem_x(idx) (a clone or the stored tensor itself: Heap.v) *)
  ds_cls : nat -> label;       (* dataset.getitem_class(idx) *)
  ds_ncls : nat                (* getdim_class() *)
}.
Definition ds_of_list (l : list (tensor * label)) (ncls : nat) : dataset :=
  {| ds_len := length l;
     ds_x := fun k => fst (nth k l ({| shape := []; at_ := fun _ => 0%Q |}, LInt 0));
     ds_cls := fun k => snd (nth k l ({| shape := []; at_ := fun _ => 0%Q |}, LInt 0));
     ds_ncls := ncls |}.

Inductive unify_mode := UNone | UPadOrCutEnd | UOther.
Record cfg := {
  total_p : Q;                 (* the float sum mixup_p + cutmix_p *)
  cutmix_p : Q;
  mixup_alpha : option Q;
  cutmix_alpha : option Q;
  unify : unify_mode;          (* mixup_unify_shapes_mode *)
  seed : option Z;
  with_ctx : bool              (* the request carries a context dictionary (ModeWrapper.propagate_ctx); else ctx is None *)
}.

Inductive draw :=
| DUnit (u : Q)                (* rng.random() *)
| DInt (hi v : Z)              (* rng.integers(hi) *)
| DBeta (a x : Q).             (* rng.beta(a, a) *)

Inductive err :=
| EDraw                        (* the recorded draws do not fit the code path (model/impl mismatch) *)
| ENotImplemented              (* cutmix branch / unknown unify mode *)
| EAssertShape                 (* assert x.shape == x2.shape *)
| ELabel                       (* one_hot raised *)
| ERank                        (* samples of differing rank: not modelled *)
| EAlpha                       (* rng.beta(None, None) *)
| EAssertAttr.                 (* ModeWrapper: wrapper class has no getitem_<item> *)
Inductive res (A : Type) := Ok (a : A) | Err (e : err).
Arguments Ok {A} a.
Arguments Err {A} e.

Definition Qltb (a b : Q) : bool := negb (Qle_bool b a).

Inductive load := LdX (i : Z) | LdClass (i : Z).   (* calls made to the wrapped dataset, in order *)

Record sample := {
  s_x : tensor;
  s_cls : list Q;
  s_mix : option (nat * Q);    (* partner and weight used for BOTH x and class; None = untouched *)
  s_loads : list load;
  s_ctx : list load            (* the loads that were handed the REQUEST's context dictionary (and may record into it);
                                  the partner is loaded with a dictionary of its own: ctx2 = None if ctx is None else {} *)
}.

(* KDMixWrapper.getitem_xclass(idx) with the draws of the generator created in it; returns the
   unread rest of the stream *)
Definition getitem_xclass (ds : dataset) (c : cfg) (idx : nat) (dr : list draw) : res (sample * list draw) :=
  let x := ds_x ds idx in
  let cls := ds_cls ds idx in
  let n_classes := ds_ncls ds in
  let own := if with_ctx c then [LdX (Z.of_nat idx); LdClass (Z.of_nat idx)] else [] in
  match dr with
  | DUnit apply :: dr1 =>
      if Qltb (total_p c) apply then                       (* if apply > self.total_p *)
        match to_one_hot_vector cls n_classes with
        | Some v => Ok ({| s_x := x; s_cls := v; s_mix := None;
                           s_loads := [LdX (Z.of_nat idx); LdClass (Z.of_nat idx)]; s_ctx := own |}, dr1)
        | None => Err ELabel
        end
      else
        let use_cutmix := Qltb apply (cutmix_p c) in       (* apply < self.cutmix_p *)
        match dr1 with
        | DInt hi idx2 :: dr2 =>                           (* idx2 = int(rng.integers(len(self))) *)
            if negb (hi =? Z.of_nat (ds_len ds)) then Err EDraw else
            let x2 := ds_x ds (Z.to_nat idx2) in
            let cls2 := ds_cls ds (Z.to_nat idx2) in
            match to_one_hot_vector cls n_classes with
            | None => Err ELabel
            | Some v =>
            match to_one_hot_vector cls2 n_classes with
            | None => Err ELabel
            | Some v2 =>
            match (if use_cutmix then cutmix_alpha c else mixup_alpha c) with
            | None => Err EAlpha
            | Some alpha =>
            match dr2 with
            | DBeta a lamb :: dr3 =>                       (* lamb = rng.beta(alpha, alpha) *)
                if negb (Qeq_bool a alpha) then Err EDraw else
                if use_cutmix then Err ENotImplemented else
                match (match unify c with
                       | UNone => if list_eqb (shape x) (shape x2) then Ok x2 else Err EAssertShape
                       | UPadOrCutEnd =>
                           if negb (length (shape x) =? length (shape x2))%nat then Err ERank else
                           match pad_or_cut_end x x2 with Some t => Ok t | None => Err ERank end
                       | UOther => Err ENotImplemented
                       end) with
                | Err e => Err e
                | Ok x2u =>
                    Ok ({| s_x := mix_tensor lamb x x2u;
                           s_cls := mix_row lamb v v2;
                           s_mix := Some (Z.to_nat idx2, lamb);
                           s_loads := [LdX (Z.of_nat idx); LdClass (Z.of_nat idx); LdX idx2; LdClass idx2];
                           s_ctx := own |}, dr3)
                end
            | _ => Err EDraw
            end end end end
        | _ => Err EDraw
        end
  | _ => Err EDraw
  end.

(* ---------- ModeWrapper over KDMixWrapper ---------- *)
Inductive token := TX | TClass | TIndex | TOther (k : nat).
Definition tok_eqb (a b : token) : bool :=
  match a, b with
  | TX, TX | TClass, TClass | TIndex, TIndex => true
  | TOther i, TOther j => (i =? j)%nat
  | _, _ => false
  end.
Definition otok_eqb (a : token) (b : option token) : bool :=
  match b with Some t => tok_eqb a t | None => false end.
(* item in temp_items / temp_items.index(item) *)
Definition has_tok (t : token) (temp : list (option token)) : bool := existsb (otok_eqb t) temp.
Fixpoint index_of (t : token) (temp : list (option token)) : nat :=
  match temp with
  | [] => 0%nat
  | o :: r => if otok_eqb t o then 0%nat else S (index_of t r)
  end.

Inductive fitem := FI (t : token) | FIXClass.            (* entries of fused_items; "xclass" *)
Inductive slot := Single (i : nat) | Fused (ix ic : nat). (* entries of fused_to_idxs *)

(* ModeWrapper.__init__, "fuse ops", with dataset.fused_operations = [["x", "class"]]:
   for i, item in enumerate(temp_items) -- temp_items is mutated inside the loop *)
Fixpoint plan_loop (i todo : nat) (temp : list (option token)) (acc : list (fitem * slot)) : list (fitem * slot) :=
  match todo with
  | O => rev acc
  | S todo' =>
      match nth i temp None with
      | None => plan_loop (S i) todo' temp acc                        (* if item is None: continue *)
      | Some item =>
          if tok_eqb item TX && has_tok TClass temp then              (* fused_ops[0] == item and all(...) *)
            let ix := index_of TX temp in
            let temp1 := set_nth ix None temp in
            let ic := index_of TClass temp1 in
            plan_loop (S i) todo' (set_nth ic None temp1) ((FIXClass, Fused ix ic) :: acc)
          else plan_loop (S i) todo' temp ((FI item, Single i) :: acc) (* for-else *)
      end
  end.
Definition plan (toks : list token) : list (fitem * slot) :=
  plan_loop 0 (length toks) (map Some toks) [].

Inductive value := VX (t : tensor) | VCls (l : list Q) | VIndex (i : nat) | VNone.
Inductive ret := R1 (v : value) | R2 (vx vc : value).

(* the generator oracle: draws of the k-th generator created in this __getitem__, given its seed argument *)
Definition oracle := nat -> option Z -> list draw.

Record call := { c_sample : sample; c_rest : list draw }.

(* one entry of self._getitem_fns applied to idx; k = number of generators created so far *)
Definition run_fn (ds : dataset) (c : cfg) (G : oracle) (idx : nat) (f : fitem) (k : nat)
  : res (ret * list call) :=
  let sd := option_map (fun s => s + Z.of_nat idx) (seed c) in   (* default_rng(seed + idx) if seed is not None else GlobalRng() *)
  match f with
  | FI TIndex => Ok (R1 (VIndex idx), [])
  | FI (TOther _) => Err EAssertAttr        (* assert hasattr(type(self.dataset), fn_name), at construction *)
  | FI TX =>
      match getitem_xclass ds c idx (G k sd) with
      | Ok (s, rest) => Ok (R1 (VX (s_x s)), [{| c_sample := s; c_rest := rest |}])
      | Err e => Err e
      end
  | FI TClass =>
      match getitem_xclass ds c idx (G k sd) with
      | Ok (s, rest) => Ok (R1 (VCls (s_cls s)), [{| c_sample := s; c_rest := rest |}])
      | Err e => Err e
      end
  | FIXClass =>
      match getitem_xclass ds c idx (G k sd) with
      | Ok (s, rest) => Ok (R2 (VX (s_x s)) (VCls (s_cls s)), [{| c_sample := s; c_rest := rest |}])
      | Err e => Err e
      end
  end.

Fixpoint run_fns (ds : dataset) (c : cfg) (G : oracle) (idx : nat) (fs : list fitem) (k : nat)
  : res (list ret * list call) :=
  match fs with
  | [] => Ok ([], [])
  | f :: fs' =>
      match run_fn ds c G idx f k with
      | Err e => Err e
      | Ok (r, cs) =>
          match run_fns ds c G idx fs' (k + length cs)%nat with
          | Err e => Err e
          | Ok (rs, cs') => Ok (r :: rs, cs ++ cs')
          end
      end
  end.

(* "unpack fused items into original order" *)
Fixpoint unpack (slots : list slot) (items : list ret) (un : list value) : list value :=
  match slots, items with
  | Single i :: sl, R1 v :: it => unpack sl it (set_nth i v un)
  | Fused ix ic :: sl, R2 vx vc :: it => unpack sl it (set_nth ic vc (set_nth ix vx un))
  | _, _ => un
  end.

Definition has_other (toks : list token) : bool :=
  existsb (fun t => match t with TOther _ => true | _ => false end) toks.

(* ModeWrapper(KDMixWrapper(ds, ...), mode=toks)[idx] *)
Definition mw_getitem (ds : dataset) (c : cfg) (G : oracle) (toks : list token) (idx : nat)
  : res (list value * list call) :=
  if has_other toks then Err EAssertAttr else      (* raised by ModeWrapper.__init__ *)
  let p := plan toks in
  match run_fns ds c G idx (map fst p) 0 with
  | Err e => Err e
  | Ok (items, calls) => Ok (unpack (map snd p) items (repeat VNone (length toks)), calls)
  end.
