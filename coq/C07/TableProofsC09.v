(* Obligations about the GENERATED tables that C09 needs (gen/RngTable.v, regenerated from the sources on every run). *)
From Coq Require Import ZArith List Bool String.
Import ListNotations.
From KD Require Import C07.RngGraph C07.Proofs C07.ModelC08 C07.ProofsC08 C07.ModelC09 C07.ProofsC09 C07.gen.RngTable C07.TableProofs.

(* wrappers whose _worker_init_fn does not reach every transform field their per-item code calls (behind a guard
   admitting every non-quiet class the field can hold) are listed here; a wrapper that forgets one of two fields, or
   has no _worker_init_fn at all, fails with `Unable to unify "[]" with "["TheWrapper"]"`. *)
Lemma wrp_table_wi_no_open_class : wiopen_classes rng_table wrp_table = [].
Proof. vm_compute. reflexivity. Qed.

Lemma wrapper_table_wi_closed_proof : forallb (wiclosed rng_table) wrp_table = true.
Proof. apply wiopen_nil_closed. exact wrp_table_wi_no_open_class. Qed.

(* collators: set_rng reaches every drawing member *)
Lemma col_table_no_open_class : open_classes col_table = [].
Proof. vm_compute. reflexivity. Qed.

Lemma collator_table_closed_proof : forallb (closed col_table) col_table = true.
Proof. apply open_nil_closed. exact col_table_no_open_class. Qed.

(* dataset classes: ModeWrapper / KDSubset / KDConcatDataset / _InterleavedConcatDataset forward worker_init_fn to every
   wrapped dataset, KDWrapper runs its own hook and then the wrapped dataset, KDDataset seeds its collators *)
Lemma dataset_table_closed_proof : dsclosed ds_table = true.
Proof. vm_compute. reflexivity. Qed.
