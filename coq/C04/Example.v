(* a concrete well-formed configuration: the premises of the property theorems are satisfiable *)
From Coq Require Import ZArith List Bool Lia.
Import ListNotations.
From KD Require Import C04.Model C04.Spec C04.Lists C04.Arith.
Open Scope Z_scope.

Definition ex_side : side_cfg :=
  {| ene := Some 1; enu := Some 3; ens := Some 5; sbs := Some 2; sidx := [0; 1; 2]; slen := 3; dslen := 4 |}.
Definition ex_cfg : cfg :=
  {| cN := 10; dsN := 11; cB := 2; drop_last := true; cD := Some 4; bud := Updates 7; sides := [ex_side; ex_side] |}.
Definition ex_iter (e : Z) : list Z := [3; 1; 4; 1; 5; 9; 2; 6; 5; 10].

Lemma ex_side_wf : wf_side ex_side.
Proof.
  unfold wf_side, ex_side. cbn.
  repeat split; try lia; try reflexivity; intros n H; inversion H; lia.
Qed.

Lemma ex_wf : WF ex_cfg ex_iter.
Proof.
  constructor.
  - cbn. lia.
  - cbn. lia.
  - intros d H. cbn in H. inversion H; subst. cbn. repeat split; try lia. exists 2. lia.
  - intros e. reflexivity.
  - cbn. repeat constructor; apply ex_side_wf.
  - cbn. lia.
Qed.
