(* C13: the boolean functions that the correspondence run evaluates on the
   implementation's output imply the Prop-level spec of Spec.v. *)
From Coq Require Import ZArith List Bool Arith Lia Permutation.
Import ListNotations.
From KD Require Import C12.Spec C12.Proofs C13.Spec C13.ProofsSemi.

Lemma memb_In : forall x l, memb x l = true -> In x l.
Proof.
  intros x l H. unfold memb in H. apply existsb_exists in H. destruct H as [y [Hy E]].
  apply Nat.eqb_eq in E. subst. exact Hy.
Qed.

Lemma nodupb_NoDup : forall l, nodupb l = true -> NoDup l.
Proof.
  induction l as [|x l IH]; intro H; [constructor|].
  simpl in H. apply andb_prop in H. destruct H as [H1 H2]. constructor; auto.
  intro Hin. apply negb_true_iff in H1.
  assert (existsb (Nat.eqb x) l = true); [|congruence].
  apply existsb_exists. exists x. split; auto. apply Nat.eqb_refl.
Qed.

Lemma indices_validb_sound : forall n s, indices_validb n s = true -> indices_valid n s.
Proof.
  intros n s H. unfold indices_validb in H. rewrite forallb_forall in H.
  apply Forall_forall. intros x Hx. apply Nat.ltb_lt. auto.
Qed.

Lemma exact_per_classb_sound : forall classes C spc G,
    exact_per_classb classes C spc G = true -> exact_per_class classes C spc G.
Proof.
  intros classes C spc G H. unfold exact_per_classb in H. apply andb_prop in H. destruct H as [H1 H2].
  apply Nat.eqb_eq in H1. split; auto. intros i Hi. rewrite forallb_forall in H2.
  apply Nat.eqb_eq. apply H2. apply in_seq. lia.
Qed.

Lemma reuse_evenb_sound : forall classes C spc G,
    reuse_evenb classes C spc G = true -> reuse_even_spec classes C spc G.
Proof.
  intros classes C spc G H x i Hx Hi Hc k. unfold reuse_evenb in H. rewrite forallb_forall in H.
  assert (In x (seq 0 (length classes))) as Hx' by (apply in_seq; lia).
  specialize (H x Hx'). rewrite forallb_forall in H.
  assert (In i (seq 0 C)) as Hi' by (apply in_seq; lia).
  specialize (H i Hi'). rewrite Hc, Z.eqb_refl in H.
  apply andb_prop in H. destruct H as [H1 H2]. apply Nat.leb_le in H1. apply Nat.leb_le in H2.
  unfold k. lia.
Qed.

Lemma combine_seq_In : forall {A} (s : list A) a i x, nth_error s i = Some x -> In (a + i, x) (combine (seq a (length s)) s).
Proof.
  intros A. induction s as [|y s IH]; intros a [|i] x H; simpl in H; try discriminate.
  - inversion H; subst. simpl. left. f_equal. lia.
  - simpl. right. replace (a + S i) with (S a + i) by lia. apply IH. exact H.
Qed.

Lemma alternationb_sound : forall classes L U s, alternationb classes L U s = true -> alternation classes L U s.
Proof.
  intros classes L U s H i x Hx. unfold alternationb in H. rewrite forallb_forall in H.
  specialize (H (i, x) (combine_seq_In s 0 i x Hx)). simpl in H.
  apply andb_prop in H. destruct H as [H1 H2]. apply Nat.ltb_lt in H1. apply eqb_prop in H2. auto.
Qed.

Lemma In_firstn : forall {A} n (l : list A) x, In x (firstn n l) -> In x l.
Proof. intros A n l x H. rewrite <- (firstn_skipn n l). apply in_or_app. auto. Qed.

Lemma blocks_exhaustb_sound : forall pool picks, pool <> [] -> NoDup pool ->
    blocks_exhaustb pool picks = true -> blocks_exhaust pool picks.
Proof.
  intros pool picks Hne Hnd H. unfold blocks_exhaustb in H. unfold blocks_exhaust.
  set (k := length pool) in *.
  assert (1 <= k) as Hk by (unfold k; destruct pool; simpl; [congruence|lia]).
  apply andb_prop in H. destruct H as [H H3]. apply andb_prop in H. destruct H as [H1 H2].
  assert (Forall (fun x => In x pool) picks) as Hin.
  { rewrite forallb_forall in H3. apply Forall_forall. intros x Hx. apply memb_In. auto. }
  split; [|split]; auto.
  - intros b Hb. rewrite forallb_forall in H1.
    assert (In b (seq 0 (length picks / k))) as Hbs.
    { apply in_seq. split; [lia|]. simpl.
      assert (b + 1 <= length picks / k); [|lia]. apply Nat.div_le_lower_bound; lia. }
    specialize (H1 b Hbs). apply andb_prop in H1. destruct H1 as [Hn Hl].
    apply nodupb_NoDup in Hn. apply Nat.eqb_eq in Hl.
    apply NoDup_Permutation_bis; auto; [fold k; lia|].
    intros x Hx. unfold block in Hx. apply In_firstn in Hx. apply In_skipn in Hx.
    rewrite Forall_forall in Hin. auto.
  - apply nodupb_NoDup. exact H2.
Qed.

Lemma list_eqb_nat_eq : forall a b, list_eqb Nat.eqb a b = true -> a = b.
Proof.
  induction a as [|x a IH]; intros [|y b] H; simpl in H; try discriminate; auto.
  apply andb_prop in H. destruct H as [H1 H2]. apply Nat.eqb_eq in H1. subst. f_equal. auto.
Qed.

Lemma split_ofb_sound : forall drop W L G streams, split_ofb drop W L G streams = true -> split_of drop W L G streams.
Proof.
  intros drop W L G streams H. unfold split_ofb in H.
  apply andb_prop in H. destruct H as [H H4]. apply andb_prop in H. destruct H as [H H3].
  apply andb_prop in H. destruct H as [H1 H2].
  apply Nat.eqb_eq in H1. apply list_eqb_nat_eq in H3. rewrite forallb_forall in H2.
  split; auto. split; [|split; auto].
  - apply Forall_forall. intros s Hs. apply Nat.eqb_eq. auto.
  - destruct drop; apply andb_prop in H4; destruct H4 as [Ha Hb];
      apply Nat.leb_le in Ha; apply Nat.ltb_lt in Hb; auto.
Qed.

(* the three conjunctions the correspondence run evaluates (Check.spec_holds) *)
Lemma checked_cb_sound : forall classes C spc W L G streams,
    exact_per_classb classes C spc G = true -> reuse_evenb classes C spc G = true ->
    indices_validb (length classes) G = true -> forallb (indices_validb (length classes)) streams = true ->
    split_ofb true W L G streams = true ->
    exact_per_class classes C spc G /\ reuse_even_spec classes C spc G /\ indices_valid (length classes) G /\
    Forall (indices_valid (length classes)) streams /\ split_of true W L G streams.
Proof.
  intros classes C spc W L G streams H1 H2 H3 H4 H5.
  split; [apply exact_per_classb_sound; auto|]. split; [apply reuse_evenb_sound; auto|].
  split; [apply indices_validb_sound; auto|]. split; [|apply split_ofb_sound; auto].
  rewrite forallb_forall in H4. apply Forall_forall. intros s Hs. apply indices_validb_sound. auto.
Qed.

Lemma checked_semi_sound : forall classes L U s,
    labeled_pool classes <> [] -> unlabeled_pool classes <> [] ->
    alternationb classes L U s = true ->
    blocks_exhaustb (labeled_pool classes) (labeled_picks classes s) = true ->
    blocks_exhaustb (unlabeled_pool classes) (unlabeled_picks classes s) = true ->
    alternation classes L U s /\
    blocks_exhaust (labeled_pool classes) (labeled_picks classes s) /\
    blocks_exhaust (unlabeled_pool classes) (unlabeled_picks classes s).
Proof.
  intros classes L U s Hl Hu H1 H2 H3. split; [apply alternationb_sound; auto|].
  split; apply blocks_exhaustb_sound; auto; apply NoDup_filter, seq_NoDup.
Qed.

Lemma checked_weighted_sound : forall n W L G streams,
    nodupb (interleave streams) = true -> nodupb G = true -> indices_validb n G = true ->
    forallb (indices_validb n) streams = true -> split_ofb true W L G streams = true ->
    NoDup (interleave streams) /\ NoDup G /\ indices_valid n G /\ Forall (indices_valid n) streams /\
    split_of true W L G streams.
Proof.
  intros n W L G streams H1 H2 H3 H4 H5.
  split; [apply nodupb_NoDup; auto|]. split; [apply nodupb_NoDup; auto|].
  split; [apply indices_validb_sound; auto|]. split; [|apply split_ofb_sound; auto].
  rewrite forallb_forall in H4. apply Forall_forall. intros s Hs. apply indices_validb_sound. auto.
Qed.
