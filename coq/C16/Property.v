(* C16 — property theorems (statements only; proofs are in Proofs.v).
   labels : the wrapped dataset's labels; C : its announced class count;
   w : wrapper kind + constructor arguments + recorded draws (Model.wspec);
   contractb : domain of the property + range contract of the draws (Spec.v). *)
From Coq Require Import ZArith List Bool QArith Permutation.
Import ListNotations.
From KD Require Import C16.Model C16.Spec C16.Proofs.
Open Scope Z_scope.

(* ---- (1) bulk accessor = per-sample accessor ---- *)
Theorem getall_eq_map_getitem : forall w C labels,
  contractb w C labels = true -> coherent (w_items w C labels) (w_getall w C labels).
Proof. exact getall_eq_map_getitem_all. Qed.
Print Assumptions getall_eq_map_getitem.

Theorem class_groups_getall_eq_map_getitem : forall C p labels,
  cg_getall C p labels = map (cg_getitem C p labels) (seq 0 (length labels)).
Proof. exact cg_coherent. Qed.
Print Assumptions class_groups_getall_eq_map_getitem.

Theorem superclass_getall_eq_map_getitem : forall C p labels,
  sc_getall C p labels = map (sc_getitem C p labels) (seq 0 (length labels)).
Proof. exact sc_coherent. Qed.
Print Assumptions superclass_getall_eq_map_getitem.

Theorem swap_getall_eq_map_getitem : forall p labels,
  length (sw_apply p) = length labels -> length (sw_new p) = length labels ->
  sw_getall p labels = map (sw_getitem p labels) (seq 0 (length labels)).
Proof. exact sw_coherent. Qed.
Print Assumptions swap_getall_eq_map_getitem.

Theorem overwrite_getall_eq_map_getitem : forall classes n,
  length classes = n -> ow_getall classes = map (ow_getitem classes) (seq 0 n).
Proof. exact ow_coherent. Qed.
Print Assumptions overwrite_getall_eq_map_getitem.

Theorem allgather_getall_eq_map_getitem : forall W labels,
  ag_getall W labels = map (ag_getitem W labels) (seq 0 (length labels)).
Proof. exact ag_coherent. Qed.
Print Assumptions allgather_getall_eq_map_getitem.

(* the bulk accessor of the pseudo-label wrapper, WHEN it answers (top-k sampling raises
   NotImplementedError), is the per-sample list — thresholded tables included, PROVIDED the
   bulk path takes the same "confidence > threshold" decisions as the per-sample path (the
   two lists of decisions are recorded separately on the two real code paths) *)
Theorem pseudo_label_getall_eq_map_getitem : forall p n l,
  match p with
  | PLHard pl => length pl = n
  | PLSoft am => length am = n
  | PLThr _ _ dec_item dec_bulk => dec_item = dec_bulk
  | _ => True
  end ->
  pl_getall p n = Some l -> l = map (pl_getitem p) (seq 0 n).
Proof. exact pl_coherent. Qed.
Print Assumptions pseudo_label_getall_eq_map_getitem.

(* ... and ONLY then: one row on which the two paths decide differently (a confidence that
   equals the threshold under `>` on one path and `>=` / `not <` on the other) makes the two
   accessors disagree *)
Theorem pseudo_label_threshold_coherent_iff_same_decisions : forall am ref di db n,
  length am = n -> length di = n -> length db = n -> (forall y, In y am -> y <> -1) ->
  (pl_getall (PLThr am ref di db) n = Some (map (pl_getitem (PLThr am ref di db)) (seq 0 n)) <-> di = db).
Proof. exact pl_thr_coherent_iff. Qed.
Print Assumptions pseudo_label_threshold_coherent_iff_same_decisions.

(* under the contract (both paths decide as the rule "softmax(row).max() > threshold" does) a
   thresholded label is the row argmax where the rule holds and -1 elsewhere, on both accessors *)
Theorem pseudo_label_threshold_rule : forall am ref di db C labels idx,
  contractb (WPseudo (PLThr am ref di db)) C labels = true ->
  pl_getitem (PLThr am ref di db) idx = (if nth idx ref false then nth idx am 0 else -1) /\
  (forall l, pl_getall (PLThr am ref di db) (length labels) = Some l ->
             nth idx l (pl_getitem (PLThr am ref di db) idx) = pl_getitem (PLThr am ref di db) idx).
Proof. exact pl_thr_rule. Qed.
Print Assumptions pseudo_label_threshold_rule.

Theorem random_class_getall_eq_map_getitem : forall nc (labels : list Z) m C,
  contractb (WRandomClass nc m) C labels = true ->
  rc_getall nc (length labels) m = map (rc_getitem nc (length labels) m) (seq 0 (length labels)).
Proof. exact rc_coherent. Qed.
Print Assumptions random_class_getall_eq_map_getitem.

Theorem semi_getall_eq_map_getitem : forall k perm labels,
  se_getall k perm labels = map (se_getitem k perm labels) (seq 0 (length labels)).
Proof. exact se_coherent. Qed.
Print Assumptions semi_getall_eq_map_getitem.

(* ---- (2) range ---- *)
Theorem labels_in_announced_range : forall w C labels,
  contractb w C labels = true ->
  forall idx, (idx < length labels)%nat ->
  label_okb (allows_unlabeled w) (w_shape w C) (w_getitem w C labels idx) = true.
Proof. exact labels_in_range_all. Qed.
Print Assumptions labels_in_announced_range.

(* class groups, group size dividing C: labels stay in [0, C) -- also for unlabeled (-1) inputs *)
Theorem class_groups_labels_in_range : forall C p labels idx,
  contractb (WClassGroups p) C labels = true -> (idx < length labels)%nat ->
  0 <= cg_getitem C p labels idx < C.
Proof. exact cg_range. Qed.
Print Assumptions class_groups_labels_in_range.

(* superclass: labels < ceil(C / k) * splits = getshape_class *)
Theorem superclass_labels_below_bound : forall C p labels idx,
  contractb (WSuperclass p) C labels = true -> (idx < length labels)%nat ->
  0 <= sc_getitem C p labels idx < ceil_div C (sc_cps p) * sc_splits p.
Proof. exact sc_range. Qed.
Print Assumptions superclass_labels_below_bound.

(* the generators' contracts imply the range hypotheses of contractb *)
Theorem permuted_contract_implies_range : forall C k d,
  Permutation d (cg_table0 C k) -> forallb (in_rangeb (ceil_div C k)) d = true.
Proof. exact permuted_in_range. Qed.
Print Assumptions permuted_contract_implies_range.

Theorem permutation_contract_implies_range : forall C d,
  Permutation d (zrange C) -> forallb (in_rangeb C) d = true.
Proof. exact permutation_in_range. Qed.
Print Assumptions permutation_contract_implies_range.

(* ---- (4) all-gather order: (s w) -> (w s) with padding, cut to n ---- *)
Theorem allgather_permutation_shape : forall n W, (1 <= W <= n)%nat ->
  length (ag_indices n W) = n /\
  forall j, (j < n)%nat -> nth j (ag_indices n W) O = ag_spec n W j /\ (ag_spec n W j < n)%nat.
Proof. exact allgather_shape_lem. Qed.
Print Assumptions allgather_permutation_shape.

(* ---- (3) encodings over Q ---- *)
Theorem smooth_nonneg : forall sm C y, (0 <= sm <= 1)%Q -> 0 < C -> vec_nonneg (ls_vec sm C y).
Proof. exact smooth_nonneg_lem. Qed.
Print Assumptions smooth_nonneg.

Theorem smooth_sums_to_one : forall sm C y, 0 <= y < C -> vec_sums_to_one (ls_vec sm C y).
Proof. exact smooth_sum_lem. Qed.
Print Assumptions smooth_sums_to_one.

Theorem smooth_argmax : forall sm C y, (0 <= sm <= 1)%Q -> 0 <= y < C ->
  is_argmax (Z.to_nat y) (ls_vec sm C y).
Proof. exact smooth_argmax_lem. Qed.
Print Assumptions smooth_argmax.

(* v[y] > v[j] for every other class j  iff  smoothing < 1 *)
Theorem smooth_argmax_strict_iff : forall sm C y j, 0 <= y < C -> (j < Z.to_nat C)%nat -> j <> Z.to_nat y ->
  ((nth j (ls_vec sm C y) 0 < nth (Z.to_nat y) (ls_vec sm C y) 0)%Q <-> (sm < 1)%Q).
Proof. exact smooth_strict_lem. Qed.
Print Assumptions smooth_argmax_strict_iff.

Theorem smooth_binary : forall sm, (0 <= sm <= 1)%Q -> ~ (sm == 0)%Q ->
  (exists q, ls_getitem sm 1 1 = EScalar q /\ ((1 # 2) <= q <= 1)%Q) /\
  (exists q, ls_getitem sm 1 0 = EScalar q /\ (0 <= q <= (1 # 2))%Q).
Proof. exact smooth_binary_lem. Qed.
Print Assumptions smooth_binary.

Theorem onehot_distribution_strict_argmax : forall C y, 0 <= y < C ->
  vec_nonneg (oh_vec C y) /\ vec_sums_to_one (oh_vec C y) /\ is_strict_argmax (Z.to_nat y) (oh_vec C y).
Proof. exact onehot_lem. Qed.
Print Assumptions onehot_distribution_strict_argmax.

(* reading decision of DESIGN.md: for the re-encoding wrappers the bulk accessor stays the
   integer label and the per-sample vector is a distribution with that label as argmax *)
Theorem encoding_matches_bulk_label : forall e C labels idx,
  (idx < length labels)%nat -> 0 <= nth idx labels 0 < C -> 2 <= C ->
  match e with ESmooth sm => (0 <= sm <= 1)%Q /\ ~ (sm == 0)%Q | EOneHot => True end ->
  exists v, e_getitem e C labels idx = EVec v /\ length v = Z.to_nat C /\
            vec_nonneg v /\ vec_sums_to_one v /\ is_argmax (Z.to_nat (nth idx (e_getall e labels) 0)) v.
Proof. exact encoding_matches_bulk_lem. Qed.
Print Assumptions encoding_matches_bulk_label.

(* unlabeled samples: both re-encodings keep the marker (a vector of -1 of the announced length),
   so "per-sample says unlabeled" exactly where the bulk accessor says -1 *)
Theorem unlabeled_stays_marked : forall e C labels idx,
  nth idx labels 0 = -1 ->
  match e with ESmooth sm => ~ (sm == 0)%Q | EOneHot => True end ->
  e_getitem e C labels idx = EVec (repeat (-1)%Q (Z.to_nat C)).
Proof. exact unlabeled_stays_marked_lem. Qed.
Print Assumptions unlabeled_stays_marked.

(* ---- structural ---- *)
Theorem mapping_function_of_args_and_draws : forall w1 w2 C labels, w1 = w2 ->
  w_items w1 C labels = w_items w2 C labels /\ w_getall w1 C labels = w_getall w2 C labels
  /\ w_shape w1 C = w_shape w2 C.
Proof. exact mapping_function. Qed.
Print Assumptions mapping_function_of_args_and_draws.

(* wrapped data other than the label is untouched: a wrapper (any kind, any parameters, any
   draws) answers every item other than the label exactly as the wrapped dataset does; the label
   is the wrapper's mapping.  (That the real classes override the class accessors only is the
   harness' structural check, see TRUSTED.) *)
Theorem other_items_untouched : forall w C labels ds name idx,
  wrap w C labels ds (IOther name) idx = ds (IOther name) idx.
Proof. exact other_items_untouched_lem. Qed.
Print Assumptions other_items_untouched.

(* ---- constructors are pure: construction histories on shared objects ---- *)
(* whatever wrappers were built before on the same dataset object (any kinds, any arguments, any draws), whether
   the dataset's bulk accessor hands out its own storage or a copy: the dataset's stored labels are what they
   were ... *)
Theorem constructions_leave_wrapped_labels : forall h C hist stored, history h C hist stored = stored.
Proof. exact history_pure_lem. Qed.
Print Assumptions constructions_leave_wrapped_labels.

(* ... and a wrapper built after the history shows exactly what the same wrapper shows on a pristine copy:
   the mapping is a function of the constructor arguments, the seed's draws and the wrapped labels alone *)
Theorem mapping_independent_of_construction_history : forall h C hist w stored,
  items_after h C hist w stored = w_items w C stored /\ getall_after h C hist w stored = w_getall w C stored.
Proof. exact history_independent_lem. Qed.
Print Assumptions mapping_independent_of_construction_history.

Theorem mapping_same_after_any_two_histories : forall h1 h2 C hist1 hist2 w stored,
  items_after h1 C hist1 w stored = items_after h2 C hist2 w stored /\ getall_after h1 C hist1 w stored = getall_after h2 C hist2 w stored.
Proof. exact history_irrelevant_lem. Qed.
Print Assumptions mapping_same_after_any_two_histories.

(* a dataset that hands out copies is safe even from constructors that write into what they get *)
Theorem copies_protect_the_dataset : forall wr C hist stored, history_gen wr HCopy C hist stored = stored.
Proof. exact copies_protect_lem. Qed.
Print Assumptions copies_protect_the_dataset.

(* contrast (NOT the code that exists): a swap-label constructor assigning through the mask into the array it
   fetched changes an array-backed dataset, and a second wrapper built afterwards differs from the same wrapper
   on a pristine copy; with the SAME arguments the corruption is idempotent and invisible in the wrapper *)
Example in_place_swap_changes_the_dataset :
  let a := WSwap {| sw_apply := [true; false]; sw_new := [1; 1] |} in
  let b := WSwap {| sw_apply := [false; true]; sw_new := [0; 1] |} in
  history_gen swap_writes_in_place HOwn 2 [a] [0; 0] = [1; 0] /\
  items_after_gen swap_writes_in_place HOwn 2 [a] b [0; 0] = [1; 1] /\
  w_items b 2 [0; 0] = [0; 1] /\
  items_after_gen swap_writes_in_place HOwn 2 [a] a [0; 0] = w_items a 2 [0; 0] /\
  items_after_gen swap_writes_in_place HCopy 2 [a] b [0; 0] = w_items b 2 [0; 0].
Proof. repeat split; reflexivity. Qed.

(* ---- non-vacuity: every contract is satisfiable (one witness per wrapper / mode) ---- *)
Example nv_class_groups :
  contractb (WClassGroups {| cg_cpg := 2; cg_shuffle := true; cg_draw := [1; 0; 0; 1] |}) 4 [0; 3; 3; 1; -1] = true.
Proof. reflexivity. Qed.
(* an unlabeled sample (-1) indexes the group table from the end: it gets a class of the last group *)
Example nv_class_groups_unlabeled :
  map (cg_getitem 4 {| cg_cpg := 2; cg_shuffle := false; cg_draw := [] |} [-1; 0; -1]) (seq 0 3) = [2; 0; 3].
Proof. reflexivity. Qed.
Example nv_superclass :
  contractb (WSuperclass {| sc_cps := 2; sc_splits := 2; sc_shuffle := true; sc_perm := [2; 0; 1];
                            sc_perm2 := [1; 0]%nat |}) 3 [2; 0] = true.
Proof. reflexivity. Qed.
Example nv_swap : contractb (WSwap {| sw_apply := [true; false]; sw_new := [1; 0] |}) 2 [0; -1] = true.
Proof. reflexivity. Qed.
Example nv_overwrite : contractb (WOverwrite [2; -1; 2]) 3 [0; 1; 2] = true.
Proof. reflexivity. Qed.
Example nv_allgather : contractb (WAllgather 3) 7 [0; 1; 2; 3; 4; 5; 6] = true.
Proof. reflexivity. Qed.
Example nv_pseudo_hard : contractb (WPseudo (PLHard [1; -1])) 2 [0; 0] = true.
Proof. reflexivity. Qed.
Example nv_pseudo_soft : contractb (WPseudo (PLSoft [1; 0])) 2 [0; 0] = true.
Proof. reflexivity. Qed.
Example nv_pseudo_thr :
  contractb (WPseudo (PLThr [1; 0] [true; false] [true; false] [true; false])) 2 [0; 0] = true.
Proof. reflexivity. Qed.
(* a tie decided differently by the two paths (second row): the accessors disagree *)
Example nv_pseudo_thr_tie :
  pl_getall (PLThr [1; 0] [true; false] [true; false] [true; true]) 2 = Some [1; 0] /\
  map (pl_getitem (PLThr [1; 0] [true; false] [true; false] [true; true])) (seq 0 2) = [1; -1].
Proof. split; reflexivity. Qed.
Example nv_pseudo_topk : contractb (WPseudo (PLTopk [[2; 0]; [1; 2]] [1; 0])) 3 [0; 0] = true.
Proof. reflexivity. Qed.
Example nv_random : contractb (WRandomClass 3 (RCRandom [2; 0])) 5 [0; 0] = true.
Proof. reflexivity. Qed.
Example nv_randperm : contractb (WRandomClass 3 (RCRandperm [2; 0; 1])) 5 [0; 0; 0; 0] = true.
Proof. reflexivity. Qed.
Example nv_gatherbug : contractb (WRandomClass 3 (RCGatherbug 2)) 5 [0; 0; 0; 0; 0] = true.
Proof. reflexivity. Qed.
Example nv_semi : contractb (WSemi 1 [1; 0]%nat) 2 [1; -1] = true.
Proof. reflexivity. Qed.
(* the defect inputs of DESIGN.md §3 evaluate to coherent answers in the repaired model *)
Example nv_d18 : ag_getall 3 [0; 1; 2; 3; 4; 5; 6] = [0; 3; 6; 1; 4; 0; 2].
Proof. reflexivity. Qed.
Example nv_allgather_spec : map (ag_spec 7 3) (seq 0 7) = [0; 3; 6; 1; 4; 0; 2]%nat.
Proof. reflexivity. Qed.
Example nv_permuted : Permutation [1; 0; 0; 1] (cg_table0 4 2).
Proof. exact permuted_witness. Qed.
