(* C16 — proofs.  Everything here is by induction on lists / case analysis on the wrapper;
   no axioms. *)
From Coq Require Import ZArith List Bool Lia ZifyBool QArith Arith PeanoNat Permutation.
Import ListNotations.
From KD Require Import C16.Model C16.Spec.
Open Scope Z_scope.
Ltac Zify.zify_post_hook ::= Z.to_euclidean_division_equations.

(* ------------------------------------------------------------------ *)
(* generic list lemmas                                                 *)
(* ------------------------------------------------------------------ *)
Lemma mapi_from_spec : forall A B (f : nat -> A -> B) (d : A) l k,
  mapi_from k f l = map (fun i => f (k + i)%nat (nth i l d)) (seq 0 (length l)).
Proof.
  induction l as [|a l IH]; intros k; simpl; [reflexivity|].
  f_equal; [now rewrite Nat.add_0_r|].
  rewrite IH, <- seq_shift, map_map.
  apply map_ext; intros i. now rewrite Nat.add_succ_r.
Qed.

Lemma mapi_spec : forall A B (f : nat -> A -> B) (d : A) l,
  mapi f l = map (fun i => f i (nth i l d)) (seq 0 (length l)).
Proof. intros. unfold mapi. now rewrite (mapi_from_spec _ _ f d). Qed.

Lemma map_nth_seq : forall A (d : A) l, l = map (fun i => nth i l d) (seq 0 (length l)).
Proof.
  induction l as [|a l IH]; simpl; [reflexivity|].
  f_equal. rewrite <- seq_shift, map_map. exact IH.
Qed.

Lemma map_nth_seq_len : forall A (d : A) l n, length l = n -> l = map (fun i => nth i l d) (seq 0 n).
Proof. intros; subst; apply map_nth_seq. Qed.

Lemma nth_firstn_lt : forall A (d : A) k l j, (j < k)%nat -> nth j (firstn k l) d = nth j l d.
Proof.
  induction k; intros l j H; [lia|].
  destruct l; simpl; [now destruct j|]. destruct j; [reflexivity|]. apply IHk; lia.
Qed.

Lemma firstn_incl : forall A k (l : list A) x, In x (firstn k l) -> In x l.
Proof.
  induction k; intros l x H; simpl in H; [contradiction|].
  destruct l; simpl in *; [contradiction|]. destruct H; auto.
Qed.

Lemma nth_set_nth : forall A (d v : A) l i j, (j < length l)%nat ->
  nth j (set_nth i v l) d = if Nat.eqb j i then v else nth j l d.
Proof.
  induction l as [|a l IH]; intros i j H; simpl in H; [lia|].
  destruct i, j; simpl; try reflexivity. apply IH; lia.
Qed.

Lemma set_nth_length : forall A (v : A) l i, length (set_nth i v l) = length l.
Proof. induction l; intros i; destruct i; simpl; auto. Qed.

Lemma flat_map_const_length : forall A B (f : A -> list B) K l,
  (forall x, length (f x) = K) -> length (flat_map f l) = (length l * K)%nat.
Proof.
  intros A B f K l H. induction l; simpl; [reflexivity|].
  now rewrite app_length, H, IHl.
Qed.

Lemma nth_flat_map_blocks : forall A (d : A) (f : nat -> list A) K,
  (forall w, length (f w) = K) ->
  forall W a w s, (w < W)%nat -> (s < K)%nat ->
  nth (w * K + s) (flat_map f (seq a W)) d = nth s (f (a + w)%nat) d.
Proof.
  intros A d f K Hlen. induction W; intros a w s Hw Hs; [lia|].
  simpl. destruct w.
  - simpl. rewrite app_nth1 by (rewrite Hlen; lia). now rewrite Nat.add_0_r.
  - rewrite app_nth2 by (rewrite Hlen; simpl; lia).
    rewrite Hlen. replace (S w * K + s - K)%nat with (w * K + s)%nat by (simpl; lia).
    rewrite IHW by lia. f_equal. f_equal. lia.
Qed.

Lemma zrange_in : forall n x, In x (zrange n) -> 0 <= x < n.
Proof.
  unfold zrange. intros n x H. apply in_map_iff in H. destruct H as [k [<- Hk]].
  apply in_seq in Hk. lia.
Qed.

Lemma zrange_length : forall n, length (zrange n) = Z.to_nat n.
Proof. intros. unfold zrange. now rewrite map_length, seq_length. Qed.

Lemma in_rangeb_true : forall hi y, in_rangeb hi y = true <-> 0 <= y < hi.
Proof. intros. unfold in_rangeb. lia. Qed.

Lemma nthZ_in_or_default : forall A i (l : list A) d, In (nthZ i l d) l \/ nthZ i l d = d.
Proof.
  intros. unfold nthZ. destruct (i <? 0).
  - destruct (- i <=? Z.of_nat (length l)); [|now right].
    destruct (nth_in_or_default (length l - Z.to_nat (- i)) l d); auto.
  - destruct (nth_in_or_default (Z.to_nat i) l d); auto.
Qed.

(* ------------------------------------------------------------------ *)
(* (1) bulk accessor = per-sample accessor, wrapper by wrapper         *)
(* ------------------------------------------------------------------ *)
Lemma cg_coherent : forall C p labels,
  cg_getall C p labels = map (cg_getitem C p labels) (seq 0 (length labels)).
Proof. intros. unfold cg_getall, cg_getitem. now rewrite (mapi_spec _ _ _ 0). Qed.

Lemma sc_coherent : forall C p labels,
  sc_getall C p labels = map (sc_getitem C p labels) (seq 0 (length labels)).
Proof. intros. unfold sc_getall, sc_getitem. now rewrite (mapi_spec _ _ _ 0). Qed.

Lemma where3_length : forall a x y n,
  length a = n -> length x = n -> length y = n -> length (where3 a x y) = n.
Proof.
  induction a as [|b a IH]; intros x y n Ha Hx Hy; simpl in *; [now subst|].
  destruct x, y; simpl in *; try lia. destruct n; [lia|]. f_equal. apply IH; lia.
Qed.

Lemma len_is_true : forall A n (l : list A), len_is n l = true <-> length l = n.
Proof. intros. unfold len_is. apply Nat.eqb_eq. Qed.

Lemma sw_coherent : forall p labels,
  length (sw_apply p) = length labels -> length (sw_new p) = length labels ->
  sw_getall p labels = map (sw_getitem p labels) (seq 0 (length labels)).
Proof.
  intros p labels Ha Hn. unfold sw_getall, sw_getitem.
  apply map_nth_seq_len. now apply where3_length.
Qed.

Lemma ow_coherent : forall classes n,
  length classes = n -> ow_getall classes = map (ow_getitem classes) (seq 0 n).
Proof. intros. unfold ow_getall, ow_getitem. now apply map_nth_seq_len. Qed.

Lemma ag_coherent : forall W labels,
  ag_getall W labels = map (ag_getitem W labels) (seq 0 (length labels)).
Proof. reflexivity. Qed.

Lemma bools_eqb_eq : forall a b, bools_eqb a b = true -> a = b.
Proof.
  induction a as [|x a IH]; intros [|y b] H; simpl in H; try discriminate; [reflexivity|].
  apply andb_prop in H. destruct H as [Hx H]. apply eqb_prop in Hx. subst. f_equal. now apply IH.
Qed.

Lemma pl_coherent : forall p n l,
  match p with
  | PLHard pl => length pl = n
  | PLSoft am => length am = n
  | PLThr _ _ dec_item dec_bulk => dec_item = dec_bulk
  | _ => True
  end ->
  pl_getall p n = Some l -> l = map (pl_getitem p) (seq 0 n).
Proof.
  intros p n l Hlen H. destruct p; simpl in *; inversion H; subst; clear H.
  - now apply map_nth_seq_len.
  - now apply map_nth_seq_len.
  - reflexivity.
Qed.

(* the thresholded bulk accessor equals the per-sample list EXACTLY WHEN the two code paths
   take the same threshold decision on every row *)
Lemma pl_thr_coherent_iff : forall am ref di db n,
  length am = n -> length di = n -> length db = n -> (forall y, In y am -> y <> -1) ->
  (pl_getall (PLThr am ref di db) n = Some (map (pl_getitem (PLThr am ref di db)) (seq 0 n)) <-> di = db).
Proof.
  intros am ref di db n Ham Hdi Hdb Hne. simpl. split.
  - intros H. inversion H as [H1]. clear H.
    apply nth_ext with (d := false) (d' := false); [congruence|].
    intros i Hi. rewrite Hdi in Hi.
    assert (Hin : In i (seq 0 n)) by (apply in_seq; lia).
    pose proof (proj1 (@map_ext_in_iff _ _ _ _ _) H1 i Hin) as E. simpl in E. unfold thr_label in E.
    assert (Hy : nth i am 0 <> -1) by (apply Hne, nth_In; lia).
    revert E. destruct (nth i di false), (nth i db false); intros E; try reflexivity; congruence.
  - intros ->. reflexivity.
Qed.

(* under the contract a thresholded label is the row argmax where the rule says
   "confidence > threshold" and the -1 marker elsewhere *)
Lemma pl_thr_rule : forall am ref di db C labels idx,
  contractb (WPseudo (PLThr am ref di db)) C labels = true ->
  pl_getitem (PLThr am ref di db) idx = (if nth idx ref false then nth idx am 0 else -1) /\
  (forall l, pl_getall (PLThr am ref di db) (length labels) = Some l ->
             nth idx l (pl_getitem (PLThr am ref di db) idx) = pl_getitem (PLThr am ref di db) idx).
Proof.
  intros am ref di db C labels idx Hc. simpl in Hc.
  repeat (apply andb_prop in Hc; destruct Hc as [Hc ?]).
  apply bools_eqb_eq in H. apply bools_eqb_eq in H0. subst di db. split; [reflexivity|].
  intros l Hl. simpl in Hl. inversion Hl; subst. clear Hl.
  destruct (Nat.lt_ge_cases idx (length labels)) as [Hlt|Hge].
  - rewrite nth_indep with (d' := thr_label am ref 0%nat) by (rewrite map_length, seq_length; exact Hlt).
    rewrite map_nth. rewrite seq_nth by exact Hlt. reflexivity.
  - apply nth_overflow. rewrite map_length, seq_length. exact Hge.
Qed.

Lemma fold_set_nth_length : forall semi (labels : list Z),
  length (fold_left (fun cls i => set_nth i (-1) cls) semi labels) = length labels.
Proof.
  induction semi; intros labels; simpl; [reflexivity|]. now rewrite IHsemi, set_nth_length.
Qed.

Lemma fold_set_nth_nth : forall semi (labels : list Z) j, (j < length labels)%nat ->
  nth j (fold_left (fun cls i => set_nth i (-1) cls) semi labels) 0 =
  if existsb (Nat.eqb j) semi then -1 else nth j labels 0.
Proof.
  induction semi as [|a semi IH]; intros labels j Hj; simpl; [reflexivity|].
  rewrite IH by (now rewrite set_nth_length).
  rewrite nth_set_nth by assumption.
  destruct (Nat.eqb j a); simpl; [now destruct (existsb _ semi)|reflexivity].
Qed.

Lemma se_coherent : forall k perm labels,
  se_getall k perm labels = map (se_getitem k perm labels) (seq 0 (length labels)).
Proof.
  intros. unfold se_getall, se_getitem.
  rewrite (map_nth_seq_len _ 0 _ (length labels) (fold_set_nth_length _ _)) at 1.
  apply map_ext_in. intros j Hj. apply in_seq in Hj. apply fold_set_nth_nth. lia.
Qed.

(* ------------------------------------------------------------------ *)
(* pad / rearrange / cut (all-gather order)                            *)
(* ------------------------------------------------------------------ *)
Lemma pad_of_lt : forall n W, (1 <= W)%nat -> (pad_of n W < W)%nat.
Proof. intros. unfold pad_of. apply Nat.mod_upper_bound. lia. Qed.

Lemma pad_of_mod : forall n W, (1 <= W)%nat -> ((n + pad_of n W) mod W = 0)%nat.
Proof.
  intros n W HW. unfold pad_of.
  pose proof (Nat.div_mod n W ltac:(lia)) as Hdm.
  pose proof (Nat.mod_upper_bound n W ltac:(lia)) as Hub.
  destruct (Nat.eq_dec (n mod W) 0) as [e|ne].
  - rewrite e, Nat.sub_0_r, Nat.mod_same, Nat.add_0_r by lia. exact e.
  - rewrite (Nat.mod_small (W - n mod W) W) by lia.
    replace (n + (W - n mod W))%nat with ((n / W + 1) * W)%nat by lia.
    apply Nat.mod_mul. lia.
Qed.

Lemma pad_of_exact : forall n W, (1 <= W)%nat -> (W * ((n + pad_of n W) / W) = n + pad_of n W)%nat.
Proof.
  intros n W HW. symmetry. apply Nat.div_exact; [lia|]. now apply pad_of_mod.
Qed.

Lemma rearr_length : forall A W K (l : list A) d, length (rearr W K l d) = (W * K)%nat.
Proof.
  intros. unfold rearr.
  rewrite (flat_map_const_length _ _ _ K) by (intros; now rewrite map_length, seq_length).
  now rewrite seq_length.
Qed.

Lemma rearr_nth : forall A W K (l : list A) d w s, (w < W)%nat -> (s < K)%nat ->
  nth (w * K + s) (rearr W K l d) d = nth (s * W + w) l d.
Proof.
  intros. unfold rearr.
  rewrite (nth_flat_map_blocks _ d _ K) by (intros; try (now rewrite map_length, seq_length); assumption).
  simpl.
  rewrite (nth_indep _ d (nth (0 * W + w) l d)) by (now rewrite map_length, seq_length).
  rewrite (map_nth (fun s0 => nth (s0 * W + w) l d)).
  now rewrite seq_nth by assumption.
Qed.

(* the list that is rearranged: l padded with its first elements *)
Definition padded {A} (W : nat) (l : list A) : list A :=
  if (0 <? pad_of (length l) W)%nat then l ++ firstn (pad_of (length l) W) l else l.

Lemma padded_length : forall A W (l : list A), (1 <= W <= length l)%nat ->
  length (padded W l) = (length l + pad_of (length l) W)%nat.
Proof.
  intros A W l H. unfold padded. pose proof (pad_of_lt (length l) W ltac:(lia)).
  destruct (0 <? pad_of (length l) W)%nat eqn:E.
  - rewrite app_length, firstn_length. lia.
  - apply Nat.ltb_ge in E. lia.
Qed.

Lemma gather_order_unfold : forall A W (l : list A) d,
  gather_order W l d =
  let l2 := rearr W (length (padded W l) / W) (padded W l) d in
  if (0 <? pad_of (length l) W)%nat then firstn (length l2 - pad_of (length l) W) l2 else l2.
Proof. reflexivity. Qed.

Lemma gather_order_length : forall A W (l : list A) d, (1 <= W <= length l)%nat ->
  length (gather_order W l d) = length l.
Proof.
  intros A W l d H. rewrite gather_order_unfold. cbv zeta.
  destruct (0 <? pad_of (length l) W)%nat eqn:E.
  - rewrite firstn_length, !rearr_length, !padded_length, !pad_of_exact by lia. lia.
  - apply Nat.ltb_ge in E. rewrite rearr_length, padded_length, pad_of_exact by lia. lia.
Qed.

Lemma gather_order_nth : forall A W (l : list A) d j, (1 <= W <= length l)%nat -> (j < length l)%nat ->
  let K := ((length l + pad_of (length l) W) / W)%nat in
  nth j (gather_order W l d) d = nth ((j mod K) * W + j / K) (padded W l) d.
Proof.
  intros A W l d j H Hj K.
  assert (HK : (W * K = length l + pad_of (length l) W)%nat) by (apply pad_of_exact; lia).
  assert (K0 : (0 < K)%nat) by (destruct K; [lia|lia]).
  rewrite gather_order_unfold. cbv zeta.
  rewrite padded_length by assumption. fold K.
  assert (E : nth j (rearr W K (padded W l) d) d = nth (j mod K * W + j / K) (padded W l) d).
  { pose proof (Nat.div_mod j K ltac:(lia)) as Hdm.
    pose proof (Nat.mod_upper_bound j K ltac:(lia)) as Hub.
    assert ((j / K < W)%nat) by (apply Nat.div_lt_upper_bound; lia).
    replace j with ((j / K) * K + j mod K)%nat at 1 by lia.
    apply rearr_nth; assumption. }
  destruct (0 <? pad_of (length l) W)%nat.
  - rewrite nth_firstn_lt; [exact E|]. rewrite rearr_length. lia.
  - exact E.
Qed.

Lemma gather_order_in : forall A W (l : list A) d x, In x (gather_order W l d) -> In x l \/ x = d.
Proof.
  intros A W l d x H. rewrite gather_order_unfold in H. cbv zeta in H.
  assert (R : forall K, In x (rearr W K (padded W l) d) -> In x l \/ x = d).
  { intros K HK. unfold rearr in HK. apply in_flat_map in HK. destruct HK as [w [_ HK]].
    apply in_map_iff in HK. destruct HK as [s [<- _]].
    destruct (nth_in_or_default (s * W + w) (padded W l) d) as [Hin | ->]; [|now right].
    left. revert Hin. unfold padded. destruct (0 <? pad_of (length l) W)%nat; intros Hin; [|assumption].
    apply in_app_or in Hin. destruct Hin; [assumption|]. eapply firstn_incl; eassumption. }
  revert H. destruct (0 <? pad_of (length l) W)%nat; intros H.
  - apply firstn_incl in H. eapply R; eassumption.
  - eapply R; eassumption.
Qed.

(* all-gather indices: position j = w*K + s shows padded sample s*W + w *)
Lemma ag_indices_length : forall n W, (1 <= W <= n)%nat -> length (ag_indices n W) = n.
Proof. intros. unfold ag_indices. rewrite gather_order_length; rewrite seq_length; auto. Qed.

Lemma ag_indices_nth : forall n W j, (1 <= W <= n)%nat -> (j < n)%nat ->
  nth j (ag_indices n W) O = ag_spec n W j.
Proof.
  intros n W j H Hj. unfold ag_indices, ag_spec.
  rewrite gather_order_nth by (rewrite seq_length; lia). cbv zeta. rewrite seq_length.
  set (K := ((n + pad_of n W) / W)%nat).
  assert (HK : (W * K = n + pad_of n W)%nat) by (apply pad_of_exact; lia).
  assert (K0 : (0 < K)%nat) by (destruct K; lia).
  pose proof (Nat.mod_upper_bound j K ltac:(lia)) as Hub.
  assert ((j / K < W)%nat) by (apply Nat.div_lt_upper_bound; lia).
  set (i := (j mod K * W + j / K)%nat).
  assert (Hi : (i < n + pad_of n W)%nat) by (unfold i; nia).
  pose proof (pad_of_lt n W ltac:(lia)) as Hp.
  unfold padded. rewrite seq_length.
  destruct (i <? n)%nat eqn:E.
  - apply Nat.ltb_lt in E.
    destruct (0 <? pad_of n W)%nat; [rewrite app_nth1 by (rewrite seq_length; lia)|];
      now rewrite seq_nth by lia.
  - apply Nat.ltb_ge in E.
    destruct (0 <? pad_of n W)%nat eqn:E2; [|apply Nat.ltb_ge in E2; lia].
    rewrite app_nth2 by (rewrite seq_length; lia). rewrite seq_length.
    rewrite nth_firstn_lt by lia. now rewrite seq_nth by lia.
Qed.

Lemma ag_spec_lt : forall n W j, (1 <= W <= n)%nat -> (j < n)%nat -> (ag_spec n W j < n)%nat.
Proof.
  intros n W j H Hj. unfold ag_spec.
  set (K := ((n + pad_of n W) / W)%nat).
  assert (HK : (W * K = n + pad_of n W)%nat) by (apply pad_of_exact; lia).
  assert (K0 : (0 < K)%nat) by (destruct K; lia).
  pose proof (Nat.mod_upper_bound j K ltac:(lia)) as Hub.
  assert ((j / K < W)%nat) by (apply Nat.div_lt_upper_bound; lia).
  pose proof (pad_of_lt n W ltac:(lia)) as Hp.
  set (i := (j mod K * W + j / K)%nat).
  assert (Hi : (i < n + pad_of n W)%nat) by (unfold i; nia).
  destruct (i <? n)%nat eqn:E; [now apply Nat.ltb_lt in E|apply Nat.ltb_ge in E; lia].
Qed.

Lemma allgather_shape_lem : forall n W, (1 <= W <= n)%nat ->
  length (ag_indices n W) = n /\
  forall j, (j < n)%nat -> nth j (ag_indices n W) O = ag_spec n W j /\ (ag_spec n W j < n)%nat.
Proof.
  intros n W H. split; [now apply ag_indices_length|].
  intros j Hj. split; [now apply ag_indices_nth|now apply ag_spec_lt].
Qed.

Lemma permuted_witness : Permutation [1; 0; 0; 1] (cg_table0 4 2).
Proof. simpl. apply perm_trans with [0; 1; 0; 1]; [apply perm_swap|]. apply perm_skip. apply perm_swap. Qed.

(* ------------------------------------------------------------------ *)
(* KDRandomClassWrapper: the generated list has the dataset's length   *)
(* ------------------------------------------------------------------ *)
Lemma ceil_cover : forall (n : nat) C, 0 < C ->
  (n <= Z.to_nat (ceil_div (Z.of_nat n) C) * Z.to_nat C)%nat.
Proof.
  intros n C HC. unfold ceil_div.
  assert (H : Z.of_nat n <= (Z.of_nat n + C - 1) / C * C) by (pose proof (Z.div_mod (Z.of_nat n + C - 1) C ltac:(lia)); pose proof (Z.mod_pos_bound (Z.of_nat n + C - 1) C HC); lia).
  assert (0 <= (Z.of_nat n + C - 1) / C) by (apply Z.div_pos; lia).
  rewrite <- Z2Nat.inj_mul by lia. lia.
Qed.

Lemma concat_repeat_length : forall A (p : list A) m, length (concat (repeat p m)) = (m * length p)%nat.
Proof. induction m; simpl; [reflexivity|]. now rewrite app_length, IHm. Qed.

Lemma rc_base_length : forall (n : nat) C, 0 < C ->
  length (firstn n (flat_map (fun c => repeat c (Z.to_nat (ceil_div (Z.of_nat n) C))) (zrange C))) = n.
Proof.
  intros n C HC. rewrite firstn_length.
  rewrite (flat_map_const_length _ _ _ (Z.to_nat (ceil_div (Z.of_nat n) C))) by (intros; apply repeat_length).
  rewrite zrange_length. pose proof (ceil_cover n C HC). lia.
Qed.

Lemma rc_length : forall nc (labels : list Z) m C,
  contractb (WRandomClass nc m) C labels = true -> length (rc_classes nc (length labels) m) = length labels.
Proof.
  intros nc labels m C H. destruct m as [d|p|W]; unfold contractb in H.
  - apply andb_prop in H. destruct H as [H _]. now apply len_is_true in H.
  - apply andb_prop in H. destruct H as [H _]. apply andb_prop in H. destruct H as [Hnc Hl].
    apply len_is_true in Hl. simpl. rewrite firstn_length, concat_repeat_length, Hl.
    pose proof (ceil_cover (length labels) nc ltac:(lia)). lia.
  - apply andb_prop in H. destruct H as [H HW2]. apply andb_prop in H. destruct H as [Hnc HW1].
    apply Z.ltb_lt in Hnc. apply Nat.leb_le in HW1. apply Nat.leb_le in HW2.
    simpl. pose proof (rc_base_length (length labels) nc Hnc) as Hb.
    rewrite firstn_length, gather_order_length; rewrite Hb; lia.
Qed.

Lemma rc_coherent : forall nc (labels : list Z) m C,
  contractb (WRandomClass nc m) C labels = true ->
  rc_getall nc (length labels) m = map (rc_getitem nc (length labels) m) (seq 0 (length labels)).
Proof.
  intros. unfold rc_getall, rc_getitem. apply map_nth_seq_len. eapply rc_length; eassumption.
Qed.

(* ------------------------------------------------------------------ *)
(* (1) combined                                                        *)
(* ------------------------------------------------------------------ *)
Lemma getall_eq_map_getitem_all : forall w C labels,
  contractb w C labels = true -> coherent (w_items w C labels) (w_getall w C labels).
Proof.
  intros w C labels Hc l Hl. unfold w_items.
  destruct w; simpl in Hl.
  - inversion Hl; subst. apply cg_coherent.
  - inversion Hl; subst. apply sc_coherent.
  - inversion Hl; subst. simpl in Hc.
    repeat (apply andb_prop in Hc; destruct Hc as [Hc ?]).
    apply len_is_true in Hc. apply sw_coherent; [assumption|]. now apply len_is_true.
  - inversion Hl; subst. simpl in Hc. apply andb_prop in Hc. destruct Hc as [Hc _].
    apply ow_coherent. now apply len_is_true.
  - inversion Hl; subst. apply ag_coherent.
  - eapply pl_coherent; [|eassumption].
    destruct p; simpl in Hc; auto;
      repeat (apply andb_prop in Hc; destruct Hc as [Hc ?]); try (now apply len_is_true).
    apply bools_eqb_eq in H. apply bools_eqb_eq in H0. congruence.
  - inversion Hl; subst. eapply rc_coherent; eassumption.
  - inversion Hl; subst. apply se_coherent.
Qed.

(* ------------------------------------------------------------------ *)
(* (2) labels lie in the announced range                               *)
(* ------------------------------------------------------------------ *)
Lemma forallb_In : forall A (f : A -> bool) l x, forallb f l = true -> In x l -> f x = true.
Proof. intros A f l x H. now apply forallb_forall. Qed.

Lemma label_okb_true : forall u hi y, label_okb u hi y = true <-> (0 <= y < hi \/ (u = true /\ y = -1)).
Proof. intros. unfold label_okb, in_rangeb. destruct u; lia. Qed.

Lemma ceil_div_exact : forall C k, 0 < k -> C mod k = 0 -> ceil_div C k * k = C.
Proof.
  intros C k Hk Hm. unfold ceil_div.
  assert (E : C = k * (C / k)) by (now apply Z.div_exact; [lia|]).
  rewrite E at 1. replace (k * (C / k) + k - 1) with ((k - 1) + (C / k) * k) by lia.
  rewrite Z.div_add by lia. rewrite Z.div_small by lia. lia.
Qed.

Lemma div_lt_ceil : forall C k x, 0 < k -> 0 <= x < C -> 0 <= x / k < ceil_div C k.
Proof.
  intros C k x Hk Hx. unfold ceil_div.
  replace (C + k - 1) with ((C - 1) + 1 * k) by lia. rewrite Z.div_add by lia.
  pose proof (Z.div_le_mono x (C - 1) k Hk ltac:(lia)).
  pose proof (Z.div_pos x k ltac:(lia) Hk). lia.
Qed.

Lemma ceil_div_pos : forall C k, 0 < k -> 0 < C -> 0 < ceil_div C k.
Proof. intros. pose proof (div_lt_ceil C k 0 H ltac:(lia)). lia. Qed.

Lemma cg_table0_in : forall C k g, In g (cg_table0 C k) -> 0 <= g < ceil_div C k.
Proof.
  intros C k g H. unfold cg_table0 in H. apply in_flat_map in H. destruct H as [x [Hx Hg]].
  apply repeat_spec in Hg. subst. now apply zrange_in.
Qed.

Lemma cg_range : forall C p labels idx,
  contractb (WClassGroups p) C labels = true -> (idx < length labels)%nat ->
  0 <= cg_getitem C p labels idx < C.
Proof.
  intros C p labels idx H Hidx. unfold contractb in H.
  apply andb_prop in H. destruct H as [H Hdraw].
  apply andb_prop in H. destruct H as [H Hlab].
  apply andb_prop in H. destruct H as [H Hmod].
  apply andb_prop in H. destruct H as [Hk HC].
  apply Z.ltb_lt in Hk. apply Z.ltb_lt in HC. apply Z.eqb_eq in Hmod.
  pose proof (ceil_div_exact C (cg_cpg p) Hk Hmod) as HG.
  pose proof (ceil_div_pos C (cg_cpg p) Hk HC) as HGpos.
  unfold cg_getitem, cg_map_cls.
  set (g := nthZ (nth idx labels 0) (cg_table C p) 0).
  assert (Hg : 0 <= g < ceil_div C (cg_cpg p)).
  { unfold g. destruct (nthZ_in_or_default _ (nth idx labels 0) (cg_table C p) 0) as [Hin | ->]; [|lia].
    revert Hin. generalize (nthZ (nth idx labels 0) (cg_table C p) 0). intros x Hin.
    unfold cg_table in Hin. destruct (cg_shuffle p).
    - apply in_rangeb_true. eapply forallb_In; eassumption.
    - now apply cg_table0_in. }
  pose proof (Z.mod_pos_bound (nth idx (idx_within labels) 0) (cg_cpg p) Hk) as Hr.
  clearbody g. nia.
Qed.

Lemma sc_range : forall C p labels idx,
  contractb (WSuperclass p) C labels = true -> (idx < length labels)%nat ->
  0 <= sc_getitem C p labels idx < sc_shape C p.
Proof.
  intros C p labels idx H Hidx. unfold contractb in H.
  apply andb_prop in H. destruct H as [H Hdraw].
  apply andb_prop in H. destruct H as [H Hlab].
  apply andb_prop in H. destruct H as [H HC0].
  apply andb_prop in H. destruct H as [Hk Hs].
  apply Z.ltb_lt in Hk. apply Z.leb_le in Hs. apply Z.ltb_lt in HC0.
  unfold sc_getitem, sc_map_cls, sc_shape, sc_og.
  set (x := nthZ (nth idx labels 0) (sc_permv C p) 0).
  assert (Hx : 0 <= x < C).
  { unfold x. destruct (nthZ_in_or_default _ (nth idx labels 0) (sc_permv C p) 0) as [Hin | ->]; [|lia].
    revert Hin. generalize (nthZ (nth idx labels 0) (sc_permv C p) 0). intros z Hin.
    unfold sc_permv in Hin. destruct (sc_shuffle p).
    - apply in_rangeb_true. eapply forallb_In; eassumption.
    - now apply zrange_in. }
  pose proof (div_lt_ceil C (sc_cps p) x Hk Hx) as Hc.
  clearbody x. set (c := x / sc_cps p) in *. set (og := ceil_div C (sc_cps p)) in *.
  destruct (1 <? sc_splits p) eqn:E.
  - apply Z.ltb_lt in E.
    pose proof (Z.mod_pos_bound (nth idx (sc_iw p labels) 0) (sc_splits p) ltac:(lia)) as Hr.
    clearbody c og. nia.
  - apply Z.ltb_ge in E. clearbody c og. nia.
Qed.

Lemma where3_Forall : forall (P : Z -> Prop) a x y,
  (forall z, In z x -> P z) -> (forall z, In z y -> P z) -> forall z, In z (where3 a x y) -> P z.
Proof.
  induction a as [|b a IH]; intros x y Hx Hy z Hz; simpl in Hz; [contradiction|].
  destruct x as [|u x]; [contradiction|]. destruct y as [|v y]; [contradiction|].
  destruct Hz as [<-|Hz].
  - destruct b; [apply Hx|apply Hy]; now left.
  - eapply (IH x y); [| |eassumption]; intros; [apply Hx|apply Hy]; now right.
Qed.

Lemma labels_in_range_all : forall w C labels,
  contractb w C labels = true ->
  forall idx, (idx < length labels)%nat ->
  label_okb (allows_unlabeled w) (w_shape w C) (w_getitem w C labels idx) = true.
Proof.
  intros w C labels Hc idx Hidx. destruct w.
  - (* class groups *) apply label_okb_true. left. simpl. now apply cg_range.
  - (* superclass *) apply label_okb_true. left. simpl. now apply sc_range.
  - (* swap *)
    simpl. unfold contractb in Hc.
    apply andb_prop in Hc. destruct Hc as [Hc Hlab].
    apply andb_prop in Hc. destruct Hc as [Hc Hnew].
    apply andb_prop in Hc. destruct Hc as [Ha Hn].
    apply len_is_true in Ha. apply len_is_true in Hn.
    unfold sw_getitem.
    apply (where3_Forall (fun z => label_okb true C z = true) (sw_apply p) (sw_new p) labels).
    + intros z Hz. apply label_okb_true. left. apply in_rangeb_true. eapply forallb_In; eassumption.
    + intros z Hz. eapply forallb_In; eassumption.
    + apply nth_In. unfold sw_classes. now rewrite (where3_length _ _ _ (length labels)).
  - (* overwrite *)
    simpl. unfold contractb in Hc. apply andb_prop in Hc. destruct Hc as [Hl Hcl].
    apply len_is_true in Hl. unfold ow_getitem. eapply forallb_In; [eassumption|].
    apply nth_In. lia.
  - (* all-gather *)
    simpl. unfold contractb in Hc.
    apply andb_prop in Hc. destruct Hc as [Hc Hlab].
    apply andb_prop in Hc. destruct Hc as [HW1 HW2].
    apply Nat.leb_le in HW1. apply Nat.leb_le in HW2.
    unfold ag_getitem. eapply forallb_In; [eassumption|]. apply nth_In.
    rewrite ag_indices_nth by lia. apply ag_spec_lt; lia.
  - (* pseudo label *)
    simpl. destruct p as [pl|am|am ref above dec_bulk|topk choice]; unfold contractb in Hc; simpl.
    + apply andb_prop in Hc. destruct Hc as [Hl Hpl]. apply len_is_true in Hl.
      eapply forallb_In; [eassumption|]. apply nth_In. lia.
    + apply andb_prop in Hc. destruct Hc as [Hl Ham]. apply len_is_true in Hl.
      apply label_okb_true. left. apply in_rangeb_true.
      eapply forallb_In; [eassumption|]. apply nth_In. lia.
    + apply andb_prop in Hc. destruct Hc as [Hc _]. apply andb_prop in Hc. destruct Hc as [Hc _].
      apply andb_prop in Hc. destruct Hc as [Hc Ham].
      apply andb_prop in Hc. destruct Hc as [Hl _]. apply len_is_true in Hl.
      unfold thr_label. destruct (nth idx above false); [|reflexivity].
      apply label_okb_true. left. apply in_rangeb_true.
      eapply forallb_In; [eassumption|]. apply nth_In. lia.
    + apply andb_prop in Hc. destruct Hc as [_ Hrows].
      pose proof (forallb_In _ _ _ idx Hrows ltac:(apply in_seq; lia)) as Hrow. cbv beta zeta in Hrow.
      apply andb_prop in Hrow. destruct Hrow as [Hch Hrow]. apply in_rangeb_true in Hch.
      apply label_okb_true. left. apply in_rangeb_true.
      eapply forallb_In; [eassumption|].
      unfold nthZ. destruct (nth idx choice 0 <? 0) eqn:E; [lia|]. apply nth_In. lia.
  - (* random class *)
    simpl. apply label_okb_true. left. unfold rc_getitem.
    pose proof (rc_length _ _ _ _ Hc) as Hlen.
    assert (Hin : In (nth idx (rc_classes num_classes (length labels) m) 0) (rc_classes num_classes (length labels) m))
      by (apply nth_In; lia).
    revert Hin. generalize (nth idx (rc_classes num_classes (length labels) m) 0). intros y Hin.
    destruct m as [d|p|W]; unfold contractb in Hc; simpl in Hin.
    + apply andb_prop in Hc. destruct Hc as [_ Hd]. apply in_rangeb_true. eapply forallb_In; eassumption.
    + apply andb_prop in Hc. destruct Hc as [_ Hp]. apply in_rangeb_true.
      apply firstn_incl in Hin. apply in_concat in Hin. destruct Hin as [q [Hq Hy]].
      apply repeat_spec in Hq. subst q. eapply forallb_In; eassumption.
    + apply andb_prop in Hc. destruct Hc as [Hc _]. apply andb_prop in Hc. destruct Hc as [Hnc _].
      apply Z.ltb_lt in Hnc.
      apply firstn_incl in Hin. apply gather_order_in in Hin. destruct Hin as [Hin | ->]; [|lia].
      apply firstn_incl in Hin. apply in_flat_map in Hin. destruct Hin as [c [Hc' Hy]].
      apply repeat_spec in Hy. subst. now apply zrange_in.
  - (* semi *)
    simpl. unfold se_getitem. destruct (existsb (Nat.eqb idx) (se_semi k perm)); [reflexivity|].
    unfold contractb in Hc. eapply forallb_In; [eassumption|]. now apply nth_In.
Qed.

(* the generator contracts imply the range hypotheses used above *)
Lemma permuted_in_range : forall C k d,
  Permutation d (cg_table0 C k) -> forallb (in_rangeb (ceil_div C k)) d = true.
Proof.
  intros C k d H. apply forallb_forall. intros x Hx. apply in_rangeb_true.
  apply cg_table0_in. eapply Permutation_in; eassumption.
Qed.

Lemma permutation_in_range : forall C d, Permutation d (zrange C) -> forallb (in_rangeb C) d = true.
Proof.
  intros C d H. apply forallb_forall. intros x Hx. apply in_rangeb_true.
  apply zrange_in. eapply Permutation_in; eassumption.
Qed.

(* ------------------------------------------------------------------ *)
(* structural: the mapping is a function of arguments and draws        *)
(* ------------------------------------------------------------------ *)
Lemma mapping_function : forall w1 w2 C labels, w1 = w2 ->
  w_items w1 C labels = w_items w2 C labels /\ w_getall w1 C labels = w_getall w2 C labels
  /\ w_shape w1 C = w_shape w2 C.
Proof. intros; subst; auto. Qed.

(* ------------------------------------------------------------------ *)
(* constructions on shared objects: constructors are pure               *)
(* ------------------------------------------------------------------ *)
Lemma apply_no_writes : forall h stored, apply_writes h [] stored = stored.
Proof. destruct h; reflexivity. Qed.

Lemma history_pure_lem : forall h C hist stored, history h C hist stored = stored.
Proof.
  intros h C hist. unfold history, history_gen.
  induction hist as [|w r IH]; intros stored; simpl; [reflexivity|].
  unfold construct_gen at 2. unfold no_writes at 2. rewrite apply_no_writes. apply IH.
Qed.

Lemma copies_protect_lem : forall wr C hist stored, history_gen wr HCopy C hist stored = stored.
Proof.
  intros wr C hist. unfold history_gen.
  induction hist as [|w r IH]; intros stored; simpl; [reflexivity|]. apply IH.
Qed.

Lemma history_independent_lem : forall h C hist w stored,
  items_after h C hist w stored = w_items w C stored /\ getall_after h C hist w stored = w_getall w C stored.
Proof.
  intros. unfold items_after, items_after_gen, getall_after, getall_after_gen.
  fold (history h C hist stored). rewrite history_pure_lem. split; reflexivity.
Qed.

(* two histories, one wrapper: the same answers *)
Lemma history_irrelevant_lem : forall h1 h2 C hist1 hist2 w stored,
  items_after h1 C hist1 w stored = items_after h2 C hist2 w stored /\ getall_after h1 C hist1 w stored = getall_after h2 C hist2 w stored.
Proof.
  intros. destruct (history_independent_lem h1 C hist1 w stored) as [a b].
  destruct (history_independent_lem h2 C hist2 w stored) as [c d].
  rewrite a, b, c, d. split; reflexivity.
Qed.


(* ------------------------------------------------------------------ *)
(* (3) encodings over Q                                                *)
(* ------------------------------------------------------------------ *)
From Coq Require Import Lqa.
Open Scope Q_scope.

Definition Qn (n : nat) : Q := inject_Z (Z.of_nat n).

Lemma Qn_succ : forall n, Qn (S n) == Qn n + 1.
Proof. intros. unfold Qn. rewrite Nat2Z.inj_succ. unfold Z.succ. now rewrite inject_Z_plus. Qed.

Lemma Qsum_repeat : forall b n, Qsum (repeat b n) == Qn n * b.
Proof.
  induction n; simpl.
  - unfold Qn. simpl. ring.
  - rewrite IHn, Qn_succ. ring.
Qed.

Lemma Qsum_spike : forall a b n y, (y < n)%nat -> Qsum (spike a b y n) == Qn n * b - b + a.
Proof.
  unfold spike. induction n; intros y Hy; [lia|].
  destruct y; simpl.
  - rewrite Qsum_repeat, Qn_succ. ring.
  - rewrite IHn by lia. rewrite Qn_succ. ring.
Qed.

Lemma spike_length : forall a b y n, length (spike a b y n) = n.
Proof. intros. unfold spike. now rewrite set_nth_length, repeat_length. Qed.

Lemma spike_nth : forall a b y n j, (j < n)%nat ->
  nth j (spike a b y n) 0 = if Nat.eqb j y then a else b.
Proof.
  intros. unfold spike. rewrite nth_set_nth by (now rewrite repeat_length).
  destruct (Nat.eqb j y); [reflexivity|].
  rewrite (nth_indep _ 0 b) by (now rewrite repeat_length). apply nth_repeat.
Qed.

Lemma spike_in : forall a b y n x, In x (spike a b y n) -> x = a \/ x = b.
Proof.
  unfold spike. induction y; intros n x H; destruct n; simpl in H; try contradiction.
  - destruct H as [<-|H]; [now left|]. apply repeat_spec in H. now right.
  - destruct H as [<-|H]; [now right|]. eapply IHy; eassumption.
Qed.

Lemma off_nonneg : forall sm C, 0 <= sm -> (0 < C)%Z -> 0 <= sm / inject_Z C.
Proof.
  intros sm C Hs HC. unfold Qdiv. apply Qmult_le_0_compat; [assumption|].
  apply Qinv_le_0_compat. unfold Qle; simpl. lia.
Qed.

Lemma smooth_nonneg_lem : forall sm C y, 0 <= sm <= 1 -> (0 < C)%Z -> vec_nonneg (ls_vec sm C y).
Proof.
  intros sm C y Hs HC. unfold vec_nonneg. apply Forall_forall. intros x Hx.
  unfold ls_vec in Hx. apply spike_in in Hx.
  pose proof (off_nonneg sm C ltac:(lra) HC) as Hoff.
  destruct Hx; subst; lra.
Qed.

Lemma smooth_sum_lem : forall sm C y, (0 <= y < C)%Z -> vec_sums_to_one (ls_vec sm C y).
Proof.
  intros sm C y Hy. unfold vec_sums_to_one, ls_vec.
  rewrite Qsum_spike by lia. unfold Qn. rewrite Z2Nat.id by lia.
  assert (Hc : ~ inject_Z C == 0) by (unfold Qeq; simpl; lia).
  field. exact Hc.
Qed.

Lemma smooth_argmax_lem : forall sm C y, 0 <= sm <= 1 -> (0 <= y < C)%Z ->
  is_argmax (Z.to_nat y) (ls_vec sm C y).
Proof.
  intros sm C y Hs Hy j Hj. unfold ls_vec in *. rewrite spike_length in Hj.
  rewrite !spike_nth by lia. rewrite Nat.eqb_refl.
  destruct (Nat.eqb j (Z.to_nat y)); lra.
Qed.

Lemma smooth_strict_lem : forall sm C y j, (0 <= y < C)%Z -> (j < Z.to_nat C)%nat -> j <> Z.to_nat y ->
  (nth j (ls_vec sm C y) 0 < nth (Z.to_nat y) (ls_vec sm C y) 0 <-> sm < 1).
Proof.
  intros sm C y j Hy Hj Hne. unfold ls_vec.
  rewrite !spike_nth by lia. rewrite Nat.eqb_refl.
  apply Nat.eqb_neq in Hne. rewrite Hne. split; intros; lra.
Qed.

Lemma onehot_lem : forall C y, (0 <= y < C)%Z ->
  vec_nonneg (oh_vec C y) /\ vec_sums_to_one (oh_vec C y) /\ is_strict_argmax (Z.to_nat y) (oh_vec C y).
Proof.
  intros C y Hy. unfold oh_vec. repeat split.
  - apply Forall_forall. intros x Hx. apply spike_in in Hx. destruct Hx; subst; lra.
  - unfold vec_sums_to_one. rewrite Qsum_spike by lia. ring.
  - intros j Hj Hne. rewrite spike_length in Hj. rewrite !spike_nth by lia.
    rewrite Nat.eqb_refl. apply Nat.eqb_neq in Hne. rewrite Hne. lra.
Qed.

Lemma smooth_binary_lem : forall sm, 0 <= sm <= 1 -> ~ sm == 0 ->
  (exists q, ls_getitem sm 1 1 = EScalar q /\ (1 # 2) <= q <= 1) /\
  (exists q, ls_getitem sm 1 0 = EScalar q /\ 0 <= q <= (1 # 2)).
Proof.
  intros sm Hs Hne. unfold ls_getitem.
  destruct (Qeq_bool sm 0) eqn:E; [apply Qeq_bool_iff in E; contradiction|].
  assert (E2 : sm / 2 == sm * (1 # 2)) by field.
  split.
  - exists (1 - sm / 2). split; [reflexivity|]. rewrite E2. lra.
  - exists (0 + sm / 2). split; [reflexivity|]. rewrite E2. lra.
Qed.

(* what a re-encoding wrapper returns for sample idx encodes the label its bulk accessor shows *)
Lemma encoding_matches_bulk_lem : forall e C labels idx,
  (idx < length labels)%nat -> (0 <= nth idx labels 0%Z < C)%Z -> (2 <= C)%Z ->
  match e with ESmooth sm => 0 <= sm <= 1 /\ ~ sm == 0 | EOneHot => True end ->
  exists v, e_getitem e C labels idx = EVec v /\ length v = Z.to_nat C /\
            vec_nonneg v /\ vec_sums_to_one v /\ is_argmax (Z.to_nat (nth idx (e_getall e labels) 0%Z)) v.
Proof.
  intros e C labels idx Hidx Hy HC He. unfold e_getall. destruct e as [sm|]; simpl.
  - destruct He as [Hs Hne]. unfold ls_getitem.
    destruct (Qeq_bool sm 0) eqn:E; [apply Qeq_bool_iff in E; contradiction|].
    destruct (nth idx labels 0%Z =? -1)%Z eqn:E1; [lia|].
    destruct (C =? 1)%Z eqn:E2; [lia|].
    eexists; split; [reflexivity|]. repeat split.
    + unfold ls_vec. now rewrite spike_length.
    + apply smooth_nonneg_lem; [assumption|lia].
    + now apply smooth_sum_lem.
    + now apply smooth_argmax_lem.
  - unfold oh_getitem.
    assert (Hm1 : (nth idx labels 0 =? -1)%Z = false) by (apply Z.eqb_neq; lia). rewrite Hm1.
    eexists; split; [reflexivity|].
    destruct (onehot_lem C (nth idx labels 0%Z) Hy) as [H1 [H2 H3]]. repeat split; try assumption.
    + unfold oh_vec. now rewrite spike_length.
    + intros j Hj. destruct (Nat.eq_dec j (Z.to_nat (nth idx labels 0%Z))) as [->|Hne]; [lra|].
      apply Qlt_le_weak. now apply H3.
Qed.

Lemma other_items_untouched_lem : forall w C labels ds name idx,
  wrap w C labels ds (IOther name) idx = ds (IOther name) idx.
Proof. reflexivity. Qed.

Lemma wrapped_label_is_mapping_lem : forall w C labels ds idx,
  wrap w C labels ds IClass idx = w_getitem w C labels idx.
Proof. reflexivity. Qed.

(* an unlabeled sample stays marked under both re-encodings (all -1 vector of the announced length) *)
Lemma unlabeled_stays_marked_lem : forall e C labels idx,
  nth idx labels 0%Z = (-1)%Z ->
  match e with ESmooth sm => ~ sm == 0 | EOneHot => True end ->
  e_getitem e C labels idx = EVec (repeat (-1)%Q (Z.to_nat C)).
Proof.
  intros e C labels idx Hy He. destruct e as [sm|]; simpl; rewrite Hy.
  - unfold ls_getitem. destruct (Qeq_bool sm 0) eqn:E; [apply Qeq_bool_iff in E; contradiction|]. reflexivity.
  - reflexivity.
Qed.

