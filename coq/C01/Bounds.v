(* C01: the theorems about one loaded sample (proved for getitem_core, the body of __getitem__ after index
   normalisation, in Proofs.v / PlanEq.v) restated for __getitem__ itself (Model.getitem_int), which raises
   IndexError for idx < -len before anything is loaded. *)
From Coq Require Import ZArith List Bool String Ascii Lia.
Import ListNotations.
From KD Require Import C01.Model C01.Spec C01.Check C01.Proofs C01.PlanEq.
Open Scope Z_scope.

Section Bounds.
  Variable value : Type.
  Variable vint : Z -> value.
  Variable proj : value -> nat -> value.

  Lemma getitem_int_cases : forall (st : stack value) m i,
    (getitem_int value vint proj st m i = RIndexErr /\ i < 0 /\ s_len value st + i < 0) \/
    (getitem_int value vint proj st m i = getitem_core value vint proj st m i /\ (i < 0 -> - s_len value st <= i)).
  Proof.
    intros st m i. unfold getitem_int.
    destruct (Z.ltb_spec i 0); destruct (Z.ltb_spec (s_len value st + i) 0); simpl; auto; right; split; auto; lia.
  Qed.

  Lemma res_out_core : forall (st : stack value) m i o,
    res_out value (getitem_int value vint proj st m i) = Some o ->
    res_out value (getitem_core value vint proj st m i) = Some o.
  Proof.
    intros st m i o H. destruct (getitem_int_cases st m i) as [[E _]|[E _]]; rewrite E in H; [discriminate|exact H].
  Qed.

  Lemma getitem_matches_plan_b : forall (st : stack value) items rc m,
    groups_ok (s_fused_ops value st) -> init_items value st items rc = inl m ->
    plan_ok (s_fused_ops value st) items (eff_plan items (m_plan m)) /\
    forall idx, - s_len value st <= idx ->
      getitem_int value vint proj st m idx =
      sample_with_plan value vint proj st items (eff_plan items (m_plan m)) rc (norm_idx value st idx).
  Proof.
    intros st items rc m Hg Hi. destruct (getitem_core_spec value vint proj st items rc m Hg Hi) as [A B].
    split; [exact A|]. intros idx H. rewrite getitem_int_in_range by exact H. apply B.
  Qed.

  Lemma getitem_is_spec_sample_b : forall (st : stack value) items rc m,
    groups_ok (s_fused_ops value st) -> init_items value st items rc = inl m ->
    forall idx, - s_len value st <= idx ->
      getitem_int value vint proj st m idx = spec_sample value vint proj st items rc (norm_idx value st idx).
  Proof.
    intros st items rc m Hg Hi idx H. rewrite getitem_int_in_range by exact H.
    apply getitem_is_spec_sample_lemma; assumption.
  Qed.

  Lemma getitem_positions_b : forall (st : stack value) items rc m idx o,
    groups_ok (s_fused_ops value st) -> init_items value st items rc = inl m ->
    res_out value (getitem_int value vint proj st m idx) = Some o ->
    let plan := eff_plan items (m_plan m) in
    plan_ok (s_fused_ops value st) items plan /\
    List.length (out_list o) = List.length items /\
    forall p, (p < List.length items)%nat ->
      delivered value vint proj st items plan (norm_idx value st idx)
                (if spec_propagate value st (map fst plan) rc then Some [] else None) p (nth p (out_list o) None).
  Proof.
    intros st items rc m idx o Hg Hi Hr. apply getitem_positions_lemma; auto. apply res_out_core; exact Hr.
  Qed.

  Lemma getitem_positions_pure_b : forall (st : stack value) items rc m value_of upd idx o,
    groups_ok (s_fused_ops value st) -> groups_named (s_fused_ops value st) ->
    pure_loaders value st value_of upd -> joint_consistent value proj st value_of ->
    init_items value st items rc = inl m ->
    res_out value (getitem_int value vint proj st m idx) = Some o ->
    forall p s, nth_error items p = Some s ->
      match classify s with
      | Index => nth p (out_list o) None = Some (vint (norm_idx value st idx))
      | Named n => nth p (out_list o) None = Some (value_of n (norm_idx value st idx))
      | Ctx key => exists t vs d v,
          thread value vint st (firstn t (m_names m)) (norm_idx value st idx) (Some []) = Some (vs, Some d) /\
          lookup value key d = Some v /\ nth p (out_list o) None = Some v
      end.
  Proof.
    intros st items rc m value_of upd idx o Hg Hgn Hp Hj Hi Hr.
    eapply getitem_positions_pure_lemma; eauto. apply res_out_core; exact Hr.
  Qed.

  Lemma getitem_shape_b : forall (st : stack value) items rc m idx,
    groups_ok (s_fused_ops value st) -> init_items value st items rc = inl m ->
    match getitem_int value vint proj st m idx with
    | RErr => exists s key, In s (m_names m) /\ classify s = Ctx key
    | RItems o => rc = false /\ List.length (out_list o) = List.length items /\
                  is_bare o = Nat.eqb (List.length items) 1
    | RItemsCtx o c => rc = true /\ List.length (out_list o) = List.length items /\
                       is_bare o = Nat.eqb (List.length items) 1
    | RIndexErr => idx < 0 /\ s_len value st + idx < 0
    end.
  Proof.
    intros st items rc m idx Hg Hi.
    destruct (getitem_int_cases st m idx) as [[E H]|[E _]]; rewrite E; [exact H|].
    pose proof (getitem_shape_lemma value vint proj st items rc m idx Hg Hi) as S.
    destruct (getitem_core value vint proj st m idx); auto. destruct S.
  Qed.

  Lemma ctx_fresh_b : forall (st : stack value) W items rc m idx o c,
    writes_within value st W -> init_items value st items rc = inl m ->
    getitem_int value vint proj st m idx = RItemsCtx o c ->
    exists d, c = Some d /\ forall k, In k (map fst d) ->
      exists s, In (Named s) (m_fns m) /\ In k (W s (norm_idx value st idx)).
  Proof.
    intros st W items rc m idx o c HW Hi H.
    destruct (getitem_int_cases st m idx) as [[E _]|[E _]]; rewrite E in H; [discriminate|].
    eapply ctx_fresh_lemma; eauto.
  Qed.

  (* iteration, slices and in-range index lists never end in the IndexError of the range check *)
  Lemma iter_no_indexerr : forall (st : stack value) m, ~ In RIndexErr (iter value vint proj st m).
  Proof.
    intros st m H. unfold iter in H. apply in_map_iff in H as [k [E Hk]]. apply in_seq in Hk.
    rewrite getitem_int_in_range in E.
    - eapply getitem_core_not_indexerr; eauto.
    - lia.
  Qed.

  Lemma slice_no_indexerr : forall (st : stack value) m a b s rs, 0 <= s_len value st ->
    getitem value vint proj st m (ISlice a b s) = GMany rs -> ~ In RIndexErr rs.
  Proof.
    intros st m a b s rs Hl H Hin.
    pose proof (getitem_slice_lemma value vint proj st m a b s Hl) as S. rewrite H in S.
    destruct S as [l [_ [Hf ->]]]. apply in_map_iff in Hin as [x [E Hx]].
    rewrite Forall_forall in Hf. specialize (Hf x Hx).
    rewrite getitem_int_in_range in E by lia. eapply getitem_core_not_indexerr; eauto.
  Qed.
End Bounds.

(* ---------- whitespace in the mode string ---------- *)
Fixpoint count_spaces (s : string) : nat :=
  match s with
  | EmptyString => O
  | String c r => ((if Ascii.eqb c " "%char then 1 else 0) + count_spaces r)%nat
  end.

(* mode.split(" ") never merges separators: n spaces give n+1 items (so a double, leading or trailing space
   gives an EMPTY item) *)
Lemma split_space_length : forall s, List.length (split_space s) = S (count_spaces s).
Proof.
  induction s as [|c r IH]; [reflexivity|]. simpl.
  destruct (Ascii.eqb c " "%char); simpl; [now rewrite IH|].
  destruct (split_space r) as [|h t]; simpl in *; [discriminate|exact IH].
Qed.

(* the empty item is an ordinary loader name: getitem_ *)
Lemma classify_empty : classify "" = Named "".
Proof. reflexivity. Qed.

Section Reject.
  Variable value : Type.
  (* without declared groups the constructor rejects (assertion "has no method getitem_...") every mode that contains
     an item the stack cannot load -- in particular the empty item of a double / leading / trailing space *)
  Lemma init_rejects_unloadable : forall (st : stack value) items rc s n,
    s_fused_ops value st = [] -> In s items -> classify s = Named n -> s_has value st n = false ->
    init_items value st items rc = inr 3%nat.
  Proof.
    intros st items rc s n Hf Hin Hc Hh. unfold init_items. rewrite Hf. simpl.
    assert (E : forallb (fun f : item => match f with Named s0 => s_has value st s0 | _ => true end) (map classify items) = false).
    { destruct (forallb _ (map classify items)) eqn:E; [|reflexivity].
      rewrite forallb_forall in E. specialize (E (classify s) (in_map classify items s Hin)). rewrite Hc in E. congruence. }
    rewrite E. reflexivity.
  Qed.
End Reject.
