"""C03 — each dataset-manipulation wrapper selects exactly the promised samples.

One case = one class layout + one constructor call.  The real wrapper is built over a
dataset whose item x is the sample id; the selection [w.getitem_x(i) for i in range(len(w))]
is compared with the Coq model (coq/C03/Model.v, evaluated with vm_compute, fed with the
recorded generator outputs) and with the Coq spec (Spec.v / Check.v); an independent Python
oracle states the promise of each wrapper directly on the real selection."""
import collections
import math
import random as pyrandom
import signal

from .common import C, Nat, Opt, Raw, coq

ID = "C03"
COQ_FILES = ["C03/Model.v", "C03/ModelFloat.v", "C03/Spec.v", "C03/Check.v", "C03/Proofs.v", "C03/Property.v"]
COQ_PRELUDE = ("From Coq Require Import ZArith List Bool Floats.\nImport ListNotations.\n"
               "From KD Require Import C03.Model C03.ModelFloat C03.Spec C03.Check.\nOpen Scope Z_scope.\n")
COQ_CHECK = "check"
COQ_CASE_TYPE = "case_t"
SHARD = 200
ALLOWED_AXIOMS = []
TRUSTED = [
    "hand-written model coq/C03/Model.v of the ten wrapper constructors and get_class_counts; tied to KD_REPO by "
    "this run's correspondence evaluation",
    "percent -> index: binary64 product then int()/np.ceil, evaluated in Coq with PrimFloat (bit-exact under "
    "vm_compute, model instance float_ops); the theorems are stated over abstract percent operations with the contract "
    "Proofs.pct_contract (0. and 1. admissible and extremal, cut 0. = 0, cut 1. = n, 0 <= cut p <= n; proved for exact "
    "fractions, rat_ops); that binary64 meets these clauses (and p <= q -> cut p <= cut q) is evaluated on every "
    "generated case (Check.float_contract_ok, code 3), not proved",
    "RepeatWrapper: int(np.ceil(min_size / len)) is modelled as the integer ceiling (exact below 2**53)",
    "generator contract: rng.shuffle / rng.permutation return a permutation of their argument (the recorded outputs "
    "are fed to the model; theorems quantify over all permutations)",
    "numpy/torch primitives used by the constructors: arange, isin, tile, nonzero, unique(return_counts), boolean "
    "mask indexing, concat, integer floor division",
    "ClasswiseSubsetWrapper: percent * 0-dim int64 tensor is evaluated by torch in binary32; modelled with SpecFloat's "
    "format-parametric SFmul (prec 24, emax 128; instance ModelFloat.float32_ops), contract clauses evaluated per "
    "case like the binary64 ones",
    "selection_is_function_of_args_and_draws is true of the model by construction; that the real constructors read "
    "nothing but labels, arguments and their own seeded generator is checked per case: two constructions under "
    "different states of ALL THREE global generators (numpy legacy, torch, Python random), the complete state of "
    "each compared before/after each construction (tripwire), three label providers; seeds include 0, False, "
    "numpy integer 0 and values beyond 2**32 / 2**64; with seed=None the selection must be a function of the "
    "numpy global state (same state -> same selection) and must not touch torch / Python random",
    "harness/c03.py: dataset with x = sample id, spy around numpy.random.default_rng / numpy.random.shuffle / "
    "numpy.random.permutation, CPU-time alarm (ITIMER_VIRTUAL 3 s, 1 s after two confirmed hangs; 60 s wall-clock "
    "fallback) that classifies a non-returning constructor as RUNAWAY",
]
ASSUMPTIONS = [
    "labels are -1 (unlabeled, the convention of utils/class_counts.py) or in [0, C) for the class-based wrappers "
    "(a few cases with a label C are run for model-vs-code agreement only)",
    "start_index >= 0, num_shots >= 0; non-empty dataset for OversamplingWrapper",
    "seeds are None or non-negative integers (what numpy.random.default_rng accepts); FewshotWrapper(seed=None) "
    "seeds from OS entropy by numpy's definition: only the structural promise is checked there",
]
RULE = ("class layouts of size 0-64 (thorough -200) over C in 1..6 with absent, single-sample, dominant classes and "
        "unlabeled (-1) samples; oversampling layouts with class counts (c, k*c + d), d in -1..1, c incl. 41, 47, 55, 61; "
        "13 constructor kinds; percents from {0, 1, k/n, k/n +- ulp, k/8, random}; index bounds incl. 0, n, beyond n; "
        "seeds from {None, 0, False, True, numpy 0, 1, 2**32-1, 2**32, 2**63, 2**64+k, random}; "
        "non-trivial = constructor succeeded with a non-empty selection; distinct by (kind, layout, args)")

EXPECTED_ERRORS = (AssertionError, RuntimeError, ValueError, IndexError, KeyError, NotImplementedError, ZeroDivisionError,
                   AttributeError, TypeError)
KINDS = ["class_filter", "percent", "subset_idx", "subset_range", "subset_percent", "shuffle", "repeat",
         "oversample", "sort", "intra", "fewshot", "cw_range", "cw_percent"]


# ---------------------------------------------------------------------------
# running the real code
# ---------------------------------------------------------------------------
_K = {}


def _classes():
    if _K:
        return _K
    import numpy as np
    import torch
    from kappadata.datasets.kd_dataset import KDDataset
    from kappadata.wrappers.dataset_wrappers.class_filter_wrapper import ClassFilterWrapper
    from kappadata.wrappers.dataset_wrappers.classwise_subset_wrapper import ClasswiseSubsetWrapper
    from kappadata.wrappers.dataset_wrappers.fewshot_wrapper import FewshotWrapper
    from kappadata.wrappers.dataset_wrappers.intra_class_shuffle_wrapper import IntraClassShuffleWrapper
    from kappadata.wrappers.dataset_wrappers.oversampling_wrapper import OversamplingWrapper
    from kappadata.wrappers.dataset_wrappers.percent_filter_wrapper import PercentFilterWrapper
    from kappadata.wrappers.dataset_wrappers.repeat_wrapper import RepeatWrapper
    from kappadata.wrappers.dataset_wrappers.shuffle_wrapper import ShuffleWrapper
    from kappadata.wrappers.dataset_wrappers.sort_by_class_wrapper import SortByClassWrapper
    from kappadata.wrappers.dataset_wrappers.subset_wrapper import SubsetWrapper

    class DS(KDDataset):
        def __init__(self, classes, n_classes):
            super().__init__()
            self.c = list(classes)
            self.n_classes = n_classes

        def __len__(self):
            return len(self.c)

        def getitem_x(self, idx, ctx=None):
            if not -len(self.c) <= idx < len(self.c):
                raise IndexError(idx)
            return int(idx) % len(self.c)

        def getitem_class(self, idx, ctx=None):
            return self.c[idx]

        def getshape_class(self):
            return (self.n_classes,)

        @property
        def class_names(self):
            return ["c%d" % i for i in range(self.n_classes)]

    class DSList(DS):
        def getall_class(self):
            return list(self.c)

    class DSTorch(DS):
        def getall_class(self):
            return torch.tensor(self.c, dtype=torch.long)

    class Spy:
        """records what the wrapper's generator returned"""

        def __init__(self, real, trace):
            self.real = real
            self.trace = trace

        def shuffle(self, x):
            self.real.shuffle(x)
            self.trace.append([int(v) for v in x])

        def permutation(self, x):
            r = self.real.permutation(x)
            self.trace.append([int(v) for v in r])
            return r

        def __getattr__(self, name):
            raise AssertionError("unexpected generator method " + name)

    _K.update(np=np, torch=torch, ds={"none": DS, "list": DSList, "torch": DSTorch}, Spy=Spy,
              ClassFilterWrapper=ClassFilterWrapper, ClasswiseSubsetWrapper=ClasswiseSubsetWrapper,
              FewshotWrapper=FewshotWrapper, IntraClassShuffleWrapper=IntraClassShuffleWrapper,
              OversamplingWrapper=OversamplingWrapper, PercentFilterWrapper=PercentFilterWrapper,
              RepeatWrapper=RepeatWrapper, ShuffleWrapper=ShuffleWrapper, SortByClassWrapper=SortByClassWrapper,
              SubsetWrapper=SubsetWrapper)
    return _K


class _Runaway(Exception):
    pass


def _alarm(signum, frame):
    raise _Runaway()


# a construction on <= 200 samples takes a few milliseconds of CPU.  The guard counts the process's own CPU time
# (ITIMER_VIRTUAL): a constructor that spins burns it, a constructor that is merely descheduled on a loaded machine
# does not.  The first hangs are given 3 s CPU, once two constructors have been seen not to return the remaining ones
# get 1 s (the run is failing anyway; keeps it short).  A generous wall-clock alarm catches a hang that sleeps.
_RUNAWAYS = [0]
WALL_FALLBACK_S = 60.0


def _alarm_seconds():
    return 3.0 if _RUNAWAYS[0] < 2 else 1.0


def _seed_arg(case):
    """the seed as handed to the constructor: None, a Python int / bool, or a numpy integer"""
    s = case["seed"]
    if s is not None and case.get("seed_np"):
        return _classes()["np"].int64(s)
    return s


def _construct(case, ds):
    K = _classes()
    w = case["w"]
    if w == "class_filter":
        if case.get("names"):      # by name; a name the dataset does not know ("c<C>") selects nothing
            return K["ClassFilterWrapper"](ds, **{("valid_class_names" if case["valid"] else "invalid_class_names"):
                                                  ["c%d" % c for c in case["cls"]]})
        return K["ClassFilterWrapper"](ds, **{("valid_classes" if case["valid"] else "invalid_classes"): list(case["cls"])})
    if w == "percent":
        return K["PercentFilterWrapper"](ds, from_percent=case["from"], to_percent=case["to"],
                                         ceil_from_index=case["cf"], ceil_to_index=case["ct"])
    if w == "subset_idx":
        return K["SubsetWrapper"](ds, indices=list(case["idxs"]))
    if w == "subset_range":
        return K["SubsetWrapper"](ds, start_index=case["s"], end_index=case["e"])
    if w == "subset_percent":
        return K["SubsetWrapper"](ds, start_percent=case["s"], end_percent=case["e"])
    if w == "shuffle":
        return K["ShuffleWrapper"](ds, seed=_seed_arg(case))
    if w == "repeat":
        return K["RepeatWrapper"](ds, repetitions=case["reps"], min_size=case["min_size"])
    if w == "oversample":
        return K["OversamplingWrapper"](ds, mode=case["mode"])
    if w == "sort":
        return K["SortByClassWrapper"](ds)
    if w == "intra":
        return K["IntraClassShuffleWrapper"](ds, seed=_seed_arg(case))
    if w == "fewshot":
        return K["FewshotWrapper"](ds, num_shots=case["shots"], seed=_seed_arg(case))
    if w == "cw_range":
        return K["ClasswiseSubsetWrapper"](ds, start_index=case["s"], end_index=case["e"],
                                           check_enough_samples=case["check"])
    if w == "cw_percent":
        return K["ClasswiseSubsetWrapper"](ds, start_percent=case["s"], end_percent=case["e"])
    raise KeyError(w)


def _select(case, trace=None, over=None):
    """(selection or None, error name); over = constructor call of a second wrapper put on top of the first"""
    K = _classes()
    np = K["np"]
    ds = K["ds"][case.get("prov", "list")](case["classes"], case["C"])
    real = np.random.default_rng, np.random.shuffle, np.random.permutation
    if trace is not None:
        np.random.default_rng = lambda *a, **kw: K["Spy"](real[0](*a, **kw), trace)
        # seed=None: the wrappers draw from the numpy module itself (ShuffleWrapper) / through GlobalRng
        glob = K["Spy"](type("NumpyGlobal", (), {"shuffle": staticmethod(real[1]), "permutation": staticmethod(real[2])}), trace)
        np.random.shuffle, np.random.permutation = glob.shuffle, glob.permutation
    old_v = signal.signal(signal.SIGVTALRM, _alarm)
    old_r = signal.signal(signal.SIGALRM, _alarm)
    signal.setitimer(signal.ITIMER_VIRTUAL, _alarm_seconds())
    signal.setitimer(signal.ITIMER_REAL, WALL_FALLBACK_S)
    try:
        w = _construct(case, ds)
        if over is not None:
            w = _construct(over, w)
        out = [int(w.getitem_x(i)) for i in range(len(w))]
        return out, None
    except _Runaway:
        _RUNAWAYS[0] += 1
        return None, "RUNAWAY"
    except EXPECTED_ERRORS as e:
        return None, type(e).__name__
    finally:
        signal.setitimer(signal.ITIMER_VIRTUAL, 0)
        signal.setitimer(signal.ITIMER_REAL, 0)
        signal.signal(signal.SIGVTALRM, old_v)
        signal.signal(signal.SIGALRM, old_r)
        np.random.default_rng, np.random.shuffle, np.random.permutation = real


SEEDED = ("shuffle", "intra", "fewshot")


def _global_states():
    """the complete state of the three process-wide generators"""
    K = _classes()
    s = K["np"].random.get_state()
    return {"numpy": (s[0], s[1].tobytes(), s[2], s[3], s[4]),
            "torch": K["torch"].get_rng_state().numpy().tobytes(),
            "random": pyrandom.getstate()}


def _select_under(case, np_seed, torch_seed, py_seed, trace=None):
    """one construction under the given states of the global generators; which of them it consumed"""
    K = _classes()
    K["np"].random.seed(np_seed)
    K["torch"].manual_seed(torch_seed)
    pyrandom.seed(py_seed)
    g0 = _global_states()
    out, err = _select(case, trace)
    g1 = _global_states()
    return out, err, sorted(k for k in g0 if g0[k] != g1[k])


def run_impl(case):
    import warnings
    warnings.filterwarnings("ignore")
    py_state = pyrandom.getstate()
    try:
        return _run_impl(case)
    finally:
        pyrandom.setstate(py_state)


def _run_impl(case):
    trace = []
    out, err, touched = _select_under(case, 11, 11, 11, trace)
    obs = {"out": out, "err": err, "draws": trace, "global_rng_touched": touched}
    if err == "RUNAWAY":
        return obs
    # same arguments, other states of all three global generators: the selection must not change
    out2, err2, touched2 = _select_under(case, 977, 5, 3)
    obs["again"] = out2
    obs["again_err"] = err2
    obs["global_rng_touched"] = sorted(set(touched) | set(touched2))
    if case["w"] in SEEDED and case.get("seed") is None and "seed" in case:
        # seed=None = "use the global numpy generator": same global state -> same selection
        obs["same_state"] = _select_under(case, 11, 11, 11)[0]
    # complementary ranges
    n = len(case["classes"])
    if out is not None and case["w"] in ("percent", "subset_range", "subset_percent"):
        w = case["w"]
        if w == "percent":
            lo = dict(case, **{"from": None, "to": case["from"], "cf": False, "ct": case["cf"]}) if case["from"] is not None else None
            hi = dict(case, **{"from": case["to"], "to": None, "cf": case["ct"], "ct": False}) if case["to"] is not None else None
        else:
            lo = dict(case, s=None, e=case["s"]) if case["s"] is not None else None
            hi_start = case["e"] if w == "subset_percent" or case["e"] is None else min(case["e"], n)
            hi = dict(case, s=hi_start, e=None) if case["e"] is not None else None
        obs["before"] = _select(lo)[0] if lo else []
        obs["after"] = _select(hi)[0] if hi else []
    # a second wrapper on top (the usual way these wrappers are used): it must select from what the first exposes
    # exactly what it selects from a plain dataset with the same labels
    deterministic = not (case["w"] in SEEDED and case.get("seed") is None)
    if out is not None and case.get("over") and deterministic and (out or case["over"]["w"] != "oversample"):
        over = case["over"]
        obs["composed"], obs["composed_err"] = _select(case, over=over)
        alone = dict(over, classes=[case["classes"][i] for i in out], C=case["C"], prov=case.get("prov", "list"))
        obs["outer_alone"], obs["outer_alone_err"] = _select(alone)
    return obs


# ---------------------------------------------------------------------------
# independent oracle
# ---------------------------------------------------------------------------
def _labels_ok(case, eff=False, unlabeled=True):
    """every label is a class in [0, C) or (unless unlabeled=False) -1 = unlabeled"""
    c = case["C"]
    if eff and c == 1:
        c = 2
    return all((-1 if unlabeled else 0) <= x < c for x in case["classes"])


def oracle(case, obs):
    if "harness_exception" in obs:
        return "harness exception: " + obs["harness_exception"] + obs.get("tb", "")
    w, cl, n = case["w"], case["classes"], len(case["classes"])
    out = obs["out"]
    if obs["err"] == "RUNAWAY":
        return f"{w}: construction does not terminate (the constructor used {_alarm_seconds():.0f} s of CPU time without returning)"
    unseeded = w in SEEDED and case["seed"] is None
    if unseeded and w != "fewshot":
        # seed=None: the documented source is the global numpy generator, and nothing else
        if out is not None and obs.get("same_state") != out:
            return (f"{w}(seed=None): same arguments and same global numpy state -> different selections "
                    f"{out} vs {obs.get('same_state')}")
        if [g for g in obs["global_rng_touched"] if g != "numpy"]:
            return f"{w}(seed=None): construction consumed the global generator(s) {obs['global_rng_touched']}"
    elif not unseeded:
        if obs.get("again") != out or obs.get("again_err") != obs["err"]:
            return (f"{w}: same arguments{' and seed ' + repr(case['seed']) if w in SEEDED else ''}, other global generator "
                    f"states -> different result {out if out is not None else obs['err']} vs "
                    f"{obs.get('again') if obs.get('again') is not None else obs.get('again_err')}")
        if obs["global_rng_touched"]:
            return (f"{w}: construction{' with seed ' + repr(case['seed']) if w in SEEDED else ''} consumed the global "
                    f"generator(s) {obs['global_rng_touched']}")
    if out is not None and any(not 0 <= i < n for i in out):
        return f"{w}: selection {out} leaves the dataset (n={n})"
    if "composed" in obs:
        alone = obs["outer_alone"]
        expected = None if alone is None else [out[j] for j in alone]
        if obs["composed"] != expected:
            ow = case["over"]["w"]
            return (f"{ow} over {w}: selected {obs['composed'] if obs['composed'] is not None else obs['composed_err']}; "
                    f"over a plain dataset with the labels the {w} wrapper exposes it selects positions "
                    f"{alone if alone is not None else obs['outer_alone_err']}, i.e. samples {expected}")
    cnt = collections.Counter(cl)
    occ = collections.Counter(out or [])

    def need(expected, what):
        if out is None:
            return f"{w}: raised {obs['err']} but {what} = {expected} was promised"
        if out != expected:
            return f"{w}: selection {out}, promised {what} = {expected}"
        return None

    if w == "class_filter":
        keep = set(c for c in case["cls"] if not case.get("names") or c < case["C"])
        return need([i for i in range(n) if (cl[i] in keep) == case["valid"]], "the samples of the allowed classes in order")
    if w in ("percent", "subset_range", "subset_percent"):
        if w == "percent":
            p0 = 0.0 if case["from"] is None else case["from"]
            p1 = 1.0 if case["to"] is None else case["to"]
            if not (0 <= p0 <= 1 and 0 <= p1 <= 1):
                return None
            a = math.ceil(p0 * n) if case["cf"] else int(p0 * n)
            b = math.ceil(p1 * n) if case["ct"] else int(p1 * n)
            ordered = a <= b
        elif w == "subset_range":
            if case["s"] is None and case["e"] is None:
                return None
            a = case["s"] or 0
            b = min(n if case["e"] is None else case["e"], n)
            if a < 0 or a > b:
                return None
            ordered = True
        else:
            if case["s"] is None and case["e"] is None:
                return None
            p0 = 0.0 if case["s"] is None else case["s"]
            p1 = 1.0 if case["e"] is None else case["e"]
            if not (0 <= p0 <= p1 <= 1):
                return None
            a, b = int(p0 * n), int(p1 * n)
            ordered = True
        r = need(list(range(a, b)), f"the contiguous range [{a},{b})")
        if r:
            return r
        if ordered and obs["before"] is not None and obs["after"] is not None:
            if obs["before"] + out + obs["after"] != list(range(n)):
                return (f"{w}: complementary ranges do not partition the dataset: before={obs['before']} "
                        f"selection={out} after={obs['after']} (n={n})")
        return None
    if w == "subset_idx":
        if any(not -n <= i < n for i in case["idxs"]):
            return None
        return need([i % n for i in case["idxs"]], "the given indices")
    if w == "shuffle":
        if out is None or sorted(out) != list(range(n)):
            return f"shuffle(seed={case['seed']!r}): {out if out is not None else 'raised ' + str(obs['err'])} is not a permutation of range({n})"
        return None
    if w == "repeat":
        if n == 0 or (case["reps"] is None) == (case["min_size"] is None):
            return None
        if case["reps"] is not None:
            return None if case["reps"] <= 0 else need(list(range(n)) * case["reps"], f"{case['reps']} whole copies")
        m = case["min_size"]
        if m <= 0:
            return None
        if out is None or len(out) % n or out != list(range(n)) * (len(out) // n) or not m <= len(out) < m + n:
            return f"repeat: {out} is not the smallest number of whole copies reaching min_size={m} (n={n})"
        return None
    if w == "oversample":
        if not _labels_ok(case, eff=True) or n == 0 or case["C"] < 1:
            return None
        if out is None:
            return f"oversample: raised {obs['err']} on a non-empty dataset with valid labels"
        for i in range(n):
            if occ[i] < 1:
                return f"oversample: sample {i} (class {cl[i]}) was dropped: {out}"
            if cl[i] == -1 and occ[i] != 1:
                return f"oversample: unlabeled sample {i} selected {occ[i]} times: {out}"
        mx = max([k for c, k in cnt.items() if c != -1], default=0)
        for c, k in cnt.items():
            if c == -1:
                continue
            total = sum(occ[i] for i in range(n) if cl[i] == c)
            per = [occ[i] for i in range(n) if cl[i] == c]
            if case["mode"] == "multiply":
                if not (mx < 2 * total <= 2 * mx) or any(p != mx // k for p in per):
                    return (f"oversample(multiply): class {c} has {k} samples, majority {mx}: selected {total} "
                            f"({per} per sample), promised floor({mx}/{k}) = {mx // k} copies of each")
            else:
                if total != mx or any(not mx // k <= p <= mx // k + 1 for p in per):
                    return f"oversample(exact): class {c} selected {total} times ({per} per sample), majority has {mx}"
        return None
    if w == "sort":
        if not _labels_ok(case):
            return None
        return need(sorted(range(n), key=lambda i: cl[i]), "the stable sort by class")
    if w == "intra":
        if not _labels_ok(case):
            return None
        if out is None or sorted(out) != list(range(n)) or [cl[i] for i in out] != cl:
            return (f"intra-class shuffle(seed={case['seed']!r}): {out if out is not None else 'raised ' + str(obs['err'])} "
                    f"is not a permutation keeping the class sequence {cl}")
        return None
    if w == "fewshot":
        if n == 0 or case["shots"] < 0 or min(cl) < -1:
            return None
        if out is None:
            return f"fewshot: raised {obs['err']}"
        if any(cl[i] == -1 for i in out):
            return f"fewshot: an unlabeled sample was selected: {out}"
        if len(set(out)) != len(out):
            return f"fewshot: a sample was selected twice: {out}"
        if [cl[i] for i in out] != sorted(cl[i] for i in out):
            return f"fewshot: not grouped by class: {out}"
        for c in range(max(cl) + 1):
            got = sum(1 for i in out if cl[i] == c)
            if got != min(case["shots"], cnt[c]):
                return f"fewshot: class {c} has {cnt[c]} samples, {case['shots']} shots requested, {got} selected"
        return None
    if w in ("cw_range", "cw_percent"):
        if not _labels_ok(case, eff=True):
            return None
        if case["s"] is None and case["e"] is None:
            return None
        exp = []
        for c in range(case["C"]):
            members = [i for i in range(n) if cl[i] == c]
            if w == "cw_range":
                s = case["s"] or 0
                e = min(n if case["e"] is None else case["e"], n)
                if s < 0 or s > e:
                    return None
                if case["check"] and len(members) < e:
                    return None
                exp += members[s:e]
            else:
                p0 = 0.0 if case["s"] is None else case["s"]
                p1 = 1.0 if case["e"] is None else case["e"]
                if not (0 <= p0 <= p1 <= 1):
                    return None
                # the wrapper multiplies the percent with a 0-dim integer tensor: binary32 arithmetic
                f32 = _classes()["np"].float32
                exp += members[int(f32(p0) * f32(len(members))):int(f32(p1) * f32(len(members)))]
        return need(exp, "the per-class slices")
    return None


# ---------------------------------------------------------------------------
# rendering into Coq
# ---------------------------------------------------------------------------
def _f(p):
    return Raw("None") if p is None else Raw("(Some (" + float(p).hex() + ")%float)")


def coq_wcase(case, obs):
    w = case["w"]
    d = obs["draws"]
    if w == "class_filter":
        # by name: the names are mapped to class numbers through dataset.class_names first (unknown names drop out)
        return C("WClassFilter", bool(case["valid"]), [c for c in case["cls"] if not case.get("names") or c < case["C"]])
    if w == "percent":
        return C("WPercent", _f(case["from"]), _f(case["to"]), bool(case["cf"]), bool(case["ct"]))
    if w == "subset_idx":
        return C("WSubsetIdx", list(case["idxs"]))
    if w == "subset_range":
        return C("WSubsetRange", Opt(case["s"]), Opt(case["e"]))
    if w == "subset_percent":
        return C("WSubsetPercent", _f(case["s"]), _f(case["e"]))
    if w == "shuffle":
        return C("WShuffle", d[0] if d else [])
    if w == "repeat":
        return C("WRepeat", Opt(case["reps"]), Opt(case["min_size"]))
    if w == "oversample":
        return C("WOversample", case["mode"] == "exact")
    if w == "sort":
        return Raw("WSortByClass")
    if w == "intra":
        return C("WIntraClass", d)
    if w == "fewshot":
        return C("WFewshot", case["shots"], d)
    if w == "cw_range":
        return C("WClasswiseRange", Opt(case["s"]), Opt(case["e"]), bool(case["check"]))
    return C("WClasswisePercent", _f(case["s"]), _f(case["e"]))


def coq_applicable(case, obs):
    return "harness_exception" not in obs


def coq_case(case, obs):
    compl = []
    if obs.get("before") is not None and obs.get("after") is not None and "before" in obs:
        compl = [obs["before"], obs["after"]]
    return coq((list(case["classes"]), case["C"], coq_wcase(case, obs), Opt(obs["out"]), compl))


# ---------------------------------------------------------------------------
# generation
# ---------------------------------------------------------------------------
CLASS_BASED = ("class_filter", "oversample", "sort", "intra", "fewshot", "cw_range", "cw_percent")
# counts c for which float32 1/c * (k*c) < k for some small k (an `int / tensor` division is evaluated like that)
F32_COUNTS = [41, 47, 55, 61, 82, 83, 94, 97]


def gen_ratio_layout(rng, big=False):
    """class counts (c, k*c + d) with d in -1..1: the quotient max/count sits on / next to an integer"""
    cap = 200
    nc = rng.choice([2, 2, 3])
    base = rng.choice(F32_COUNTS[:4] * 2 + F32_COUNTS[4:] + [3, 7, 11, 13, 33, 49] + [rng.randint(1, 60)])
    counts = [base]
    for _ in range(nc - 1):
        kmax = max(1, min(5, (cap - sum(counts)) // max(base, 1)))
        k = rng.randint(min(2, kmax), kmax)
        counts.append(max(0, k * base + rng.choice([-1, 0, 0, 0, 1])))
    while sum(counts) > cap:
        counts[counts.index(max(counts))] //= 2
    c = nc + rng.choice([0, 0, 1])
    ids = rng.sample(range(c), nc)
    cl = [ids[j] for j, k in enumerate(counts) for _ in range(k)]
    if rng.random() < 0.6:
        rng.shuffle(cl)
    return cl, c


def gen_layout(rng, big=False):
    c = rng.choice([1, 2, 2, 3, 3, 4, 5, 6])
    n = rng.choice([0, 1, 2, 3, 4, 5, 6, 8, 10, 12, 16, 17, 20, 27, 33, 40, 64] if not big else list(range(0, 201)))
    style = rng.random()
    if style < 0.25:            # some classes absent
        present = rng.sample(range(c), rng.randint(1, c))
        cl = [rng.choice(present) for _ in range(n)]
    elif style < 0.45:          # one dominant class, single-sample minorities
        dom = rng.randrange(c)
        cl = [dom] * n
        for other in range(c):
            if other != dom and n > 1 and rng.random() < 0.7:
                cl[rng.randrange(n)] = other
    elif style < 0.55:          # sorted blocks
        cl = sorted(rng.randrange(c) for _ in range(n))
    else:
        cl = [rng.randrange(c) for _ in range(n)]
    return cl, c


def gen_percent(rng, n, dyadic=False):
    if dyadic:
        return rng.choice([None, 0.0, 1.0, 0.5, 0.25, 0.75, 0.125, 0.375, 0.625, 0.875])
    r = rng.random()
    if r < 0.12:
        return None
    if r < 0.24:
        return 0.0
    if r < 0.34:
        return 1.0
    if r < 0.36:
        return rng.choice([0, 1])                    # ints are accepted too
    if r < 0.60 and n > 0:
        return rng.randint(0, n) / n
    if r < 0.80 and n > 0:
        p = rng.randint(0, n) / n
        p = math.nextafter(p, rng.choice([0.0, 1.0]))
        return min(max(p, 0.0), 1.0)
    if r < 0.84:
        return rng.choice([-0.25, 1.5, 1.0000000000000002])
    return rng.random()


def gen_bound(rng, n):
    return rng.choice([None, None, 0, 0, 1, n, n, n + 3, max(0, n - 1), rng.randint(0, n + 2), rng.randint(0, max(n, 1))])


def gen_seed(rng, case):
    """None, falsy-looking seeds (0, False, numpy 0), seeds around the 32/64-bit boundaries, random ones"""
    r = rng.random()
    if r < 0.10:
        case["seed"] = None
    elif r < 0.28:
        case["seed"] = 0
    elif r < 0.34:
        case["seed"], case["seed_np"] = 0, True
    elif r < 0.40:
        case["seed"] = rng.choice([False, True])
    elif r < 0.52:
        case["seed"] = rng.choice([1, 2, 2 ** 31 - 1, 2 ** 31, 2 ** 32 - 1, 2 ** 32, 2 ** 63 - 1, 2 ** 63, 2 ** 64 - 1,
                                   2 ** 64, 2 ** 64 + rng.randint(1, 9), 2 ** 200])
    elif r < 0.62:
        case["seed"], case["seed_np"] = rng.randint(0, 2 ** 62), True
    else:
        case["seed"] = rng.randint(0, 9999)


def gen_over(rng, c):
    """a second constructor call whose arguments do not depend on the size of what it wraps"""
    w = rng.choice(["shuffle", "intra", "sort", "class_filter", "repeat", "subset_percent", "percent", "fewshot",
                    "oversample", "cw_percent"])
    over = {"w": w}
    if w in ("shuffle", "intra", "fewshot"):
        over["seed"] = rng.choice([0, 1, rng.randint(0, 9999)])
        if w == "fewshot":
            over["shots"] = rng.choice([0, 1, 2, 3])
    elif w == "class_filter":
        over["valid"] = rng.random() < 0.5
        over["cls"] = [rng.randrange(c + 1) for _ in range(rng.choice([0, 1, 2]))]
    elif w == "repeat":
        over["reps"], over["min_size"] = rng.choice([1, 2, 3]), None
    elif w in ("subset_percent", "cw_percent", "percent"):
        a, b = sorted(rng.choice([0.0, 0.25, 0.5, 0.75, 1.0, rng.random()]) for _ in range(2))
        if w == "percent":
            over.update({"from": a, "to": b, "cf": rng.random() < 0.3, "ct": rng.random() < 0.3})
        else:
            over["s"], over["e"] = a, b
    elif w == "oversample":
        over["mode"] = rng.choice(["multiply", "exact"])
    return over


def gen_case(rng, big=False, kind=None):
    case = _gen_case(rng, big, kind)
    if rng.random() < 0.25:
        case["over"] = gen_over(rng, case["C"])
    return case


def _gen_case(rng, big=False, kind=None):
    w = kind or rng.choice(KINDS)
    if w == "oversample" and rng.random() < 0.35:
        cl, c = gen_ratio_layout(rng, big)
    else:
        cl, c = gen_layout(rng, big)
    n = len(cl)
    case = {"w": w, "classes": cl, "C": c, "prov": rng.choice(["list", "list", "torch", "none"])}
    if w in CLASS_BASED and n > 0 and rng.random() < 0.15:
        # unlabeled samples: one, a few, or (rarely) all of them
        m = rng.choice([1, 1, 2, 3, max(1, n // 3), n if rng.random() < 0.3 else 1])
        for i in rng.sample(range(n), min(m, n)):
            cl[i] = -1
    if rng.random() < 0.03 and n > 0 and w in ("oversample", "sort", "intra", "fewshot", "cw_range", "cw_percent"):
        # outside the property's domain (a label that is no class): model-vs-code agreement only
        cl[rng.randrange(n)] = c
    if w == "class_filter":
        case["valid"] = rng.random() < 0.5
        case["cls"] = [rng.randrange(c + 1) for _ in range(rng.choice([0, 1, 1, 2, 3]))]
        case["names"] = rng.random() < 0.3
    elif w == "percent":
        case.update({"from": gen_percent(rng, n), "to": gen_percent(rng, n), "cf": rng.random() < 0.4, "ct": rng.random() < 0.4})
        if rng.random() < 0.7 and case["from"] is not None and case["to"] is not None and case["from"] > case["to"]:
            case["from"], case["to"] = case["to"], case["from"]
    elif w == "subset_idx":
        m = rng.choice([0, 1, 2, 3, 5, 8])
        case["idxs"] = [rng.randint(-n, n - 1) for _ in range(m)] if n else []
        if rng.random() < 0.08:
            case["idxs"].append(rng.choice([n, -n - 1]))
    elif w in ("subset_range", "cw_range"):
        s, e = gen_bound(rng, n), gen_bound(rng, n)
        if s is not None and e is not None and s > e and rng.random() < 0.8:
            s, e = e, s
        case["s"], case["e"] = s, e
        if w == "cw_range":
            case["check"] = rng.random() < 0.4
            if case["check"] and rng.random() < 0.7 and n:
                case["e"] = rng.randint(0, max(0, min(collections.Counter(cl).get(k, 0) for k in range(c))))
                if case["s"] is not None and case["s"] > case["e"]:
                    case["s"] = rng.choice([None, 0, case["e"]])
    elif w in ("subset_percent", "cw_percent"):
        m, dyadic = n, False
        if w == "cw_percent":       # cuts are taken per class: percents on / next to k/count_c
            m = rng.choice([k for k in collections.Counter(cl).values()] or [n])
            dyadic = rng.random() < 0.25
        s, e = gen_percent(rng, m, dyadic), gen_percent(rng, m, dyadic)
        if s is not None and e is not None and s > e and rng.random() < 0.85:
            s, e = e, s
        case["s"], case["e"] = s, e
    elif w in ("shuffle", "intra"):
        gen_seed(rng, case)
    elif w == "repeat":
        if rng.random() < 0.5:
            case["reps"], case["min_size"] = rng.choice([1, 2, 3, 5, 0]), None
        else:
            case["reps"], case["min_size"] = None, rng.choice([1, n, n + 1, 2 * n, 2 * n - 1, 3 * n + 2, rng.randint(1, 4 * n + 3), 0])
        if rng.random() < 0.03:
            case["reps"], case["min_size"] = rng.choice([(None, None), (2, 5)])
    elif w == "oversample":
        case["mode"] = rng.choice(["multiply", "exact"])
        if n == 0:
            case["classes"] = cl = [rng.randrange(c)]
    elif w == "fewshot":
        case["shots"] = rng.choice([0, 1, 1, 2, 3, 5, 50])
        gen_seed(rng, case)
    return case


def gen_cases(rng, tier):
    n = 1300 if tier == "quick" else 9000
    out = [gen_case(rng, kind=KINDS[i % len(KINDS)]) for i in range(n)]
    if tier == "thorough":
        out += [gen_case(rng, big=True, kind=KINDS[i % len(KINDS)]) for i in range(2600)]
    return out


def search_cases(rng, tier):
    for i in range(40000):
        yield gen_case(rng, big=(i % 5 == 4))


def features(case, obs):
    yield "kind=" + case["w"]
    yield "result=" + ("ok" if obs.get("out") is not None else str(obs.get("err", "harness_exception")))
    cl = case["classes"]
    yield "n=" + ("0" if not cl else "1" if len(cl) == 1 else "2-10" if len(cl) <= 10 else "11-16" if len(cl) <= 16
                  else "17-64" if len(cl) <= 64 else ">64")
    if case.get("over"):
        yield "over=" + case["over"]["w"] + ("" if obs.get("composed") is not None else "(raised)" if "composed" in obs else "(n/a)")
    if case["w"] in SEEDED:
        sd = case["seed"]
        yield "seed=" + ("None" if sd is None else ("numpy-" if case.get("seed_np") else "bool-" if isinstance(sd, bool) else "")
                         + ("0" if not sd else "small" if sd < 2 ** 31 else ">=2**31" if sd < 2 ** 64 else ">=2**64"))
    if case["w"] in CLASS_BASED:
        yield "unlabeled=%s" % ("none" if -1 not in cl else "all" if set(cl) == {-1} else "some")
    if case["w"] == "oversample" and cl:
        k = collections.Counter(x for x in cl if x != -1)
        if k:
            mx = max(k.values())
            yield "oversample_quotient=" + ("integer>1" if any(v < mx and mx % v == 0 for v in k.values()) else
                                            "next-to-integer" if any(v < mx and (mx % v in (1, v - 1)) for v in k.values()) else "other")
    if case["w"] in ("oversample", "sort", "intra", "fewshot", "cw_range", "cw_percent", "class_filter"):
        yield "absent_class=%s" % (len(set(cl)) < case["C"])
        yield "single_sample_class=%s" % (1 in collections.Counter(cl).values())
    for k in ("from", "to", "s", "e"):
        if k in case and case["w"] in ("percent", "subset_percent", "cw_percent"):
            v = case[k]
            yield f"percent_{k}=" + ("None" if v is None else "0" if v == 0 else "1" if v == 1 else "out" if not 0 <= v <= 1 else "inner")
    if case["w"] in ("subset_range", "cw_range"):
        yield "end=" + ("None" if case["e"] is None else "0" if case["e"] == 0 else ">=n" if case["e"] >= len(cl) else "inner")


def nontrivial_key(case, obs):
    if not obs.get("out"):
        return None
    return (case["w"], tuple(case["classes"]), case["C"],
            tuple(sorted((k, str(v)) for k, v in case.items() if k not in ("w", "classes", "C", "prov"))))


def shrink(case):
    cl = case["classes"]
    n = len(cl)
    if "idxs" not in case:
        size = n // 2
        while size >= 2:                      # whole chunks first (large layouts)
            for a in range(0, n, size):
                yield dict(case, classes=cl[:a] + cl[a + size:])
            size //= 2
    for i in range(n):
        c2 = dict(case, classes=cl[:i] + cl[i + 1:])
        if "idxs" in case:
            c2["idxs"] = [j for j in case["idxs"] if -(n - 1) <= j < n - 1]
        yield c2
    if case["C"] > 1 and all(x < case["C"] - 1 for x in cl):
        yield dict(case, C=case["C"] - 1)
    for i, x in enumerate(cl):
        if x > 0:
            yield dict(case, classes=cl[:i] + [x - 1] + cl[i + 1:])
    for k in ("idxs", "cls"):
        if k in case:
            for i in range(len(case[k])):
                yield dict(case, **{k: case[k][:i] + case[k][i + 1:]})
    for k in ("s", "e", "reps", "min_size", "shots"):
        if isinstance(case.get(k), int) and case[k] > 0:
            yield dict(case, **{k: case[k] - 1})
    for k in ("from", "to", "s", "e"):
        if isinstance(case.get(k), float) and case[k] not in (0.0, 1.0, 0.5):
            yield dict(case, **{k: 0.5})
    if case.get("prov") != "list":
        yield dict(case, prov="list")
    if "over" in case:
        yield {k: v for k, v in case.items() if k != "over"}
    if case.get("seed_np"):
        yield dict(case, seed_np=False)
    if case.get("seed") and not isinstance(case["seed"], bool):
        yield dict(case, seed=0)
        if case["seed"] > 1:
            yield dict(case, seed=1)
