"""C08 - seeded sample wrappers make sample i a pure function of (data, config, seed, i).

Proof side: coq/C07 (RngGraph.v + ModelC08.v + ProofsC08.v over the tables regenerated from the sources on every
run; PropertyC08.v).  Dynamic side (this module): real wrapper stacks with seeded sample wrappers (transform
wrappers for x / y / target / source, multi-view, BYOL / minaug / MUGS multi-view, sample-level mix, semseg) above
and below other wrappers are built twice, independently, under different global random states; both instances are
asked for samples in different random orders with repeats, the first with spy generators handed out by a patched
np.random.default_rng and the global-RNG tripwire armed.  Thorough tier: DataLoader(num_workers in {0,1,2,3}).
"""
import traceback

from . import rnglive as L
from . import rngstack as K
from . import translate_rng as T
from .common import coq, Raw

ID = "C08"
COQ_FILES = ["C07/RngGraph.v", "C07/gen/RngTable.v", "C07/Check.v", "C07/Proofs.v", "C07/TableProofs.v",
             "C07/ModelC08.v", "C07/CheckC08.v", "C07/ProofsC08.v", "C07/TableProofsC08.v", "C07/PropertyC08.v"]
COQ_PRELUDE = """From Coq Require Import ZArith List Bool String.
Import ListNotations.
From KD Require Import C07.RngGraph C07.gen.RngTable C07.Check C07.ModelC08 C07.CheckC08.
Open Scope string_scope.
"""
COQ_CHECK = "CheckC08.check"
COQ_CASE_TYPE = "CheckC08.case_t"
SHARD = 60
TRUSTED = L.TRUSTED_COMMON + [
    "harness/rngstack.py: patched np.random.default_rng (every generator created while a request runs is a spy tagged "
    "with the seed it was created from), class-level frames around the wrappers' per-item functions (draws are "
    "attributed to the innermost running request), live extraction of wrapper objects through vars()",
    "equal draw sequences give equal samples: torch / torchvision / PIL determinism (observed bit for bit between the "
    "spied and the plain instance, not proved)",
    "DataLoader runtime (index-to-worker assignment, fork copies of the dataset): exercised by the thorough tier only",
    "cross-launch comparison: python -m harness.c08 --launch-child in two fresh interpreters (PYTHONHASHSEED from the "
    "case) builds the same stacks and serves the same indices; exception texts are dropped (they may hold addresses)",
]
ASSUMPTIONS = [
    "the ROOT dataset hands out a fresh object on every access (the toy root clones its tensors / builds a new PIL image "
    "per request): an alias between two returned samples can then only come from state kept by a wrapper, which is "
    "what 'sample i is a pure function of (data, config, seed, i)' excludes; a root that itself hands out aliases of "
    "its storage is outside the claim (in-place consumers would corrupt it with or without seeded wrappers)",
    "wrapper stacks are trees: no transform instance is shared between two wrappers or two fields",
    "the other wrappers in the stack are deterministic (index remapping, label smoothing, deterministic transforms) or "
    "seeded themselves; an unseeded stochastic wrapper in the stack is outside the claim",
    "KDScheduledTransform members change strength with their own sample counter once worker_init_fn has run; that "
    "schedule is not randomness and is excluded from the DataLoader comparison",
    "different indices -> different streams is shown as: different seeds seed+i (injective); that differently seeded "
    "NumPy generators give unrelated streams is NumPy's property",
]
ALLOWED_AXIOMS = []
RULE = ("every seeded wrapper class x {seed 0, seed 1} x {fused, unfused access modes} x {bare, below an in-place "
        "consumer (X/Y/... transform wrapper around KDImageNorm / KDImageRangeNorm, inplace=True), below a multi-view "
        "wrapper}, requests i,i,i,j,i; random "
        "stacks: seeded X/Y/Target/Source transform wrapper over every container / registered class as direct "
        "transform plus random trees, KDMultiViewWrapper (1-3 configs), BYOL / minaug / MUGS multi-view and minaug-X "
        "wrappers on PIL data, KDMixWrapper, SemsegTransformWrapper; a second seeded layer and subset / shuffle / repeat "
        "/ label-smoothing wrappers above and below, in-place consumers and multi-view wrappers above (unfused path "
        "of the mix wrapper), base seed 0 in ~15% of the layers; two instances, two global states, two access orders "
        "with repeats and with the same index 1-3 times in a row; afterwards the same object is asked for the same indices "
        "through every other access mode (each item alone = unfused accessors, the items fused / in reverse order, for "
        "semseg stacks x / semseg / 'x semseg' / 'index semseg', for mix stacks x / class / 'x class') and every item must "
        "be bit-identical across modes; semseg pipelines put stochastic image-only transforms before, between and after "
        "random geometry transforms; in 60% of the cases the harness overwrites every "
        "tensor it was handed in place after each request (returned objects must not alias wrapper state); "
        "thorough: DataLoader(num_workers 0..3) with explicit sampler orders (runs of equal indices), samples "
        "canonicalised and overwritten inside the worker's collate_fn; one (quick) / two (thorough, ~140 stacks each) "
        "cross-launch cases: the same seeded stacks and indices in two fresh interpreters with different "
        "PYTHONHASHSEED plus the harness process itself; 40 (thorough 400) MUTATION histories (kind 'mutate'): X/Y/Target/Source "
        "transform wrapper or KDMultiViewWrapper, seeded (seed 0 included), over a KDComposeTransform (directly / nested in "
        "another compose / as one view config) -> optionally requests -> a stochastic KD transform is appended to / inserted "
        "into / put in place of a child in the LIVE `transforms` list of that compose -> requests with repeats; every sample "
        "must equal the one a FRESH wrapper constructed with the final pipeline serves under another global state; non-trivial = some request drew from its per-item generator and nothing raised; distinct by "
        "(stack signature, access-order shapes)")


def pre_build():
    T.regenerate()


def _info():
    if "info" not in T._LAST:
        T.regenerate()
    return T._LAST["info"]


# ---------------------------------------------------------------------------
# case generation
# ---------------------------------------------------------------------------
SEMSEG_X_ONLY = ["KDAdditiveGaussianNoise", "KDRandomColorJitter", "KDRandomGrayscale", "KDRandomSolarize",
                 "KDRandomAdditiveGaussianNoise", "KDColorJitter"]
DET_LEAVES = [{"c": "KDSolarize"}, {"c": "KDGrayscale"}]
INPLACE_LEAVES = [{"c": "KDImageNorm"}, {"c": "KDImageRangeNorm"}]     # inplace=True is their default
SEEDED_CLASSES = ["XTransformWrapper", "YTransformWrapper", "TargetTransformWrapper", "SourceTransformWrapper",
                  "KDMultiViewWrapper", "KDMixWrapper", "SemsegTransformWrapper", "ByolMultiViewWrapper",
                  "ImagenetMinaugMultiViewWrapper", "MUGSMultiViewWrapper", "ImagenetMinaugXTransformWrapper"]


# seeded per-item code without cases of their own: the abstract base, and a deterministic pipeline (nothing to seed)
NO_CASES = {"TransformWrapperBase", "ImagenetNoaugXTransformWrapper"}


def unlisted_seeded_wrappers(info):
    """fail closed: a sample wrapper class whose per-item code injects / draws from a per-item generator must be in
    SEEDED_CLASSES (every such class gets seed-0 / repeated-index / in-place-consumer cases)"""
    return [d["name"] for d in info["wrappers"]
            if (d["inject"] or "LSeeded" in d["local"]) and d["name"] not in SEEDED_CLASSES and d["name"] not in NO_CASES]


def pick_seed(rng):
    """base seeds: 0 (falsy!) and small seeds often, otherwise anything up to 10^6"""
    r = rng.random()
    if r < 0.15:
        return 0
    if r < 0.2:
        return rng.choice([1, 2])
    return rng.randrange(0, 10 ** 6)


def has_class(spec, name):
    return spec["c"] == name or any(has_class(k, name) for k in spec.get("k", []))


def img_tree(rng, S, no_sched=False):
    for _ in range(50):
        t = L.gen_tree(rng, rng.choice([1, 2, 2, 3]), S)
        if t["c"] == L.FOREIGN:
            t = {"c": "KDComposeTransform", "k": [t]}
        if no_sched and has_class(t, "KDScheduledTransform"):
            continue
        return t
    return {"c": "KDRandomHorizontalFlip", "a": 0}


def stochastic_leaf(rng):
    c = rng.choice(["KDRandomHorizontalFlip", "KDRandomCrop", "KDAdditiveGaussianNoise", "KDRandomErasing",
                    "KDRandomColorJitter", "KDRandomResizedCrop"])
    opts = [i for i, (kind, _) in enumerate(L.REG[c]) if kind == "img"]
    return {"c": c, "a": rng.choice(opts)}


def index_layer(rng, n):
    k = rng.choice(["SubsetWrapper", "ShuffleWrapper", "RepeatWrapper", "KDSubset"])
    if k in ("SubsetWrapper", "KDSubset"):
        m = rng.randrange(max(2, n // 2), n + 3)
        return {"w": k, "idx": [rng.randrange(n) for _ in range(m)]}
    if k == "ShuffleWrapper":
        return {"w": k, "seed": rng.randrange(100)}
    return {"w": k, "r": 2}


def _len_after(n, l):
    if l["w"] in ("SubsetWrapper", "KDSubset"):
        return len(l["idx"])
    if l["w"] == "RepeatWrapper":
        return n * l.get("r", 2)
    return n


def gen_stack(rng, family=None, no_sched=False):
    S = rng.choice([16, 16, 8])
    N = rng.choice([6, 8, 10])
    family = family or rng.choice(["x", "x", "x", "mv", "mv", "pil", "pil", "mix", "mix", "semseg", "two"])
    seed = lambda: pick_seed(rng)  # noqa
    layers = []
    n = N
    kind = "img"
    mode = "x"

    def maybe_index():
        nonlocal n
        if rng.random() < 0.45:
            l = index_layer(rng, n)
            layers.append(l)
            n = _len_after(n, l)

    if family == "pil":
        kind, S = "pil", 32
        maybe_index()
        w = rng.choice(["ByolMultiViewWrapper", "ImagenetMinaugMultiViewWrapper", "MUGSMultiViewWrapper",
                        "ImagenetMinaugXTransformWrapper", "XTransformWrapper", "KDMultiViewWrapper"])
        if w == "XTransformWrapper":
            c = rng.choice(["BYOLTransform", "MUGSStrongTransform", "ImagenetMinaugTransform", "KDRandAugment",
                            "KDThreeAugment", "MAEFinetuneTransform"])
            a = rng.randrange(len(L.REG[c]))
            t = {"c": c, "a": a}
            if c in ("KDRandAugment", "KDThreeAugment"):
                t = {"c": "KDComposeTransform", "k": [t]}
            layers.append({"w": w, "t": t, "seed": seed()})
        elif w == "KDMultiViewWrapper":
            cfg = [[rng.choice([1, 2]), {"c": rng.choice(["BYOLTransform0", "BYOLTransform1", "MUGSStrongLocalTransform",
                                                         "ImagenetMinaugTransform"]), "a": 0}]
                   for _ in range(rng.choice([1, 2]))]
            layers.append({"w": w, "cfg": cfg, "seed": seed()})
        else:
            layers.append({"w": w, "seed": seed(), "n": rng.choice([1, 2, 3]), "nloc": rng.choice([1, 2, 3])})
        maybe_index()
        mode = rng.choice(["x", "index x", "x class"])
    elif family == "semseg":
        maybe_index()
        ts = []
        for _ in range(rng.choice([1, 2, 3, 4])):
            r = rng.random()
            if r < 0.6:
                c = rng.choice(["KDSemsegRandomHorizontalFlip", "KDSemsegRandomResize", "KDSemsegRandomCrop"])
                ts.append({"c": c, "a": rng.randrange(len(L.REG[c]))})
            elif r < 0.9:
                c = rng.choice(SEMSEG_X_ONLY)
                opts = [i for i, (k_, _) in enumerate(L.REG[c]) if k_ == "img"]
                ts.append({"c": c, "a": rng.choice(opts)})
            else:
                ts.append({"c": "KDComposeTransform", "k": [{"c": "KDAdditiveGaussianNoise", "a": 0}]})
        layers.append({"w": "SemsegTransformWrapper", "ts": ts, "seed": seed()})
        # (no index layer above: with a fused operation in the stack ModeWrapper wants getitem_* on the top TYPE)
        mode = rng.choice(["x semseg", "index x semseg", "x", "semseg", "semseg x"])
    elif family == "mv":
        maybe_index()
        if rng.random() < 0.3:
            layers.append({"w": "XTransformWrapper", "t": rng.choice(DET_LEAVES), "seed": None})
        cfg = [[rng.choice([1, 1, 2]), img_tree(rng, S, no_sched)] for _ in range(rng.choice([1, 2, 3]))]
        layers.append({"w": "KDMultiViewWrapper", "cfg": cfg, "seed": seed()})
        maybe_index()
        mode = rng.choice(["x", "x class", "index x"])
    elif family == "mix":
        maybe_index()
        below = rng.random() < 0.4
        if below:
            # (grayscale returns an expanded view, which the in-place mixup of KDMixWrapper cannot write to)
            t = img_tree(rng, S, no_sched)
            while has_class(t, "KDRandomGrayscale") or has_class(t, "KDGrayscale"):
                t = img_tree(rng, S, no_sched)
            layers.append({"w": "XTransformWrapper", "t": t, "seed": seed()})
        layers.append({"w": "KDMixWrapper", "p": rng.choice([0.5, 0.8, 1.0]), "alpha": rng.choice([0.4, 0.8, 1.0]),
                       "seed": seed()})
        above = rng.random()
        mode = rng.choice(["x class", "x", "x", "class", "index x class", "class x"])
        if not below and above < 0.3:
            layers.append({"w": "XTransformWrapper", "t": img_tree(rng, S, no_sched), "seed": seed()})
        elif above < 0.55:
            # an in-place consumer directly above the seeded mix wrapper (what it is handed must be fresh every time)
            layers.append({"w": "XTransformWrapper", "t": rng.choice(INPLACE_LEAVES), "seed": None})
        elif above < 0.75:
            # multi-view above mix: only getitem_x exists up there, the mix wrapper is reached through its UNFUSED path
            # (an UNSEEDED multi-view wrapper gets deterministic in-place views only: an unseeded stochastic wrapper in
            # the stack is outside the claim)
            mv_seed = rng.choice([None, seed()])
            cfg = [[rng.choice([1, 2]), rng.choice(INPLACE_LEAVES + ([] if mv_seed is None else [img_tree(rng, S, no_sched)]))]
                   for _ in range(rng.choice([1, 2]))]
            layers.append({"w": "KDMultiViewWrapper", "cfg": cfg, "seed": mv_seed})
            mode = rng.choice(["x", "index x"])
    else:
        maybe_index()
        w = rng.choice(["XTransformWrapper"] * 3 + ["YTransformWrapper", "TargetTransformWrapper", "SourceTransformWrapper"])
        layers.append({"w": w, "t": img_tree(rng, S, no_sched), "seed": seed()})
        if rng.random() < 0.3:
            layers.append({"w": "LabelSmoothingWrapper"})
        if family == "two" or rng.random() < 0.25:
            maybe_index()
            layers.append({"w": "XTransformWrapper", "t": img_tree(rng, S, no_sched), "seed": seed()})
        item = K.X_WRAPPERS[w]
        if rng.random() < 0.25:
            # in-place consumer of the item above the seeded wrapper(s)
            layers.append({"w": w, "t": rng.choice(INPLACE_LEAVES), "seed": None})
        maybe_index()
        mode = rng.choice([item, item + " class", "index " + item] + (["x y"] if item == "y" else []))
    return {"root": {"kind": kind, "N": N, "S": S}, "layers": layers, "mode": mode}


def with_runs(rng, h):
    """the same index several times IN A ROW (not only i, j, i)"""
    out = []
    for i in h:
        out += [i] * rng.choice([1, 1, 1, 2, 3])
    return out


def alt_modes(spec):
    """other ways to ask the SAME stack for the same items: every item of the mode on its own (unfused accessors), the
    items together (fused accessors), and for semseg / mix stacks the companion items {x, semseg} / {x, class} alone
    and fused - the value of an item for index i must not depend on what else is requested with it"""
    items = [m for m in spec["mode"].split(" ") if m != "index"]
    names = [l["w"] for l in spec["layers"]]
    cand = list(items) + [" ".join(items), " ".join(reversed(items))]
    if "SemsegTransformWrapper" in names:
        cand += ["x", "semseg", "x semseg", "semseg x", "index semseg"]
    if "KDMixWrapper" in names:
        cand += ["x", "class", "x class", "class x"]
    out = []
    for m in cand:
        if m and m != spec["mode"] and m not in out:
            out.append(m)
    return out


def mk_case(rng, spec, mut=None):
    n = K.stack_len(spec)
    base = [rng.randrange(n) for _ in range(rng.choice([2, 3, 4]))]
    ha = base + [rng.choice(base) for _ in range(rng.choice([1, 2, 3]))] + [rng.randrange(n) for _ in range(2)]
    rng.shuffle(ha)
    hb = list(base) + [rng.choice(ha) for _ in range(rng.choice([0, 2, 4]))]
    rng.shuffle(hb)
    # mut: after every request the harness overwrites the tensors it was handed IN PLACE (an in-place collate /
    # training step); the next request must be unaffected
    return {"kind": "stack", "spec": spec, "ha": with_runs(rng, ha), "hb": with_runs(rng, hb), "alt": alt_modes(spec),
            "ga": rng.randrange(10 ** 6), "gb": rng.randrange(10 ** 6),
            "mut": (rng.random() < 0.6) if mut is None else mut}


def directed_cases(rng, info):
    """the direct transform of a seeded wrapper is each container class / each registered img class once"""
    out = []
    names = {d["name"] for d in info["classes"]}
    for cont in L.CONTAINERS:
        if cont not in names:
            continue
        for w in ("XTransformWrapper", "KDMultiViewWrapper", "SemsegTransformWrapper"):
            kid = stochastic_leaf(rng)
            if cont == "KDComposeTransform":
                t = {"c": cont, "k": [kid, stochastic_leaf(rng)]}
            elif cont == "KDTransformChoice":
                t = {"c": cont, "k": [kid, stochastic_leaf(rng)]}
            else:
                t = {"c": cont, "a": 1, "k": [kid]}
            if w == "SemsegTransformWrapper":
                if cont in ("PatchwiseTransform",) or kid["c"] in ("KDRandomCrop", "KDRandomResizedCrop"):
                    t = {**t, "k": [{"c": "KDAdditiveGaussianNoise", "a": 0}] * len(t["k"])}
                lay = {"w": w, "ts": [{"c": "KDSemsegRandomHorizontalFlip", "a": 0}, t], "seed": rng.randrange(10 ** 6)}
                mode = "x semseg"
            elif w == "KDMultiViewWrapper":
                lay = {"w": w, "cfg": [[2, t], [1, stochastic_leaf(rng)]], "seed": rng.randrange(10 ** 6)}
                mode = "x"
            else:
                lay = {"w": w, "t": t, "seed": rng.randrange(10 ** 6)}
                mode = "x class"
            out.append(mk_case(rng, {"root": {"kind": "img", "N": 8, "S": 16}, "layers": [lay], "mode": mode}))
    for c in L.IMG_SAFE:
        if c in L.DET_LEAVES or c not in names:
            continue
        a = rng.choice([i for i, (k_, _) in enumerate(L.REG[c]) if k_ == "img"])
        w = rng.choice(list(K.X_WRAPPERS))
        out.append(mk_case(rng, {"root": {"kind": "img", "N": 8, "S": 16},
                                 "layers": [{"w": w, "t": {"c": c, "a": a}, "seed": rng.randrange(10 ** 6)}],
                                 "mode": K.X_WRAPPERS[w]}))
    for w in ("ByolMultiViewWrapper", "ImagenetMinaugMultiViewWrapper", "MUGSMultiViewWrapper",
              "ImagenetMinaugXTransformWrapper"):
        out.append(mk_case(rng, {"root": {"kind": "pil", "N": 6, "S": 32},
                                 "layers": [{"w": w, "seed": rng.randrange(10 ** 6), "n": 2, "nloc": 2}], "mode": "x"}))
    out += seeded_class_cases(rng)
    return out


def seeded_layer(rng, w, seed):
    """one seeded layer of class w whose per-item code certainly draws -> (root kind, layer, access modes)"""
    flip, crop = {"c": "KDRandomHorizontalFlip", "a": 0}, {"c": "KDRandomCrop", "a": 0}
    if w in K.X_WRAPPERS:
        item = K.X_WRAPPERS[w]
        return "img", {"w": w, "t": {"c": "KDComposeTransform", "k": [crop, flip]}, "seed": seed}, [item, item + " class"]
    if w == "KDMultiViewWrapper":
        return "img", {"w": w, "cfg": [[2, crop], [1, {"c": "KDComposeTransform", "k": [flip, crop]}]], "seed": seed}, ["x", "x class"]
    if w == "KDMixWrapper":
        return "img", {"w": w, "p": 1.0, "alpha": 0.8, "seed": seed}, ["x class", "x", "class", "class x"]
    if w == "SemsegTransformWrapper":
        # a stochastic IMAGE-ONLY transform before the random geometry transforms (all share the per-sample generator,
        # consumed in list order) and one after them
        return "img", {"w": w, "ts": [{"c": "KDRandomColorJitter", "a": 0}, {"c": "KDSemsegRandomHorizontalFlip", "a": 0},
                                      {"c": "KDAdditiveGaussianNoise", "a": 0}, {"c": "KDSemsegRandomCrop", "a": 0},
                                      {"c": "KDAdditiveGaussianNoise", "a": 0}], "seed": seed}, ["x semseg", "x", "semseg"]
    return "pil", {"w": w, "seed": seed, "n": 2, "nloc": 2}, ["x"]


def seeded_class_cases(rng, classes=None):
    """EVERY seeded wrapper class x {seed 0 (falsy), seed 1} x {fused, unfused access path} x {bare, under an in-place
    consumer, under a multi-view wrapper}; histories ask for the same index several times in a row; the harness
    overwrites what it was handed after every request"""
    out = []
    for w in classes or SEEDED_CLASSES:
        for seed in (0, 1):
            kind, lay, modes = seeded_layer(rng, w, seed)
            root = {"kind": kind, "N": 6, "S": 32 if kind == "pil" else 16}
            for mode in modes:
                stacks = [[lay]]
                if kind == "img" and (w in K.X_WRAPPERS or w == "KDMixWrapper" or (w == "SemsegTransformWrapper" and mode == "x")):
                    cons = w if w in K.X_WRAPPERS else "XTransformWrapper"
                    stacks.append([lay, {"w": cons, "t": rng.choice(INPLACE_LEAVES), "seed": None}])
                if w == "KDMixWrapper" and mode == "x":
                    stacks.append([lay, {"w": "KDMultiViewWrapper", "cfg": [[2, rng.choice(INPLACE_LEAVES)]], "seed": None}])
                for layers in stacks:
                    c = mk_case(rng, {"root": root, "layers": layers, "mode": mode}, mut=rng.random() < 0.7)
                    i, j = rng.randrange(root["N"]), rng.randrange(root["N"])
                    c["ha"] = [i, i, i, j, i]
                    c["hb"] = [j, i, i, j, j]
                    out.append(c)
    return out


NONCROP_STOCHASTIC = ["KDRandomHorizontalFlip", "KDAdditiveGaussianNoise", "KDRandomErasing", "KDRandomColorJitter"]


def mutate_case(rng):
    """a history with a MUTATION step: seeded wrapper over a KDComposeTransform pipeline (directly, nested in another
    compose, or as a view config of KDMultiViewWrapper) -> optionally some requests -> a stochastic KD transform is
    appended / inserted / put in place of a child in the LIVE `transforms` list of that compose -> requests.  The samples
    served afterwards must be those of a FRESH wrapper constructed with the final pipeline (same seed): sample i is a
    function of (data, configuration, seed, i), not of the object's history."""
    w = rng.choice(list(K.X_WRAPPERS) + ["XTransformWrapper", "KDMultiViewWrapper"])
    seed = pick_seed(rng)
    kids = []
    for _ in range(rng.choice([0, 1, 2, 2, 3])):
        l = stochastic_leaf(rng) if rng.random() < 0.8 else dict(rng.choice(DET_LEAVES))
        if l["c"] in ("KDRandomCrop", "KDRandomResizedCrop") and any(k["c"] in ("KDRandomCrop", "KDRandomResizedCrop") for k in kids):
            continue
        kids.append(l)
    c = rng.choice(NONCROP_STOCHASTIC)
    leaf = {"c": c, "a": rng.choice([i for i, (kind, _) in enumerate(L.REG[c]) if kind == "img"])}
    inner = {"c": "KDComposeTransform", "k": kids}
    path = []
    top = inner
    if rng.random() < 0.3:
        other = {"c": "KDRandomHorizontalFlip", "a": 0}
        top, path = ({"c": "KDComposeTransform", "k": [other, inner]}, [1]) if rng.random() < 0.5 else \
                    ({"c": "KDComposeTransform", "k": [inner, other]}, [0])
    ops = ["append", "insert"] + (["replace"] if kids else [])
    op = rng.choice(ops)
    pos = len(kids) if op == "append" else rng.randrange(len(kids) + (1 if op == "insert" else 0))
    if w == "KDMultiViewWrapper":
        cfg = [[rng.choice([1, 2]), top]]
        if rng.random() < 0.5:
            cfg.insert(rng.randrange(2), [1, {"c": "KDRandomHorizontalFlip", "a": 0}])
        lay = {"w": w, "cfg": cfg, "seed": seed}
        where = {"cfg": next(j for j, (_, t) in enumerate(cfg) if t is top), "path": path}
        item = "x"
    else:
        lay = {"w": w, "t": top, "seed": seed}
        where = {"path": path}
        item = K.X_WRAPPERS[w]
    N = 6
    spec = {"root": {"kind": "img", "N": N, "S": 16}, "layers": [lay], "mode": rng.choice([item, item + " class"])}
    i, j = rng.randrange(N), rng.randrange(N)
    return {"kind": "mutate", "spec": spec, "where": where, "op": op, "pos": pos, "leaf": leaf,
            "pre": rng.choice([[], [], [i], [j, i]]), "h": with_runs(rng, [i, j, i] + [rng.randrange(N)]),
            "hf": [j, i, rng.randrange(N), i], "ga": rng.randrange(10 ** 6), "gb": rng.randrange(10 ** 6),
            "mut": rng.random() < 0.4}


def _mutated_children(kids, op, pos, leaf):
    kids = list(kids)
    if op == "replace":
        kids[pos] = leaf
    else:
        kids.insert(pos, leaf)
    return kids


def final_spec(case):
    """the pipeline description AFTER the mutation (what a fresh wrapper is constructed with)"""
    import copy
    spec = copy.deepcopy(case["spec"])
    lay = spec["layers"][0]
    t = lay["cfg"][case["where"]["cfg"]][1] if "cfg" in lay else lay["t"]
    for j in case["where"]["path"]:
        t = t["k"][j]
    t["k"] = _mutated_children(t["k"], case["op"], case["pos"], case["leaf"])
    return spec


def run_mutate_case(case):
    spec = case["spec"]
    S = spec["root"]["S"]
    try:
        L.seed_globals(case["ga"])
        A = K.build_stack(spec)
        w = next(x for x in K.sample_wrappers(A) if type(x).__name__ == spec["layers"][0]["w"])
        t = w.transform_configs[case["where"]["cfg"]].transform if "cfg" in case["where"] else w.transform
        for j in case["where"]["path"]:
            t = t.transforms[j]
        assert type(t).__name__ == "KDComposeTransform" and isinstance(t.transforms, list)
        obs = {"pre": [[i, _get(A, i, case.get("mut"))] for i in case["pre"]]}
        L.seed_globals(case["ga"] + 5)
        new = L.build(case["leaf"], S)
        # the mutation: on the live list, through the list's own methods (the compose object is not told)
        if case["op"] == "append":
            t.transforms.append(new)
        elif case["op"] == "insert":
            t.transforms.insert(case["pos"], new)
        else:
            t.transforms[case["pos"]] = new
        L.seed_globals(case["ga"] + 17)
        obs["out_m"] = [[i, _get(A, i, case.get("mut"))] for i in case["h"]]
        L.seed_globals(case["gb"])
        F = K.build_stack(final_spec(case))
        L.seed_globals(case["gb"] + 4242)
        obs["out_f"] = [[i, _get(F, i, case.get("mut"))] for i in case["hf"]]
    except Exception as e:  # noqa
        return {"construct_error": f"{type(e).__name__}: {e}", "tb": traceback.format_exc()[-800:]}
    return obs


def loader_case(rng):
    spec = gen_stack(rng, no_sched=True)
    if "index" not in spec["mode"].split(" "):
        spec["mode"] = "index " + spec["mode"]
    n = K.stack_len(spec)
    # explicit sampler orders, one per worker count: every index, each one 1-3 times in a row
    orders = []
    for _ in range(4):
        o = list(range(n))
        rng.shuffle(o)
        orders.append(with_runs(rng, o))
    return {"kind": "loader", "spec": spec, "bs": rng.choice([1, 1, 2, 3]), "ga": rng.randrange(10 ** 6),
            "orders": orders, "mut": rng.random() < 0.6}


def launch_case(rng, n_random):
    """the same seeded stacks asked for the same indices in two fresh interpreters (PYTHONHASHSEED different from each
    other and from the harness's own 0): 'a function of (data, config, seed, i)' leaves no room for the launch"""
    items = []
    for c in seeded_class_cases(rng)[::3] + [mk_case(rng, gen_stack(rng)) for _ in range(n_random)]:
        items.append({"spec": c["spec"], "ga": c["ga"], "idx": sorted(set(c["ha"]))[:4]})
    return {"kind": "launch", "items": items, "hs": rng.sample(range(1, 4000), 2)}


def gen_cases(rng, tier):
    info = T.regenerate()
    out = []
    if info["errors"]:
        out.append({"kind": "translator", "errors": info["errors"]})
    out += [{"kind": "unlisted", "cls": c} for c in unlisted_seeded_wrappers(info)]
    out += directed_cases(rng, info)
    n = 300 if tier == "quick" else 3000
    out += [mk_case(rng, gen_stack(rng)) for _ in range(n)]
    out += [mutate_case(rng) for _ in range(40 if tier == "quick" else 400)]
    out += [loader_case(rng) for _ in range(0 if tier == "quick" else 60)]
    out += [launch_case(rng, 10)] if tier == "quick" else [launch_case(rng, 120) for _ in range(2)]
    return out


def search_cases(rng, tier):
    info = T.regenerate()
    for c in seeded_class_cases(rng):
        yield c
    for _ in range(3):
        for c in directed_cases(rng, info):
            yield c
    for _ in range(60):
        yield mutate_case(rng)
    for _ in range(1500):
        yield mk_case(rng, gen_stack(rng))


def shrink(case):
    if case.get("kind") == "launch":
        items = case["items"]
        if len(items) > 1:
            h = len(items) // 2
            yield {**case, "items": items[:h]}
            yield {**case, "items": items[h:]}
        elif len(items[0]["idx"]) > 1:
            yield {**case, "items": [{**items[0], "idx": items[0]["idx"][:1]}]}
            yield {**case, "items": [{**items[0], "idx": items[0]["idx"][1:]}]}
        return
    if case.get("kind") == "mutate":
        if case["pre"]:
            yield {**case, "pre": []}
        if case.get("mut"):
            yield {**case, "mut": False}
        for key in ("h", "hf"):
            if len(case[key]) > 1:
                yield {**case, key: case[key][:-1]}
                yield {**case, key: case[key][1:]}
        return
    if case.get("kind") != "stack":
        return
    spec = case["spec"]
    layers = spec["layers"]
    # drop unseeded layers / all but one seeded layer
    for i, l in enumerate(layers):
        if len(layers) > 1 and (l.get("seed") is None or l["w"] == "ShuffleWrapper"
                                or sum(1 for x in layers if x.get("seed") is not None and x["w"] != "ShuffleWrapper") > 1):
            if l["w"] in ("SubsetWrapper", "KDSubset", "RepeatWrapper", "ShuffleWrapper"):
                continue      # removing an index layer changes the valid index range; keep it simple
            yield {**case, "spec": {**spec, "layers": layers[:i] + layers[i + 1:]}}
    for i, l in enumerate(layers):
        if "t" in l:
            for s in L.shrink_spec(l["t"]):
                if s["c"] != L.FOREIGN:
                    yield {**case, "spec": {**spec, "layers": layers[:i] + [{**l, "t": s}] + layers[i + 1:]}}
        if "cfg" in l and len(l["cfg"]) > 1:
            for j in range(len(l["cfg"])):
                yield {**case, "spec": {**spec, "layers": layers[:i] + [{**l, "cfg": l["cfg"][:j] + l["cfg"][j + 1:]}] + layers[i + 1:]}}
        if "ts" in l and len(l["ts"]) > 1:
            for j in range(len(l["ts"])):
                yield {**case, "spec": {**spec, "layers": layers[:i] + [{**l, "ts": l["ts"][:j] + l["ts"][j + 1:]}] + layers[i + 1:]}}
    if case.get("mut"):
        yield {**case, "mut": False}
    if len(case.get("alt") or []) > 1:
        for m in case["alt"]:
            yield {**case, "alt": [m]}
    if len(case["ha"]) > 1:
        yield {**case, "ha": case["ha"][:-1]}
        yield {**case, "ha": case["ha"][1:]}
    if len(case["hb"]) > 1:
        yield {**case, "hb": case["hb"][:-1]}
        yield {**case, "hb": case["hb"][1:]}


# ---------------------------------------------------------------------------
# running the real code
# ---------------------------------------------------------------------------
def _overwrite(v):
    """overwrite every tensor / array of a returned sample IN PLACE (after it was canonicalised)"""
    import numpy as np
    import torch
    if torch.is_tensor(v):
        try:
            v.fill_(-123)
        except Exception:  # noqa  (expanded views refuse in-place writes)
            pass
    elif isinstance(v, np.ndarray):
        try:
            v.fill(-123)
        except Exception:  # noqa
            pass
    elif isinstance(v, (list, tuple)):
        for x in v:
            _overwrite(x)
    elif isinstance(v, dict):
        for x in v.values():
            _overwrite(x)


def _get(ds, i, mut=False):
    try:
        v = ds[i]
        c = L.canon(v)
    except Exception as e:  # noqa
        return K.exc_info(e)
    if mut:
        _overwrite(v)
    return c


def _is_seeded_layer(w):
    return type(w).__name__ != "ShuffleWrapper" and getattr(w, "seed", None) is not None


def run_stack_case(case):
    spec = case["spec"]
    obs = {}
    with K.FrameRecorder(_info()) as FR:
        try:
            L.seed_globals(case["ga"])
            A = K.build_stack(spec)
            L.seed_globals(case["gb"])
            B = K.build_stack(spec)
        except Exception as e:  # noqa
            return {"construct_error": f"{type(e).__name__}: {e}", "tb": traceback.format_exc()[-800:]}
        wrappers = K.sample_wrappers(A)
        seeded = [w for w in wrappers if "seed" in vars(w) and _is_seeded_layer(w)]
        K.tag_stack_slots(A, "ctor")
        obs["layers"] = [{"cls": type(w).__name__, "seed": int(w.seed), "w0": K.live_wobj(w)} for w in seeded]
        ids = {id(w): k for k, w in enumerate(seeded)}
        with K.PatchedDefaultRng("inj"):
            L.seed_globals(case["ga"] + 17)
            trip = L.Tripwire()
            obs["out_a"] = [[i, _get(A, i, case.get("mut"))] for i in case["ha"]]
            obs["touched_a"] = trip.touched()
        for k, w in enumerate(seeded):
            obs["layers"][k]["after"] = K.wobj_slots(K.live_wobj(w))
            obs["layers"][k]["acc"] = []
        obs["stray"] = [t for t in FR.outside]
        for e in FR.log:
            if e["obj"] in ids:
                obs["layers"][ids[e["obj"]]]["acc"].append([e["idx"], e["src"]])
            elif e["src"]:
                obs["stray"] += e["src"]
        n_log = len(FR.log)
        L.seed_globals(case["gb"] + 4242)
        trip = L.Tripwire()
        obs["out_b"] = [[i, _get(B, i, case.get("mut"))] for i in case["hb"]]
        obs["touched_b"] = trip.touched()
        obs["frames_b"] = len(FR.log) - n_log
        # the same object asked for the same indices through other access modes (unfused / fused / other item sets)
        obs["alt"] = []
        if case.get("alt"):
            from kappadata.wrappers import ModeWrapper
            idxs = []
            for i in case["hb"]:
                if i not in idxs:
                    idxs.append(i)
            for m in case["alt"]:
                try:
                    mw = ModeWrapper(B.dataset, mode=m)
                except Exception:  # noqa  (an item this stack does not serve)
                    continue
                for i in idxs[:3]:
                    obs["alt"].append([m, i, _get(mw, i, case.get("mut"))])
    return obs


def _canon_collate(batch, pos=0, mut=False):
    """runs inside the worker: no stacking (samples may be PIL images or tensors of different sizes), every sample is
    canonicalised where it was produced and then - mut - overwritten in place"""
    out = []
    for sample in batch:
        out.append([int(sample[pos]), L.canon([x for j, x in enumerate(sample) if j != pos])])
        if mut:
            _overwrite(sample)
    return out


def run_loader_case(case):
    import gc
    from functools import partial
    from torch.utils.data import DataLoader
    spec = case["spec"]
    L.seed_globals(case["ga"])
    ds = K.build_stack(spec)
    pos = spec["mode"].split(" ").index("index")
    obs = {"runs": []}

    for k, nw in enumerate([0, 1, 2, 3]):
        L.seed_globals(case["ga"] + 31 * k)
        kw = dict(worker_init_fn=ds.worker_init_fn) if nw > 0 else {}
        served = []
        it = None
        try:
            it = iter(DataLoader(ds, batch_size=case["bs"], num_workers=nw, sampler=list(case["orders"][k]),
                                 collate_fn=partial(_canon_collate, pos=pos, mut=bool(case.get("mut"))), **kw))
            for batch in it:
                served += batch
        except Exception as e:  # noqa
            obs["runs"].append({"nw": nw, "error": f"{type(e).__name__}: {str(e)[:300]}", "origin": K.exc_info(e)[3]})
            if nw == 0:
                break     # in-process failure (e.g. a transform composition that cannot run): nothing to compare
            continue
        finally:
            del it      # shut the workers down now, not in some later forked child
            gc.collect()
        obs["runs"].append({"nw": nw, "served": served})
    return obs


def launch_record(item):
    def noexc(v):
        return v[:2] + v[3:] if isinstance(v, list) and v and v[0] == "EXC" else v     # (messages may hold addresses)
    try:
        L.seed_globals(item["ga"])
        D = K.build_stack(item["spec"])
    except Exception as e:  # noqa
        return {"error": type(e).__name__}
    return {"samples": [[i, noexc(_get(D, i))] for i in item["idx"]]}


def _launch_child():
    import json
    import os
    import sys
    from . import common
    common.setup_repo_path()
    items = json.load(sys.stdin)["items"]
    sys.stdout.write("\n@@C08-LAUNCH@@" + json.dumps({"hashseed": os.environ.get("PYTHONHASHSEED"),
                                                      "records": [launch_record(it) for it in items]}) + "\n")


def run_launch_case(case):
    import json
    import os
    import subprocess
    import sys
    from concurrent.futures import ThreadPoolExecutor
    from . import common

    def launch(h):
        env = dict(os.environ)
        env["PYTHONHASHSEED"] = str(h)
        p = subprocess.run([sys.executable, "-m", "harness.c08", "--launch-child"], input=json.dumps({"items": case["items"]}),
                           env=env, cwd=common.VERIF, capture_output=True, text=True, timeout=1500)
        if p.returncode != 0 or "@@C08-LAUNCH@@" not in p.stdout:
            return {"crash": (p.stderr or p.stdout)[-600:]}
        return json.loads(p.stdout.split("@@C08-LAUNCH@@")[1])

    with ThreadPoolExecutor(max_workers=2) as ex:
        runs = list(ex.map(launch, case["hs"]))
    here = {"hashseed": os.environ.get("PYTHONHASHSEED"), "records": [launch_record(it) for it in case["items"]]}
    return {"launches": runs + [here]}


def run_impl(case):
    if case.get("kind") == "translator":
        return {"skipped": "translator"}
    if case.get("kind") == "unlisted":
        return {"unlisted": case["cls"] in unlisted_seeded_wrappers(T.regenerate())}
    if case.get("kind") == "loader":
        return run_loader_case(case)
    if case.get("kind") == "launch":
        return run_launch_case(case)
    if case.get("kind") == "mutate":
        return run_mutate_case(case)
    return run_stack_case(case)


# ---------------------------------------------------------------------------
# independent Python statement of the property
# ---------------------------------------------------------------------------
def oracle(case, obs):
    if "harness_exception" in obs:
        return "harness exception: " + obs["harness_exception"] + obs.get("tb", "")
    if case.get("kind") == "translator":
        return None
    if case.get("kind") == "unlisted":
        if obs.get("unlisted"):
            return (f"sample wrapper class {case['cls']} has seeded per-item code but the harness has no cases for it "
                    "(harness/c08.py SEEDED_CLASSES / seeded_layer; fail closed)")
        return None
    if case.get("kind") == "launch":
        runs = obs["launches"]
        for r in runs:
            if "crash" in r:
                return "launch of a fresh interpreter failed: " + r["crash"]
        ref = runs[0]
        for r in runs[1:]:
            for k, (a, b) in enumerate(zip(ref["records"], r["records"])):
                if a != b:
                    it = case["items"][k]
                    what = f"{a.get('error')} / {b.get('error')}"
                    if "samples" in a and "samples" in b:
                        i, va, vb = next((u[0], u[1], v[1]) for u, v in zip(a["samples"], b["samples"]) if u != v)
                        what = f"sample {i}: {str(va)[:200]} vs {str(vb)[:200]}"
                    return (f"{K.spec_sig(it['spec'])} mode='{it['spec']['mode']}': the same seeded stack (global seed {it['ga']}) "
                            f"serves different samples in two interpreter launches (PYTHONHASHSEED={ref['hashseed']} vs "
                            f"{r['hashseed']}): {what}  [item {k} of {len(case['items'])}]")
        return None
    sig = K.spec_sig(case["spec"]) + " mode='" + case["spec"]["mode"] + "'"
    if case.get("kind") == "loader":
        seen = {}
        for r in obs["runs"]:
            if "error" in r and r["nw"] == 0 and "transforms" in r.get("origin", ""):
                return None    # the composition itself raises in-process; not this property's business
            if "error" in r:
                return f"{sig}: DataLoader(num_workers={r['nw']}) raised {r['error']}"
            for step, (i, v) in enumerate(r["served"]):
                if i in seen and seen[i][0] != v:
                    return (f"{sig}: sample {i} differs between DataLoader(num_workers={seen[i][1]}) step {seen[i][2]} and "
                            f"DataLoader(num_workers={r['nw']}) step {step}, batch_size={case['bs']}, sampler orders "
                            f"{case['orders']}" + (", samples overwritten in place after collation" if case.get("mut") else "")
                            + f": {str(seen[i][0])[:200]} vs {str(v)[:200]}")
                seen.setdefault(i, (v, r["nw"], step))
        return None
    if "construct_error" in obs:
        return f"{sig}: construction failed: {obs['construct_error']}" + (obs.get("tb", "") if case.get("kind") == "mutate" else "")
    if case.get("kind") == "mutate":
        lay = case["spec"]["layers"][0]
        what = (f"{lay['w']}(seed={lay['seed']}): after {case['op']} (position {case['pos']}) of a {case['leaf']['c']} "
                f"to the live `transforms` list of the KDComposeTransform "
                + ("of view config %d " % case["where"]["cfg"] if "cfg" in case["where"] else "")
                + (f"nested at {case['where']['path']} " if case["where"]["path"] else "")
                + f"[final pipeline {K.spec_sig(final_spec(case))}]")
        seen = {}
        for who, outs in (("the mutated object", obs["out_m"]), ("a fresh wrapper constructed with the final pipeline", obs["out_f"])):
            for pos, (i, v) in enumerate(outs):
                if i in seen and seen[i][0] != v:
                    return (f"{sig}: {what}: sample {i} is not a function of (data, config, seed, index): {seen[i][1]} gave "
                            f"{str(seen[i][0])[:160]}, {who} request #{pos} gave {str(v)[:160]} (requests before the mutation "
                            f"{case['pre']}, after it {case['h']}, fresh object {case['hf']}, global seeds {case['ga']} / {case['gb']})")
                seen.setdefault(i, (v, f"{who} request #{pos}"))
        return None
    for who, outs in (("first", obs["out_a"]), ("second", obs["out_b"])):
        for i, v in outs:
            # an exception out of the wrapper / dataset code is the wrapper's fault; one out of the transform code (an
            # unlucky composition, e.g. an in-place op on the expanded view a grayscale transform returns) is a value
            # like any other: it has to be the same for every request of that index (checked below)
            if isinstance(v, list) and v and v[0] == "EXC" and not v[3].startswith("transforms") \
                    and not v[3].startswith("common" + __import__("os").sep + "transforms"):
                return f"{sig}: request for index {i} on the {who} instance raised {v[1]}: {v[2]} (in {v[3] or 'library code'})"
    if obs["touched_a"] or obs["touched_b"]:
        return (f"{sig}: serving seeded samples consumed / re-seeded process-global generators "
                f"{obs['touched_a'] or obs['touched_b']}")
    if obs["stray"]:
        return f"{sig}: draws outside the per-item code of a seeded wrapper, from generators {obs['stray'][:4]}"
    for lay in obs["layers"]:
        for idx, src in lay["acc"]:
            want = ["inj", lay["seed"] + idx]
            bad = [s for s in src if s != want]
            if bad:
                return (f"{sig}: {lay['cls']}(seed={lay['seed']}) serving index {idx} drew from {bad[:4]} instead of only "
                        f"the generator seeded with seed+idx={lay['seed'] + idx}")
    seen = {}
    for who, outs in (("first instance", obs["out_a"]), ("second instance", obs["out_b"])):
        for pos, (i, v) in enumerate(outs):
            if i in seen and seen[i][0] != v:
                return (f"{sig}: sample {i} is not a function of (data, config, seed, index): {seen[i][1]} gave "
                        f"{str(seen[i][0])[:200]}, {who} request #{pos} gave {str(v)[:200]} "
                        f"(orders {case['ha']} / {case['hb']}, global seeds {case['ga']} / {case['gb']}"
                        + (", the harness overwrote every tensor it was handed in place after each request: a returned "
                           "tensor aliases state that outlives the request" if case.get("mut") else "") + ")")
            seen.setdefault(i, (v, f"{who} request #{pos}"))
    # item by item: what index i holds for an item does not depend on HOW it is requested (alone / fused / with others)
    def per_item(mode, v):
        items = mode.split(" ")
        if isinstance(v, list) and v and v[0] == "EXC":
            return {}
        vals = [v] if len(items) == 1 else v
        return dict(zip(items, vals)) if len(vals) == len(items) else {}

    item_seen = {}
    for i, v in obs["out_b"]:
        for it, val in per_item(case["spec"]["mode"], v).items():
            item_seen.setdefault((it, i), (val, case["spec"]["mode"]))
    for m, i, v in obs.get("alt", []):
        for it, val in per_item(m, v).items():
            if (it, i) in item_seen and item_seen[(it, i)][0] != val:
                return (f"{sig}: item '{it}' of sample {i} depends on the access mode: mode '{item_seen[(it, i)][1]}' gave "
                        f"{str(item_seen[(it, i)][0])[:200]}, mode '{m}' on the same object gave {str(val)[:200]}")
            item_seen.setdefault((it, i), (val, m))
    return None


# ---------------------------------------------------------------------------
# Coq side
# ---------------------------------------------------------------------------
def coq_applicable(case, obs):
    # a request that raised half way (a transform composition that cannot run on some draws) leaves the objects in a
    # state the model of a COMPLETED request does not describe
    return (case.get("kind") == "stack" and "layers" in obs and all("acc" in l for l in obs["layers"])
            and not any(isinstance(v, list) and v and v[0] == "EXC" for _, v in obs["out_a"]))


def coq_case(case, obs):
    out = []
    for lay in obs["layers"]:
        acc = [Raw("(" + coq(int(i)) + ", " + coq([L.coq_prov(p) for p in src]) + ")") for i, src in lay["acc"]]
        out.append(Raw("(" + coq(K.coq_wobj(lay["w0"])) + ", " + coq(int(lay["seed"])) + ", " + coq(acc) + ", "
                       + coq([L.coq_slot(p) for p in lay["after"]]) + ")"))
    return coq(out)


def features(case, obs):
    if case.get("kind") == "launch":
        yield "kind=launch"
        for r in obs.get("launches", []):
            yield "launch_hashseed=" + str(r.get("hashseed"))
        return
    if case.get("kind") == "mutate":
        yield "kind=mutate"
        yield "mutate: " + case["op"] + " " + case["leaf"]["c"] + " / " + case["spec"]["layers"][0]["w"] \
              + (" nested" if case["where"]["path"] else "") + (" after earlier requests" if case["pre"] else "")
        yield "mutate: seed0=%s" % (case["spec"]["layers"][0]["seed"] == 0)
        return
    if case.get("kind") != "stack":
        yield "kind=" + str(case.get("kind"))
        return
    spec = case["spec"]
    yield "root=" + spec["root"]["kind"]
    yield "mode=" + spec["mode"]
    for l in spec["layers"]:
        yield "layer=" + l["w"] + ("#seeded" if l.get("seed") is not None and l["w"] != "ShuffleWrapper" else "")
    n_seeded = len(obs.get("layers", []))
    yield "seeded_layers=%d" % n_seeded
    top_down = [l for l in reversed(spec["layers"])]
    kinds = ["S" if (l.get("seed") is not None and l["w"] != "ShuffleWrapper") else "o" for l in top_down]
    yield "shape(top-down)=" + "".join(kinds)
    if "layers" in obs:
        yield "drew=%s" % any(src for l in obs["layers"] for _, src in l.get("acc", []))
        yield "repeats=%s" % (len(set(case["ha"])) < len(case["ha"]))
        yield "same_index_in_a_row=%s" % any(a == b for h in (case["ha"], case["hb"]) for a, b in zip(h, h[1:]))
        yield "overwritten_in_place=%s" % bool(case.get("mut"))
        for m in sorted({a[0] for a in obs.get("alt", []) if not (isinstance(a[2], list) and a[2] and a[2][0] == "EXC")}):
            yield "alt_mode=" + m
        yield "seed0=%s" % any(l["seed"] == 0 for l in obs["layers"])
        names = [l["w"] for l in spec["layers"]]
        for k, l in enumerate(spec["layers"]):
            if l.get("seed") is not None and l["w"] != "ShuffleWrapper":
                above = spec["layers"][k + 1:]
                if any(x.get("t", {}).get("c") in ("KDImageNorm", "KDImageRangeNorm") for x in above) or \
                        any(t.get("c") in ("KDImageNorm", "KDImageRangeNorm") for x in above for _, t in x.get("cfg", [])):
                    yield "inplace_consumer_above=" + l["w"]
                if any(x["w"] == "KDMultiViewWrapper" for x in above):
                    yield "multiview_above=" + l["w"]


def nontrivial_key(case, obs):
    if case.get("kind") == "launch":
        runs = obs.get("launches", [])
        if len(runs) < 3 or any("crash" in r for r in runs) or len({r["hashseed"] for r in runs}) < 3:
            return None
        return ("launch", len(case["items"]), tuple(case["hs"]))
    if case.get("kind") == "loader":
        if any("error" in r for r in obs.get("runs", [])):
            return None
        return ("loader", K.spec_sig(case["spec"]), case["bs"])
    if case.get("kind") == "mutate":
        if "out_m" not in obs or any(isinstance(v, list) and v and v[0] == "EXC" for _, v in obs["out_m"] + obs["out_f"]):
            return None
        return ("mutate", K.spec_sig(final_spec(case)), case["op"], case["pos"], bool(case["pre"]))
    if case.get("kind") != "stack" or "layers" not in obs:
        return None
    if not any(src for l in obs["layers"] for _, src in l.get("acc", [])):
        return None
    if any(isinstance(v, list) and v and v[0] == "EXC" for _, v in obs["out_a"] + obs["out_b"]):
        return None
    return (K.spec_sig(case["spec"]), case["spec"]["mode"], len(case["ha"]), len(case["hb"]), bool(case.get("mut")),
            tuple(l["seed"] == 0 for l in obs["layers"]))


if __name__ == "__main__":
    import sys as _sys
    if "--launch-child" in _sys.argv:
        _launch_child()
