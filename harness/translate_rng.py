"""Fail-closed translator: Python source of the KappaData transform / sample-wrapper /
dataset classes  ->  Coq table coq/C07/gen/RngTable.v  (descriptors of RngGraph.v).

What is read (ast of the file that defines each class, classes resolved through the LIVE
MRO of the tree under KD_REPO):
  * __init__ along the MRO: which fields hold child transforms (static class when the
    constructor builds the child itself, dynamic when the user passes it), the own
    generator slot (`self.rng = get_rng_from_global()`), helper objects (MagnitudeSampler),
    foreign callables (torchvision);
  * the effective set_rng (first definition in the MRO, following super().set_rng):
    only a closed list of statement shapes is understood, anything else ABORTS;
  * every other method along the MRO (over-approximation of "reachable from __call__"):
    roots of all random calls (self.rng / rng parameter / module-level numpy, random,
    torch without generator=, default_rng() without seed, get_rng_from_global, GlobalRng),
    and which child fields are called.
  * sample wrappers: the seeded branch of the getitem functions (per-item
    default_rng(seed + idx), guards, which fields are injected / called), _worker_init_fn;
  * dataset classes: the shape of worker_init_fn.
Unknown shapes are collected as errors; with errors the generated file does not compile
(the error text is in it) and the check reports a broken obligation.
The correspondence run (harness/rnglive.py, c07..c09) validates the table against live objects.
"""
import ast
import enum
import importlib
import inspect
import os
import sys

FOREIGN = "<foreign>"

NP_GEN_METHODS = {
    "random", "integers", "uniform", "beta", "normal", "standard_normal", "permutation", "permuted", "shuffle",
    "choice", "multinomial", "binomial", "poisson", "exponential", "gamma", "bytes", "dirichlet", "laplace",
    "lognormal", "triangular", "vonmises", "randint", "rand", "randn", "random_sample", "standard_exponential",
    "geometric", "logistic", "multivariate_normal",
}
NP_RANDOM_NON_DRAW = {"default_rng", "Generator", "SeedSequence", "PCG64", "get_state", "BitGenerator", "RandomState"}
TORCH_RANDOM = {"rand", "randn", "randint", "randperm", "bernoulli", "multinomial", "normal", "rand_like",
                "randn_like", "randint_like", "poisson", "manual_seed", "seed", "dropout"}
TV_DETERMINISTIC = {"Resize", "CenterCrop", "Normalize", "ToTensor", "Pad", "Grayscale", "PILToTensor",
                    "ConvertImageDtype", "ToPILImage", "Lambda", "FiveCrop", "TenCrop"}
SKIP_METHODS = {"__init__", "set_rng", "worker_init_fn", "_worker_init_fn"}
TRANSFORM_DIRS = ["kappadata/transforms", "kappadata/common/transforms"]
COLLATOR_DIRS = ["kappadata/collators"]
WRAPPER_DIRS = ["kappadata/wrappers/sample_wrappers", "kappadata/common/wrappers/sample_wrappers"]


class Abort(Exception):
    pass


# ---------------------------------------------------------------------------
# source access
# ---------------------------------------------------------------------------
_AST_CACHE = {}


def module_ast(mod):
    fn = inspect.getsourcefile(mod)
    key = (fn, os.path.getmtime(fn))
    if key not in _AST_CACHE:
        _AST_CACHE[key] = ast.parse(open(fn).read(), filename=fn)
    return _AST_CACHE[key]


def class_ast(cls):
    mod = sys.modules[cls.__module__]
    tree = module_ast(mod)
    for node in tree.body:
        if isinstance(node, ast.ClassDef) and node.name == cls.__name__:
            return node
    raise Abort(f"class {cls.__name__} not found at top level of {cls.__module__}")


def func_ast(fn):
    mod = sys.modules[fn.__module__]
    tree = module_ast(mod)
    for node in tree.body:
        if isinstance(node, ast.FunctionDef) and node.name == fn.__name__:
            return node
    raise Abort(f"function {fn.__name__} not found at top level of {fn.__module__}")


def methods_of(cnode):
    return {n.name: n for n in cnode.body if isinstance(n, ast.FunctionDef)}


def is_kd(cls):
    return cls.__module__.startswith("kappadata")


def kd_mro(cls):
    return [c for c in cls.__mro__ if is_kd(c)]


def discover(repo, dirs):
    """import every module under the given package directories -> (modules, errors)"""
    mods, errors = [], []
    for d in dirs:
        root = os.path.join(repo, d)
        for path, subdirs, files in os.walk(root):
            subdirs.sort()
            subdirs[:] = [s for s in subdirs if s != "__pycache__"]
            for f in sorted(files):
                if not f.endswith(".py"):
                    continue
                rel = os.path.relpath(os.path.join(path, f), repo)[:-3].replace(os.sep, ".")
                if rel.endswith(".__init__"):
                    rel = rel[:-len(".__init__")]
                try:
                    mods.append(importlib.import_module(rel))
                except Exception as e:  # noqa
                    errors.append(f"module {rel} cannot be imported: {type(e).__name__}: {e}")
    return mods, errors


def classes_in(mods, base):
    out = {}
    for m in mods:
        for name, obj in sorted(vars(m).items()):
            if inspect.isclass(obj) and obj.__module__ == m.__name__ and issubclass(obj, base):
                out[(obj.__module__, obj.__name__)] = obj
    return [out[k] for k in sorted(out)]


# ---------------------------------------------------------------------------
# ast helpers
# ---------------------------------------------------------------------------
def chain_of(node):
    """Name/Attribute/Subscript chain -> list of names ('[]' marks a subscript, 'super()' a super() call)"""
    out = []
    while True:
        if isinstance(node, ast.Attribute):
            out.append(node.attr)
            node = node.value
        elif isinstance(node, ast.Subscript):
            out.append("[]")
            node = node.value
        elif isinstance(node, ast.Name):
            out.append(node.id)
            break
        elif isinstance(node, ast.Call) and isinstance(node.func, ast.Name) and node.func.id == "super":
            out.append("super()")
            break
        else:
            return None
    return out[::-1]


def is_self_attr(node, attr=None):
    return (isinstance(node, ast.Attribute) and isinstance(node.value, ast.Name) and node.value.id == "self"
            and (attr is None or node.attr == attr))


def module_kind(obj):
    if inspect.ismodule(obj):
        n = obj.__name__
        if n == "numpy":
            return "numpy"
        if n == "numpy.random":
            return "numpy.random"
        if n == "random":
            return "pyrandom"
        if n == "torch":
            return "torch"
    return None


def guard_classes(node, mod):
    """isinstance second argument -> list of class names"""
    elts = node.elts if isinstance(node, ast.Tuple) else [node]
    names = []
    for e in elts:
        ch = chain_of(e)
        if ch is None:
            raise Abort(f"guard class expression not understood: {ast.unparse(node)}")
        if ch[0] == "self":
            # class-level tuple such as self._SEMSEG_TRANSFORMS
            raise Abort("guard refers to an attribute: " + ast.unparse(node))
        obj = mod.__dict__.get(ch[0])
        for a in ch[1:]:
            obj = getattr(obj, a, None)
        if not inspect.isclass(obj):
            raise Abort(f"guard name {ast.unparse(e)} does not resolve to a class")
        names.append(obj.__name__)
    return names


# ---------------------------------------------------------------------------
# field extraction from __init__
# ---------------------------------------------------------------------------
class Field:
    def __init__(self, kind, classes=None, many=False, tv=None):
        self.kind = kind            # child | helper | foreign | rng | method | param | data
        self.classes = classes or []   # static classes for child ([] = dynamic)
        self.many = many
        self.tv = tv or []          # torchvision class names for foreign


def classify_value(v, mod, params, kd_base):
    if isinstance(v, ast.Call):
        ch = chain_of(v.func)
        if ch and ch[0] != "self" and ch[0] != "super()":
            obj = mod.__dict__.get(ch[0])
            for a in ch[1:]:
                obj = getattr(obj, a, None) if obj is not None else None
            if inspect.isfunction(obj) and obj.__name__ == "get_rng_from_global":
                return Field("rng")
            if inspect.isfunction(obj) and obj.__name__ == "object_to_transform":
                return Field("child", [], False)
            if inspect.isclass(obj):
                if issubclass(obj, kd_base):
                    return Field("child", [obj.__name__], False)
                if obj.__name__ in ("MagnitudeSampler",):
                    return Field("helper", [obj.__name__])
                if obj.__module__.startswith("torchvision") and not issubclass(obj, enum.Enum):
                    return Field("foreign", [FOREIGN], False, tv=[obj.__name__])
        return Field("data")
    if isinstance(v, ast.ListComp) and isinstance(v.elt, ast.Call):
        ch = chain_of(v.elt.func)
        if ch == ["object_to_transform"]:
            return Field("child", [], True)
        return Field("data")
    if isinstance(v, ast.Name) and v.id in params:
        return Field("param")
    if is_self_attr(v):
        return Field("method")
    return Field("data")


def merge_field(a, b):
    if a is None:
        return b
    if a.kind != b.kind:
        if {a.kind, b.kind} <= {"data", "method", "param"}:
            return Field("data")
        raise Abort(f"field assigned values of different kinds ({a.kind}, {b.kind})")
    return Field(a.kind, sorted(set(a.classes) | set(b.classes)) if a.classes and b.classes else [],
                 a.many or b.many, sorted(set(a.tv) | set(b.tv)))


def init_fields(cls, kd_base):
    """fields assigned in __init__ along the kappadata part of the MRO"""
    fields = {}
    for c in reversed(kd_mro(cls)):
        cnode = class_ast(c)
        init = methods_of(cnode).get("__init__")
        if init is None:
            continue
        mod = sys.modules[c.__module__]
        params = {a.arg for a in init.args.args + init.args.kwonlyargs}
        if init.args.vararg:
            params.add(init.args.vararg.arg)
        if init.args.kwarg:
            params.add(init.args.kwarg.arg)
        for node in ast.walk(init):
            targets, value = [], None
            if isinstance(node, ast.Assign):
                targets, value = node.targets, node.value
            elif isinstance(node, ast.AnnAssign) and node.value is not None:
                targets, value = [node.target], node.value
            for t in targets:
                if is_self_attr(t):
                    f = classify_value(value, mod, params, kd_base)
                    if f.kind == "rng" and t.attr != "rng":
                        raise Abort(f"{c.__name__}.__init__: generator stored under '{t.attr}', only 'rng' is understood")
                    if t.attr == "rng" and f.kind != "rng":
                        raise Abort(f"{c.__name__}.__init__: self.rng assigned from {ast.unparse(value)}")
                    fields[t.attr] = merge_field(fields.get(t.attr), f)
    return fields


# ---------------------------------------------------------------------------
# set_rng
# ---------------------------------------------------------------------------
def parse_forward_stmts(stmts, rngname, mod, who, recv_ok, loopvar=None):
    """statements that (conditionally) forward set_rng -> list of (guard) ; recv_ok(node)->field or None"""
    out = []
    for st in stmts:
        call = None
        if isinstance(st, ast.Expr) and isinstance(st.value, ast.Call):
            call = st.value
        elif isinstance(st, ast.Return) and isinstance(st.value, ast.Call):
            call = st.value
        if call is not None and isinstance(call.func, ast.Attribute) and call.func.attr == "set_rng":
            f = recv_ok(call.func.value)
            if f is not None and len(call.args) == 1 and isinstance(call.args[0], ast.Name) and call.args[0].id == rngname \
                    and not call.keywords:
                out.append((f, None))
                continue
        if isinstance(st, ast.If) and not st.orelse and isinstance(st.test, ast.Call) \
                and isinstance(st.test.func, ast.Name) and st.test.func.id == "isinstance" and len(st.test.args) == 2:
            f = recv_ok(st.test.args[0])
            if f is not None:
                inner = parse_forward_stmts(st.body, rngname, mod, who, recv_ok)
                if inner and all(g is None and ff == f for ff, g in inner):
                    out.append((f, guard_classes(st.test.args[1], mod)))
                    continue
        raise Abort(f"{who}: unknown statement shape at line {st.lineno}: {ast.unparse(st).splitlines()[0]}")
    return out


def effective_set_rng(cls):
    """-> (set_self, [(field, guard|None)])   guard None = unconditional"""
    mro = kd_mro(cls)
    set_self = False
    fwd = []
    start = 0
    while True:
        definer = None
        for i in range(start, len(mro)):
            if "set_rng" in vars(mro[i]):
                definer = i
                break
        if definer is None:
            break
        c = mro[definer]
        fn = methods_of(class_ast(c))["set_rng"]
        mod = sys.modules[c.__module__]
        who = f"{c.__name__}.set_rng"
        if len(fn.args.args) != 2 or fn.args.vararg or fn.args.kwarg or fn.args.kwonlyargs:
            raise Abort(f"{who}: unexpected signature")
        rngname = fn.args.args[1].arg
        follow_super = False

        def self_field(node):
            return node.attr if is_self_attr(node) else None

        for st in fn.body:
            if isinstance(st, ast.Pass):
                continue
            if isinstance(st, ast.Expr) and isinstance(st.value, ast.Constant):
                continue
            if isinstance(st, ast.Return) and (st.value is None or (isinstance(st.value, ast.Name) and st.value.id == "self")):
                continue
            if isinstance(st, ast.Raise):
                # abstract hook (collator base)
                continue
            if isinstance(st, ast.Assign) and len(st.targets) == 1 and is_self_attr(st.targets[0], "rng") \
                    and isinstance(st.value, ast.Name) and st.value.id == rngname:
                set_self = True
                continue
            call = st.value if isinstance(st, (ast.Expr, ast.Return)) and isinstance(st.value, ast.Call) else None
            if call is not None and chain_of(call.func) == ["super()", "set_rng"] and len(call.args) == 1 \
                    and isinstance(call.args[0], ast.Name) and call.args[0].id == rngname:
                follow_super = True
                continue
            if isinstance(st, ast.For) and isinstance(st.target, ast.Name) and is_self_attr(st.iter) and not st.orelse:
                field, var = st.iter.attr, st.target.id

                def loop_recv(node, var=var, field=field):
                    return field if isinstance(node, ast.Name) and node.id == var else None

                fwd += parse_forward_stmts(st.body, rngname, mod, who, loop_recv)
                continue
            fwd += parse_forward_stmts([st], rngname, mod, who, self_field)
        if not follow_super:
            break
        start = definer + 1
    return set_self, fwd


# ---------------------------------------------------------------------------
# draw sources / called fields
# ---------------------------------------------------------------------------
class Scan:
    def __init__(self):
        self.self_draw = False
        self.globs = set()
        self.calls = set()
        self.errors = []
        self.param_draw = False
        self.local_seeded = False     # wrappers: draws rooted at the per-item generator


def call_is_seeded_default_rng(call):
    args = list(call.args) + [k.value for k in call.keywords if k.arg == "seed"]
    if not args:
        return False
    a = args[0]
    return not (isinstance(a, ast.Constant) and a.value is None)


def scan_function(fn, mod, fields, live_cls, scan, who, seen, self_rng_is_draw=True, local_gens=None):
    """fn: ast.FunctionDef; fields: name->Field of the owning class ({} for plain functions)"""
    params = {a.arg for a in fn.args.args + fn.args.kwonlyargs}
    loopvars = {}
    aliases = set()
    local_gens = dict(local_gens or {})     # local name -> 'seeded' | 'glob:<g>' | 'mixed'
    for node in ast.walk(fn):
        if isinstance(node, ast.For) and isinstance(node.target, ast.Name) and is_self_attr(node.iter):
            loopvars[node.target.id] = node.iter.attr
        if isinstance(node, ast.Assign) and len(node.targets) == 1 and isinstance(node.targets[0], ast.Name) \
                and is_self_attr(node.value, "rng"):
            aliases.add(node.targets[0].id)
    for node in ast.walk(fn):
        if is_self_attr(node, "rng") and isinstance(node.ctx, ast.Load) and self_rng_is_draw:
            scan.self_draw = True
        if not isinstance(node, ast.Call):
            continue
        ch = chain_of(node.func)
        if ch is None:
            continue
        # loop variables over child fields used as call arguments (self._apply(t, x, ctx))
        for a in list(node.args) + [k.value for k in node.keywords]:
            if isinstance(a, ast.Name) and a.id in loopvars and loopvars[a.id] in fields \
                    and fields[loopvars[a.id]].kind in ("child", "foreign"):
                scan.calls.add(loopvars[a.id])
            if is_self_attr(a) and a.attr in fields and fields[a.attr].kind in ("child", "foreign"):
                scan.calls.add(a.attr)
        if ch[0] == "self":
            if len(ch) == 1:
                continue
            name = ch[1]
            f = fields.get(name)
            rest = [x for x in ch[2:] if x != "[]"]
            if f is not None and f.kind in ("child", "foreign"):
                if not rest or rest[-1] not in ("set_rng",):
                    scan.calls.add(name)
                    if f.kind == "foreign":
                        for tv in f.tv:
                            if tv not in TV_DETERMINISTIC:
                                scan.globs.add("GTorch")
                continue
            if f is not None and f.kind == "rng":
                continue
            if f is not None and f.kind == "helper":
                scan.globs |= helper_globs(f.classes[0], mod, seen)
                continue
            if rest and rest[-1] in NP_GEN_METHODS:
                scan.errors.append(f"{who}: random-looking call on unknown attribute: {ast.unparse(node.func)} (line {node.lineno})")
            continue
        if ch[0] == "super()":
            continue
        root = ch[0]
        if root in loopvars:
            fld = loopvars[root]
            if fld in fields and fields[fld].kind in ("child", "foreign") and ch[-1] != "set_rng":
                scan.calls.add(fld)
            continue
        if root in aliases:
            scan.self_draw = True
            continue
        if root in local_gens and len(ch) == 2:
            kind = local_gens[root]
            if kind == "seeded":
                scan.local_seeded = True
            else:
                for g in kind.split(":")[1:]:
                    scan.globs.add(g)
            continue
        obj = mod.__dict__.get(root, None)
        mk = module_kind(obj)
        if mk == "numpy" and len(ch) >= 3 and ch[1] == "random":
            if ch[2] == "default_rng":
                if not call_is_seeded_default_rng(node):
                    scan.globs.add("GFresh")
            elif ch[2] not in NP_RANDOM_NON_DRAW:
                scan.globs.add("GNumpy")
            continue
        if mk == "numpy.random":
            if ch[1] == "default_rng":
                if not call_is_seeded_default_rng(node):
                    scan.globs.add("GFresh")
            elif ch[1] not in NP_RANDOM_NON_DRAW:
                scan.globs.add("GNumpy")
            continue
        if mk == "pyrandom":
            scan.globs.add("GPython")
            continue
        if mk == "torch":
            if ch[-1] in TORCH_RANDOM and not any(k.arg == "generator" for k in node.keywords):
                scan.globs.add("GTorch")
            continue
        if mk == "numpy":
            continue
        if inspect.isfunction(obj) and obj.__module__.startswith("kappadata"):
            if obj.__name__ == "get_rng_from_global":
                scan.globs.add("GNumpy")
                continue
            key = (obj.__module__, obj.__name__)
            if key not in seen:
                seen.add(key)
                sub = Scan()
                scan_function(func_ast(obj), sys.modules[obj.__module__], {}, None, sub, obj.__name__, seen)
                _FUNC_GLOBS[key] = (set(sub.globs), list(sub.errors))
            g, e = _FUNC_GLOBS.get(key, (set(), []))
            scan.globs |= g
            scan.errors += e
            continue
        if inspect.isclass(obj) and obj.__name__ == "GlobalRng":
            scan.globs.add("GNumpy")
            continue
        if inspect.isfunction(obj) and getattr(obj, "__module__", "").startswith("random"):
            scan.globs.add("GPython")
            continue
        if inspect.isbuiltin(obj) or inspect.isfunction(obj) or inspect.isclass(obj) or inspect.ismodule(obj):
            # library call: torchvision functional ops etc. are deterministic functions of their arguments (trusted);
            # numpy/torch/random *functions imported by name* are caught here
            m = getattr(obj, "__module__", "") or ""
            nm = getattr(obj, "__name__", "")
            if (m.startswith("numpy.random") or m == "random") and nm not in NP_RANDOM_NON_DRAW:
                scan.globs.add("GNumpy" if m.startswith("numpy") else "GPython")
            if m.startswith("torch") and nm in TORCH_RANDOM and not any(k.arg == "generator" for k in node.keywords):
                scan.globs.add("GTorch")
            continue
        # a local name
        if len(ch) == 2 and ch[1] in NP_GEN_METHODS:
            if root in params:
                scan.param_draw = True
            else:
                scan.errors.append(f"{who}: random call on a local of unknown origin: {ast.unparse(node.func)} (line {node.lineno})")
    return scan


_FUNC_GLOBS = {}
_HELPER_GLOBS = {}


def helper_globs(clsname, mod, seen):
    if clsname in _HELPER_GLOBS:
        return _HELPER_GLOBS[clsname]
    obj = None
    for m in list(sys.modules.values()):
        if getattr(m, "__name__", "").startswith("kappadata") and inspect.isclass(getattr(m, clsname, None)):
            obj = getattr(m, clsname)
            break
    sc = Scan()
    if obj is None:
        sc.errors.append(f"helper class {clsname} not found")
    else:
        cm = sys.modules[obj.__module__]
        for name, fn in methods_of(class_ast(obj)).items():
            scan_function(fn, cm, {}, obj, sc, f"{clsname}.{name}", seen, self_rng_is_draw=False)
        if sc.errors:
            raise Abort("; ".join(sc.errors))
    _HELPER_GLOBS[clsname] = set(sc.globs)
    return _HELPER_GLOBS[clsname]


def promote_param_fields(cls, fields):
    """a field that stores a constructor parameter and is called / iterated+called / receives set_rng is a child"""
    used_single, used_many = set(), set()
    for c in kd_mro(cls):
        for name, fn in methods_of(class_ast(c)).items():
            if name == "__init__":
                continue
            loopvars = {}
            for node in ast.walk(fn):
                if isinstance(node, ast.For) and isinstance(node.target, ast.Name) and is_self_attr(node.iter):
                    loopvars[node.target.id] = node.iter.attr
            for node in ast.walk(fn):
                if not isinstance(node, ast.Call):
                    continue
                ch = chain_of(node.func)
                if not ch:
                    continue
                if ch[0] == "self" and len(ch) >= 2:
                    rest = ch[2:]
                    if not rest:
                        used_single.add(ch[1])
                    elif rest[0] == "[]" and (len(rest) == 1 or rest[-1] in ("set_rng",)):
                        used_many.add(ch[1])
                    elif rest == ["set_rng"]:
                        used_single.add(ch[1])
                elif ch[0] in loopvars and (len(ch) == 1 or ch[-1] == "set_rng"):
                    used_many.add(loopvars[ch[0]])
                for a in node.args:
                    if isinstance(a, ast.Name) and a.id in loopvars and ch[0] == "self" and ch[1:] == ["_apply"]:
                        used_many.add(loopvars[a.id])
    for name, f in list(fields.items()):
        if f.kind == "param":
            if name in used_many:
                fields[name] = Field("child", [], True)
            elif name in used_single:
                fields[name] = Field("child", [], False)
            else:
                fields[name] = Field("data")


def describe_class(cls, kd_base):
    fields = init_fields(cls, kd_base)
    promote_param_fields(cls, fields)
    set_self, fwd = effective_set_rng(cls)
    for f, g in fwd:
        if f not in fields or fields[f].kind not in ("child", "foreign"):
            raise Abort(f"{cls.__name__}.set_rng forwards to '{f}', which __init__ does not set to a transform")
    scan = Scan()
    seen = set()
    for c in kd_mro(cls):
        mod = sys.modules[c.__module__]
        for name, fn in methods_of(class_ast(c)).items():
            if name in SKIP_METHODS:
                if name == "worker_init_fn" and c.__name__ not in ("KDTransform", "KDCollatorBase"):
                    raise Abort(f"{c.__name__} overrides worker_init_fn (line {fn.lineno}); only the hook of the base class "
                                "(checked by transform_hook_shape) is understood")
                if name == "_worker_init_fn":
                    for node in ast.walk(fn):
                        if (isinstance(node, ast.Attribute) and node.attr in ("rng", "set_rng")) or \
                                (isinstance(node, ast.Name) and node.id == "get_rng_from_global"):
                            raise Abort(f"{c.__name__}._worker_init_fn touches generators (line {node.lineno}); "
                                        "only KDTransform.worker_init_fn -> set_rng is understood")
                continue
            scan_function(fn, mod, fields, cls, scan, f"{c.__name__}.{name}", seen)
    if scan.errors:
        raise Abort("; ".join(scan.errors))
    child_fields = {n: f for n, f in fields.items() if f.kind in ("child", "foreign")}
    return {
        "name": cls.__name__,
        "mro": [c.__name__ for c in kd_mro(cls)],
        "fields": sorted((n, sorted(f.classes)) for n, f in child_fields.items()),
        "many": sorted(n for n, f in child_fields.items() if f.many),
        "own": "rng" in fields and fields["rng"].kind == "rng",
        "set_self": set_self,
        "set_fwd": [(f, g) for f, g in fwd],
        "draw_self": scan.self_draw,
        "draw_glob": sorted(scan.globs),
        "calls": sorted(scan.calls & set(child_fields)),
        "module": cls.__module__,
    }


# ---------------------------------------------------------------------------
# sample wrappers (C08 / C09)
# ---------------------------------------------------------------------------
GETITEM_CORE = {  # class that defines the per-item code -> function names holding it
}


def wrapper_transform_fields(cls, kd_transform):
    """transform-valued fields of a sample wrapper: object_to_transform(...) values, transform-class constructor
    calls, lists of those, the parsed multi-view configs"""
    fields = {}
    for c in reversed(kd_mro(cls)):
        init = methods_of(class_ast(c)).get("__init__")
        if init is None:
            continue
        mod = sys.modules[c.__module__]
        local_lists = {}
        for node in ast.walk(init):
            if not isinstance(node, ast.Assign) or len(node.targets) != 1:
                continue
            t, v = node.targets[0], node.value
            if not is_self_attr(t):
                continue
            name = t.attr
            if isinstance(v, ast.Call):
                ch = chain_of(v.func)
                obj = mod.__dict__.get(ch[0]) if ch and ch[0] not in ("self", "super()") else None
                if inspect.isfunction(obj) and obj.__name__ == "object_to_transform":
                    fields[name] = ([], False)
                elif inspect.isclass(obj) and issubclass(obj, kd_transform):
                    fields[name] = ([obj.__name__], False)
            elif isinstance(v, ast.ListComp) and isinstance(v.elt, ast.Call) and chain_of(v.elt.func) == ["object_to_transform"]:
                fields[name] = ([], True)
            elif isinstance(v, ast.List) and v.elts and all(is_self_attr(e) and e.attr in fields for e in v.elts):
                # list of already known transform fields (MUGS: self.transforms = [self.teacher_transform0, ...])
                cls_union = sorted({c2 for e in v.elts for c2 in fields[e.attr][0]})
                fields[name] = (cls_union, True)
                fields[name + "#alias"] = ([e.attr for e in v.elts], True)
            elif isinstance(v, ast.Name) and v.id == "configs" and name == "transform_configs":
                # KDMultiViewWrapper: list of KDMultiViewConfig(n_views, transform); the transform of config k is
                # modelled as the member k of the field
                fields[name] = ([], True)
    return fields


MUTATORS = {"append", "extend", "insert", "pop", "remove", "clear", "update", "setdefault", "add", "discard", "popitem",
            "appendleft", "popleft", "put", "sort", "reverse", "__setitem__", "__setattr__", "__delitem__",
            "fill_", "copy_", "zero_", "mul_", "add_", "sub_", "div_"}
CACHE_DECORATORS = {"lru_cache", "cache", "cached_property", "memoize"}


def wrapper_state_writes(cls, kd_wrapper):
    """The model of a sample wrapper has NO state besides the generator slots of its transforms (getitem_state changes
    nothing else).  That is checked here, syntactically and fail-closed: the per-item code - every getitem_* / _getitem
    function along the kappadata MRO and every method of the class it (transitively) calls through self.<method>(...) -
    must not assign / delete / augment an attribute or item rooted at `self`, must not call a known mutator method on
    one, must not use setattr / self.__dict__ / global / nonlocal, and must not be wrapped into a caching decorator.
    -> list of offending places (empty = stateless)"""
    methods = {}
    for c in reversed(kd_mro(cls)):
        if not issubclass(c, kd_wrapper):
            continue
        for name, fn in methods_of(class_ast(c)).items():
            methods[name] = (c, fn)            # most derived definition wins
    work = [n for n in methods if n.startswith("getitem_") or n == "_getitem"]
    seen = set()
    bad = []

    def self_rooted(node):
        ch = chain_of(node)
        return ch is not None and len(ch) >= 2 and ch[0] == "self"

    while work:
        name = work.pop()
        if name in seen or name not in methods:
            continue
        seen.add(name)
        c, fn = methods[name]
        who = f"{c.__name__}.{name}"
        for dec in fn.decorator_list:
            d = dec.func if isinstance(dec, ast.Call) else dec
            ch = chain_of(d)
            if ch and ch[-1] in CACHE_DECORATORS:
                bad.append(f"{who} is wrapped into the caching decorator {ast.unparse(dec)}")
        for node in ast.walk(fn):
            if isinstance(node, (ast.Global, ast.Nonlocal)):
                bad.append(f"{who}: {ast.unparse(node)} (line {node.lineno})")
            targets = []
            if isinstance(node, ast.Assign):
                targets = node.targets
            elif isinstance(node, (ast.AugAssign, ast.AnnAssign)):
                targets = [node.target]
            elif isinstance(node, ast.Delete):
                targets = node.targets
            elif isinstance(node, (ast.For, ast.comprehension)):
                targets = [node.target]
            elif isinstance(node, ast.NamedExpr):
                targets = [node.target]
            elif isinstance(node, ast.withitem) and node.optional_vars is not None:
                targets = [node.optional_vars]
            flat = []
            for t in targets:
                flat += [e for e in ast.walk(t) if isinstance(e, (ast.Attribute, ast.Subscript))] if isinstance(t, (ast.Tuple, ast.List, ast.Starred)) else [t]
            for t in flat:
                if isinstance(t, (ast.Attribute, ast.Subscript)) and self_rooted(t):
                    bad.append(f"{who} writes {ast.unparse(t)} (line {t.lineno}): state that outlives the request")
            if isinstance(node, ast.Call):
                ch = chain_of(node.func)
                if isinstance(node.func, ast.Name) and node.func.id in ("setattr", "delattr") and node.args \
                        and isinstance(node.args[0], ast.Name) and node.args[0].id == "self":
                    bad.append(f"{who}: {ast.unparse(node)} (line {node.lineno})")
                if ch and ch[0] == "self" and len(ch) == 2:
                    work.append(ch[1])
                if ch and ch[0] == "self" and len(ch) >= 3 and ch[-1] in MUTATORS:
                    bad.append(f"{who} calls the mutator {ast.unparse(node.func)} (line {node.lineno}): state that "
                               "outlives the request")
            if isinstance(node, ast.Attribute) and node.attr == "__dict__" and isinstance(node.value, ast.Name) \
                    and node.value.id == "self":
                bad.append(f"{who} touches self.__dict__ (line {node.lineno})")
    return bad


def describe_wrapper(cls, kd_transform, kd_wrapper):
    """descriptor of a sample wrapper; understands the five per-item code shapes that exist in the package"""
    who = cls.__name__
    writes = wrapper_state_writes(cls, kd_wrapper)
    if writes:
        raise Abort("per-item code keeps state between requests (the model of a wrapper has none besides the generator "
                    "slots of its transforms): " + "; ".join(writes[:4]))
    fields = wrapper_transform_fields(cls, kd_transform)
    aliases = {k[:-6]: v[0] for k, v in fields.items() if k.endswith("#alias")}
    fields = {k: v for k, v in fields.items() if not k.endswith("#alias")}
    inject, calls, local, wi = [], set(), set(), []
    local_u = set()
    understood = False
    core = []     # (defining class, function) pairs that hold per-item code touching generators / transforms
    for c in kd_mro(cls):
        if c is kd_wrapper or not issubclass(c, kd_wrapper):
            continue
        mod = sys.modules[c.__module__]
        for name, fn in methods_of(class_ast(c)).items():
            if name == "worker_init_fn":
                raise Abort(f"{c.__name__} overrides worker_init_fn (line {fn.lineno}); only KDWrapper.worker_init_fn "
                            "(own hook, then the wrapped dataset) is understood")
            if name == "_worker_init_fn":
                wi += parse_wrapper_worker_init(fn, mod, f"{c.__name__}._worker_init_fn", fields)
                continue
            if not (name.startswith("getitem_") or name == "_getitem"):
                continue
            res = parse_getitem(fn, mod, f"{c.__name__}.{name}", fields)
            if res is None:
                continue
            understood = True
            core.append((c.__name__, name))
            inject += [x for x in res["inject"] if x not in inject]
            calls |= res["calls"]
            local |= res["local"]
            local_u |= res["local_u"]
    # fields that merely alias other fields (MUGS.transforms) stand for their targets
    def expand(lst):
        out = []
        for f, g in lst:
            for tgt in aliases.get(f, [f]):
                if (tgt, g) not in out:
                    out.append((tgt, g))
        return out
    def union(lst):
        # the same field reached under several guards: admitted by any of them
        out = {}
        order = []
        for f, g in lst:
            if f not in out:
                out[f] = g
                order.append(f)
            elif out[f] is None or g is None:
                out[f] = None
            else:
                out[f] = out[f] + [c for c in g if c not in out[f]]
        return [(f, out[f]) for f in order]
    inject, wi = union(expand(inject)), union(expand(wi))
    calls = {t for f in calls for t in aliases.get(f, [f])}
    for a in aliases:
        fields.pop(a, None)
    return {
        "name": who,
        "fields": sorted((n, sorted(cs)) for n, (cs, many) in fields.items()),
        "inject": inject,
        "calls": sorted(calls),
        "local": sorted(local),
        "local_u": sorted(local_u),
        "wi": wi,
        "has_seed": "seed" in inspect.signature(cls.__init__).parameters or any(
            "seed" in inspect.signature(c.__init__).parameters for c in kd_mro(cls) if "__init__" in vars(c)),
        "understood": understood,
        "core": core,
        "module": cls.__module__,
    }


def parse_wrapper_worker_init(fn, mod, who, fields):
    """_worker_init_fn: (loops over) `if isinstance(T, G): T.worker_init_fn(rank, **kwargs)`"""
    out = []

    def handle(stmts, recv):
        for st in stmts:
            if isinstance(st, ast.Pass) or (isinstance(st, ast.Expr) and isinstance(st.value, ast.Constant)):
                continue
            if isinstance(st, ast.For) and isinstance(st.target, ast.Name) and is_self_attr(st.iter) and not st.orelse:
                field, var = st.iter.attr, st.target.id
                if field not in fields:
                    raise Abort(f"{who}: loop over unknown field {field}")

                def loop_recv(node, var=var, field=field):
                    if isinstance(node, ast.Name) and node.id == var:
                        return field
                    # config.transform of a multi-view config
                    if isinstance(node, ast.Attribute) and node.attr == "transform" and isinstance(node.value, ast.Name) \
                            and node.value.id == var:
                        return field
                    return None

                handle(st.body, loop_recv)
                continue
            guard = None
            body = [st]
            if isinstance(st, ast.If) and not st.orelse and isinstance(st.test, ast.Call) \
                    and isinstance(st.test.func, ast.Name) and st.test.func.id == "isinstance" and len(st.test.args) == 2:
                f0 = recv(st.test.args[0])
                if f0 is None:
                    raise Abort(f"{who}: unknown guard subject at line {st.lineno}: {ast.unparse(st.test)}")
                guard = guard_classes(st.test.args[1], mod)
                body = st.body
            for b in body:
                call = b.value if isinstance(b, ast.Expr) and isinstance(b.value, ast.Call) else None
                if call is None or not isinstance(call.func, ast.Attribute) or call.func.attr != "worker_init_fn":
                    raise Abort(f"{who}: unknown statement shape at line {b.lineno}: {ast.unparse(b).splitlines()[0]}")
                f = recv(call.func.value)
                if f is None:
                    raise Abort(f"{who}: worker_init_fn called on something that is not a transform field (line {b.lineno})")
                out.append((f, guard))

    def self_recv(node):
        return node.attr if is_self_attr(node) and node.attr in fields else None

    handle(fn.body, self_recv)
    return out


def parse_getitem(fn, mod, who, fields):
    """per-item code of a wrapper.  Finds the per-item generator
         rng = np.random.default_rng(seed=self.seed + idx)           (must be exactly this seed expression)
       optionally inside `if self.seed is not None:` (the seeded branch is the one modelled; an else branch
       binding rng to something else is recorded as the unseeded source and ignored here), the guarded
       T.set_rng(rng) forwards, the calls of transform fields and the draws on rng itself.
       Returns None when the function does not touch transforms or generators at all."""
    src = ast.unparse(fn)
    touches = ("set_rng" in src or "default_rng" in src or "rng" in src
               or any(("self." + f) in src for f in fields))
    if not touches:
        return None
    res = {"inject": [], "calls": set(), "local": set(), "local_u": set()}
    idxname = fn.args.args[1].arg if len(fn.args.args) > 1 and fn.args.args[1].arg in ("idx",) else "idx"
    loopvars = {}     # var -> field (for t in self.F) ; config loops: var.transform -> field
    for node in ast.walk(fn):
        if isinstance(node, ast.For) and isinstance(node.target, ast.Name) and is_self_attr(node.iter) \
                and node.iter.attr in fields:
            loopvars[node.target.id] = node.iter.attr

    def recv_field(node):
        if is_self_attr(node) and node.attr in fields:
            return node.attr
        if isinstance(node, ast.Name) and node.id in loopvars:
            return loopvars[node.id]
        if isinstance(node, ast.Attribute) and node.attr == "transform" and isinstance(node.value, ast.Name) \
                and node.value.id in loopvars:
            return loopvars[node.value.id]
        return None

    # 1. generator bindings
    gen_names = {}
    for node in ast.walk(fn):
        if isinstance(node, ast.Assign) and len(node.targets) == 1 and isinstance(node.targets[0], ast.Name):
            v = node.value
            nm = node.targets[0].id
            if isinstance(v, ast.Call):
                ch = chain_of(v.func)
                if ch and ch[-1] == "default_rng":
                    if ch[0] not in mod.__dict__:
                        raise Abort(f"{who}: name '{ch[0]}' is not defined in module {mod.__name__} (line {node.lineno})")
                    if module_kind(mod.__dict__.get(ch[0])) not in ("numpy", "numpy.random"):
                        raise Abort(f"{who}: default_rng on an unknown module (line {node.lineno})")
                    seed_expr = None
                    for k in v.keywords:
                        if k.arg == "seed":
                            seed_expr = k.value
                    if seed_expr is None and v.args:
                        seed_expr = v.args[0]
                    txt = ast.unparse(seed_expr) if seed_expr is not None else "None"
                    ok = (f"self.seed + {idxname}", f"self.seed + {idxname} if self.seed is not None else None")
                    if txt not in ok:
                        raise Abort(f"{who}: per-item generator seeded with `{txt}` (line {node.lineno}); only "
                                    f"`self.seed + {idxname}` is understood")
                    if len(v.args) + len(v.keywords) != 1:
                        raise Abort(f"{who}: default_rng with extra arguments (line {node.lineno})")
                    gen_names.setdefault(nm, set()).add("seeded")
                    if txt == ok[1]:
                        # default_rng(None) when the wrapper has no seed: OS entropy
                        gen_names[nm].add("unseeded:GFresh")
                elif ch and inspect.isclass(mod.__dict__.get(ch[0])) and mod.__dict__[ch[0]].__name__ == "GlobalRng":
                    if v.args or v.keywords:
                        raise Abort(f"{who}: GlobalRng with arguments (line {node.lineno})")
                    gen_names.setdefault(nm, set()).add("unseeded:GNumpy")
                elif nm == "rng" or nm.endswith("_rng") or nm == "generator":
                    raise Abort(f"{who}: generator-looking local `{nm}` bound to `{ast.unparse(v)[:60]}` "
                                f"(line {node.lineno}); only default_rng(seed=self.seed + {idxname}), GlobalRng() and "
                                "None are understood")
            elif isinstance(v, ast.Constant) and v.value is None:
                gen_names.setdefault(nm, set()).add("unseeded")
            elif nm == "rng" or nm.endswith("_rng") or nm == "generator":
                raise Abort(f"{who}: generator-looking local `{nm}` bound to `{ast.unparse(v)[:60]}` (line {node.lineno}); "
                            f"only default_rng(seed=self.seed + {idxname}), GlobalRng() and None are understood")
    gens = {n for n, kinds in gen_names.items() if "seeded" in kinds}

    # 2. walk statements: forwards, calls, local draws
    def visit(stmts, guard_ctx):
        for st in stmts:
            if isinstance(st, ast.If):
                t = st.test
                if isinstance(t, ast.BoolOp) and isinstance(t.op, ast.And):
                    # `rng is not None and isinstance(T, G)`: the isinstance conjunct is the guard
                    isi = [v for v in t.values if isinstance(v, ast.Call) and isinstance(v.func, ast.Name)
                           and v.func.id == "isinstance"]
                    rest = [v for v in t.values if v not in isi]
                    if len(isi) == 1 and all(ast.unparse(v) in ("rng is not None", "self.seed is not None") for v in rest):
                        t = isi[0]
                # isinstance guard around set_rng / calls
                if isinstance(t, ast.Call) and isinstance(t.func, ast.Name) and t.func.id == "isinstance" and len(t.args) == 2:
                    f = recv_field(t.args[0])
                    if f is not None:
                        a1 = t.args[1]
                        if is_self_attr(a1):
                            g = ("attr", a1.attr)
                        else:
                            g = guard_classes(a1, mod)
                        visit(st.body, {**guard_ctx, f: g})
                        visit(st.orelse, guard_ctx)
                        continue
                visit(st.body, guard_ctx)
                visit(st.orelse, guard_ctx)
                continue
            if isinstance(st, (ast.For, ast.While)):
                visit(st.body, guard_ctx)
                visit(st.orelse, guard_ctx)
                continue
            for node in ast.walk(st):
                if not isinstance(node, ast.Call):
                    continue
                ch = chain_of(node.func)
                if isinstance(node.func, ast.Attribute) and node.func.attr == "set_rng":
                    f = recv_field(node.func.value)
                    if f is None:
                        raise Abort(f"{who}: set_rng on something that is not a transform field (line {node.lineno})")
                    if not (len(node.args) == 1 and isinstance(node.args[0], ast.Name) and node.args[0].id in gens):
                        raise Abort(f"{who}: set_rng argument is not the per-item generator (line {node.lineno})")
                    g = guard_ctx.get(f)
                    if isinstance(g, tuple) and g[0] == "attr":
                        # class-level tuple of classes (SemsegTransformWrapper._SEMSEG_TRANSFORMS)
                        g = [c.__name__ for c in getattr(_CUR_CLASS[0], g[1])]
                    item = (f, g)
                    if item not in res["inject"]:
                        res["inject"].append(item)
                    continue
                f = recv_field(node.func)
                if f is not None:
                    res["calls"].add(f)
                    continue
                if ch and len(ch) == 2 and ch[0] in gen_names and ch[1] in NP_GEN_METHODS:
                    if "seeded" in gen_names[ch[0]]:
                        res["local"].add("LSeeded")
                    for kind in gen_names[ch[0]]:
                        if kind.startswith("unseeded:"):
                            res["local_u"].add(kind.split(":")[1])
                    continue
                if ch and ch[0] not in ("self", "super()"):
                    mk = module_kind(mod.__dict__.get(ch[0]))
                    if mk in ("numpy", "numpy.random") and "random" in ch[:2] and ch[-1] not in NP_RANDOM_NON_DRAW:
                        res["local"].add("GNumpy")
                    elif mk == "pyrandom":
                        res["local"].add("GPython")
                    elif mk == "torch" and ch[-1] in TORCH_RANDOM and not any(k.arg == "generator" for k in node.keywords):
                        res["local"].add("GTorch")
                    elif len(ch) == 2 and ch[1] in NP_GEN_METHODS and ch[0] not in mod.__dict__ and ch[0] not in gen_names:
                        raise Abort(f"{who}: random call on a local of unknown origin: {ast.unparse(node.func)} (line {node.lineno})")

    visit(fn.body, {})
    # a multi-field guard union: the same field injected under two guards -> both kept (first wins in the model)
    if not res["inject"] and not res["calls"] and not res["local"] and not res["local_u"] and not gens:
        return None
    return res


_CUR_CLASS = [None]


def transform_hook_shape(fn, mod):
    """KDTransform.worker_init_fn (subclasses cannot override it: asserted in KDTransform.__init__, and checked live by
    the correspondence runs) must re-seed UNCONDITIONALLY.  Accepted body - anything else is refused (fail closed):
        docstring / pass
        NAME = <expression without calls other than get_worker_info()>              (locals: info, num_workers, ...)
        if <test on such locals>: <local assignments> [else: <local assignments>]   (may only compute locals)
        self.set_rng(get_rng_from_global())           exactly once, a TOP-LEVEL statement (not inside if / for / while /
                                                      try / with), with nothing in front of it that can leave the
                                                      function (return / raise / assert)
        self._worker_init_fn(<arguments without calls>)   at most once, top level
    So a re-seed that depends on get_worker_info(), the worker count, the rank, the environment or a flag stored on the
    object, an early exit, and any state written to self are all refused.  -> list of reasons (empty = accepted)"""
    bad = []
    who = "KDTransform.worker_init_fn"
    if [a.arg for a in fn.args.args][:2] != ["self", "rank"] or fn.args.vararg is not None:
        bad.append(f"{who}: unexpected signature ({ast.unparse(fn.args)})")
    if fn.decorator_list:
        bad.append(f"{who}: decorated")

    def pure_expr(e):
        """no call besides get_worker_info() (resolved in the module), no walrus, no await / yield / lambda"""
        for n in ast.walk(e):
            if isinstance(n, ast.Call):
                ch = chain_of(n.func)
                obj = mod.__dict__.get(ch[0]) if ch and len(ch) == 1 else None
                if not (obj is not None and getattr(obj, "__name__", "") == "get_worker_info" and not n.args and not n.keywords):
                    return False
            if isinstance(n, (ast.NamedExpr, ast.Await, ast.Yield, ast.YieldFrom, ast.Lambda, ast.ListComp, ast.SetComp,
                              ast.DictComp, ast.GeneratorExp)):
                return False
        return True

    def local_assign(st):
        return (isinstance(st, ast.Assign) and len(st.targets) == 1 and isinstance(st.targets[0], ast.Name)
                and pure_expr(st.value))

    def is_reseed(st):
        if not (isinstance(st, ast.Expr) and isinstance(st.value, ast.Call)):
            return False
        c = st.value
        if not (is_self_attr(c.func, "set_rng") and len(c.args) == 1 and not c.keywords and isinstance(c.args[0], ast.Call)):
            return False
        a = c.args[0]
        if a.args or a.keywords or not isinstance(a.func, ast.Name):
            return False
        obj = mod.__dict__.get(a.func.id)
        return inspect.isfunction(obj) and obj.__name__ == "get_rng_from_global" and obj.__module__ == "kappadata.utils.random"

    def is_own_hook(st):
        if not (isinstance(st, ast.Expr) and isinstance(st.value, ast.Call) and is_self_attr(st.value.func, "_worker_init_fn")):
            return False
        c = st.value
        return all(pure_expr(a) and not any(isinstance(n, ast.Call) for n in ast.walk(a))
                   for a in list(c.args) + [k.value for k in c.keywords])

    n_reseed = n_hook = 0
    for st in fn.body:
        line = f"line {st.lineno}: {ast.unparse(st).splitlines()[0][:80]}"
        if isinstance(st, ast.Pass) or (isinstance(st, ast.Expr) and isinstance(st.value, ast.Constant)):
            continue
        if local_assign(st):
            continue
        if isinstance(st, ast.If):
            inner = list(st.body) + list(st.orelse)
            if pure_expr(st.test) and all(local_assign(x) or isinstance(x, ast.Pass) for x in inner):
                continue
            if any(is_reseed(x) or "set_rng" in ast.unparse(x) for x in ast.walk(st) if isinstance(x, ast.stmt)):
                bad.append(f"{who}: the re-seed is behind a branch ({line}): whether a worker gets a stream of its own would "
                           "depend on " + ast.unparse(st.test)[:80])
            else:
                bad.append(f"{who}: branch that does more than compute locals ({line})")
            continue
        if is_reseed(st):
            n_reseed += 1
            if n_hook:
                bad.append(f"{who}: the own hook runs before the re-seed ({line})")
            continue
        if is_own_hook(st):
            n_hook += 1
            continue
        bad.append(f"{who}: statement shape not understood ({line})")
    if n_reseed != 1 and not any("behind a branch" in b for b in bad):
        bad.append(f"{who}: {n_reseed} top-level `self.set_rng(get_rng_from_global())` statements, exactly one is understood")
    if n_hook > 1:
        bad.append(f"{who}: own hook called {n_hook} times")
    return bad


def hook_body(fn):
    return [st for st in fn.body if not (isinstance(st, ast.Expr) and isinstance(st.value, ast.Constant))]


def is_hook_fwd_call(st, recv_txt):
    return (isinstance(st, ast.Expr) and isinstance(st.value, ast.Call)
            and isinstance(st.value.func, ast.Attribute) and st.value.func.attr == "worker_init_fn"
            and ast.unparse(st.value.func.value) == recv_txt
            and st.value.args and isinstance(st.value.args[0], ast.Name) and st.value.args[0].id == "rank"
            and any(k.arg is None for k in st.value.keywords))


def kdwrapper_hook_ok(b):
    """KDWrapper.worker_init_fn: EXACTLY `self._worker_init_fn(rank, **kwargs)` followed by
    `self.dataset.worker_init_fn(rank, **kwargs)` - no flag, no early return, no branch, no state"""
    return (b is not None and len(b) == 2
            and ast.unparse(b[0]) == "self._worker_init_fn(rank, **kwargs)" and is_hook_fwd_call(b[1], "self.dataset"))


def describe_dataset_classes():
    """shape of worker_init_fn of the dataset classes (C09)"""
    import kappadata.datasets.kd_dataset as m_ds
    import kappadata.datasets.kd_wrapper as m_wr
    import kappadata.datasets.kd_subset as m_sub
    import kappadata.datasets.kd_concat_dataset as m_cat
    import kappadata.wrappers.mode_wrapper as m_mode
    import kappadata.samplers.interleaved_sampler as m_il
    out = {}

    def body_of(cls):
        fn = methods_of(class_ast(cls)).get("worker_init_fn")
        if fn is None:
            return None
        return [st for st in fn.body if not (isinstance(st, ast.Expr) and isinstance(st.value, ast.Constant))]

    def is_fwd_call(st, recv_txt):
        return (isinstance(st, ast.Expr) and isinstance(st.value, ast.Call)
                and isinstance(st.value.func, ast.Attribute) and st.value.func.attr == "worker_init_fn"
                and ast.unparse(st.value.func.value) == recv_txt
                and st.value.args and isinstance(st.value.args[0], ast.Name) and st.value.args[0].id == "rank"
                and any(k.arg is None for k in st.value.keywords))

    fwd = []
    for cls, single in ((m_mode.ModeWrapper, True), (m_sub.KDSubset, True), (m_cat.KDConcatDataset, False),
                        (m_il._InterleavedConcatDataset, False)):
        b = body_of(cls)
        ok = False
        if b is not None and len(b) == 1:
            if single:
                ok = is_fwd_call(b[0], "self.dataset")
            else:
                st = b[0]
                ok = (isinstance(st, ast.For) and ast.unparse(st.iter) == "self.datasets" and isinstance(st.target, ast.Name)
                      and len(st.body) == 1 and is_fwd_call(st.body[0], st.target.id) and not st.orelse)
        fwd.append((cls.__name__, ok))
    out["fwd"] = fwd
    b = b0 = body_of(m_wr.KDWrapper)
    out["wrapper"] = kdwrapper_hook_ok(b)
    # subclasses of KDWrapper must not override worker_init_fn (asserted in KDWrapper.__init__): checked live in c09
    b = body_of(m_ds.KDDataset)
    txt = "\n".join(ast.unparse(s) for s in (b or []))
    want = ("if self.collators is not None:\n    rng = get_rng_from_global()\n    for collator in self.collators:\n"
            "        collator.set_rng(rng)")
    out["root"] = (txt == want)
    out["root_src"] = txt
    # the hook of the transforms themselves: shape check (transform_hook_shape)
    import kappadata.transforms.base.kd_transform as m_tr
    fn = methods_of(class_ast(m_tr.KDTransform)).get("worker_init_fn")
    why = ["KDTransform has no worker_init_fn"] if fn is None else transform_hook_shape(fn, m_tr)
    out["transform"] = not why
    out["why"] = list(why)
    if not out["wrapper"]:
        out["why"].append("KDWrapper.worker_init_fn is not exactly `self._worker_init_fn(rank, **kwargs); "
                          "self.dataset.worker_init_fn(rank, **kwargs)`: "
                          + " / ".join(ast.unparse(st).splitlines()[0][:60] for st in (b0 or [])))
    if not out["root"]:
        out["why"].append("KDDataset.worker_init_fn is not the understood text: " + txt[:200].replace("\n", " / "))
    out["why"] += [f"{n}.worker_init_fn does not simply forward to every wrapped dataset" for n, ok in fwd if not ok]
    return out


def check_rng_helpers():
    """the two helpers everything else is expressed in are compared TEXTUALLY (ast.unparse, comments dropped) with what
    the model assumes: get_rng_from_global() = a generator seeded with ONE draw of the process-global NumPy RNG and
    nothing else; GlobalRng = a thin view of np.random.  -> list of errors"""
    import kappadata.utils.random as m_rand
    import kappadata.utils.global_rng as m_glob
    errs = []
    fn = func_ast(m_rand.get_rng_from_global)
    body = [st for st in fn.body if not (isinstance(st, ast.Expr) and isinstance(st.value, ast.Constant))]
    sig = ast.unparse(fn.args)
    txt = "\n".join(ast.unparse(st) for st in body)
    want = "return np.random.default_rng(seed=np.random.randint(np.iinfo(np.int32).max))"
    if sig != "" or txt != want or module_kind(m_rand.__dict__.get("np")) != "numpy":
        errs.append(f"utils.random.get_rng_from_global({sig}) is `{txt[:300]}`; the model assumes `{want}` (one draw of the "
                    "global NumPy RNG, no other ingredient)")
    cnode = class_ast(m_glob.GlobalRng)
    got = {n: "\n".join(ast.unparse(st) for st in f.body) for n, f in methods_of(cnode).items()}
    want_g = {"__getattr__": "return getattr(np.random, item)",
              "integers": "return np.random.randint(low=low, high=high, size=size)",
              "permuted": "assert axis is None and out is None\nperm = np.random.permutation(len(x))\nreturn x[perm]"}
    if got != want_g or module_kind(m_glob.__dict__.get("np")) != "numpy" or len(cnode.body) != len(want_g):
        errs.append(f"utils.global_rng.GlobalRng is not the thin view of np.random the model assumes: {got}")
    return errs


# ---------------------------------------------------------------------------
# rendering
# ---------------------------------------------------------------------------
def q(s):
    assert '"' not in s
    return '"' + s + '"'


def coq_list(xs):
    return "[" + "; ".join(xs) + "]"


def coq_guard(g):
    return "GAny" if g is None else "(GIsa " + coq_list([q(c) for c in g]) + ")"


def render_desc(d):
    return ("  mkDesc " + q(d["name"]) + "\n    " + coq_list([q(c) for c in d["mro"]]) + "\n    "
            + coq_list(["(" + q(f) + ", " + coq_list([q(c) for c in cs]) + ")" for f, cs in d["fields"]]) + "\n    "
            + ("true" if d["set_self"] else "false") + " "
            + coq_list(["(" + q(f) + ", " + coq_guard(g) + ")" for f, g in d["set_fwd"]]) + "\n    "
            + ("true" if d["draw_self"] else "false") + " "
            + coq_list(d["draw_glob"]) + " "
            + coq_list([q(c) for c in d["calls"]]))


def render_wdesc(d):
    return ("  mkWDesc " + q(d["name"]) + "\n    "
            + coq_list(["(" + q(f) + ", " + coq_list([q(c) for c in cs]) + ")" for f, cs in d["fields"]]) + "\n    "
            + coq_list(["(" + q(f) + ", " + coq_guard(g) + ")" for f, g in d["inject"]]) + " "
            + coq_list([q(c) for c in d["calls"]]) + " "
            + coq_list([("LSeeded" if x == "LSeeded" else "(LGlob " + x + ")") for x in d["local"]]) + " "
            + coq_list(d["local_u"]) + "\n    "
            + coq_list(["(" + q(f) + ", " + coq_guard(g) + ")" for f, g in d["wi"]]))


HEADER = """(* GENERATED by harness/translate_rng.py from the sources under KD_REPO -- do not edit.
   Regenerated on every run of ./check C07|C08|C09; written only when the content changes. *)
From Coq Require Import List String.
Import ListNotations.
From KD Require Import C07.RngGraph.
Open Scope string_scope.

"""


def translate(repo):
    """-> (coq text, info dict)"""
    import kappadata  # noqa
    from kappadata.transforms.base.kd_transform import KDTransform
    from kappadata.collators.base.kd_collator_base import KDCollatorBase
    from kappadata.datasets.kd_wrapper import KDWrapper
    _FUNC_GLOBS.clear()
    _HELPER_GLOBS.clear()
    errors = []
    mods, errs = discover(repo, TRANSFORM_DIRS)
    errors += errs
    tclasses = classes_in(mods, KDTransform)
    if KDTransform not in tclasses:
        tclasses.append(KDTransform)
    cmods, errs = discover(repo, COLLATOR_DIRS)
    errors += errs
    cclasses = classes_in(cmods, KDCollatorBase)
    descs = []
    names = set()
    for cls, base in [(c, KDTransform) for c in tclasses] + [(c, KDCollatorBase) for c in cclasses]:
        if cls.__name__ in names:
            errors.append(f"two classes are named {cls.__name__}")
            continue
        names.add(cls.__name__)
        try:
            descs.append(describe_class(cls, base))
        except Abort as e:
            errors.append(f"{cls.__name__}: {e}")
        except Exception as e:  # noqa
            errors.append(f"{cls.__name__}: translator crashed: {type(e).__name__}: {e}")
    cnames = {c.__name__ for c in cclasses}
    cdescs = sorted((d for d in descs if d["name"] in cnames), key=lambda d: d["name"])
    descs = sorted((d for d in descs if d["name"] not in cnames), key=lambda d: d["name"])
    descs.append({"name": FOREIGN, "mro": [FOREIGN], "fields": [], "many": [], "own": False, "set_self": False,
                  "set_fwd": [], "draw_self": False, "draw_glob": [], "calls": [], "module": ""})

    wmods, errs = discover(repo, WRAPPER_DIRS)
    errors += errs
    wclasses = classes_in(wmods, KDWrapper)
    wdescs = []
    for cls in wclasses:
        try:
            _CUR_CLASS[0] = cls
            wd = describe_wrapper(cls, KDTransform, KDWrapper)
            # wrappers without transforms / generators get an (empty) row too: C09 stacks may contain them
            wdescs.append(wd)
        except Abort as e:
            errors.append(f"{cls.__name__}: {e}")
        except Exception as e:  # noqa
            errors.append(f"{cls.__name__}: translator crashed: {type(e).__name__}: {e}")
    wdescs.sort(key=lambda d: d["name"])
    try:
        ds = describe_dataset_classes()
    except Exception as e:  # noqa
        ds = {"fwd": [], "wrapper": False, "root": False, "transform": False, "why": []}
        errors.append(f"dataset classes: {type(e).__name__}: {e}")
    try:
        errors += check_rng_helpers()
    except Exception as e:  # noqa
        errors.append(f"rng helpers: {type(e).__name__}: {e}")

    txt = HEADER
    txt += "Definition rng_table : table := [\n" + ";\n".join(render_desc(d) for d in descs) + "\n].\n\n"
    txt += "Definition col_table : table := [\n" + ";\n".join(render_desc(d) for d in cdescs) + "\n].\n\n"
    txt += "Definition wrp_table : wtable := [\n" + ";\n".join(render_wdesc(d) for d in wdescs) + "\n].\n\n"
    txt += ("Definition ds_table : dsdesc := mkDsDesc\n  "
            + coq_list(["(" + q(n) + ", " + ("true" if ok else "false") + ")" for n, ok in ds["fwd"]])
            + " " + ("true" if ds["wrapper"] else "false") + " " + ("true" if ds["root"] else "false")
            + " " + ("true" if ds["transform"] else "false") + ".\n")
    if ds.get("why"):
        txt += ("(* worker_init_fn bodies that are not of the understood shape (the entry above is `false`, dsclosed fails):\n   "
                + "\n   ".join(w.replace("*)", "* )").replace("(*", "( *") for w in ds["why"]) + " *)\n")
    if errors:
        txt += ("\n(* THE TRANSLATOR FAILED CLOSED: the sources contain shapes it does not understand.\n   "
                + "\n   ".join(e.replace("*)", "* )").replace("(*", "( *") for e in errors) + " *)\n"
                + "Definition translator_failed_closed : True := "
                + q(" | ".join(errors).replace('"', "'")[:1500]) + ".\n")
    info = {"classes": descs, "collators": cdescs, "wrappers": wdescs, "datasets": ds, "errors": errors}
    return txt, info


def out_path():
    return os.path.join(os.path.dirname(os.path.dirname(os.path.abspath(__file__))), "coq", "C07", "gen", "RngTable.v")


_LAST = {}


def regenerate(repo=None):
    """regenerate coq/C07/gen/RngTable.v from the tree under KD_REPO; write only if changed"""
    from . import common
    repo = repo or common.KD_REPO
    txt, info = translate(repo)
    p = out_path()
    os.makedirs(os.path.dirname(p), exist_ok=True)
    if not os.path.exists(p) or open(p).read() != txt:
        with open(p, "w") as f:
            f.write(txt)
    _LAST["info"] = info
    return info


# ---------------------------------------------------------------------------
# what the translator accepts (everything else aborts), and a negative self-test
# ---------------------------------------------------------------------------
ACCEPTS = """
transform / collator classes (describe_class)
  __init__ (along the kappadata MRO): `self.F = <expr>` / annotated assignment, classified by <expr>:
      get_rng_from_global()                 -> own generator slot (only under the name `rng`)
      KDTransformSubclass(...)              -> child field with that static class
      object_to_transform(...)              -> child field, class decided by the user
      [object_to_transform(t) for t in ..]  -> list-valued child field
      <constructor parameter>               -> child field iff some method calls it / iterates and calls it / calls its
                                               set_rng, else data
      MagnitudeSampler(...)                 -> helper (its methods are scanned for global sources)
      torchvision class(...)                -> foreign callable (deterministic ones listed in TV_DETERMINISTIC, others
                                               count as a GTorch source)
      anything else                         -> data
  set_rng(self, rng) (first definition in the MRO, `super().set_rng(rng)` followed): only
      pass / docstring / return / return self / raise
      self.rng = rng
      self.F.set_rng(rng)  |  return self.F.set_rng(rng)
      if isinstance(self.F, (Classes)): self.F.set_rng(rng)                       (no else)
      for t in self.F: t.set_rng(rng)  |  for t in self.F: if isinstance(t, (Classes)): t.set_rng(rng)
  every other method (over-approximation of "reachable from __call__"):
      any load of self.rng, or of a local alias `r = self.rng`            -> draw from the own slot
      calls on / with a child field (self.F(...), self.F[i](...), loop variable over self.F, self._apply(t, ..))
                                                                        -> the field is called
      np.random.<draw>, numpy.random functions imported by name         -> GNumpy
      random.<anything>                                                  -> GPython
      torch.<rand, randn, randint, randperm, bernoulli, multinomial, normal, *_like, poisson, dropout, manual_seed, seed>
          without generator=                                             -> GTorch
      np.random.default_rng() without seed                               -> GFresh ; with a seed: no source
      get_rng_from_global(), GlobalRng()                                 -> GNumpy
      kappadata module-level functions                                   -> scanned recursively
      <parameter>.<draw>()                                               -> draw from a generator handed in by the caller
      <local of unknown origin>.<draw>(), self.<unknown attr>...<draw>() -> ABORT
  _worker_init_fn touching rng / set_rng / get_rng_from_global           -> ABORT
sample wrappers (describe_wrapper)
  transform fields: object_to_transform(...), KDTransformSubclass(...), [object_to_transform(t) for t in ..],
      [self.A, self.B, ..] (alias list), `self.transform_configs = configs`
  per-item functions (getitem_* / _getitem):
      rng = np.random.default_rng(seed=self.seed + idx)            (exactly this seed expression; or
            `self.seed + idx if self.seed is not None else None`, recorded as OS entropy on the unseeded path)
      rng = GlobalRng()  /  rng = None                              (unseeded path)
      any other value bound to a local called rng / *_rng / generator -> ABORT
      T.set_rng(rng) with T a transform field / loop variable over one / <config>.transform, the argument being the
            per-item generator, optionally under `if isinstance(T, (Classes) | self._CLASS_TUPLE)` and
            `rng is not None and isinstance(..)` / `self.seed is not None and ..`
      calls of transform fields; rng.<draw>() of the per-item generator; np.random / random / torch global draws
  per-item code (transitively through self.<method>()) that assigns / deletes / mutates anything rooted at self, uses
      setattr / self.__dict__ / global / nonlocal, or is wrapped into a caching decorator      -> ABORT
  _worker_init_fn: (loops over a transform field of) `if isinstance(T, (Classes)): T.worker_init_fn(rank, **kwargs)`
helpers (check_rng_helpers): the exact text of utils.random.get_rng_from_global (`return np.random.default_rng(seed=
  np.random.randint(np.iinfo(np.int32).max))`, no parameters) and of utils.global_rng.GlobalRng (thin view of np.random)
dataset classes (describe_dataset_classes): the exact text of worker_init_fn of ModeWrapper, KDSubset, KDConcatDataset,
  _InterleavedConcatDataset (forward to every wrapped dataset), KDWrapper (own hook, then wrapped dataset: exactly these
  two statements - a flag, an early return, a branch make the entry `false`), KDDataset (one get_rng_from_global()
  handed to every collator); any other text makes the table entry `false`.
KDTransform.worker_init_fn (transform_hook_shape): local assignments / branches that only compute locals from
  get_worker_info(), then exactly one TOP-LEVEL `self.set_rng(get_rng_from_global())`, then at most one
  `self._worker_init_fn(...)`; a re-seed behind any branch (worker info, worker count, rank, environment, object state),
  an early return / raise / assert, a loop / try / with, an assignment to self.<attr> make the entry `false`.
"""

_SELFTEST_PRELUDE = """
import numpy as np
import random
import torch
from functools import lru_cache
from kappadata.utils.random import get_rng_from_global
from kappadata.utils.global_rng import GlobalRng
from kappadata.factory import object_to_transform
from kappadata.datasets.kd_wrapper import KDWrapper
from kappadata.transforms.base.kd_transform import KDTransform
from kappadata.transforms.base.kd_stochastic_transform import KDStochasticTransform
from kappadata.transforms.base.kd_compose_transform import KDComposeTransform
from kappadata.transforms.kd_random_horizontal_flip import KDRandomHorizontalFlip
"""

# (name, kind, must be accepted?, source of class `T`)
_SELFTEST_SOURCES = [
    ("ok_leaf", "transform", True, """
class T(KDStochasticTransform):
    def __call__(self, x, ctx=None):
        return x if self.rng.random() < 0.5 else x.flip(-1)
"""),
    ("ok_container", "transform", True, """
class T(KDTransform):
    def __init__(self, transform):
        super().__init__()
        self.child = object_to_transform(transform)
    def set_rng(self, rng):
        if isinstance(self.child, KDTransform):
            self.child.set_rng(rng)
        return self
    def __call__(self, x, ctx=None):
        return self.child(x, ctx=ctx)
"""),
    ("set_rng_behind_flag", "transform", False, """
class T(KDTransform):
    def __init__(self, transform, forward=True):
        super().__init__()
        self.child = object_to_transform(transform)
        self.forward = forward
    def set_rng(self, rng):
        if self.forward:
            self.child.set_rng(rng)
        return self
    def __call__(self, x, ctx=None):
        return self.child(x, ctx=ctx)
"""),
    ("set_rng_forwards_other_generator", "transform", False, """
class T(KDTransform):
    def __init__(self, transform):
        super().__init__()
        self.child = object_to_transform(transform)
    def set_rng(self, rng):
        self.child.set_rng(np.random.default_rng(0))
        return self
    def __call__(self, x, ctx=None):
        return self.child(x, ctx=ctx)
"""),
    ("set_rng_else_branch", "transform", False, """
class T(KDTransform):
    def __init__(self, transform):
        super().__init__()
        self.child = object_to_transform(transform)
    def set_rng(self, rng):
        if isinstance(self.child, KDStochasticTransform):
            self.child.set_rng(rng)
        else:
            pass
        return self
    def __call__(self, x, ctx=None):
        return self.child(x, ctx=ctx)
"""),
    ("set_rng_extra_parameter", "transform", False, """
class T(KDStochasticTransform):
    def set_rng(self, rng, deep=False):
        self.rng = rng
        return self
    def __call__(self, x, ctx=None):
        return x * self.rng.random()
"""),
    ("set_rng_while_loop", "transform", False, """
class T(KDTransform):
    def __init__(self, transforms):
        super().__init__()
        self.ts = [object_to_transform(t) for t in transforms]
    def set_rng(self, rng):
        i = 0
        while i < len(self.ts):
            self.ts[i].set_rng(rng)
            i += 1
        return self
    def __call__(self, x, ctx=None):
        for t in self.ts:
            x = t(x)
        return x
"""),
    ("generator_under_other_name", "transform", False, """
class T(KDTransform):
    def __init__(self):
        super().__init__()
        self.gen = get_rng_from_global()
    def __call__(self, x, ctx=None):
        return x * self.gen.random()
"""),
    ("self_rng_from_elsewhere", "transform", False, """
class T(KDTransform):
    def __init__(self, seed=3):
        super().__init__()
        self.rng = np.random.default_rng(seed)
    def __call__(self, x, ctx=None):
        return x * self.rng.random()
"""),
    ("draw_on_unknown_local", "transform", False, """
def make():
    return np.random.default_rng(1)
class T(KDTransform):
    def __call__(self, x, ctx=None):
        g = make()
        return x * g.random()
"""),
    ("draw_on_unknown_attribute", "transform", False, """
class T(KDTransform):
    def __init__(self, sampler):
        super().__init__()
        self.sampler = dict(s=sampler)
    def __call__(self, x, ctx=None):
        return x * self.sampler.integers(3)
"""),
    ("forward_to_non_transform_field", "transform", False, """
class T(KDTransform):
    def __init__(self, scale):
        super().__init__()
        self.scale = float(scale)
    def set_rng(self, rng):
        self.scale.set_rng(rng)
        return self
    def __call__(self, x, ctx=None):
        return x * self.scale
"""),
    ("worker_hook_touches_generators", "transform", False, """
class T(KDStochasticTransform):
    def _worker_init_fn(self, rank, num_workers, **kwargs):
        self.rng = np.random.default_rng(rank)
    def __call__(self, x, ctx=None):
        return x * self.rng.random()
"""),
    ("ok_wrapper", "wrapper", True, """
class T(KDWrapper):
    def __init__(self, dataset, transform, seed=None):
        super().__init__(dataset=dataset)
        self.transform = object_to_transform(transform)
        self.seed = seed
    def getitem_x(self, idx, ctx=None):
        x = self.dataset.getitem_x(idx, ctx=ctx)
        if self.seed is not None:
            rng = np.random.default_rng(seed=self.seed + idx)
            if isinstance(self.transform, KDTransform):
                self.transform.set_rng(rng)
        return self.transform(x)
    def _worker_init_fn(self, rank, **kwargs):
        if isinstance(self.transform, KDTransform):
            self.transform.worker_init_fn(rank, **kwargs)
"""),
    ("wrapper_seed_times_idx", "wrapper", False, """
class T(KDWrapper):
    def __init__(self, dataset, transform, seed=None):
        super().__init__(dataset=dataset)
        self.transform = object_to_transform(transform)
        self.seed = seed
    def getitem_x(self, idx, ctx=None):
        x = self.dataset.getitem_x(idx, ctx=ctx)
        rng = np.random.default_rng(seed=self.seed * idx)
        self.transform.set_rng(rng)
        return self.transform(x)
"""),
    ("wrapper_seed_truthiness", "wrapper", False, """
class T(KDWrapper):
    def __init__(self, dataset, transform, seed=None):
        super().__init__(dataset=dataset)
        self.transform = object_to_transform(transform)
        self.seed = seed
    def getitem_x(self, idx, ctx=None):
        x = self.dataset.getitem_x(idx, ctx=ctx)
        rng = np.random.default_rng(seed=self.seed + idx) if self.seed else None
        if rng is not None:
            self.transform.set_rng(rng)
        return self.transform(x)
"""),
    ("wrapper_salted_generator", "wrapper", False, """
class T(KDWrapper):
    def __init__(self, dataset, transform, seed=None):
        super().__init__(dataset=dataset)
        self.transform = object_to_transform(transform)
        self.seed = seed
    def getitem_x(self, idx, ctx=None):
        x = self.dataset.getitem_x(idx, ctx=ctx)
        rng = np.random.default_rng([self.seed + idx, hash(type(self).__name__)])
        self.transform.set_rng(rng)
        return self.transform(x)
"""),
    ("wrapper_injects_other_generator", "wrapper", False, """
class T(KDWrapper):
    def __init__(self, dataset, transform, seed=None):
        super().__init__(dataset=dataset)
        self.transform = object_to_transform(transform)
        self.seed = seed
    def getitem_x(self, idx, ctx=None):
        x = self.dataset.getitem_x(idx, ctx=ctx)
        rng = np.random.default_rng(seed=self.seed + idx)
        self.transform.set_rng(get_rng_from_global())
        return self.transform(x)
"""),
    ("wrapper_memoises_last_result", "wrapper", False, """
class T(KDWrapper):
    def __init__(self, dataset, transform, seed=None):
        super().__init__(dataset=dataset)
        self.transform = object_to_transform(transform)
        self.seed = seed
        self._last = None
    def getitem_x(self, idx, ctx=None):
        return self._cached(idx)
    def _cached(self, idx):
        if self._last is None or self._last[0] != idx:
            rng = np.random.default_rng(seed=self.seed + idx)
            self.transform.set_rng(rng)
            self._last = (idx, self.transform(self.dataset.getitem_x(idx)))
        return self._last[1]
"""),
    ("wrapper_item_cache_dict", "wrapper", False, """
class T(KDWrapper):
    def __init__(self, dataset, transform, seed=None):
        super().__init__(dataset=dataset)
        self.transform = object_to_transform(transform)
        self.seed = seed
        self.cache = {}
    def getitem_x(self, idx, ctx=None):
        if idx not in self.cache:
            rng = np.random.default_rng(seed=self.seed + idx)
            self.transform.set_rng(rng)
            self.cache[idx] = self.transform(self.dataset.getitem_x(idx))
        return self.cache[idx]
"""),
    ("wrapper_lru_cache", "wrapper", False, """
class T(KDWrapper):
    def __init__(self, dataset, transform, seed=None):
        super().__init__(dataset=dataset)
        self.transform = object_to_transform(transform)
        self.seed = seed
    @lru_cache(maxsize=1)
    def getitem_x(self, idx, ctx=None):
        rng = np.random.default_rng(seed=self.seed + idx)
        self.transform.set_rng(rng)
        return self.transform(self.dataset.getitem_x(idx))
"""),
    ("wrapper_worker_hook_unknown_statement", "wrapper", False, """
class T(KDWrapper):
    def __init__(self, dataset, transform, seed=None):
        super().__init__(dataset=dataset)
        self.transform = object_to_transform(transform)
        self.seed = seed
    def getitem_x(self, idx, ctx=None):
        return self.transform(self.dataset.getitem_x(idx))
    def _worker_init_fn(self, rank, **kwargs):
        if rank > 0:
            self.transform.worker_init_fn(rank, **kwargs)
"""),
]


def selftest():
    """negative self-test: every synthetic class with an unsupported shape must make the translator ABORT, the
    well-formed controls must be accepted.  -> list of {"name", "expected", "got", "detail"}"""
    import importlib.util
    import tempfile
    from kappadata.transforms.base.kd_transform import KDTransform
    from kappadata.datasets.kd_wrapper import KDWrapper
    out = []
    with tempfile.TemporaryDirectory(prefix="kd_translator_selftest_") as d:
        for k, (name, kind, accept, src) in enumerate(_SELFTEST_SOURCES):
            modname = f"kappadata_translator_selftest_{k}_{name}"      # (is_kd: module names start with 'kappadata')
            fn = os.path.join(d, modname + ".py")
            with open(fn, "w") as f:
                f.write(_SELFTEST_PRELUDE + src)
            got, detail = "accepted", ""
            try:
                spec = importlib.util.spec_from_file_location(modname, fn)
                mod = importlib.util.module_from_spec(spec)
                sys.modules[modname] = mod
                spec.loader.exec_module(mod)
                cls = mod.T
                if kind == "transform":
                    desc = describe_class(cls, KDTransform)
                    detail = f"set_self={desc['set_self']} fwd={desc['set_fwd']} draw_self={desc['draw_self']} glob={desc['draw_glob']}"
                else:
                    _CUR_CLASS[0] = cls
                    desc = describe_wrapper(cls, KDTransform, KDWrapper)
                    detail = f"inject={desc['inject']} calls={desc['calls']} local={desc['local']} wi={desc['wi']}"
            except Abort as e:
                got, detail = "abort", str(e)[:200]
            except Exception as e:  # noqa
                got, detail = "crash", f"{type(e).__name__}: {str(e)[:200]}"
            finally:
                sys.modules.pop(modname, None)
            out.append({"name": name, "kind": kind, "expected": "accepted" if accept else "abort", "got": got, "detail": detail})
    return out



# ---------------------------------------------------------------------------
# negative self-test of the worker_init_fn shape checks (run by C09)
# ---------------------------------------------------------------------------
_HOOK_PRELUDE = """
import os
import numpy as np
from torch.utils.data import get_worker_info
from kappadata.utils.random import get_rng_from_global
"""

# (name, kind, must be accepted?, source of the function)
_HOOK_SOURCES = [
    ("ok_as_shipped", "transform", True, """
def worker_init_fn(self, rank, **kwargs):
    info = get_worker_info()
    if info is None:
        num_workers = 1
    else:
        num_workers = info.num_workers
    self.set_rng(get_rng_from_global())
    self._worker_init_fn(rank, num_workers, **kwargs)
"""),
    ("ok_conditional_expression_for_a_local", "transform", True, """
def worker_init_fn(self, rank, **kwargs):
    \"\"\"doc\"\"\"
    info = get_worker_info()
    num_workers = 1 if info is None else info.num_workers
    self.set_rng(get_rng_from_global())
    self._worker_init_fn(rank, num_workers, **kwargs)
"""),
    ("reseed_only_with_several_workers", "transform", False, """
def worker_init_fn(self, rank, **kwargs):
    info = get_worker_info()
    num_workers = 1 if info is None else info.num_workers
    if info is None or num_workers > 1:
        self.set_rng(get_rng_from_global())
    self._worker_init_fn(rank, num_workers, **kwargs)
"""),
    ("reseed_in_both_branches", "transform", False, """
def worker_init_fn(self, rank, **kwargs):
    info = get_worker_info()
    if info is None:
        num_workers = 1
        self.set_rng(get_rng_from_global())
    else:
        num_workers = info.num_workers
        self.set_rng(get_rng_from_global())
    self._worker_init_fn(rank, num_workers, **kwargs)
"""),
    ("reseed_depends_on_rank", "transform", False, """
def worker_init_fn(self, rank, **kwargs):
    if rank > 0:
        self.set_rng(get_rng_from_global())
    self._worker_init_fn(rank, 1, **kwargs)
"""),
    ("early_return_on_environment", "transform", False, """
def worker_init_fn(self, rank, **kwargs):
    if os.environ.get("KD_KEEP_RNG"):
        return
    self.set_rng(get_rng_from_global())
    self._worker_init_fn(rank, 1, **kwargs)
"""),
    ("initialised_flag", "transform", False, """
def worker_init_fn(self, rank, **kwargs):
    if getattr(self, "_worker_initialized", False):
        return
    self._worker_initialized = True
    self.set_rng(get_rng_from_global())
    self._worker_init_fn(rank, 1, **kwargs)
"""),
    ("flag_written_after_reseed", "transform", False, """
def worker_init_fn(self, rank, **kwargs):
    self.set_rng(get_rng_from_global())
    self._worker_initialized = True
    self._worker_init_fn(rank, 1, **kwargs)
"""),
    ("reseed_inside_try", "transform", False, """
def worker_init_fn(self, rank, **kwargs):
    try:
        self.set_rng(get_rng_from_global())
    except Exception:
        pass
    self._worker_init_fn(rank, 1, **kwargs)
"""),
    ("reseed_inside_loop", "transform", False, """
def worker_init_fn(self, rank, **kwargs):
    info = get_worker_info()
    for _ in range(0 if info is None else info.num_workers - 1):
        self.set_rng(get_rng_from_global())
    self._worker_init_fn(rank, 1, **kwargs)
"""),
    ("reseed_from_another_generator", "transform", False, """
def worker_init_fn(self, rank, **kwargs):
    self.set_rng(np.random.default_rng(rank))
    self._worker_init_fn(rank, 1, **kwargs)
"""),
    ("no_reseed", "transform", False, """
def worker_init_fn(self, rank, **kwargs):
    info = get_worker_info()
    num_workers = 1 if info is None else info.num_workers
    self._worker_init_fn(rank, num_workers, **kwargs)
"""),
    ("assert_in_front", "transform", False, """
def worker_init_fn(self, rank, **kwargs):
    assert get_worker_info() is not None
    self.set_rng(get_rng_from_global())
    self._worker_init_fn(rank, 1, **kwargs)
"""),
    ("local_from_a_method_call", "transform", False, """
def worker_init_fn(self, rank, **kwargs):
    num_workers = self._count_workers()
    self.set_rng(get_rng_from_global())
    self._worker_init_fn(rank, num_workers, **kwargs)
"""),
    ("own_hook_first", "transform", False, """
def worker_init_fn(self, rank, **kwargs):
    self._worker_init_fn(rank, 1, **kwargs)
    self.set_rng(get_rng_from_global())
"""),
    ("ok_wrapper_as_shipped", "wrapper", True, """
def worker_init_fn(self, rank, **kwargs):
    self._worker_init_fn(rank, **kwargs)
    self.dataset.worker_init_fn(rank, **kwargs)
"""),
    ("wrapper_initialised_flag", "wrapper", False, """
def worker_init_fn(self, rank, **kwargs):
    if self._is_worker_initialized:
        return
    self._is_worker_initialized = True
    self._worker_init_fn(rank, **kwargs)
    self.dataset.worker_init_fn(rank, **kwargs)
"""),
    ("wrapper_only_in_workers", "wrapper", False, """
def worker_init_fn(self, rank, **kwargs):
    if get_worker_info() is not None:
        self._worker_init_fn(rank, **kwargs)
    self.dataset.worker_init_fn(rank, **kwargs)
"""),
    ("wrapper_does_not_descend", "wrapper", False, """
def worker_init_fn(self, rank, **kwargs):
    self._worker_init_fn(rank, **kwargs)
"""),
    ("wrapper_descends_for_several_workers_only", "wrapper", False, """
def worker_init_fn(self, rank, **kwargs):
    self._worker_init_fn(rank, **kwargs)
    info = get_worker_info()
    if info is None or info.num_workers > 1:
        self.dataset.worker_init_fn(rank, **kwargs)
"""),
]


def hook_selftest():
    """every synthetic worker_init_fn with a conditional / stateful / missing re-seed must be REFUSED by the shape checks
    (transform_hook_shape, kdwrapper_hook_ok), the well-formed controls accepted.
    -> list of {"name", "kind", "expected", "got", "detail"}"""
    import types
    out = []
    for name, kind, accept, src in _HOOK_SOURCES:
        got, detail = "accepted", ""
        try:
            mod = types.ModuleType("kappadata_hook_selftest_" + name)
            exec(compile(_HOOK_PRELUDE + src, mod.__name__, "exec"), mod.__dict__)
            fn = next(n for n in ast.parse(src).body if isinstance(n, ast.FunctionDef))
            if kind == "transform":
                why = transform_hook_shape(fn, mod)
                if why:
                    got, detail = "refused", "; ".join(why)[:200]
            else:
                if not kdwrapper_hook_ok(hook_body(fn)):
                    got, detail = "refused", "not the two understood statements"
        except Exception as e:  # noqa
            got, detail = "crash", f"{type(e).__name__}: {str(e)[:200]}"
        out.append({"name": name, "kind": kind, "expected": "accepted" if accept else "refused", "got": got, "detail": detail})
    return out
