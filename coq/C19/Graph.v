(* C19 — samples that are object graphs.  Model.v lets ONE heap cell stand for a whole sample.  Real samples are
   graphs of objects: containers (tuple / list / dict / namedtuple) and arbitrary picklable objects (dataclasses,
   classes with __dict__ or __slots__, namespaces, ...) whose fields refer to other objects, with tensors / arrays /
   numbers at the leaves.  This file models such a sample and the two things that happen to it on its way out of
   SharedDictDataset._cached_getitem:
     transport through the Manager connection (multiprocessing's ForkingPickler): every container / object is rebuilt
       by value, every torch tensor arrives as a view of the SAME shared memory -> a sample is a tree whose inner
       nodes have no identity worth tracking and whose leaves are ADDRESSES of the heap of Model.v;
     `return copy.deepcopy(sample)`: every leaf gets a fresh address.
   [opaque] marks a node that is not one of the builtin containers (an object with attributes).  Nothing in the code
   under test looks at it; it exists to state what goes wrong if a hand-written copy treats such nodes as atoms
   ([pcopy], the change seeded as /verif/seeded/C19_private_copy_misses_object_payloads).
   Trees, not DAGs: sharing of one tensor between two fields of a sample is not modelled (deepcopy and pickle both
   preserve it).  No proofs here. *)
From Coq Require Import ZArith List Bool.
Import ListNotations.
From KD Require Import C19.Model.
Open Scope Z_scope.

Inductive shape :=
| SLeaf (a : nat)                                  (* a tensor: its storage is heap cell a *)
| SNode (opaque : bool) (kids : list shape).       (* a container / an object: a record of references *)

(* what a sample looks like to whoever reads it *)
Inductive vtree :=
| VLeaf (v : Z)
| VNode (opaque : bool) (kids : list vtree).

Fixpoint leaves (s : shape) : list nat :=
  match s with SLeaf a => [a] | SNode _ ks => flat_map leaves ks end.

Fixpoint value (h : heap) (s : shape) : vtree :=
  match s with SLeaf a => VLeaf (hget a h) | SNode o ks => VNode o (map (value h) ks) end.

Definition below (n : nat) (s : shape) : Prop := Forall (fun a => (a < n)%nat) (leaves s).

(* copying the fields of a node one after the other, threading the heap *)
Section CopyList.
  Variable cp : heap -> shape -> heap * shape.
  Fixpoint copy_list (h : heap) (l : list shape) {struct l} : heap * list shape :=
    match l with
    | [] => (h, [])
    | x :: r => let '(h1, x') := cp h x in
                let '(h2, r') := copy_list h1 r in (h2, x' :: r')
    end.
End CopyList.

(* copy.deepcopy(sample) *)
Fixpoint dcopy (h : heap) (s : shape) {struct s} : heap * shape :=
  match s with
  | SLeaf a => (h ++ [hget a h], SLeaf (length h))
  | SNode o ks => let '(h', ks') := copy_list dcopy h ks in (h', SNode o ks')
  end.

(* a hand-written "private copy" that clones tensors, rebuilds the builtin containers and returns every other
   object unchanged *)
Fixpoint pcopy (h : heap) (s : shape) {struct s} : heap * shape :=
  match s with
  | SLeaf a => (h ++ [hget a h], SLeaf (length h))
  | SNode true ks => (h, SNode true ks)
  | SNode false ks => let '(h', ks') := copy_list pcopy h ks in (h', SNode false ks')
  end.

(* in-place writes (an in-place transform, a consumer): tensor at address a := v *)
Definition writes (ws : list (nat * Z)) (h : heap) : heap := fold_left (fun h w => hset (fst w) (snd w) h) ws h.
Definition targets (ws : list (nat * Z)) : list nat := map fst ws.
