(* arithmetic facts: interval crossing, epoch geometry *)
From Coq Require Import ZArith List Bool Lia.
Import ListNotations.
From KD Require Import C04.Model C04.Spec C04.Lists.
Open Scope Z_scope.

(* the implementation's every_n_samples test is "a multiple of n in (a, b]" *)
Lemma samples_test_crossed n a b : 0 < n -> a < b ->
  ((b mod n =? 0) || (a / n <? b / n)) = crossed n a b.
Proof.
  intros Hn Hab. unfold crossed.
  destruct (a / n <? b / n) eqn:E; [apply orb_true_r|]. rewrite orb_false_r.
  apply Z.ltb_ge in E. apply Z.eqb_neq. intro Hm.
  assert (b = n * (b / n)) as Hb by (rewrite (Z.div_mod b n) at 1 by lia; lia).
  assert (a / n <= b / n) by (apply Z.div_le_mono; lia).
  assert (a / n = b / n) as Heq by lia.
  pose proof (Z.mul_div_le a n Hn). rewrite Heq in *. lia.
Qed.

Lemma crossed_iff n a b : 0 < n ->
  crossed n a b = true <-> exists m, a < m * n <= b.
Proof.
  intros Hn. unfold crossed. rewrite Z.ltb_lt. split.
  - intros H. exists (b / n). split.
    + pose proof (Z.mod_pos_bound a n Hn). pose proof (Z.div_mod a n).
      assert (a / n + 1 <= b / n) by lia. nia.
    + pose proof (Z.mul_div_le b n Hn). lia.
  - intros [m [H1 H2]].
    assert (m <= b / n) by (apply Z.div_le_lower_bound; lia).
    assert (a / n < m) by (apply Z.div_lt_upper_bound; lia).
    lia.
Qed.

(* ---- well-formed configurations: the constructor's assertions plus the
   property's domain (main sampler yields len(sampler) indices) ---- *)
Definition wf_side (sc : side_cfg) : Prop :=
  (forall n, ene sc = Some n -> 0 < n) /\ (forall n, enu sc = Some n -> 0 < n) /\
  (forall n, ens sc = Some n -> 0 < n) /\ (forall n, sbs sc = Some n -> 0 < n) /\
  (forall p, slen sc = len (sidx sc p)) /\ 0 <= dslen sc.

Record WF (c : cfg) (mi : Z -> list Z) : Prop := {
  wf_B : 1 <= cB c;
  wf_BN : cB c <= cN c;
  wf_D : forall d, cD c = Some d -> drop_last c = true /\ (exists m, d = m * cB c) /\ cB c <= d <= cN c;
  wf_iter : forall e, len (mi e) = cN c;
  wf_sides : Forall wf_side (sides c);
  wf_dsN : 0 <= dsN c }.

(* what the constructor checks (Corollaries.ctor_ok) ... *)
Definition cfg_ok (c : cfg) : Prop :=
  1 <= cB c /\ cB c <= cN c /\
  (forall d, cD c = Some d -> drop_last c = true /\ (exists m, d = m * cB c) /\ cB c <= d <= cN c) /\
  Forall (fun sc => side_asserts sc = true) (sides c).
(* ... and what it cannot check: the lengths the samplers and data sources report
   are what their iterations yield (the property's domain) *)
Definition env_ok (c : cfg) (mi : Z -> list Z) : Prop :=
  (forall e, len (mi e) = cN c) /\
  Forall (fun sc => (forall p, slen sc = len (sidx sc p)) /\ 0 <= dslen sc) (sides c) /\
  0 <= dsN c.

Lemma opt_pos_spec o : opt_pos o = true -> forall n, o = Some n -> 0 < n.
Proof. intros H n ->. cbn in H. now apply Z.ltb_lt. Qed.

Lemma WF_of_ok c mi : cfg_ok c -> env_ok c mi -> WF c mi.
Proof.
  intros (HB & HBN & HD & HS) (Hi & HE & Hds). constructor; auto.
  rewrite Forall_forall in *. intros sc Hin. specialize (HS sc Hin). specialize (HE sc Hin).
  unfold side_asserts in HS. rewrite !andb_true_iff in HS.
  destruct HS as [[[[_ H1] H2] H3] H4]. destruct HE as [Hl Hd].
  unfold wf_side. repeat split; auto; now apply opt_pos_spec.
Qed.

Section Geometry.
  Variables (c : cfg) (mi : Z -> list Z).
  Hypothesis W : WF c mi.

  Lemma spe_range : 1 <= spe c <= cN c.
  Proof.
    destruct W as [HB HBN HD _ _ _]. unfold spe.
    destruct (drop_last c); [|lia].
    assert (forall bs, cB c <= bs <= cN c -> 1 <= cN c / bs * bs <= cN c) as H.
    { intros bs Hbs. assert (0 < bs) by lia. split.
      - assert (0 < cN c / bs) by (apply Z.div_str_pos; lia). nia.
      - pose proof (Z.mul_div_le (cN c) bs). lia. }
    unfold or_default. destruct (cD c) as [d|] eqn:ED.
    - destruct (HD d eq_refl) as [_ [_ Hr]]. apply H. lia.
    - apply H. lia.
  Qed.

  (* the "len(main_sampler) < batch size" adjustments of _training_loop are dead *)
  Lemma loop_geom_eq : loop_geom c = (cB c, spe c).
  Proof.
    destruct W as [HB HBN HD _ _ _]. unfold loop_geom, spe.
    destruct (drop_last c); [|reflexivity].
    destruct (cD c) as [d|] eqn:ED; cbn [or_default].
    - destruct (HD d eq_refl) as [_ [_ Hr]].
      destruct (cN c <? d) eqn:E; [apply Z.ltb_lt in E; lia|]. reflexivity.
    - destruct (cN c <? cB c) eqn:E; [apply Z.ltb_lt in E; lia|]. reflexivity.
  Qed.
  Lemma lB_eq : lB c = cB c. Proof. unfold lB. now rewrite loop_geom_eq. Qed.
  Lemma lspe_eq : lspe c = spe c. Proof. unfold lspe. now rewrite loop_geom_eq. Qed.

  (* with drop_last an epoch consists of whole batches *)
  Lemma spe_upe_drop : drop_last c = true -> spe c = upe c * cB c.
  Proof.
    destruct W as [HB HBN HD _ _ _]. intros Hd. unfold upe, spe. rewrite Hd.
    unfold or_default. destruct (cD c) as [d|] eqn:ED.
    - destruct (HD d eq_refl) as [_ [[m Hm] Hr]]. subst d.
      replace (cN c / (m * cB c) * (m * cB c)) with (cN c / (m * cB c) * m * cB c) by ring.
      rewrite Z.div_mul by lia. reflexivity.
    - rewrite Z.div_mul by lia. reflexivity.
  Qed.

  (* updates per epoch = ceil(samples per epoch / batch size) *)
  Lemma upe_ceil : (spe c + cB c - 1) / cB c = upe c.
  Proof.
    pose proof W as [HB HBN HD _ _ _].
    destruct (drop_last c) eqn:Hd.
    - rewrite spe_upe_drop by auto.
      replace (upe c * cB c + cB c - 1) with (upe c * cB c + (cB c - 1)) by lia.
      rewrite Z.div_add_l by lia. rewrite (Z.div_small (cB c - 1)) by lia. lia.
    - unfold upe, spe. rewrite Hd. reflexivity.
  Qed.

  Lemma upe_pos : 1 <= upe c.
  Proof.
    pose proof W as [HB HBN HD _ _ _]. pose proof spe_range. rewrite <- upe_ceil.
    apply Z.div_le_lower_bound; lia.
  Qed.

  (* the batches of an epoch *)
  Lemma epoch_batches_concat e :
    concat (epoch_batches c mi e) = firstn (Z.to_nat (spe c)) (mi e).
  Proof. pose proof W as [HB _ _ _ _ _]. unfold epoch_batches. apply concat_chunk. lia. Qed.

  Lemma epoch_batches_len e : len (concat (epoch_batches c mi e)) = spe c.
  Proof.
    rewrite epoch_batches_concat. unfold len. rewrite firstn_length.
    pose proof (wf_iter c mi W e) as Hl. unfold len in Hl. pose proof spe_range. lia.
  Qed.

  Lemma epoch_batches_count e : Z.of_nat (length (epoch_batches c mi e)) = upe c.
  Proof.
    pose proof W as [HB _ _ _ _ _]. unfold epoch_batches. rewrite chunk_length by lia.
    fold (epoch_batches c mi e). 
    replace (len (firstn (Z.to_nat (spe c)) (mi e))) with (spe c).
    - rewrite Z2Nat.id by lia. apply upe_ceil.
    - rewrite <- epoch_batches_concat. now rewrite epoch_batches_len.
  Qed.

  Lemma epoch_batches_shape e : shape (Z.to_nat (cB c)) (epoch_batches c mi e).
  Proof. pose proof W as [HB _ _ _ _ _]. apply chunk_shape. lia. Qed.

  Lemma epoch_split e :
    mi e = concat (epoch_batches c mi e) ++ skipn (Z.to_nat (spe c)) (mi e).
  Proof. rewrite epoch_batches_concat. symmetry. apply firstn_skipn. Qed.
End Geometry.
