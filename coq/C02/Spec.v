(* C02 — specification: the index map of a stack as the composition of the
   layers' index maps, in terms of plain list operations (concat, indexing). *)
From Coq Require Import ZArith List Bool.
Import ListNotations.
From KD Require Import C02.Model.
Open Scope Z_scope.

(* what a stack denotes: a finite sequence of root samples, or (balanced concat)
   the endless round-robin over the finite sequences of its parts *)
Inductive den := Fin (l : list sample) | Cyc (ls : list (list sample)).

Definition flat (d : den) : list sample := match d with Fin l => l | Cyc _ => [] end.
Definition is_fin (d : den) : bool := match d with Fin _ => true | Cyc _ => false end.

(* round-robin: index k >= 0 addresses part (k mod P), and inside that part its
   (k / P)-th sample, wrapping around when the part is exhausted *)
Definition round_robin (ls : list (list sample)) (k : Z) : option sample :=
  if k <? 0 then None else
  let P := zlen ls in
  let part := nth (Z.to_nat (k mod P)) ls [] in
  if zlen part =? 0 then None else nth_error part (Z.to_nat ((k / P) mod zlen part)).

(* item k of a denotation; negative k counts from the end of a finite sequence *)
Definition at_ (d : den) (k : Z) : option sample :=
  match d with
  | Fin l => if k <? 0 then nth_error l (Z.to_nat (zlen l + k)) else nth_error l (Z.to_nat k)
  | Cyc ls => round_robin ls k
  end.

Definition in_dom (d : den) (k : Z) : bool :=
  match d with
  | Fin l => (- zlen l <=? k) && (k <? zlen l)
  | Cyc _ => 0 <=? k
  end.

Fixpoint somes {A} (l : list (option A)) : list A :=
  match l with
  | [] => []
  | Some x :: l' => x :: somes l'
  | None :: l' => somes l'
  end.

Fixpoint den_of (s : stack) : den :=
  match s with
  | Root id n _ => Fin (map (fun k => (id, Z.of_nat k)) (seq 0 n))
  | Sub _ idxs s' => Fin (somes (map (at_ (den_of s')) idxs))
  | Cat b parts =>
      let ls := map (fun p => flat (den_of p)) parts in
      if b then Cyc ls else Fin (concat ls)
  | Wrap _ s' => den_of s'
  end.

(* the index map of a stack with a length *)
Definition map_of (s : stack) : list sample := flat (den_of s).

(* the stacks the property speaks about: every subset entry addresses an existing
   item of the layer below, concats have at least one part, all parts finite, and
   the parts of a balanced concat are non-empty *)
Fixpoint valid (s : stack) : bool :=
  match s with
  | Root _ _ _ => true
  | Sub _ idxs s' => valid s' && forallb (in_dom (den_of s')) idxs
  | Cat b parts =>
      negb (Nat.eqb (length parts) 0) && forallb valid parts
      && forallb (fun p => is_fin (den_of p)) parts
      && (if b then forallb (fun p => negb (Nat.eqb (length (flat (den_of p))) 0)) parts else true)
  | Wrap _ s' => valid s'
  end.

Fixpoint no_balanced (s : stack) : bool :=
  match s with
  | Root _ _ _ => true
  | Sub _ _ s' => no_balanced s'
  | Cat b parts => negb b && forallb no_balanced parts
  | Wrap _ s' => no_balanced s'
  end.

(* KDConcatDataset only concatenates getall results that are Python lists *)
Fixpoint yields_list (s : stack) : bool :=
  match s with
  | Root _ _ pk => match pk with PList => true | _ => false end
  | Sub _ _ _ => true
  | Cat _ _ => true
  | Wrap _ s' => yields_list s'
  end.

Fixpoint lists_ok (s : stack) : bool :=
  match s with
  | Root _ _ _ => true
  | Sub _ _ s' => lists_ok s'
  | Cat _ parts => forallb lists_ok parts && forallb yields_list parts
  | Wrap _ s' => lists_ok s'
  end.

(* linear chains: a root dataset under a list of subset / wrapper layers *)
Inductive layer := LSub (tag : Z) (idxs : list Z) | LWrap (tag : Z).
Definition ltag (l : layer) : Z := match l with LSub t _ => t | LWrap t => t end.
Definition apply_layer (l : layer) (s : stack) : stack :=
  match l with LSub t idxs => Sub t idxs s | LWrap t => Wrap t s end.
Definition build (ls : list layer) (base : stack) : stack := fold_right apply_layer base ls.

Fixpoint unbuild (s : stack) : list layer * stack :=
  match s with
  | Sub t idxs s' => let '(ls, b) := unbuild s' in (LSub t idxs :: ls, b)
  | Wrap t s' => let '(ls, b) := unbuild s' in (LWrap t :: ls, b)
  | _ => ([], s)
  end.

(* positions of tag t in a list of tags *)
Fixpoint positions (t : Z) (from : nat) (tags : list Z) : list nat :=
  match tags with
  | [] => []
  | t' :: r => if t' =? t then from :: positions t (S from) r else positions t (S from) r
  end.

(* all root datasets below a stack, left to right *)
Fixpoint roots (s : stack) : list Z :=
  match s with
  | Root id _ _ => [id]
  | Sub _ _ s' => roots s'
  | Cat _ parts => flat_map roots parts
  | Wrap _ s' => roots s'
  end.
