(* C10 -- executable comparison of what the harness decoded from the real collator's output
   with the model (Model.collate_batch) and with the boolean spec (Spec.spec_obs). *)
From Coq Require Import ZArith QArith Qabs List Bool.
Import ListNotations.
From KD Require Import C10.Model C10.Spec.
Open Scope Z_scope.

Definition img_match (h w : Z) (i : nat) (d : img_desc) (o : img_obs) : bool :=
  match d, o with
  | Mix p wt, OUniform v1 v2 => close2 (v1, v2) (render_mix i p wt)
  | Cut p b, OPatch q b' => Nat.eqb p q && box_eqb b b'
  | Cut p b, OUniform v1 v2 =>
      if (box_area b =? 0) || Nat.eqb p i then close2 (v1, v2) (pat i)
      else if box_area b =? h * w then close2 (v1, v2) (pat p) else false
  | Keep, OUniform v1 v2 => close2 (v1, v2) (pat i)
  | _, _ => false
  end.

Fixpoint forall2i {A B} (f : nat -> A -> B -> bool) (i : nat) (a : list A) (b : list B) : bool :=
  match a, b with
  | [], [] => true
  | x :: a', y :: b' => f i x y && forall2i f (S i) a' b'
  | _, _ => false
  end.

Definition item_match (a : item) (b : obs_item) : bool :=
  match a, b with
  | IX _, BX => true
  | IY _ _, BY => true
  | IOther u, BRaw v => zlist_eqb u v
  | _, _ => false
  end.

Definition cval_match (a b : cval) : bool :=
  match a, b with
  | VBools x, VBools y => forall2i (fun _ u v => Bool.eqb u v) 0 x y
  | VLams x, VLams y => forall2i (fun _ u v => close tol_lab u v) 0 x y
  | VRaw x, VRaw y => zlist_eqb x y
  | _, _ => false
  end.
(* same keys in the same (dictionary insertion) order, matching values *)
Definition ctx_match (m o : ctx_t) : bool :=
  forall2i (fun _ a b => ckey_eqb (fst a) (fst b) && cval_match (snd a) (snd b)) 0 m o.

(* the lambda the implementation held when it computed a half size is the drawn one: exactly (float64, lamb_mode
   sample) or rounded to float32 (torch.tensor([rng.beta(..)]), lamb_mode batch) *)
Definition held_match (f32 : bool) (drawn held : Q) : bool :=
  if f32 then close (1 # 16777216) drawn held else Qeq_bool drawn held.

Definition model_matches (c : cfg) (Y : list (list Q)) (ob : list item) (mctx : ctx_t) (r : result) (o : obs) : bool :=
  forall2i (img_match (img_h c) (img_w c)) 0 (imgs r) (o_imgs o)
  && match labs r, o_labs o with
     | None, None => true
     | Some l, Some rows => forall2i (fun i d row => close_row row (render_label Y i d)) 0 l rows
     | _, _ => false
     end
  && forall2i (fun _ a b => Bool.eqb a b) 0 (ctx_apply r) (o_apply o)
  && forall2i (fun _ a b => Bool.eqb a b) 0 (ctx_cutmix r) (o_cutmix o)
  && forall2i (fun _ a b => close tol_lab a b) 0 (ctx_lambda r) (o_lambda o)
  && forall2i (fun _ a b => item_match a b) 0 ob (o_batch o)
  && match get_item (tokens c) TClass ob with
     | Some (IY _ nd) => Nat.eqb nd (o_lab_ndim o)
     | _ => negb (has_item (tokens c) TClass)
     end
  && ctx_match mctx (o_ctx o)
  && forall2i (fun _ a b => held_match (match lamb_mode c with PerBatch => true | PerSample => false end) a b)
              0 (bbox_lams r) (o_held o).

(* outcome codes of the harness: 0 returned; otherwise the exception class *)
Definition err_code (e : err) : nat :=
  match e with
  | EDraw => 99
  | EAssertFlip => 1
  | EAssertLabel => 2
  | EUnpack => 3
  | ECast => 4
  | EView => 5
  | ENoX => 6
  | EMultiView => 7
  | EItem => 98
  end%nat.

(* cfg, half box sizes, recorded draws, input label matrix, input batch (placeholders at x / class), input context,
   outcome (0 = returned, otherwise err_code of the exception), decoded output *)
Definition case_t : Type := cfg * list (Z * Z) * trace * list (list Q) * list item * ctx_t * nat * obs.

(* 0 = implementation, model and spec agree; 1 = model differs from the implementation;
   2 = the spec is false on the implementation's output *)
Definition check (t : case_t) : nat :=
  let '(c, halves, tr, Y, batch, ctx, outcome, o) := t in
  match outcome with
  | O =>
      if negb (spec_obs c halves Y tr batch ctx o) then 2%nat else
      match collate_batch c halves Y batch ctx tr with
      | Ok ((ob, mctx, r), []) => if model_matches c Y ob mctx r o then 0%nat else 1%nat
      | _ => 1%nat
      end
  | _ =>
      match collate_batch c halves Y batch ctx tr with
      | Err e => if Nat.eqb (err_code e) outcome then 0%nat else 1%nat
      | Ok _ => 1%nat
      end
  end.
