(* C02 — proofs: the model of index resolution equals the compositional index map,
   for every stack (induction over the nesting). *)
From Coq Require Import ZArith List Bool Lia ZifyBool.
Import ListNotations.
From KD Require Import C02.Model C02.Spec.
Open Scope Z_scope.
Ltac Zify.zify_post_hook ::= Z.to_euclidean_division_equations.

(* ------------------------------------------------------------------ *)
(* induction principle for the nested type                             *)
Section StackInd.
  Variable P : stack -> Prop.
  Hypothesis HRoot : forall id n pk, P (Root id n pk).
  Hypothesis HSub : forall t idxs s, P s -> P (Sub t idxs s).
  Hypothesis HCat : forall b parts, Forall P parts -> P (Cat b parts).
  Hypothesis HWrap : forall t s, P s -> P (Wrap t s).
  Fixpoint stack_ind' (s : stack) : P s :=
    match s with
    | Root id n pk => HRoot id n pk
    | Sub t idxs s' => HSub t idxs s' (stack_ind' s')
    | Cat b parts =>
        HCat b parts ((fix go (ps : list stack) : Forall P ps :=
                         match ps with
                         | [] => Forall_nil P
                         | p :: ps' => Forall_cons p (stack_ind' p) (go ps')
                         end) parts)
    | Wrap t s' => HWrap t s' (stack_ind' s')
    end.
End StackInd.

(* ------------------------------------------------------------------ *)
(* list helpers                                                        *)
Lemma nth_error_map_seq {A} (f : nat -> A) n a j :
  (j < n)%nat -> nth_error (map f (seq a n)) j = Some (f (a + j)%nat).
Proof.
  revert a j. induction n; intros a j H; [lia|].
  destruct j; simpl.
  - f_equal. f_equal. lia.
  - rewrite IHn by lia. f_equal. f_equal. lia.
Qed.

Lemma zlen_map {A B} (f : A -> B) l : zlen (map f l) = zlen l.
Proof. unfold zlen. now rewrite map_length. Qed.

Lemma zlen_app {A} (l m : list A) : zlen (l ++ m) = zlen l + zlen m.
Proof. unfold zlen. rewrite app_length. lia. Qed.

Lemma zlen_nonneg {A} (l : list A) : 0 <= zlen l.
Proof. unfold zlen. lia. Qed.

Lemma zlen_cons {A} (x : A) l : zlen (x :: l) = 1 + zlen l.
Proof. unfold zlen. simpl length. lia. Qed.

Definition norm (n k : Z) : Z := if k <? 0 then n + k else k.

Lemma py_index_in n k : - n <= k < n -> py_index n k = Some (norm n k) /\ 0 <= norm n k < n.
Proof.
  intros H. unfold py_index, norm.
  destruct (k <? 0) eqn:E1.
  - destruct (- k <=? n) eqn:E2; [split; [reflexivity|lia] | lia].
  - destruct (k <? n) eqn:E2; [split; [reflexivity|lia] | lia].
Qed.

Lemma py_index_out n k : 0 <= n -> ~ (- n <= k < n) -> py_index n k = None.
Proof.
  intros Hn H. unfold py_index.
  destruct (k <? 0) eqn:E1.
  - destruct (- k <=? n) eqn:E2; [lia | reflexivity].
  - destruct (k <? n) eqn:E2; [lia | reflexivity].
Qed.

(* Python indexing of a list = the spec's "negative counts from the end" *)
Lemma py_nth_at {A} (l : list A) k :
  - zlen l <= k < zlen l ->
  py_nth l k = nth_error l (Z.to_nat (norm (zlen l) k)).
Proof.
  intros H. unfold py_nth. destruct (py_index_in _ _ H) as [-> _]. reflexivity.
Qed.

Lemma at_fin l k : at_ (Fin l) k = nth_error l (Z.to_nat (norm (zlen l) k)).
Proof. unfold at_, norm. destruct (k <? 0); reflexivity. Qed.

(* somes of an all-defined list *)
Lemma somes_all {A} (l : list (option A)) :
  Forall (fun o => o <> None) l -> map Some (somes l) = l.
Proof.
  induction 1 as [|o l Ho Hl IH]; simpl; [reflexivity|].
  destruct o; [|congruence]. simpl. now rewrite IH.
Qed.

Lemma nth_error_somes {A} (l : list (option A)) j :
  Forall (fun o => o <> None) l ->
  nth_error (somes l) j = match nth_error l j with Some o => o | None => None end.
Proof.
  intros H. pose proof (somes_all l H) as E.
  rewrite <- E at 2. rewrite nth_error_map. destruct (nth_error (somes l) j); reflexivity.
Qed.

Lemma length_somes {A} (l : list (option A)) :
  Forall (fun o => o <> None) l -> length (somes l) = length l.
Proof. intros H. rewrite <- (somes_all l H) at 2. now rewrite map_length. Qed.

(* ------------------------------------------------------------------ *)
(* concat lookup through cumulative sizes and bisect                   *)
Fixpoint zsum (l : list Z) : Z := match l with [] => 0 | x :: r => x + zsum r end.

Lemma zlen_concat {A} (ls : list (list A)) : zlen (concat ls) = zsum (map zlen ls).
Proof. induction ls; simpl; [reflexivity|]. now rewrite zlen_app, IHls. Qed.

Lemma last_cumsum acc l d : last (cumsum acc l) d = match l with [] => d | _ => acc + zsum l end.
Proof.
  revert acc. induction l as [|x l IH]; intros acc; [reflexivity|].
  change (cumsum acc (x :: l)) with ((acc + x) :: cumsum (acc + x) l).
  destruct l as [|y l]; [simpl; lia|].
  change (last ((acc + x) :: cumsum (acc + x) (y :: l)) d) with (last (cumsum (acc + x) (y :: l)) d).
  rewrite IH. simpl. lia.
Qed.

Lemma zsum_nonneg l : Forall (fun x => 0 <= x) l -> 0 <= zsum l.
Proof. induction 1; simpl; lia. Qed.

(* the pair produced by bisect_right over the cumulative sizes addresses the same
   element as plain indexing into the concatenation *)
Lemma concat_lookup {A} (ls : list (list A)) : forall acc k,
  0 <= k < zlen (concat ls) ->
  let cum := cumsum acc (map zlen ls) in
  let d := bisect_right cum (acc + k) in
  let j := acc + k - match d with O => acc | S d' => nth d' cum 0 end in
  (d < length ls)%nat /\ 0 <= j < zlen (nth d ls []) /\
  nth_error (concat ls) (Z.to_nat k) = nth_error (nth d ls []) (Z.to_nat j).
Proof.
  induction ls as [|l ls IH]; intros acc k Hk.
  - simpl in Hk. unfold zlen in Hk. simpl in Hk. lia.
  - simpl concat in *. rewrite zlen_app in Hk.
    cbv zeta.
    change (cumsum acc (map zlen (l :: ls))) with ((acc + zlen l) :: cumsum (acc + zlen l) (map zlen ls)).
    change (bisect_right ((acc + zlen l) :: cumsum (acc + zlen l) (map zlen ls)) (acc + k))
      with (if acc + zlen l <=? acc + k then S (bisect_right (cumsum (acc + zlen l) (map zlen ls)) (acc + k)) else O).
    destruct (acc + zlen l <=? acc + k) eqn:E.
    + assert (Hk' : 0 <= k - zlen l < zlen (concat ls)) by lia.
      specialize (IH (acc + zlen l) (k - zlen l) Hk').
      replace (acc + zlen l + (k - zlen l)) with (acc + k) in IH by lia.
      cbv zeta in IH. destruct IH as (Hd & Hj & Hn).
      set (d1 := bisect_right (cumsum (acc + zlen l) (map zlen ls)) (acc + k)) in *.
      split; [simpl length; lia|].
      assert (Hoff : nth d1 (acc + zlen l :: cumsum (acc + zlen l) (map zlen ls)) 0 =
                     match d1 with O => acc + zlen l | S d' => nth d' (cumsum (acc + zlen l) (map zlen ls)) 0 end).
      { destruct d1; reflexivity. }
      rewrite Hoff. change (nth (S d1) (l :: ls) []) with (nth d1 ls []).
      split; [exact Hj|].
      rewrite nth_error_app2 by (unfold zlen in *; lia).
      replace (Z.to_nat k - length l)%nat with (Z.to_nat (k - zlen l)) by (unfold zlen; lia).
      exact Hn.
    + simpl nth. split; [simpl length; lia|].
      replace (acc + k - acc) with k by lia. split; [lia|].
      rewrite nth_error_app1 by (unfold zlen in *; lia). reflexivity.
Qed.

(* uniqueness: the (part, offset) pair is the only one with cum[d-1] + j = k *)
Lemma concat_pair_unique (sizes : list Z) : forall d1 j1 d2 j2,
  Forall (fun x => 0 <= x) sizes ->
  (d1 < length sizes)%nat -> (d2 < length sizes)%nat ->
  0 <= j1 < nth d1 sizes 0 -> 0 <= j2 < nth d2 sizes 0 ->
  zsum (firstn d1 sizes) + j1 = zsum (firstn d2 sizes) + j2 ->
  d1 = d2 /\ j1 = j2.
Proof.
  induction sizes as [|x r IH]; intros d1 j1 d2 j2 Hs H1 H2 B1 B2 E; [simpl in H1; lia|].
  inversion Hs as [|? ? Hx Hr]; subst.
  assert (Hpre : forall d, 0 <= zsum (firstn d r)).
  { intros d. apply zsum_nonneg. clear -Hr. revert d. induction Hr; destruct d; simpl; constructor; auto. }
  destruct d1 as [|d1], d2 as [|d2]; simpl in *.
  - split; [reflexivity|lia].
  - pose proof (Hpre d2). lia.
  - pose proof (Hpre d1). lia.
  - destruct (IH d1 j1 d2 j2 Hr) as [-> ->]; try lia; split; reflexivity.
Qed.

Lemma nth_cumsum l : forall acc d, (d < length l)%nat -> nth d (cumsum acc l) 0 = acc + zsum (firstn (S d) l).
Proof.
  induction l as [|x r IH]; intros acc d H; [simpl in H; lia|].
  destruct d; simpl.
  - lia.
  - simpl in H. rewrite IH by lia. simpl. lia.
Qed.

(* ------------------------------------------------------------------ *)
(* the main induction                                                  *)
Definition den_ok (d : den) : Prop :=
  match d with
  | Fin _ => True
  | Cyc ls => ls <> [] /\ Forall (fun l => l <> []) ls
  end.

Lemma at_some d k : den_ok d -> in_dom d k = true -> at_ d k <> None.
Proof.
  destruct d as [l|ls]; intros Hok Hd.
  - rewrite at_fin. simpl in Hd. apply nth_error_Some. unfold norm, zlen in *.
    destruct (k <? 0) eqn:E; lia.
  - destruct Hok as [Hne Hall]. simpl in *. unfold round_robin.
    assert (k <? 0 = false) as -> by lia.
    assert (HP : 0 < zlen ls) by (destruct ls; [congruence| rewrite zlen_cons; pose proof (zlen_nonneg ls); lia]).
    set (d := Z.to_nat (k mod zlen ls)).
    assert (Hd' : (d < length ls)%nat) by (unfold d, zlen in *; lia).
    assert (Hp : nth d ls [] <> []) by (eapply Forall_nth in Hall; eauto).
    assert (0 < zlen (nth d ls [])) by (destruct (nth d ls []); [congruence| rewrite zlen_cons; pose proof (zlen_nonneg l); lia]).
    destruct (zlen (nth d ls []) =? 0) eqn:E0; [lia|].
    apply nth_error_Some. unfold zlen in *. lia.
Qed.

Definition stack_dflt : stack := Root 0 0 PNone.

Lemma nth_map_dflt {A B} (f : A -> B) l d (da : A) (db : B) :
  (d < length l)%nat -> nth d (map f l) db = f (nth d l da).
Proof.
  intros H. rewrite (nth_indep _ db (f da)) by (now rewrite map_length). apply map_nth.
Qed.

Definition good (s : stack) : Prop :=
  valid s = true ->
  den_ok (den_of s)
  /\ (is_fin (den_of s) = true -> slen s = Some (zlen (map_of s)))
  /\ (forall k, in_dom (den_of s) k = true -> resolve s k = at_ (den_of s) k).

Lemma forallb_Forall {A} (f : A -> bool) l : forallb f l = true -> Forall (fun x => f x = true) l.
Proof. intros H. apply Forall_forall. now apply forallb_forall. Qed.

Lemma sum_opt_sizes parts :
  Forall (fun p => slen p = Some (zlen (map_of p))) parts ->
  sum_opt (map slen parts) = Some (zsum (map zlen (map (fun p => flat (den_of p)) parts))).
Proof.
  induction 1 as [|p ps Hp Hps IH]; simpl; [reflexivity|].
  rewrite Hp, IH. reflexivity.
Qed.

Lemma sizes_eq parts :
  Forall (fun p => slen p = Some (zlen (map_of p))) parts ->
  map size_of parts = map zlen (map (fun p => flat (den_of p)) parts).
Proof.
  induction 1 as [|p ps Hp Hps IH]; simpl; [reflexivity|].
  unfold size_of at 1. rewrite Hp, IH. reflexivity.
Qed.

Lemma good_all : forall s, good s.
Proof.
  induction s as [id n pk | t idxs s IH | b parts IH | t s IH] using stack_ind'; unfold good; intros Hv.
  - (* Root *)
    simpl den_of. split; [exact I|]. split.
    + intros _. unfold map_of. simpl. unfold zlen. now rewrite map_length, seq_length.
    + intros k Hk. simpl in_dom in Hk. simpl resolve.
      set (l := map _ (seq 0 n)) in *.
      assert (Hl : @zlen sample l = Z.of_nat n)
        by (unfold l, zlen; now rewrite map_length, seq_length).
      rewrite at_fin, Hl. rewrite Hl in Hk.
      destruct (py_index_in (Z.of_nat n) k) as [-> Hb]; [lia|].
      unfold l. rewrite nth_error_map_seq by lia. simpl. rewrite Z2Nat.id by lia. reflexivity.
  - (* Sub *)
    simpl in Hv. apply andb_true_iff in Hv as [Hv Hidx].
    destruct (IH Hv) as (Hok & Hlen & Hres).
    assert (Hall : Forall (fun o : option sample => o <> None) (map (at_ (den_of s)) idxs)).
    { apply Forall_forall. intros o Ho. apply in_map_iff in Ho as (i & <- & Hi).
      apply at_some; [exact Hok|]. eapply forallb_forall in Hidx; eauto. }
    simpl den_of. split; [exact I|]. split.
    + intros _. unfold map_of. simpl. unfold zlen. now rewrite length_somes, map_length.
    + intros k Hk. simpl in_dom in Hk. simpl resolve.
      assert (Hl : zlen (somes (map (at_ (den_of s)) idxs)) = zlen idxs)
        by (unfold zlen; now rewrite length_somes, map_length).
      rewrite at_fin, Hl. rewrite Hl in Hk.
      rewrite py_nth_at by lia.
      rewrite nth_error_somes by exact Hall.
      rewrite nth_error_map.
      destruct (nth_error idxs (Z.to_nat (norm (zlen idxs) k))) as [i|] eqn:E; [|reflexivity].
      simpl. apply Hres. eapply forallb_forall in Hidx; eauto. eapply nth_error_In; eauto.
  - (* Cat *)
    simpl in Hv.
    apply andb_true_iff in Hv as [Hv Hbal]. apply andb_true_iff in Hv as [Hv Hfin].
    apply andb_true_iff in Hv as [Hne Hval].
    assert (Hne' : parts <> []) by (destruct parts; [discriminate|congruence]).
    assert (Hparts : Forall (fun p => den_ok (den_of p)
                       /\ slen p = Some (zlen (map_of p))
                       /\ exists l, den_of p = Fin l /\ forall k, 0 <= k < zlen l -> resolve p k = nth_error l (Z.to_nat k)) parts).
    { apply Forall_forall. intros p Hp.
      rewrite Forall_forall in IH. specialize (IH p Hp).
      eapply forallb_forall in Hval; eauto. eapply forallb_forall in Hfin; eauto. simpl in Hfin.
      destruct (IH Hval) as (A1 & A2 & A3). split; [exact A1|]. split; [auto|].
      destruct (den_of p) as [l|] eqn:E; [|discriminate]. exists l. split; [reflexivity|].
      intros k Hk. rewrite A3 by (simpl; lia). rewrite at_fin. unfold norm.
      destruct (k <? 0) eqn:E1; [lia|reflexivity]. }
    assert (Hlens : Forall (fun p => slen p = Some (zlen (map_of p))) parts).
    { eapply Forall_impl; [|exact Hparts]. simpl. tauto. }
    set (ls := map (fun p => flat (den_of p)) parts).
    assert (Hsz : map size_of parts = map zlen ls) by (apply sizes_eq; exact Hlens).
    assert (Hlen_ls : length ls = length parts) by (unfold ls; now rewrite map_length).
    assert (Hres_part : forall d j, (d < length parts)%nat -> 0 <= j < zlen (nth d ls []) ->
              nth d (map (fun p => resolve p j) parts) None = nth_error (nth d ls []) (Z.to_nat j)).
    { intros d j Hd Hj.
      rewrite (nth_map_dflt _ _ _ stack_dflt) by exact Hd.
      unfold ls in *. rewrite (nth_map_dflt _ _ _ stack_dflt) in * by exact Hd.
      eapply Forall_nth with (d := stack_dflt) in Hparts; eauto.
      destruct Hparts as (_ & _ & l & El & Hl). rewrite El in *. simpl in *. now apply Hl. }
    destruct b; simpl den_of; fold ls.
    + (* balanced *)
      split.
      { simpl. split.
        - unfold ls. destruct parts; [congruence|discriminate].
        - apply Forall_forall. intros l Hl. unfold ls in Hl. apply in_map_iff in Hl as (p & <- & Hp).
          eapply forallb_forall in Hbal; eauto. simpl in Hbal.
          destruct (flat (den_of p)); [discriminate|congruence]. }
      split; [simpl; discriminate|].
      intros k Hk. simpl in Hk. simpl resolve. rewrite Hsz.
      unfold to_balanced_idx, at_, round_robin.
      assert (k <? 0 = false) as -> by lia.
      rewrite zlen_map.
      assert (HP : 0 < zlen ls).
      { unfold zlen. rewrite Hlen_ls. destruct parts; [congruence|simpl; lia]. }
      set (d := Z.to_nat (k mod zlen ls)).
      assert (Hd : (d < length parts)%nat) by (unfold d, zlen in *; lia).
      rewrite (nth_map_dflt zlen ls d [] 0) by lia.
      destruct (zlen (nth d ls []) =? 0) eqn:E0; [reflexivity|].
      pose proof (zlen_nonneg (nth d ls [])).
      rewrite Z.quot_div_nonneg by lia.
      apply Hres_part; [exact Hd|]. lia.
    + (* sequential *)
      split; [exact I|]. split.
      { intros _. simpl slen. unfold map_of. simpl. fold ls.
        rewrite zlen_concat. unfold ls. apply sum_opt_sizes. exact Hlens. }
      intros k Hk. simpl in Hk. simpl resolve. rewrite Hsz.
      rewrite at_fin.
      set (T := zlen (concat ls)) in *.
      assert (Hlast : last (cumsum 0 (map zlen ls)) 0 = T).
      { rewrite last_cumsum. unfold T. rewrite zlen_concat.
        destruct (map zlen ls) eqn:E; simpl; lia. }
      assert (Hn : 0 <= norm T k < T) by (unfold norm; destruct (k <? 0) eqn:E; lia).
      set (kk := norm T k) in *.
      set (cum := cumsum 0 (map zlen ls)) in *.
      pose proof (concat_lookup ls 0 kk Hn) as L. cbv zeta in L.
      rewrite Z.add_0_l in L. fold cum in L.
      set (d := bisect_right cum kk) in *.
      set (j0 := match d with O => kk | S d' => kk - nth d' cum 0 end).
      assert (Hj : j0 = kk - match d with O => 0 | S d' => nth d' cum 0 end) by (unfold j0; destruct d; lia).
      destruct L as (Ld & Lj & Ln).
      assert (Hidx : to_concat_idx cum k = Some (d, j0)).
      { unfold to_concat_idx. rewrite Hlast. unfold j0, d, kk, norm.
        destruct (k <? 0) eqn:E1; [destruct (T <? - k) eqn:E2; [lia|reflexivity] | reflexivity]. }
      rewrite Hidx. fold kk. rewrite Ln, Hj. apply Hres_part; [lia|]. exact Lj.
  - (* Wrap *)
    simpl in Hv. destruct (IH Hv) as (A & B & C). simpl. split; [exact A|]. split; [exact B|exact C].
Qed.

(* ------------------------------------------------------------------ *)
(* the property theorems                                               *)
Lemma resolve_is_at s k :
  valid s = true -> in_dom (den_of s) k = true -> resolve s k = at_ (den_of s) k.
Proof. intros Hv. destruct (good_all s Hv) as (_ & _ & H). apply H. Qed.

Lemma fin_den s : is_fin (den_of s) = true -> den_of s = Fin (map_of s).
Proof. unfold map_of. destruct (den_of s); [reflexivity|discriminate]. Qed.

Lemma resolve_is_nth_map s k :
  valid s = true -> is_fin (den_of s) = true ->
  - zlen (map_of s) <= k < zlen (map_of s) ->
  resolve s k = nth_error (map_of s) (Z.to_nat (if k <? 0 then zlen (map_of s) + k else k)).
Proof.
  intros Hv Hf Hk. rewrite resolve_is_at; [|exact Hv|].
  - rewrite (fin_den s Hf). apply at_fin.
  - rewrite (fin_den s Hf). simpl. lia.
Qed.

Lemma resolve_defined s k :
  valid s = true -> in_dom (den_of s) k = true -> resolve s k <> None.
Proof.
  intros Hv Hk. rewrite resolve_is_at by assumption.
  apply at_some; [|exact Hk]. now destruct (good_all s Hv).
Qed.

Lemma len_is_length_map s :
  valid s = true -> is_fin (den_of s) = true -> slen s = Some (zlen (map_of s)).
Proof. intros Hv. destruct (good_all s Hv) as (_ & H & _). exact H. Qed.

(* balanced concat: index j*P + d is sample (j mod len_d) of part d *)
Lemma balanced_round_robin parts j d :
  valid (Cat true parts) = true ->
  0 <= j -> (d < length parts)%nat ->
  let part := map_of (nth d parts stack_dflt) in
  resolve (Cat true parts) (j * zlen parts + Z.of_nat d) =
  nth_error part (Z.to_nat (j mod zlen part)).
Proof.
  intros Hv Hj Hd part.
  assert (HP : 0 < zlen parts) by (unfold zlen; lia).
  rewrite resolve_is_at; [|exact Hv| simpl; unfold zlen in *; nia].
  simpl den_of. unfold at_, round_robin.
  assert (E0 : (j * zlen parts + Z.of_nat d <? 0) = false) by (unfold zlen in *; nia).
  rewrite E0, zlen_map.
  assert (E1 : (j * zlen parts + Z.of_nat d) mod zlen parts = Z.of_nat d).
  { rewrite Z.add_comm, Z.mod_add by lia. apply Z.mod_small. unfold zlen. lia. }
  assert (E2 : (j * zlen parts + Z.of_nat d) / zlen parts = j).
  { rewrite Z.add_comm, Z.div_add by lia. rewrite Z.div_small by (unfold zlen; lia). lia. }
  rewrite E1, E2, Nat2Z.id.
  rewrite (nth_map_dflt _ _ _ stack_dflt) by exact Hd.
  fold (map_of (nth d parts stack_dflt)). fold part.
  (* parts of a valid balanced concat are non-empty *)
  simpl in Hv. apply andb_true_iff in Hv as [_ Hbal].
  assert (Hne : (length part =? 0)%nat = false).
  { eapply forallb_forall in Hbal; [|apply nth_In; exact Hd]. apply negb_true_iff in Hbal. exact Hbal. }
  assert (zlen part =? 0 = false) as -> by (unfold zlen; destruct (length part); [discriminate|lia]).
  reflexivity.
Qed.

(* _to_concat_idx is the inverse of (part, offset) -> cum[part-1] + offset *)
Lemma bisect_inverse sizes : forall acc k,
  Forall (fun x => 0 <= x) sizes -> 0 <= k < zsum sizes ->
  let cum := cumsum acc sizes in
  let d := bisect_right cum (acc + k) in
  let j := acc + k - match d with O => acc | S d' => nth d' cum 0 end in
  (d < length sizes)%nat /\ 0 <= j < nth d sizes 0 /\ zsum (firstn d sizes) + j = k.
Proof.
  induction sizes as [|x r IH]; intros acc k Hs Hk; [simpl in Hk; lia|].
  inversion Hs as [|? ? Hx Hr]; subst. cbv zeta.
  change (cumsum acc (x :: r)) with ((acc + x) :: cumsum (acc + x) r).
  change (bisect_right ((acc + x) :: cumsum (acc + x) r) (acc + k))
    with (if acc + x <=? acc + k then S (bisect_right (cumsum (acc + x) r) (acc + k)) else O).
  simpl zsum in Hk.
  destruct (acc + x <=? acc + k) eqn:E.
  - assert (Hk' : 0 <= k - x < zsum r) by lia.
    specialize (IH (acc + x) (k - x) Hr Hk'). cbv zeta in IH.
    replace (acc + x + (k - x)) with (acc + k) in IH by lia.
    destruct IH as (Hd & Hj & Hn).
    set (d1 := bisect_right (cumsum (acc + x) r) (acc + k)) in *.
    assert (Hoff : nth d1 (acc + x :: cumsum (acc + x) r) 0 =
                   match d1 with O => acc + x | S d' => nth d' (cumsum (acc + x) r) 0 end)
      by (destruct d1; reflexivity).
    rewrite Hoff. simpl length. simpl nth. simpl firstn. simpl zsum.
    split; [lia|]. split; [exact Hj|lia].
  - simpl. split; [lia|]. split; lia.
Qed.

Lemma to_concat_idx_inverse sizes k :
  Forall (fun x => 0 <= x) sizes -> 0 <= k < zsum sizes ->
  exists d j, to_concat_idx (cumsum 0 sizes) k = Some (d, j)
    /\ (d < length sizes)%nat /\ 0 <= j < nth d sizes 0 /\ zsum (firstn d sizes) + j = k
    /\ forall d' j', (d' < length sizes)%nat -> 0 <= j' < nth d' sizes 0 ->
                     zsum (firstn d' sizes) + j' = k -> d' = d /\ j' = j.
Proof.
  intros Hs Hk. pose proof (bisect_inverse sizes 0 k Hs Hk) as L. cbv zeta in L.
  rewrite Z.add_0_l in L.
  set (cum := cumsum 0 sizes) in *. set (d := bisect_right cum k) in *.
  exists d, (match d with O => k | S d' => k - nth d' cum 0 end).
  assert (Hj : (match d with O => k | S d' => k - nth d' cum 0 end) = k - match d with O => 0 | S d' => nth d' cum 0 end)
    by (destruct d; lia).
  rewrite Hj. destruct L as (Ld & Lj & Lk).
  split.
  - unfold to_concat_idx. assert (k <? 0 = false) as -> by lia. fold d. now rewrite Hj.
  - split; [exact Ld|]. split; [exact Lj|]. split; [exact Lk|].
    intros d' j' Hd' Hj' Hk'. eapply concat_pair_unique; eauto. lia.
Qed.

Lemma to_concat_idx_negative sizes k :
  sizes <> [] -> - zsum sizes <= k < 0 ->
  to_concat_idx (cumsum 0 sizes) k = to_concat_idx (cumsum 0 sizes) (zsum sizes + k).
Proof.
  intros Hne Hk. unfold to_concat_idx. rewrite last_cumsum.
  destruct sizes as [|x r]; [congruence|]. rewrite Z.add_0_l.
  assert (k <? 0 = true) as -> by lia.
  assert (zsum (x :: r) <? - k = false) as -> by lia.
  assert (zsum (x :: r) + k <? 0 = false) as -> by lia. reflexivity.
Qed.

(* ---------------- bulk accessors ---------------- *)
Lemma no_balanced_fin s : no_balanced s = true -> is_fin (den_of s) = true.
Proof.
  induction s as [id n pk | t idxs s IH | b parts IH | t s IH] using stack_ind'; simpl; intros H; auto.
  apply andb_true_iff in H as [Hb _]. destruct b; [discriminate|reflexivity].
Qed.

Lemma all_some_somes {A} (l : list (option A)) :
  Forall (fun o => o <> None) l -> all_some l = Some (somes l).
Proof.
  induction 1 as [|o l Ho Hl IH]; simpl; [reflexivity|].
  destruct o; [|congruence]. now rewrite IH.
Qed.

Lemma map_ext_in' {A B} (f g : A -> B) l : (forall x, In x l -> f x = g x) -> map f l = map g l.
Proof. apply map_ext_in. Qed.

Lemma py_nth_eq_at (r : list sample) i :
  in_dom (Fin r) i = true -> py_nth r i = at_ (Fin r) i.
Proof. intros H. simpl in H. rewrite at_fin. apply py_nth_at. lia. Qed.

Lemma getall_is_map s :
  valid s = true -> no_balanced s = true -> has_getall s = true -> lists_ok s = true ->
  getall s = GOk (yields_list s) (map_of s).
Proof.
  induction s as [id n pk | t idxs s IH | b parts IH | t s IH] using stack_ind'; intros Hv Hb Hg Hl.
  - simpl in *. destruct pk; [discriminate|reflexivity|reflexivity].
  - simpl in Hv, Hb, Hg, Hl. apply andb_true_iff in Hv as [Hv Hidx].
    simpl getall. rewrite (IH Hv Hb Hg Hl).
    pose proof (fin_den s (no_balanced_fin s Hb)) as Ed.
    assert (Hm : map (py_nth (map_of s)) idxs = map (at_ (den_of s)) idxs).
    { apply map_ext_in. intros i Hi. rewrite Ed. apply py_nth_eq_at. rewrite <- Ed.
      eapply forallb_forall in Hidx; eauto. }
    rewrite Hm.
    assert (Hall : Forall (fun o : option sample => o <> None) (map (at_ (den_of s)) idxs)).
    { apply Forall_forall. intros o Ho. apply in_map_iff in Ho as (i & <- & Hi).
      apply at_some; [now destruct (good_all s Hv)|]. eapply forallb_forall in Hidx; eauto. }
    rewrite (all_some_somes _ Hall). reflexivity.
  - simpl in Hv, Hb, Hg, Hl.
    apply andb_true_iff in Hb as [Hbb Hb]. destruct b; [discriminate|]. simpl in Hg.
    apply andb_true_iff in Hv as [Hv _]. apply andb_true_iff in Hv as [Hv _].
    apply andb_true_iff in Hv as [_ Hval]. apply andb_true_iff in Hl as [Hl Hy].
    simpl getall. rewrite Hg. unfold map_of. simpl den_of. simpl flat. simpl yields_list.
    clear Hbb. induction parts as [|p ps IHp]; [reflexivity|].
    inversion IH as [|? ? IH1 IH2]; subst.
    simpl in Hval, Hb, Hg, Hl, Hy.
    apply andb_true_iff in Hval as [? ?]. apply andb_true_iff in Hb as [? ?].
    apply andb_true_iff in Hg as [? ?]. apply andb_true_iff in Hl as [? ?]. apply andb_true_iff in Hy as [Hy1 ?].
    simpl. rewrite IH1 by assumption. rewrite Hy1. rewrite IHp by assumption. reflexivity.
  - simpl in *. auto.
Qed.

Lemma all_some_nth_error {A} (l : list A) :
  all_some (map (fun k => nth_error l k) (seq 0 (length l))) = Some l.
Proof.
  induction l as [|x l IH]; [reflexivity|].
  simpl length. simpl seq. simpl map. rewrite <- seq_shift, map_map. simpl.
  rewrite IH. reflexivity.
Qed.

(* the sample-wise slow path of utils.getall yields the index map *)
Lemma util_getall_slow s :
  valid s = true -> is_fin (den_of s) = true -> has_getall s = false ->
  util_getall s = GOk true (map_of s).
Proof.
  intros Hv Hf Hg. unfold util_getall. rewrite Hg, (len_is_length_map s Hv Hf).
  unfold zlen. rewrite Nat2Z.id.
  assert (Hm : map (fun k => resolve s (Z.of_nat k)) (seq 0 (length (map_of s)))
             = map (fun k => nth_error (map_of s) k) (seq 0 (length (map_of s)))).
  { apply map_ext_in. intros k Hk. apply in_seq in Hk.
    rewrite resolve_is_nth_map; [|assumption|assumption|unfold zlen; lia].
    assert (Z.of_nat k <? 0 = false) as -> by lia. now rewrite Nat2Z.id. }
  rewrite Hm, all_some_nth_error. reflexivity.
Qed.

(* a stack offers getall_x only when no balanced concat is anywhere below (a balanced
   KDConcatDataset raises AttributeError, KDSubset / KDConcatDataset / KDWrapper look below first) *)
Lemma has_getall_no_balanced s : has_getall s = true -> no_balanced s = true.
Proof.
  induction s as [id n pk | t idxs s IH | b parts IH | t s IH] using stack_ind'; simpl; intros H; auto.
  apply andb_true_iff in H as [Hb Hp]. rewrite Hb. simpl.
  clear Hb. induction parts as [|p ps IHp]; [reflexivity|].
  inversion IH as [|? ? IH1 IH2]; subst. simpl in *.
  apply andb_true_iff in Hp as [H1 H2]. rewrite (IH1 H1). simpl. apply IHp; assumption.
Qed.

(* bulk accessor agrees element-wise with the per-sample accessor, for every valid stack with a length *)
Lemma getall_eq_map_getitem s :
  valid s = true -> is_fin (den_of s) = true -> lists_ok s = true ->
  exists b, util_getall s = GOk b (map_of s)
    /\ (has_getall s = true -> getall s = GOk b (map_of s))
    /\ slen s = Some (zlen (map_of s))
    /\ forall k, 0 <= k < zlen (map_of s) -> nth_error (map_of s) (Z.to_nat k) = resolve s k.
Proof.
  intros Hv Hf Hl.
  assert (Hk : forall k, 0 <= k < zlen (map_of s) -> nth_error (map_of s) (Z.to_nat k) = resolve s k).
  { intros k Hk. rewrite resolve_is_nth_map; [|assumption|assumption|lia].
    assert (k <? 0 = false) as -> by lia. reflexivity. }
  destruct (has_getall s) eqn:Hg.
  - pose proof (has_getall_no_balanced s Hg) as Hb.
    exists (yields_list s). unfold util_getall. rewrite Hg.
    rewrite (getall_is_map s Hv Hb Hg Hl). repeat split; auto using len_is_length_map.
  - exists true. rewrite (util_getall_slow s Hv Hf Hg). repeat split; auto using len_is_length_map. discriminate.
Qed.

(* wherever getall_x is offered at all it is the index map *)
Lemma getall_offered_is_map s :
  valid s = true -> lists_ok s = true -> has_getall s = true ->
  getall s = GOk (yields_list s) (map_of s) /\ is_fin (den_of s) = true.
Proof.
  intros Hv Hl Hg. pose proof (has_getall_no_balanced s Hg) as Hb.
  split; [apply getall_is_map; assumption | apply no_balanced_fin; exact Hb].
Qed.

(* ---------------- introspection ---------------- *)
Lemma build_unbuild s : build (fst (unbuild s)) (snd (unbuild s)) = s.
Proof.
  induction s as [id n pk | t idxs s IH | b parts IH | t s IH] using stack_ind'; simpl; auto;
    destruct (unbuild s) as [ls b0]; simpl in *; now rewrite IH.
Qed.

Lemma root_of_linear_chain ls id n pk : root (build ls (Root id n pk)) = id.
Proof. induction ls as [|[t idxs|t] ls IH]; simpl; auto. Qed.

Lemma wrappers_of_linear_chain ls id n pk : wrappers (build ls (Root id n pk)) = map ltag ls.
Proof. induction ls as [|[t idxs|t] ls IH]; simpl; auto; now rewrite IH. Qed.

Lemma positions_shift t tags : forall a, positions t (S a) tags = map S (positions t a tags).
Proof.
  induction tags as [|x r IH]; intros a; simpl; [reflexivity|].
  destruct (x =? t); simpl; now rewrite IH.
Qed.

Lemma wrappers_of_type_linear_chain t ls id n pk :
  wrappers_of_type t (build ls (Root id n pk)) = positions t 0 (map ltag ls).
Proof.
  induction ls as [|[t' idxs|t'] ls IH]; simpl; auto;
    rewrite IH, positions_shift; reflexivity.
Qed.

Lemma has_wrapper_type_linear_chain t ls id n pk :
  has_wrapper_type t (build ls (Root id n pk)) = existsb (Z.eqb t) (map ltag ls).
Proof.
  induction ls as [|[t' idxs|t'] ls IH]; simpl; auto;
    rewrite IH, (Z.eqb_sym t t'); destruct (t' =? t); reflexivity.
Qed.

Lemma dispose_reaches_root s : dispose s = roots s.
Proof.
  induction s as [id n pk | t idxs s IH | b parts IH | t s IH] using stack_ind'; simpl; auto.
Qed.

Lemma dispose_linear_chain ls id n pk : dispose (build ls (Root id n pk)) = [id].
Proof. induction ls as [|[t idxs|t] ls IH]; simpl; auto. Qed.

(* root / wrappers of any stack are those of its leftmost branch *)
Lemma root_is_first_root s : ctor_ok s = true -> hd_error (roots s) = Some (root s).
Proof.
  induction s as [id n pk | t idxs s IH | b parts IH | t s IH] using stack_ind'; simpl; auto.
  intros H. apply andb_true_iff in H as [H _]. apply andb_true_iff in H as [Hne Hc].
  destruct parts as [|p ps]; [discriminate|]. simpl in *.
  inversion IH as [|? ? IH1 _]; subst. apply andb_true_iff in Hc as [Hc _].
  specialize (IH1 Hc). destruct (roots p); simpl in *; [discriminate|exact IH1].
Qed.

(* the formerly recorded finding (getall below a subset ignored balanced sampling), now a regression example:
   the subset over a balanced concat offers no getall_x and utils.getall yields the round-robin map *)
Definition balanced_witness : stack :=
  Sub 0 [0; 1; 2; 3] (Cat true [Root 0 2 PList; Root 1 3 PList]).
