From KD Require Import C02.Model C02.Spec C02.Proofs.
Theorem placeholder_C02 : True. Proof. exact placeholder. Qed.
Print Assumptions placeholder_C02.
