"""C18 — collator pipeline keeps the batch layout and context contract; padding collator.

Real objects: KDComposeCollator / KDSingleCollator.__call__ / KDSingleCollatorWrapper over tiny member
collators of every default_collate_mode (identity, marking, ctx-writing) and the real PadSequencesCollator,
fed with real ModeWrapper samples (with / without return_ctx).  `default_collate` as imported by
kd_collator_base is wrapped to observe the operation trace."""
from .common import C, Nat, Opt, Raw, coq

ID = "C18"
COQ_FILES = ["C18/Model.v", "C18/Spec.v", "C18/Check.v", "C18/Proofs.v", "C18/Property.v"]
COQ_PRELUDE = ("From Coq Require Import ZArith List Bool.\nImport ListNotations.\n"
               "From KD Require Import C18.Model C18.Spec C18.Check.\nOpen Scope Z_scope.\n")
COQ_CHECK = "check"
COQ_CASE_TYPE = "case_t"
SHARD = 250
TRUSTED = [
    "hand-written model coq/C18/Model.v of KDCollatorBase._call_impl, the three entry points and "
    "PadSequencesCollator.collate (repaired code); tied to KD_REPO by this run's correspondence evaluation",
    "cited behaviour of torch default_collate (column-wise; scalars -> vector, equally long 1-d tensors -> matrix, "
    "ragged -> RuntimeError; dicts: keys of the first element) and pad_sequence(batch_first=True) (zeros up to the "
    "longest) -- exercised against the real torch on every case",
    "harness/c18.py: member collators, default_collate spy, canonicalisation of tensors into integer lists",
    "member collators are modelled by their contract (keeps_layout / keeps_ctx / extends_ctx); the harness members "
    "identity / marking / ctx-writing satisfy it by construction",
]
ASSUMPTIONS = [
    "ModeWrapper.return_ctx equals the collator's return_ctx (the code asserts this)",
    "items are Python ints / 0-d tensors / 1-d integer tensors; all samples of a batch have the same ctx keys "
    "(ragged key sets are only compared with the model, nothing is claimed)",
    "a None-mode member that collates by itself (PadSequencesCollator) followed by a member that asks for default "
    "collation is an ambiguity of the contract: counted in the evidence (feature 'ambiguous'), not claimed",
    "a member list whose order the call rejects by its assertions (None/After after collation) counts as rejected input",
]
ALLOWED_AXIOMS = []
RULE = ("random modes of 1-4 items (scalar / fixed / variable-length sequence / index), batch sizes 1-5 with repeated "
        "indices, contexts with 0-3 keys, 1-4 members over {None,before,after} x {identity,mark,ctx-write,pad} (70% "
        "well-ordered), entries compose/single/wrapper/direct-pad, length profiles equal/ragged; non-trivial = at "
        "least one member call observed; distinct by (entry, rc, member modes+kinds, item kinds, length profile)")

MODES = {"none": "MNone", "before": "MBefore", "after": "MAfter"}


# ---------------------------------------------------------------------------
# generation
# ---------------------------------------------------------------------------
def gen_case(rng, big=False):
    n = rng.choice([1, 1, 2, 2, 3, 4])
    names = ["f0", "f1", "f2", "f3"]
    items = names[:n]
    if rng.random() < 0.3:
        items[rng.randrange(n)] = "index"
    B = rng.choice([1, 2, 2, 3, 3, 4, 5] + ([6, 8] if big else []))
    rows_n = rng.choice([B, B, B + 1])
    order = [rng.randrange(rows_n) for _ in range(B)] if rng.random() < 0.4 else rng.sample(range(rows_n), B)
    entry = rng.choice(["compose"] * 6 + ["single", "wrapper", "direct", "direct"])
    pad_case = entry == "direct" or rng.random() < 0.25
    profile = rng.choice(["ragged", "ragged", "equal"]) if pad_case else rng.choice(["equal"] * 5 + ["ragged"])
    kinds = {}
    for it in items:
        if it == "index":
            continue
        kinds[it] = rng.choice(["scalar", "seq", "seq"])
    L = rng.randint(0, 4)
    rows = []
    for r in range(rows_n):
        vals = {}
        for it in items:
            if it == "index":
                continue
            if kinds[it] == "scalar":
                vals[it] = rng.randint(-5, 20)
            else:
                ln = L if profile == "equal" else rng.randint(0, 5 if not big else 9)
                vals[it] = [rng.randint(-3, 9) for _ in range(ln)]
        rows.append(vals)
    rc = rng.random() < 0.5
    nkeys = rng.choice([0, 1, 1, 2, 3])
    keyset = rng.sample(range(1, 7), nkeys)
    ctx = []
    for r in range(rows_n):
        ks = list(keyset)
        if nkeys and rng.random() < 0.03:
            ks = ks[:-1] if rng.random() < 0.5 else ks + [9]
        ctx.append([[k, rng.randint(0, 50)] for k in ks])
    members = []
    if entry == "direct":
        members = [["none", "pad", 0]]
    else:
        m = 1 if entry in ("single", "wrapper") else rng.choice([1, 1, 2, 2, 3, 4])
        if rng.random() < 0.7:
            a = rng.randint(0, m)
            modes = ["none"] * a
            if a < m:
                modes.append(rng.choice(["before", "after"]))
                modes += ["before"] * (m - a - 1)
        else:
            modes = [rng.choice(["none", "before", "after"]) for _ in range(m)]
        for md in modes:
            kind = rng.choice(["id", "mark", "mark", "ctxw"])
            arg = rng.randint(1, 9) if kind != "id" else 0
            if md == "none" and pad_case and rng.random() < 0.6:
                kind, arg = "pad", 0
            members.append([md, kind, arg])
    return {"items": items, "kinds": kinds, "rows": rows, "ctx": ctx, "order": order, "rc": rc, "entry": entry,
            "members": members, "scalar_tensor": rng.random() < 0.4, "profile": profile}


def _fixed(items, kinds, rows, ctx, order, rc, entry, members, st=False):
    return {"items": items, "kinds": kinds, "rows": rows, "ctx": ctx, "order": order, "rc": rc, "entry": entry,
            "members": members, "scalar_tensor": st, "profile": "fixed"}


def directed_cases():
    """every list of modes up to length 3 (identity members), both rc, a 2-item mode"""
    out = []
    rows = [{"f0": [1, 2], "f1": 10}, {"f0": [3, 4], "f1": 11}, {"f0": [5, 6], "f1": 12}]
    ctx = [[[1, 7]], [[1, 8]], [[1, 9]]]
    import itertools
    for ln in (1, 2, 3):
        for modes in itertools.product(["none", "before", "after"], repeat=ln):
            for rc in (False, True):
                out.append(_fixed(["f0", "f1"], {"f0": "seq", "f1": "scalar"}, rows, ctx, [0, 1, 2], rc, "compose",
                                  [[m, "mark" if i == 0 else "id", 3 if i == 0 else 0] for i, m in enumerate(modes)]))
    return out


def gen_cases(rng, tier):
    n = 900 if tier == "quick" else 9000
    out = directed_cases()
    out += [gen_case(rng) for _ in range(n)]
    if tier == "thorough":
        out += [gen_case(rng, big=True) for _ in range(3000)]
    return out


def search_cases(rng, tier):
    for c in directed_cases():
        yield c
    for _ in range(30000):
        yield gen_case(rng, big=rng.random() < 0.3)


def shrink(case):
    c = case
    for i in range(len(c["members"])):
        if len(c["members"]) > 1:
            yield {**c, "members": c["members"][:i] + c["members"][i + 1:]}
    for i, m in enumerate(c["members"]):
        if m[1] in ("mark", "ctxw"):
            yield {**c, "members": c["members"][:i] + [[m[0], "id", 0]] + c["members"][i + 1:]}
    if len(c["order"]) > 1:
        for i in range(len(c["order"])):
            yield {**c, "order": c["order"][:i] + c["order"][i + 1:]}
    if len(c["items"]) > 1:
        for i in range(len(c["items"])):
            yield {**c, "items": c["items"][:i] + c["items"][i + 1:]}
    if any(c["ctx"]):
        yield {**c, "ctx": [[] for _ in c["ctx"]]}
    if c["scalar_tensor"]:
        yield {**c, "scalar_tensor": False}


# ---------------------------------------------------------------------------
# the inputs as the property sees them
# ---------------------------------------------------------------------------
def writer_item(case):
    """the item whose getitem writes the per-sample context"""
    for it in case["items"]:
        if it != "index":
            return it
    return None


def samples_of(case):
    """[(items, ctx)] in batch order, items as ints / int lists, ctx as [[key, value]]"""
    out = []
    w = writer_item(case)
    for i in case["order"]:
        vals = [i if it == "index" else case["rows"][i][it] for it in case["items"]]
        out.append((vals, [list(kv) for kv in case["ctx"][i]] if w is not None else []))
    return out


def well_ordered(modes):
    seen = False
    for m in modes:
        if seen and m != "before":
            return False
        if m != "none":
            seen = True
    return True


def is_ambiguous(case):
    """a self-collating None member (pad) followed by a member that asks for default collation, or pad applied twice"""
    seen_pad = False
    for md, kind, _ in case["members"]:
        if seen_pad and (md != "none" or kind == "pad"):
            return True
        if kind == "pad":
            seen_pad = True
    return False


# ---------------------------------------------------------------------------
# running the implementation
# ---------------------------------------------------------------------------
def _build(case, log):
    import torch
    from kappadata.collators.base.kd_single_collator import KDSingleCollator
    from kappadata.collators.pad_sequences_collator import PadSequencesCollator
    from kappadata.datasets.kd_dataset import KDDataset
    from kappadata.wrappers.mode_wrapper import ModeWrapper

    w = writer_item(case)
    st = case["scalar_tensor"]

    def make_getitem(name):
        def getitem(self, idx, ctx=None):
            if ctx is not None and name == w:
                for k, v in case["ctx"][idx]:
                    ctx[f"k{k}"] = v
            v = case["rows"][idx][name]
            if isinstance(v, list):
                return torch.tensor(v, dtype=torch.int64)
            return torch.tensor(v, dtype=torch.int64) if st else v
        return getitem

    ns = {"__len__": lambda self: len(case["rows"])}
    for name in ("f0", "f1", "f2", "f3"):
        ns["getitem_" + name] = make_getitem(name)
    DS = type("C18Dataset", (KDDataset,), ns)

    class Member(KDSingleCollator):
        def __init__(self, k, mode, kind, arg, **kw):
            super().__init__(**kw)
            self.k, self.mode, self.kind, self.arg = k, mode, kind, arg

        @property
        def default_collate_mode(self):
            return None if self.mode == "none" else self.mode

        def collate(self, batch, dataset_mode, ctx=None):
            log.append(["call", self.k])
            if self.kind == "id":
                return batch
            if self.kind == "ctxw":
                ctx[f"k{self.arg}"] = torch.tensor([self.arg])
                return batch
            n = len(dataset_mode.split(" "))
            if torch.is_tensor(batch):
                return batch + self.arg
            if n == 1:
                return [b + self.arg for b in batch]
            if all(torch.is_tensor(e) for e in batch):
                return [batch[0] + self.arg] + list(batch[1:])
            return [(s[0] + self.arg,) + tuple(s[1:]) for s in batch]

    class LoggedPad(PadSequencesCollator):
        def __init__(self, k, **kw):
            super().__init__(**kw)
            self.k = k

        def collate(self, batch, _, ctx=None):
            if self.k is not None:
                log.append(["call", self.k])
                k, self.k = self.k, None       # the recursion of collate() must not log again
                try:
                    return super().collate(batch, _, ctx)
                finally:
                    self.k = k
            return super().collate(batch, _, ctx)

    mode = " ".join(case["items"])
    mw = ModeWrapper(DS(), mode=mode, return_ctx=case["rc"])
    batch = [mw[i] for i in case["order"]]
    kw = dict(dataset_mode=mode, return_ctx=case["rc"]) if case["entry"] == "single" else {}
    members = [LoggedPad(k, **kw) if kind == "pad" else Member(k, md, kind, arg, **kw)
               for k, (md, kind, arg) in enumerate(case["members"])]
    return mode, batch, members


def _field(v):
    import torch
    if torch.is_tensor(v):
        if v.ndim == 0:
            return int(v.item())
        if v.ndim == 1:
            return [int(a) for a in v.tolist()]
        raise ValueError("ndim")
    if isinstance(v, bool) or not isinstance(v, int):
        raise ValueError("type")
    return v


def _cfield(t):
    import torch
    if not torch.is_tensor(t):
        raise ValueError("not a tensor")
    if t.ndim == 1:
        return ["vec", [int(a) for a in t.tolist()]]
    if t.ndim == 2:
        return ["mat", [[int(a) for a in r] for r in t.tolist()]]
    raise ValueError("ndim")


def canon_batch(b, n):
    """-> ['coll', [cfield]] | ['items', [[field]]] | ['other', repr]"""
    import torch
    try:
        if torch.is_tensor(b):
            if n != 1:
                return ["other", f"one tensor of shape {list(b.shape)} for a mode of {n} items"]
            return ["coll", [_cfield(b)]]
        if isinstance(b, (list, tuple)):
            if n == 1:
                return ["items", [[_field(e)] for e in b]]
            if len(b) > 0 and all(torch.is_tensor(e) and e.ndim >= 1 for e in b):
                return ["coll", [_cfield(e) for e in b]]
            if all(isinstance(e, (list, tuple)) for e in b):
                return ["items", [[_field(v) for v in e] for e in b]]
    except ValueError as e:
        return ["other", f"{e}: {b!r}"[:300]]
    return ["other", repr(b)[:300]]


def canon_ctx(ctx):
    out = []
    for k, v in ctx.items():
        out.append([int(k[1:]), [int(a) for a in v.reshape(-1).tolist()]])
    return out


def run_impl(case):
    import kappadata.collators.base.kd_collator_base as kcb
    from kappadata.collators.base import KDComposeCollator, KDSingleCollatorWrapper
    log = []
    mode, batch, members = _build(case, log)
    n = len(case["items"])
    rc = case["rc"]
    real = kcb.default_collate

    def spy(b):
        is_ctx = isinstance(b, (tuple, list)) and len(b) > 0 and all(isinstance(e, dict) for e in b)
        log.append(["CC"] if is_ctx else ["DC"])
        return real(b)

    obs = {}
    kcb.default_collate = spy
    try:
        if case["entry"] == "compose":
            out = KDComposeCollator(members, dataset_mode=mode, return_ctx=rc)(batch)
        elif case["entry"] == "single":
            out = members[0](batch)
        elif case["entry"] == "wrapper":
            out = KDSingleCollatorWrapper(members[0], dataset_mode=mode, return_ctx=rc)(batch)
        else:
            members[0].k = None
            out = members[0].collate(batch, mode, {})
        if case["entry"] == "direct":
            if rc:
                ok = isinstance(out, tuple) and len(out) == 2 and isinstance(out[1], dict)
                obs = {"res": "ok", "returns_ctx": ok}
                if ok:
                    obs["batch"], obs["ctx"] = canon_batch(out[0], n), canon_ctx(out[1])
                else:
                    obs["batch"], obs["ctx"] = ["other", repr(out)[:300]], None
            else:
                obs = {"res": "ok", "returns_ctx": False, "batch": canon_batch(out, n), "ctx": None}
        else:
            is_pair = isinstance(out, tuple) and len(out) == 2 and isinstance(out[1], dict)
            if is_pair:
                obs = {"res": "ok", "returns_ctx": True, "batch": canon_batch(out[0], n), "ctx": canon_ctx(out[1])}
            else:
                obs = {"res": "ok", "returns_ctx": False, "batch": canon_batch(out, n), "ctx": None}
    except AssertionError as e:
        obs = {"res": "EAssert", "msg": str(e)[:200]}
    except KeyError as e:
        obs = {"res": "ECollate", "msg": "KeyError " + str(e)[:200]}
    except RuntimeError as e:
        if "equal size" in str(e):
            obs = {"res": "ECollate", "msg": str(e)[:200]}
        else:
            obs = {"res": "Other", "msg": "RuntimeError: " + str(e)[:300]}
    except Exception as e:  # noqa
        obs = {"res": "Other", "msg": type(e).__name__ + ": " + str(e)[:300]}
    finally:
        kcb.default_collate = real
    obs["trace"] = log
    return obs


# ---------------------------------------------------------------------------
# independent Python statement of the property
# ---------------------------------------------------------------------------
def ref_collate(cols_of_samples):
    """per-sample item lists -> collated fields or 'ECollate'"""
    n = len(cols_of_samples[0])
    out = []
    for p in range(n):
        col = [s[p] for s in cols_of_samples]
        if all(isinstance(v, int) for v in col):
            out.append(["vec", list(col)])
        elif all(isinstance(v, list) for v in col) and len({len(v) for v in col}) == 1:
            out.append(["mat", [list(v) for v in col]])
        else:
            return "ECollate"
    return out


def ref_pad(cols_of_samples):
    n = len(cols_of_samples[0])
    out = []
    for p in range(n):
        col = [s[p] for s in cols_of_samples]
        if all(isinstance(v, list) for v in col):
            M = max(len(v) for v in col)
            out.append(["mat", [list(v) + [0] * (M - len(v)) for v in col]])
        elif all(isinstance(v, int) for v in col):
            out.append(["vec", list(col)])
        else:
            return None
    return out


def add_c(v, c):
    return v + c if isinstance(v, int) else [add_c(a, c) for a in v]


def expected(case):
    """-> ('reject',) | ('ok', batch, ctx|None) | ('err', 'ECollate') | None (nothing claimed)"""
    smp = samples_of(case)
    if is_ambiguous(case):
        return None
    keysets = {tuple(k for k, _ in c) for _, c in smp}
    if case["rc"] and len(keysets) != 1:
        return None
    items = [list(v) for v, _ in smp]
    ctx = None
    if case["rc"]:
        ctx = [[k, [c[j][1] for _, c in smp]] for j, (k, _) in enumerate(smp[0][1])]
    if case["entry"] == "direct":
        return ("ok", ["coll", ref_pad(items)], ctx)
    modes = [m[0] for m in case["members"]]
    if not well_ordered(modes):
        return ("reject",)
    p = next((i for i, m in enumerate(modes) if m != "none"), None)
    state = ["items", items]

    def collate():
        nonlocal state
        if state[0] != "items":
            return False
        r = ref_collate(state[1])
        if r == "ECollate":
            return "ECollate"
        state = ["coll", r]
        return True

    for k, (md, kind, arg) in enumerate(case["members"]):
        if k == p and md == "before":
            r = collate()
            if r == "ECollate":
                return ("err", "ECollate")
        if kind == "mark":
            if state[0] == "items":
                state = ["items", [[add_c(s[0], arg)] + s[1:] for s in state[1]]]
            else:
                f0 = state[1][0]
                state = ["coll", [[f0[0], add_c(f0[1], arg)]] + state[1][1:]]
        elif kind == "ctxw" and ctx is not None:
            if any(kv[0] == arg for kv in ctx):
                ctx = [[kk, [arg]] if kk == arg else [kk, vv] for kk, vv in ctx]
            else:
                ctx = ctx + [[arg, [arg]]]
        elif kind == "pad":
            state = ["coll", ref_pad(state[1])]
        if k == p and md == "after":
            r = collate()
            if r == "ECollate":
                return ("err", "ECollate")
    return ("ok", state, ctx)


def oracle(case, obs):
    if "harness_exception" in obs:
        return "harness exception: " + obs["harness_exception"] + obs.get("tb", "")
    tr = obs["trace"]
    n_dc = sum(1 for e in tr if e[0] == "DC")
    if is_ambiguous(case):
        return None
    if n_dc > 1:
        return f"default_collate ran {n_dc} times on the batch: trace {tr}"
    exp = expected(case)
    if exp is None:
        return None
    desc = f"members={case['members']} mode={' '.join(case['items'])!r} rc={case['rc']} entry={case['entry']}"
    if exp[0] == "reject":
        if obs["res"] == "ok":
            return f"member order needs a second collation / per-sample input after collation but was not rejected ({desc})"
        return None
    if exp[0] == "err":
        if obs["res"] != exp[1]:
            return f"expected {exp[1]} (ragged sequences under default collation), got {obs['res']} {obs.get('msg', '')} ({desc})"
        return None
    if obs["res"] != "ok":
        return f"call raised {obs['res']} {obs.get('msg', '')} on a member list the constructor accepts ({desc})"
    if obs["returns_ctx"] != case["rc"]:
        return f"returns (batch, ctx) = {obs['returns_ctx']} but return_ctx = {case['rc']} ({desc})"
    if obs["batch"] != exp[1]:
        return f"batch differs: expected {exp[1]} got {obs['batch']} ({desc})"
    if case["rc"] and obs["ctx"] != exp[2]:
        return f"context differs: expected {exp[2]} got {obs['ctx']} ({desc})"
    if case["entry"] != "direct":
        modes = [m[0] for m in case["members"]]
        p = next((i for i, m in enumerate(modes) if m != "none"), None)
        calls = [e[1] for e in tr if e[0] == "call"]
        if calls != list(range(len(modes))):
            return f"members not called once each in order: {calls} ({desc})"
        if n_dc != (0 if p is None else 1):
            return f"default_collate ran {n_dc} times, members ask for {0 if p is None else 1} ({desc})"
        if p is not None:
            before = sum(1 for e in tr[:tr.index(['DC'])] if e[0] == "call")
            want = p if modes[p] == "before" else p + 1
            if before != want:
                return f"default_collate ran after {before} member calls, asked for after {want} ({desc})"
        n_cc = sum(1 for e in tr if e[0] == "CC")
        want_cc = 1 if case["rc"] and modes[0] != "before" else 0
        if n_cc != want_cc:
            return f"contexts collated separately {n_cc} times, expected {want_cc} ({desc})"
    return None


# ---------------------------------------------------------------------------
# rendering to Coq
# ---------------------------------------------------------------------------
def coq_applicable(case, obs):
    if "harness_exception" in obs or is_ambiguous(case):
        return False
    if obs["res"] == "Other":
        return False
    if obs["res"] == "ok" and (obs["batch"][0] == "other" or (obs["batch"][1] is None)):
        return False
    return True


def _f(v):
    return C("FSeq", list(v)) if isinstance(v, list) else C("FScalar", v)


def _cf(c):
    return C("CVec", list(c[1])) if c[0] == "vec" else C("CMat", [list(r) for r in c[1]])


def coq_case(case, obs):
    smp = samples_of(case)
    if case["rc"]:
        raw = C("BRaw", [([_f(v) for v in vals], [(k, v) for k, v in ctx]) for vals, ctx in smp])
    else:
        raw = C("BItems", [[_f(v) for v in vals] for vals, _ in smp])
    mks = [(Raw(MODES[md]), {"id": C("KId"), "mark": C("KMark", arg), "ctxw": C("KCtxWrite", arg),
                             "pad": C("KPad")}[kind]) for md, kind, arg in case["members"]]
    entry = {"compose": 0, "single": 1, "wrapper": 2, "direct": 3}[case["entry"]]
    tr = [C("DefaultCollate") if e[0] == "DC" else C("CollateCtx") if e[0] == "CC" else C("Call", Nat(e[1]))
          for e in obs["trace"]]
    if obs["res"] == "ok":
        b = obs["batch"]
        cctx = None if obs["ctx"] is None else [(k, list(v)) for k, v in obs["ctx"]]
        if b[0] == "coll":
            if case["entry"] == "direct" and case["rc"]:
                res = C("Ok", C("BCollCtx", [_cf(c) for c in b[1]], cctx if cctx is not None else []), Opt(None))
            else:
                res = C("Ok", C("BColl", [_cf(c) for c in b[1]]), Opt(cctx))
        else:
            res = C("Ok", C("BItems", [[_f(v) for v in s] for s in b[1]]), Opt(cctx))
    else:
        res = C("Fail", C(obs["res"]))
    return coq((case["rc"], Nat(entry), mks, raw, tr, res))


def features(case, obs):
    yield "entry=" + case["entry"]
    yield "rc=%s" % case["rc"]
    yield "modes=" + ",".join(m[0][0] for m in case["members"])
    yield "res=" + obs.get("res", "harness_exception")
    yield "n_items=%d" % len(case["items"])
    yield "profile=" + case["profile"]
    if is_ambiguous(case):
        yield "ambiguous(self-collating None member followed by a collating member)"
    for m in case["members"]:
        yield "kind=" + m[1]


def nontrivial_key(case, obs):
    if not any(e[0] == "call" for e in obs.get("trace", [])) and case["entry"] != "direct":
        return None
    return (case["entry"], case["rc"], tuple((m[0], m[1]) for m in case["members"]),
            tuple(case["kinds"].get(it, "index") for it in case["items"]), case["profile"])
