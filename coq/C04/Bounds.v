(* the run as a whole: it stops right after the FIRST update (of the whole run)
   at which one of the given budgets is reached, and explicit bounds on how much
   it yields as a function of the budget *)
From Coq Require Import ZArith List Bool Lia.
Import ListNotations.
From KD Require Import C04.Model C04.Spec C04.Lists C04.Arith C04.Sides C04.Proofs C04.Corollaries C04.Batches.
Open Scope Z_scope.

Lemma take_until_app {A} (p : A -> bool) a b :
  take_until p (a ++ b) =
  if snd (take_until p a) then take_until p a
  else (a ++ fst (take_until p b), snd (take_until p b)).
Proof.
  induction a as [|x a IH]; cbn [app take_until snd].
  - destruct (take_until p b); reflexivity.
  - destruct (p x) eqn:E; cbn [snd]; [reflexivity|]. rewrite IH.
    destruct (take_until p a) as [r f]. cbn [snd]. destruct f; [reflexivity|].
    destruct (take_until p b). reflexivity.
Qed.

(* take_until over consecutive positions: a prefix of positions, none of which
   but the last satisfies p *)
Lemma take_until_map_seq {B} (f : nat -> B) (p : B -> bool) : forall m a,
  exists t, (t <= m)%nat /\
    fst (take_until p (map f (seq a m))) = map f (seq a t) /\
    (forall j, (a <= j)%nat -> (S j < a + t)%nat -> p (f j) = false) /\
    (snd (take_until p (map f (seq a m))) = true -> (1 <= t)%nat /\ p (f (a + t - 1)%nat) = true) /\
    (snd (take_until p (map f (seq a m))) = false ->
       t = m /\ forall j, (a <= j < a + m)%nat -> p (f j) = false).
Proof.
  induction m as [|m IH]; intros a.
  - exists 0%nat. cbn. repeat split; auto; try lia; try discriminate.
  - cbn [seq map take_until]. destruct (p (f a)) eqn:E.
    + exists 1%nat. cbn [fst snd seq map].
      split; [lia|]. split; [reflexivity|]. split; [intros j H1 H2; lia|].
      split; [|discriminate]. intros _. split; [lia|].
      replace (a + 1 - 1)%nat with a by lia. exact E.
    + destruct (IH (S a)) as [t (Ht & Hf & Hno & Hyes & Hnot)].
      destruct (take_until p (map f (seq (S a) m))) as [r fl]. cbn [fst snd] in *.
      exists (S t). split; [lia|]. split; [cbn [seq map]; now rewrite Hf|].
      split; [|split].
      * intros j H1 H2. destruct (Nat.eq_dec j a) as [->|Hne]; [exact E|]. apply Hno; lia.
      * intros H. destruct (Hyes H) as [H1 H2]. split; [lia|].
        replace (a + S t - 1)%nat with (S a + t - 1)%nat by lia. exact H2.
      * intros H. destruct (Hnot H) as [H1 H2]. split; [lia|]. intros j Hj.
        destruct (Nat.eq_dec j a) as [->|Hne]; [exact E|]. apply H2. lia.
Qed.

Definition is_yield (ev : event) : bool := match ev with SetEpoch _ => false | IterStart _ => false | _ => true end.
Definition is_upd (ev : event) : bool := match ev with Main true _ => true | _ => false end.
(* the (is_full_batch, index) stream without the set_epoch calls *)
Definition strip (tr : list event) : list event := filter is_yield tr.
Definition cnt (p : event -> bool) (tr : list event) : Z := Z.of_nat (length (filter p tr)).
Definition n_main := cnt is_main.      (* main indices yielded *)
Definition n_upd := cnt is_upd.        (* updates (main batches) *)
Definition n_yield := cnt is_yield.    (* all indices yielded *)
Definition sum_slen (c : cfg) : Z := fold_right Z.add 0 (map slen (sides c)).

Lemma cnt_app p a b : cnt p (a ++ b) = cnt p a + cnt p b.
Proof. unfold cnt. rewrite filter_app, app_length. lia. Qed.
Lemma cnt_nil p : cnt p [] = 0. Proof. reflexivity. Qed.
Lemma cnt_nonneg p a : 0 <= cnt p a. Proof. unfold cnt. lia. Qed.

Lemma cnt_emit (mk : bool -> Z -> event) p b : (forall f i, p (mk f i) = true) -> cnt p (emit mk b) = len b.
Proof.
  intros H. induction b as [|i b IH]; [reflexivity|]. destruct b as [|j b].
  - unfold cnt. cbn. now rewrite H.
  - rewrite emit_cons2. unfold cnt in *. cbn [filter]. rewrite H. cbn [length].
    rewrite Nat2Z.inj_succ, IH, (len_cons i). lia.
Qed.
Lemma cnt_emit0 (mk : bool -> Z -> event) p b : (forall f i, p (mk f i) = false) -> cnt p (emit mk b) = 0.
Proof.
  intros H. induction b as [|i b IH]; [reflexivity|]. destruct b as [|j b].
  - unfold cnt. cbn. now rewrite H.
  - rewrite emit_cons2. unfold cnt in *. cbn [filter]. rewrite H. exact IH.
Qed.
Lemma cnt_upd_emit_main b : b <> [] -> cnt is_upd (emit Main b) = 1.
Proof.
  induction b as [|i b IH]; intros Hne; [congruence|]. destruct b as [|j b]; [reflexivity|].
  rewrite emit_cons2. unfold cnt in *. cbn [filter is_upd]. apply IH. discriminate.
Qed.

Lemma strip_emit (mk : bool -> Z -> event) b : (forall f i, is_yield (mk f i) = true) -> strip (emit mk b) = emit mk b.
Proof.
  intros H. induction b as [|i b IH]; [reflexivity|]. destruct b as [|j b].
  - unfold strip. cbn. now rewrite H.
  - rewrite emit_cons2. unfold strip in *. cbn [filter]. rewrite H. now rewrite IH.
Qed.

Lemma firstn_S_nth {A} (l : list A) d t : (t < length l)%nat -> firstn (S t) l = firstn t l ++ [nth t l d].
Proof.
  revert t. induction l as [|x l IH]; intros t Ht; [simpl in Ht; lia|].
  destruct t as [|t]; [reflexivity|]. cbn [firstn nth app]. f_equal. apply IH. simpl in Ht. lia.
Qed.

Lemma shape_le b bs : shape b bs -> Forall (fun x => (length x <= b)%nat) bs.
Proof.
  induction bs as [|x bs IH]; intros H; [constructor|]. destruct bs as [|y bs].
  - destruct H. constructor; auto.
  - destruct H as [H1 H2]. constructor; [lia|auto].
Qed.

Section G.
  Variables (c : cfg) (mi : Z -> list Z).
  Hypothesis W : WF c mi.

  (* the updates of the first k epochs from e0 on, in order *)
  Fixpoint all_updates (e0 : Z) (pn : list nat) (k : nat) : list upd :=
    match k with
    | O => []
    | S k' => epoch_updates c mi e0 pn ++ all_updates (e0 + 1) (pn_next c mi e0 pn) k'
    end.

  Lemma strip_side_events ci sc p : strip (side_events c ci sc p) = side_events c ci sc p.
  Proof.
    unfold side_events. induction (chunk _ _) as [|b bs IH]; [reflexivity|].
    cbn [flat_map]. unfold strip in *. rewrite filter_app, IH. f_equal. apply strip_emit. reflexivity.
  Qed.
  Lemma strip_passes k : forall l ci pn, strip (passes_from c ci l pn k) = passes_from c ci l pn k.
  Proof.
    induction l as [|sc l IH]; intros ci pn; [reflexivity|]. destruct pn as [|p pn]; [reflexivity|].
    cbn [passes_from]. unfold strip in *. rewrite filter_app, IH. f_equal.
    destruct (due sc k); [apply strip_side_events|reflexivity].
  Qed.
  Lemma strip_u_events e bs pn j : strip (u_events (upd_at c e bs pn j)) = u_events (upd_at c e bs pn j).
  Proof.
    unfold upd_at. cbn [u_events]. unfold strip. rewrite filter_app. f_equal.
    - apply strip_emit. reflexivity.
    - apply strip_passes.
  Qed.
  Lemma strip_updates e bs pn : forall l,
    strip (flat_map u_events (map (upd_at c e bs pn) l)) = flat_map u_events (map (upd_at c e bs pn) l).
  Proof.
    induction l as [|j l IH]; [reflexivity|]. cbn [map flat_map]. unfold strip in *.
    rewrite filter_app, IH. f_equal. apply strip_u_events.
  Qed.

  Lemma strip_epoch_prefix e pn :
    strip (flat_map u_events (fst (take_until (hit c) (epoch_updates c mi e pn))))
    = flat_map u_events (fst (take_until (hit c) (epoch_updates c mi e pn))).
  Proof.
    unfold epoch_updates.
    destruct (take_until_map_seq (upd_at c e (epoch_batches c mi e) pn) (hit c)
                                 (length (epoch_batches c mi e)) 0) as [t (_ & Hf & _)].
    rewrite Hf. apply strip_updates.
  Qed.

  (* C04, the stop as a whole: the stream (set_epoch calls aside) is what the
     updates of the run show, one after the other, up to and including the first
     update - over all epochs - at which one of the given budgets is reached; and
     there is one *)
  Theorem stop_global : forall n e0 pn tr, spec_run c mi e0 pn n = Some tr ->
    snd (take_until (hit c) (all_updates e0 pn n)) = true /\
    strip tr = flat_map u_events (fst (take_until (hit c) (all_updates e0 pn n))).
  Proof.
    induction n as [|n IH]; intros e0 pn tr H; [discriminate|].
    cbn [spec_run all_updates] in *. rewrite take_until_app, (epoch_hits_eq c mi e0 pn).
    destruct (epoch_hits c mi e0) eqn:Hh.
    - injection H as <-. split; [now rewrite (epoch_hits_eq c mi e0 pn)|].
      unfold epoch_events. unfold strip at 1. cbn [filter is_yield]. apply strip_epoch_prefix.
    - destruct (spec_run c mi (e0 + 1) (pn_next c mi e0 pn) n) as [rest|] eqn:E; [|discriminate].
      injection H as <-. destruct (IH _ _ _ E) as [H1 H2]. cbn [fst snd]. split; [exact H1|].
      unfold epoch_events. unfold strip at 1. cbn [app filter is_yield]. rewrite filter_app.
      fold (strip rest). rewrite H2. rewrite flat_map_app. f_equal.
      destruct (stop_exact c mi e0 pn) as (_ & _ & H3). destruct (H3 Hh) as [H4 _].
      fold (strip (flat_map u_events (fst (take_until (hit c) (epoch_updates c mi e0 pn))))).
      rewrite strip_epoch_prefix. now rewrite H4.
  Qed.

  Theorem stop_global_run n e0 pn tr : length pn = length (sides c) ->
    run c mi n (start_state c e0 pn) = Some tr ->
    snd (take_until (hit c) (all_updates e0 pn n)) = true /\
    strip tr = flat_map u_events (fst (take_until (hit c) (all_updates e0 pn n))).
  Proof.
    intros Hpl. unfold start_state. rewrite (model_eq_spec c mi W) by exact Hpl. apply stop_global.
  Qed.

  (* ---- counting ---- *)
  Lemma side_events_len ci sc p : wf_side sc -> cnt is_yield (side_events c ci sc p) = slen sc.
  Proof.
    intros Hw. destruct Hw as (_ & _ & _ & Hb & Hl & _).
    assert (0 < or_default (sbs sc) (cB c)) as Hpos.
    { unfold or_default. destruct (sbs sc) eqn:E; [now apply Hb|]. pose proof (wf_B c mi W). lia. }
    pose proof (side_pass_whole c ci sc p Hpos) as H.
    apply (f_equal (@length Z)) in H. rewrite !map_length in H.
    unfold cnt. fold (strip (side_events c ci sc p)). rewrite strip_side_events. rewrite H.
    rewrite (Hl p). reflexivity.
  Qed.

  Lemma passes_len k : forall l ci pn, Forall wf_side l ->
    cnt is_yield (passes_from c ci l pn k) <= fold_right Z.add 0 (map slen l).
  Proof.
    induction l as [|sc l IH]; intros ci pn HF; [cbn; lia|].
    inversion HF as [|? ? Hsc HF']; subst.
    assert (0 <= slen sc) as Hs0.
    { destruct Hsc as (_ & _ & _ & _ & Hl & _). rewrite (Hl 0%nat). apply len_nonneg. }
    assert (0 <= fold_right Z.add 0 (map slen l)) as Hs1.
    { clear -HF'. induction HF' as [|x l Hx HF IH]; cbn; [lia|].
      destruct Hx as (_ & _ & _ & _ & Hl & _). rewrite (Hl 0%nat). pose proof (len_nonneg (sidx x 0%nat)). lia. }
    destruct pn as [|p pn]; [cbn [passes_from map fold_right]; unfold cnt; cbn [filter length]; lia|].
    cbn [passes_from map fold_right]. rewrite cnt_app. specialize (IH (S ci) pn HF').
    destruct (due sc k); [rewrite side_events_len by auto|rewrite cnt_nil]; lia.
  Qed.

  Lemma cnt_main_passes k : forall l ci pn, cnt is_main (passes_from c ci l pn k) = 0.
  Proof. intros. unfold cnt. now rewrite filter_main_passes. Qed.
  Lemma cnt_upd_passes k : forall l ci pn, cnt is_upd (passes_from c ci l pn k) = 0.
  Proof.
    induction l as [|sc l IH]; intros ci pn; [reflexivity|]. destruct pn as [|p pn]; [reflexivity|].
    cbn [passes_from]. rewrite cnt_app, IH. destruct (due sc k); [|reflexivity].
    unfold side_events. induction (chunk _ _) as [|b bs IHb]; [reflexivity|].
    cbn [flat_map]. rewrite cnt_app, (cnt_emit0 (Side ci)) by reflexivity. exact IHb.
  Qed.

  (* one update *)
  Lemma update_counts e bs pn j : nth j bs [] <> [] ->
    let ev := u_events (upd_at c e bs pn j) in
    n_main ev = len (nth j bs []) /\ n_upd ev = 1 /\ n_yield ev <= len (nth j bs []) + sum_slen c.
  Proof.
    intros Hne. cbv zeta. unfold upd_at, n_main, n_upd, n_yield. cbn [u_events]. rewrite !cnt_app.
    rewrite cnt_main_passes, cnt_upd_passes, (cnt_emit Main is_main) by reflexivity.
    rewrite (cnt_emit Main is_yield) by reflexivity. rewrite cnt_upd_emit_main by exact Hne.
    pose proof (passes_len (counters_at c e bs j) (sides c) 0%nat (pn_at c pn e bs j) (wf_sides c mi W)).
    unfold sum_slen. repeat split; lia.
  Qed.

  (* the first t updates of an epoch *)
  Lemma prefix_counts e pn : let bs := epoch_batches c mi e in
    forall t, (t <= length bs)%nat ->
    let ev := flat_map u_events (map (upd_at c e bs pn) (seq 0 t)) in
    n_main ev = len (concat (firstn t bs)) /\ n_upd ev = Z.of_nat t /\
    n_yield ev <= len (concat (firstn t bs)) + Z.of_nat t * sum_slen c /\
    len (concat (firstn t bs)) <= Z.of_nat t * cB c.
  Proof.
    cbv zeta. set (bs := epoch_batches c mi e). pose proof (wf_B c mi W) as HB.
    assert (Forall (fun x => x <> []) bs) as Hne by (apply chunk_all_nonempty; lia).
    pose proof (shape_le _ _ (epoch_batches_shape c mi W e)) as Hle. fold bs in Hle.
    induction t as [|t IH]; intros Ht.
    - cbn [seq map flat_map firstn concat]. unfold n_main, n_upd, n_yield, cnt. cbn [filter length].
      rewrite len_nil. repeat split; lia.
    - destruct IH as (I1 & I2 & I3 & I4); [lia|].
      rewrite seq_S, map_app, flat_map_app. cbn [plus map flat_map]. rewrite app_nil_r.
      rewrite (firstn_S_nth bs []) by lia. rewrite concat_app, len_app. cbn [concat]. rewrite app_nil_r.
      assert (In (nth t bs []) bs) as Hin by (apply nth_In; lia).
      rewrite Forall_forall in Hne, Hle. specialize (Hne _ Hin). specialize (Hle _ Hin). cbv beta in Hle.
      destruct (update_counts e bs pn t Hne) as (U1 & U2 & U3).
      unfold n_main, n_upd, n_yield in *. rewrite !cnt_app. rewrite U1, U2, I1, I2.
      assert (len (nth t bs []) <= cB c) by (unfold len; lia).
      repeat split; first [lia|nia].
  Qed.

  Definition bounds (e : Z) (tr : list event) : Prop :=
    (forall E, bE c = Some E -> e < E -> n_main tr <= (E - e) * spe c /\ n_upd tr <= (E - e) * upe c) /\
    (forall U, bU c = Some U -> e * upe c < U -> n_upd tr <= U - e * upe c) /\
    (forall X, bS c = Some X -> e * spe c < X -> n_main tr <= X - e * spe c + cB c - 1) /\
    n_main tr <= n_upd tr * cB c /\
    n_yield tr <= n_main tr + n_upd tr * sum_slen c.

  Lemma k_sample_at e bs j : k_sample (counters_at c e bs j) = e * spe c + len (concat (firstn (S j) bs)).
  Proof. reflexivity. Qed.
  Lemma k_update_at e bs j : k_update (counters_at c e bs j) = e * upe c + Z.of_nat j + 1.
  Proof. reflexivity. Qed.

  Lemma sum_slen_nonneg : 0 <= sum_slen c.
  Proof.
    unfold sum_slen. pose proof (wf_sides c mi W) as HF.
    induction HF as [|x l Hx HF IH]; cbn; [lia|].
    destruct Hx as (_ & _ & _ & _ & Hl & _). rewrite (Hl 0%nat). pose proof (len_nonneg (sidx x 0%nat)). lia.
  Qed.

  Lemma bounds_run : forall n e pn tr, spec_run c mi e pn n = Some tr -> bounds e tr.
  Proof.
    pose proof (upe_pos c mi W) as Hupe. pose proof (spe_range c mi W) as Hspe.
    pose proof (wf_B c mi W) as HB. pose proof sum_slen_nonneg as Hss.
    induction n as [|n IH]; intros e pn tr H; [discriminate|]. cbn [spec_run] in H.
    set (bs := epoch_batches c mi e) in *.
    pose proof (epoch_batches_len c mi W e) as Hlen. pose proof (epoch_batches_count c mi W e) as Hcnt.
    fold bs in Hlen, Hcnt.
    destruct (take_until_map_seq (upd_at c e bs pn) (hit c) (length bs) 0) as [t (Ht & Hf & Hno & Hyes & Hnot)].
    change (map (upd_at c e bs pn) (seq 0 (length bs))) with (epoch_updates c mi e pn) in Hf, Hyes, Hnot.
    rewrite (epoch_hits_eq c mi e pn) in Hyes, Hnot.
    destruct (prefix_counts e pn t Ht) as (P1 & P2 & P3 & P4). fold bs in P1, P2, P3, P4.
    set (EV := flat_map u_events (map (upd_at c e bs pn) (seq 0 t))) in *.
    pose proof (len_concat_firstn bs t) as HL. rewrite Hlen in HL.
    assert (Hnohit : forall j, (S j < t)%nat -> hit_k c (counters_at c e bs j) = false).
    { intros j Hj. apply (Hno j); lia. }
    destruct (epoch_hits c mi e) eqn:Hh.
    - injection H as <-. destruct (Hyes eq_refl) as [Ht1 Hlast]. clear Hnot Hyes.
      unfold epoch_events. rewrite Hf. fold EV. unfold bounds.
      assert (n_main (SetEpoch e :: IterStart e :: EV) = n_main EV /\ n_upd (SetEpoch e :: IterStart e :: EV) = n_upd EV /\
              n_yield (SetEpoch e :: IterStart e :: EV) = n_yield EV) as (-> & -> & ->) by (repeat split; reflexivity).
      rewrite P1, P2. split; [|split; [|split; [|split]]]; try lia.
      + intros E Hb He. split; nia.
      + intros U Hb HU. destruct (Z_le_gt_dec (Z.of_nat t) (U - e * upe c)) as [Hle|Hgt]; [exact Hle|exfalso].
        pose proof (Hnohit (Z.to_nat (U - e * upe c - 1)) ltac:(lia)) as Hn.
        rewrite (hit_k_U c _ U Hb) in Hn; [discriminate|]. rewrite k_update_at. lia.
      + intros X Hb HX. destruct t as [|t']; [lia|].
        rewrite (firstn_S_nth bs []) in * by lia. rewrite concat_app, len_app in *. cbn [concat] in *.
        rewrite app_nil_r in *.
        assert (len (nth t' bs []) <= cB c) as Hb1.
        { pose proof (shape_le _ _ (epoch_batches_shape c mi W e)) as Hle. fold bs in Hle.
          rewrite Forall_forall in Hle. specialize (Hle (nth t' bs []) ltac:(apply nth_In; lia)).
          cbv beta in Hle. unfold len. lia. }
        destruct t' as [|t'']; [cbn [firstn concat]; rewrite len_nil; lia|].
        pose proof (Hnohit t'' ltac:(lia)) as Hn. apply (nohit_k c) in Hn. destruct Hn as (_ & _ & Hn).
        specialize (Hn X Hb). rewrite k_sample_at in Hn. lia.
    - destruct (Hnot eq_refl) as [-> Hall]. clear Hnot Hyes.
      destruct (spec_run c mi (e + 1) (pn_next c mi e pn) n) as [rest|] eqn:E; [|discriminate].
      injection H as <-. specialize (IH _ _ _ E). destruct IH as (B1 & B2 & B3 & B4 & B5).
      unfold epoch_events. rewrite Hf. fold EV. unfold bounds.
      assert (n_main (SetEpoch e :: IterStart e :: EV ++ rest) = n_main EV + n_main rest /\
              n_upd (SetEpoch e :: IterStart e :: EV ++ rest) = n_upd EV + n_upd rest /\
              n_yield (SetEpoch e :: IterStart e :: EV ++ rest) = n_yield EV + n_yield rest) as (-> & -> & ->).
      { unfold n_main, n_upd, n_yield. rewrite <- !cnt_app. repeat split; reflexivity. }
      rewrite firstn_all in *. rewrite Hlen in *.
      pose proof (counters_last c mi W e) as (L1 & L2 & L3). fold bs in L1, L2, L3.
      pose proof (Hall (length bs - 1)%nat ltac:(lia)) as Hn.
      change (hit c (upd_at c e bs pn (length bs - 1))) with (hit_k c (counters_at c e bs (length bs - 1))) in Hn.
      apply (nohit_k c) in Hn. destruct Hn as (N1 & N2 & N3).
      rewrite P1, P2. split; [|split; [|split; [|split]]].
      + intros E0 Hb He. specialize (N1 E0 Hb). specialize (B1 E0 Hb ltac:(lia)). split; nia.
      + intros U Hb HU.
        assert ((e + 1) * upe c < U) as Hlt.
        { destruct (Z_le_gt_dec U ((e + 1) * upe c)) as [Hle|Hgt]; [exfalso|lia].
          pose proof (Hall (Z.to_nat (U - e * upe c - 1)) ltac:(lia)) as Hn'.
          change (hit_k c (counters_at c e bs (Z.to_nat (U - e * upe c - 1))) = false) in Hn'.
          rewrite (hit_k_U c _ U Hb) in Hn'; [discriminate|]. rewrite k_update_at. lia. }
        specialize (B2 U Hb Hlt). lia.
      + intros X Hb HX. specialize (N3 X Hb). specialize (B3 X Hb ltac:(lia)). lia.
      + nia.
      + nia.
  Qed.

  (* C04: explicit bounds on what a run yields, as a function of the budget(s):
     (E - e0) epochs = at most (E - e0) * samples_per_epoch main indices in
     (E - e0) * updates_per_epoch updates; U - u0 updates; fewer than
     X - s0 + batch_size main indices; never more than batch_size main indices
     per update, and per update at most one pass over every config *)
  Theorem yield_bound n e0 pn tr : length pn = length (sides c) ->
    run c mi n (start_state c e0 pn) = Some tr -> bounds e0 tr.
  Proof.
    intros Hpl. unfold start_state. rewrite (model_eq_spec c mi W) by exact Hpl. apply bounds_run.
  Qed.
End G.
