(* consequences of model = spec used by the property files C04/C05/C06 *)
From Coq Require Import ZArith List Bool Lia.
Import ListNotations.
From KD Require Import C04.Model C04.Spec C04.Lists C04.Arith C04.Sides C04.Proofs.
Open Scope Z_scope.

Lemma take_until_found {A} (p : A -> bool) l x : In x l -> p x = true -> snd (take_until p l) = true.
Proof.
  induction l as [|y l IH]; intros Hin Hp; [inversion Hin|].
  cbn [take_until]. destruct (p y) eqn:E; [reflexivity|].
  destruct Hin as [->|Hin]; [congruence|].
  specialize (IH Hin Hp). destruct (take_until p l). exact IH.
Qed.

(* take_until stops at the FIRST hit: nothing before the last element hits, and
   the last element hits iff found *)
Lemma take_until_prefix {A} (p : A -> bool) l :
  let '(r, f) := take_until p l in
  exists rest, l = r ++ rest /\ Forall (fun x => p x = false) (removelast r) /\
               (f = true -> exists x, r = removelast r ++ [x] /\ p x = true) /\
               (f = false -> r = l /\ Forall (fun x => p x = false) l).
Proof.
  induction l as [|y l IH]; cbn [take_until].
  - exists []. repeat split; auto; try discriminate; try constructor.
  - destruct (p y) eqn:E.
    + exists l. split; [reflexivity|]. split; [constructor|]. split; [|discriminate].
      intros _. exists y. split; auto.
    + destruct (take_until p l) as [r f]. destruct IH as [rest [H1 [H2 [H3 H4]]]].
      exists rest. split; [now rewrite H1 at 1|]. split; [|split].
      * destruct r as [|z r]; [constructor|]. cbn [removelast] in *.
        change (match r with [] => [] | _ :: _ => z :: removelast r end) with (removelast (z :: r)) in *.
        constructor; auto.
      * intros Hf. destruct (H3 Hf) as [x [Hx Hpx]]. exists x. split; auto.
        destruct r as [|z r]; [destruct (removelast []); discriminate|].
        cbn [removelast]. change (match r with [] => [] | _ :: _ => z :: removelast r end) with (removelast (z :: r)).
        rewrite <- app_comm_cons. now rewrite <- Hx.
      * intros Hf. destruct (H4 Hf) as [Hr Hall]. split; [now rewrite Hr|]. constructor; auto.
Qed.

Section Cor.
  Variables (c : cfg) (mi : Z -> list Z).
  Hypothesis W : WF c mi.

  Definition start_state (e : Z) (pn : list nat) : st := init_state e (upe c * e) (spe c * e) pn.

  (* ---------------- termination ---------------- *)
  (* the beginning of epoch e lies strictly before every given budget, and a budget is given *)
  Definition before_budget (e : Z) : Prop :=
    (forall E, bE c = Some E -> e < E) /\
    (forall U, bU c = Some U -> upe c * e < U) /\
    (forall X, bS c = Some X -> spe c * e < X) /\
    (is_some (bE c) || is_some (bU c) || is_some (bS c) = true).

  Lemma hit_k_E k E : bE c = Some E -> k_epoch k = E -> hit_k c k = true.
  Proof. intros Hb He. unfold hit_k, budget_reached. rewrite Hb. cbn [opt_test]. rewrite (proj2 (Z.eqb_eq _ _) He). reflexivity. Qed.
  Lemma hit_k_U k U : bU c = Some U -> k_update k = U -> hit_k c k = true.
  Proof. intros Hb He. unfold hit_k, budget_reached. rewrite Hb. cbn [opt_test]. rewrite (proj2 (Z.eqb_eq _ _) He). rewrite orb_true_r. reflexivity. Qed.
  Lemma hit_k_S k X : bS c = Some X -> X <= k_sample k -> hit_k c k = true.
  Proof. intros Hb He. unfold hit_k, budget_reached. rewrite Hb. cbn [opt_test]. rewrite (proj2 (Z.leb_le _ _) He). apply orb_true_r. Qed.

  (* no budget reached, spelled out *)
  Lemma nohit_k k : hit_k c k = false ->
    (forall E, bE c = Some E -> k_epoch k <> E) /\ (forall U, bU c = Some U -> k_update k <> U) /\
    (forall X, bS c = Some X -> k_sample k < X).
  Proof.
    unfold hit_k, budget_reached. intros H. apply orb_false_iff in H. destruct H as [H H3].
    apply orb_false_iff in H. destruct H as [H1 H2]. repeat split.
    - intros E Hb. rewrite Hb in H1. cbn in H1. now apply Z.eqb_neq.
    - intros U Hb. rewrite Hb in H2. cbn in H2. now apply Z.eqb_neq.
    - intros X Hb. rewrite Hb in H3. cbn in H3. now apply Z.leb_gt.
  Qed.

  Lemma epoch_hits_of e j :
    (j < length (epoch_batches c mi e))%nat ->
    hit_k c (counters_at c e (epoch_batches c mi e) j) = true -> epoch_hits c mi e = true.
  Proof.
    intros Hj Hh. unfold epoch_hits. apply existsb_exists. exists j. split; [apply in_seq; lia|exact Hh].
  Qed.

  Lemma epoch_nohit e : epoch_hits c mi e = false ->
    forall j, (j < length (epoch_batches c mi e))%nat -> hit_k c (counters_at c e (epoch_batches c mi e) j) = false.
  Proof.
    intros H j Hj. destruct (hit_k c _) eqn:E; [|reflexivity].
    rewrite (epoch_hits_of e j Hj E) in H. discriminate.
  Qed.

  Lemma counters_last e :
    let bs := epoch_batches c mi e in
    let k := counters_at c e bs (length bs - 1) in
    k_epoch k = e + 1 /\ k_update k = (e + 1) * upe c /\ k_sample k = (e + 1) * spe c.
  Proof.
    cbv zeta. set (bs := epoch_batches c mi e).
    pose proof (epoch_batches_len c mi W e) as Hlen. pose proof (epoch_batches_count c mi W e) as Hcnt.
    pose proof (upe_pos c mi W) as Hupe. fold bs in Hlen, Hcnt.
    assert (1 <= length bs)%nat as Hl by lia.
    unfold counters_at. cbn [k_epoch k_update k_sample].
    replace (S (length bs - 1)) with (length bs) by lia.
    rewrite Nat.eqb_refl, firstn_all. repeat split; lia.
  Qed.

  Lemma len_concat_firstn (bs : list (list Z)) m : len (concat (firstn m bs)) <= len (concat bs).
  Proof.
    rewrite <- (firstn_skipn m bs) at 2. rewrite concat_app, len_app.
    pose proof (len_nonneg (concat (skipn m bs))). lia.
  Qed.

  (* range of the counters inside epoch e *)
  Lemma counters_range e j : (j < length (epoch_batches c mi e))%nat ->
    let k := counters_at c e (epoch_batches c mi e) j in
    e <= k_epoch k <= e + 1 /\ e * upe c < k_update k <= (e + 1) * upe c /\ k_sample k <= (e + 1) * spe c.
  Proof.
    intros Hj. cbv zeta. pose proof (epoch_batches_len c mi W e) as Hlen.
    pose proof (epoch_batches_count c mi W e) as Hcnt.
    pose proof (len_concat_firstn (epoch_batches c mi e) (S j)).
    unfold counters_at. cbn [k_epoch k_update k_sample].
    destruct (S j =? length (epoch_batches c mi e))%nat; repeat split; lia.
  Qed.

  Lemma hits_last_epoch E e : bE c = Some E -> e + 1 = E -> epoch_hits c mi e = true.
  Proof.
    intros Hb He. pose proof (counters_last e) as [H1 [H2 H3]].
    pose proof (epoch_batches_count c mi W e). pose proof (upe_pos c mi W).
    apply (epoch_hits_of e (length (epoch_batches c mi e) - 1)); [lia|].
    apply (hit_k_E _ E Hb). lia.
  Qed.

  Lemma hits_update U e : bU c = Some U -> e * upe c < U <= (e + 1) * upe c -> epoch_hits c mi e = true.
  Proof.
    intros Hb HU. pose proof (epoch_batches_count c mi W e) as Hcnt.
    apply (epoch_hits_of e (Z.to_nat (U - e * upe c - 1))); [lia|].
    apply (hit_k_U _ U Hb). unfold counters_at. cbn [k_update]. lia.
  Qed.

  Lemma hits_sample X e : bS c = Some X -> X <= (e + 1) * spe c -> epoch_hits c mi e = true.
  Proof.
    intros Hb HS. pose proof (counters_last e) as [H1 [H2 H3]].
    pose proof (epoch_batches_count c mi W e). pose proof (upe_pos c mi W).
    apply (epoch_hits_of e (length (epoch_batches c mi e) - 1)); [lia|].
    apply (hit_k_S _ X Hb). lia.
  Qed.

  (* an epoch that does not stop the run ends strictly before every budget *)
  Lemma before_next e : before_budget e -> epoch_hits c mi e = false -> before_budget (e + 1).
  Proof.
    intros (HE & HU & HX & Hsome) Hh. repeat split; auto.
    - intros E Hb. specialize (HE E Hb). destruct (Z.eq_dec (e + 1) E) as [He|He]; [|lia].
      rewrite (hits_last_epoch E e Hb He) in Hh. discriminate.
    - intros U Hb. specialize (HU U Hb). destruct (Z_le_gt_dec U ((e + 1) * upe c)) as [Hle|Hgt]; [|lia].
      rewrite (hits_update U e Hb) in Hh by lia. discriminate.
    - intros X Hb. specialize (HX X Hb). destruct (Z_le_gt_dec X ((e + 1) * spe c)) as [Hle|Hgt]; [|lia].
      rewrite (hits_sample X e Hb Hle) in Hh. discriminate.
  Qed.

  (* conversely: before the beginning of an epoch that lies strictly before the
     budget nothing stops the run *)
  Lemma before_prev e : before_budget (e + 1) -> before_budget e /\ epoch_hits c mi e = false.
  Proof.
    pose proof (upe_pos c mi W) as Hupe. pose proof (spe_range c mi W) as Hspe.
    intros (HE & HU & HX & Hsome). split.
    - repeat split; auto.
      + intros E Hb. specialize (HE E Hb). lia.
      + intros U Hb. specialize (HU U Hb). lia.
      + intros X Hb. specialize (HX X Hb). lia.
    - destruct (epoch_hits c mi e) eqn:Hh; [|reflexivity]. exfalso.
      unfold epoch_hits in Hh. apply existsb_exists in Hh. destruct Hh as [j [Hj Hh]].
      apply in_seq in Hj. pose proof (counters_range e j ltac:(lia)) as Hr. cbv zeta in Hr.
      set (k := counters_at c e (epoch_batches c mi e) j) in *.
      unfold hit_k, budget_reached in Hh. apply orb_true_iff in Hh. destruct Hh as [Hh|Hh].
      + apply orb_true_iff in Hh. destruct Hh as [Hh|Hh].
        * destruct (bE c) as [E|] eqn:Hb; [|discriminate]. cbn [opt_test] in Hh. apply Z.eqb_eq in Hh.
          specialize (HE E eq_refl). lia.
        * destruct (bU c) as [U|] eqn:Hb; [|discriminate]. cbn [opt_test] in Hh. apply Z.eqb_eq in Hh.
          specialize (HU U eq_refl). lia.
      + destruct (bS c) as [X|] eqn:Hb; [|discriminate]. cbn [opt_test] in Hh. apply Z.leb_le in Hh.
        specialize (HX X eq_refl). lia.
  Qed.

  Lemma spec_run_terminates : forall n e pn,
    before_budget e -> (default_fuel c (start_state e pn) <= n)%nat ->
    exists tr, spec_run c mi e pn n = Some tr.
  Proof.
    pose proof (upe_pos c mi W) as Hupe. pose proof (spe_range c mi W) as Hspe.
    induction n as [|n IH]; intros e pn Hbef Hfuel.
    - exfalso. destruct Hbef as (HE & HU & HX & Hsome).
      unfold default_fuel, start_state, init_state in Hfuel. cbn [epoch update sample] in Hfuel.
      destruct (bE c) as [E|]; [specialize (HE E eq_refl); lia|].
      destruct (bU c) as [U|]; [specialize (HU U eq_refl); lia|].
      destruct (bS c) as [X|]; [specialize (HX X eq_refl); lia|]. discriminate.
    - cbn [spec_run]. destruct (epoch_hits c mi e) eqn:Hh; [eexists; reflexivity|].
      destruct (IH (e + 1) (pn_next c mi e pn)) as [tr Htr].
      + now apply before_next.
      + destruct Hbef as (HE & HU & HX & Hsome).
        unfold default_fuel, start_state, init_state in *. cbn [epoch update sample] in *.
        destruct (bE c) as [E|]; [lia|]. destruct (bU c) as [U|]; [nia|]. destruct (bS c) as [X|]; [nia|]. lia.
      + rewrite Htr. eexists; reflexivity.
  Qed.

  Theorem sampler_terminates e pn : length pn = length (sides c) -> before_budget e ->
    exists tr, run c mi (default_fuel c (start_state e pn)) (start_state e pn) = Some tr.
  Proof.
    intros Hpl Hb. unfold start_state. rewrite (model_eq_spec c mi W) by exact Hpl.
    apply spec_run_terminates; auto.
  Qed.

  (* more fuel does not change the answer *)
  Lemma spec_run_fuel_mono : forall n e pn tr, spec_run c mi e pn n = Some tr ->
    forall m, spec_run c mi e pn (n + m) = Some tr.
  Proof.
    induction n as [|n IH]; intros e pn tr H m; [discriminate|].
    cbn [plus spec_run] in *. destruct (epoch_hits c mi e); [exact H|].
    destruct (spec_run c mi (e + 1) (pn_next c mi e pn) n) as [rest|] eqn:E; [|discriminate].
    now rewrite (IH _ _ _ E m).
  Qed.

  (* ---------------- the stop is exact ---------------- *)
  (* within an epoch: no update before the last shown one reaches the budget; if
     the epoch stops the run, its last shown update does *)
  Theorem stop_exact e pn :
    let us := fst (take_until (hit c) (epoch_updates c mi e pn)) in
    Forall (fun u => hit c u = false) (removelast us) /\
    (epoch_hits c mi e = true -> exists u, us = removelast us ++ [u] /\ hit c u = true) /\
    (epoch_hits c mi e = false -> us = epoch_updates c mi e pn /\ Forall (fun u => hit c u = false) us).
  Proof.
    cbv zeta. rewrite <- (epoch_hits_eq c mi e pn).
    pose proof (take_until_prefix (hit c) (epoch_updates c mi e pn)) as H.
    destruct (take_until (hit c) (epoch_updates c mi e pn)) as [r f]. cbn [fst snd].
    destruct H as [rest [H1 [H2 [H3 H4]]]]. split; [exact H2|]. split; [exact H3|].
    intros Hf. destruct (H4 Hf) as [Hr Hall]. split; [exact Hr|]. now rewrite Hr.
  Qed.

  (* ---------------- resume ---------------- *)
  Fixpoint epochs_events (e0 : Z) (pn : list nat) (k : nat) : list event :=
    match k with
    | O => []
    | S k' => epoch_events c mi e0 pn ++ epochs_events (e0 + 1) (pn_next c mi e0 pn) k'
    end.

  (* how often every config's sampler was iterated when k more epochs are over *)
  Fixpoint pn_after (e0 : Z) (pn : list nat) (k : nat) : list nat :=
    match k with O => pn | S k' => pn_after (e0 + 1) (pn_next c mi e0 pn) k' end.

  Fixpoint no_hit_in (e0 : Z) (k : nat) : Prop :=
    match k with O => True | S k' => epoch_hits c mi e0 = false /\ no_hit_in (e0 + 1) k' end.

  Lemma spec_resume : forall k e0 pn n, no_hit_in e0 k ->
    spec_run c mi e0 pn (k + n) =
    option_map (app (epochs_events e0 pn k)) (spec_run c mi (e0 + Z.of_nat k) (pn_after e0 pn k) n).
  Proof.
    induction k as [|k IH]; intros e0 pn n Hno.
    - cbn. rewrite Z.add_0_r. destruct (spec_run c mi e0 pn n); reflexivity.
    - destruct Hno as [Hh Hno]. cbn [plus spec_run epochs_events pn_after]. rewrite Hh.
      rewrite (IH (e0 + 1) _ n Hno).
      replace (e0 + 1 + Z.of_nat k) with (e0 + Z.of_nat (S k)) by lia.
      destruct (spec_run c mi (e0 + Z.of_nat (S k)) _ n); cbn [option_map]; [|reflexivity].
      now rewrite app_assoc.
  Qed.

  Lemma pn_after_length : forall k e0 pn, length pn = length (sides c) ->
    length (pn_after e0 pn k) = length (sides c).
  Proof.
    induction k as [|k IH]; intros e0 pn H; [exact H|]. cbn [pn_after]. apply IH.
    now apply (pn_next_length c mi).
  Qed.

  Theorem resume_is_suffix k e0 pn n : length pn = length (sides c) -> no_hit_in e0 k ->
    run c mi (k + n) (start_state e0 pn) =
    option_map (app (epochs_events e0 pn k)) (run c mi n (start_state (e0 + Z.of_nat k) (pn_after e0 pn k))).
  Proof.
    intros Hpl Hno. unfold start_state.
    rewrite !(model_eq_spec c mi W) by (auto using pn_after_length). now apply spec_resume.
  Qed.

  (* a checkpoint strictly before the budget: no earlier epoch stops the run *)
  Lemma before_no_hit : forall k e0, before_budget (e0 + Z.of_nat k) -> no_hit_in e0 k.
  Proof.
    induction k as [|k IH]; intros e0 Hb; [exact I|].
    assert (forall j e, before_budget (e + Z.of_nat j) -> before_budget e) as Hmono.
    { induction j as [|j IHj]; intros e H; [now rewrite Z.add_0_r in H|].
      apply IHj. apply before_prev. now replace (e + Z.of_nat j + 1) with (e + Z.of_nat (S j)) by lia. }
    cbn [no_hit_in]. split.
    - apply before_prev. apply (Hmono k). now replace (e0 + 1 + Z.of_nat k) with (e0 + Z.of_nat (S k)) by lia.
    - apply IH. now replace (e0 + 1 + Z.of_nat k) with (e0 + Z.of_nat (S k)) by lia.
  Qed.

  Theorem resume_before_budget k e0 pn n : length pn = length (sides c) ->
    before_budget (e0 + Z.of_nat k) ->
    run c mi (k + n) (start_state e0 pn) =
    option_map (app (epochs_events e0 pn k)) (run c mi n (start_state (e0 + Z.of_nat k) (pn_after e0 pn k))).
  Proof. intros Hpl Hb. apply resume_is_suffix; [exact Hpl|now apply before_no_hit]. Qed.

  Theorem run_fuel_mono n e pn tr m : length pn = length (sides c) ->
    run c mi n (start_state e pn) = Some tr -> run c mi (n + m) (start_state e pn) = Some tr.
  Proof.
    intros Hpl. unfold start_state. rewrite !(model_eq_spec c mi W) by exact Hpl.
    intros H. now apply spec_run_fuel_mono.
  Qed.

  Theorem epoch_batches_facts e :
    concat (epoch_batches c mi e) = firstn (Z.to_nat (spe c)) (mi e) /\
    shape (Z.to_nat (cB c)) (epoch_batches c mi e) /\
    Z.of_nat (length (epoch_batches c mi e)) = upe c.
  Proof.
    split; [|split].
    - exact (epoch_batches_concat c mi W e).
    - exact (epoch_batches_shape c mi W e).
    - exact (epoch_batches_count c mi W e).
  Qed.

  (* ---------------- the constructor's checkpoint ---------------- *)
  (* the constructor accepts exactly the epoch-boundary checkpoints and derives
     the state the uninterrupted run has there *)
  Theorem init_checkpoint_spec a : init_checkpoint c a = spec_start c a.
  Proof.
    pose proof (upe_pos c mi W) as Hupe. pose proof (wf_B c mi W) as HB.
    destruct a as [|e|u|s]; cbn [init_checkpoint start_opts checkpoint spec_start is_some orb].
    - reflexivity.
    - f_equal; lia.
    - destruct (drop_last c) eqn:Hd; cbn [negb andb orb].
      + rewrite orb_false_r. destruct (u mod upe c =? 0) eqn:Hm; cbn [negb]; [|reflexivity].
        f_equal. apply Z.eqb_eq in Hm. rewrite (spe_upe_drop c mi W Hd).
        rewrite (Z.div_mod u (upe c)) at 1 by lia. rewrite Hm. lia.
      + rewrite orb_true_r. reflexivity.
    - destruct (s mod cB c =? 0) eqn:Hs; cbn [negb]; [|reflexivity].
      destruct (drop_last c) eqn:Hd; cbn [negb andb orb].
      + rewrite orb_false_r. destruct (s / cB c mod upe c =? 0) eqn:Hm; cbn [negb]; [|reflexivity].
        f_equal. apply Z.eqb_eq in Hm, Hs. rewrite (spe_upe_drop c mi W Hd).
        rewrite (Z.div_mod s (cB c)) at 1 by lia. rewrite Hs.
        rewrite (Z.div_mod (s / cB c) (upe c)) at 1 by lia. rewrite Hm. lia.
      + rewrite orb_true_r. reflexivity.
  Qed.

  Definition accepted (r : start_result) : Prop := match r with Start _ _ _ => True | _ => False end.

  (* which checkpoints are accepted, for each of the three ways of giving one *)
  Theorem checkpoint_accepted_iff :
    (forall e, init_checkpoint c (StartEpoch e) = Start e (upe c * e) (spe c * e)) /\
    (forall u, accepted (init_checkpoint c (StartUpdate u)) <-> drop_last c = true /\ exists e, u = upe c * e) /\
    (forall u, ~ accepted (init_checkpoint c (StartUpdate u)) <-> init_checkpoint c (StartUpdate u) = NotImplemented) /\
    (forall s, init_checkpoint c (StartSample s) = AssertFail <-> s mod cB c <> 0) /\
    (forall s, accepted (init_checkpoint c (StartSample s)) <-> drop_last c = true /\ exists e, s = spe c * e) /\
    (forall s, ~ accepted (init_checkpoint c (StartSample s)) /\ s mod cB c = 0
               <-> init_checkpoint c (StartSample s) = NotImplemented).
  Proof.
    pose proof (upe_pos c mi W) as Hupe. pose proof (wf_B c mi W) as HB.
    assert (Hdiv : forall u, u mod upe c = 0 <-> exists e, u = upe c * e).
    { intros u. split.
      - intros Hm. exists (u / upe c). rewrite (Z.div_mod u (upe c)) at 1 by lia. lia.
      - intros [e ->]. rewrite Z.mul_comm. apply Z.mod_mul. lia. }
    split; [reflexivity|].
    split; [|split; [|split; [|split]]].
    - intros u. cbn [init_checkpoint start_opts checkpoint is_some orb].
      destruct (drop_last c); cbn [negb].
      + rewrite orb_false_r. destruct (u mod upe c =? 0) eqn:Hm; cbn [negb accepted].
        * apply Z.eqb_eq in Hm. split; auto. intros _. split; auto. now apply Hdiv.
        * apply Z.eqb_neq in Hm. split; [tauto|]. intros [_ He]. apply Hdiv in He. contradiction.
      + rewrite orb_true_r. cbn [accepted]. split; [tauto|]. intros [Hf _]. discriminate.
    - intros u. cbn [init_checkpoint start_opts checkpoint is_some orb].
      destruct (negb (u mod upe c =? 0) || negb (drop_last c)); cbn [accepted]; split; auto; try tauto; discriminate.
    - intros s. cbn [init_checkpoint start_opts checkpoint is_some orb].
      destruct (s mod cB c =? 0) eqn:Hs; cbn [negb].
      + apply Z.eqb_eq in Hs. destruct (negb (s / cB c mod upe c =? 0) || negb (drop_last c)); split; try discriminate; intros; contradiction.
      + apply Z.eqb_neq in Hs. split; auto.
    - intros s. cbn [init_checkpoint start_opts checkpoint is_some orb].
      destruct (s mod cB c =? 0) eqn:Hs; cbn [negb].
      + apply Z.eqb_eq in Hs.
        destruct (drop_last c) eqn:Hd; cbn [negb].
        * rewrite orb_false_r. pose proof (spe_upe_drop c mi W Hd) as Hsu.
          destruct (s / cB c mod upe c =? 0) eqn:Hm; cbn [negb accepted].
          -- apply Z.eqb_eq in Hm. split; auto. intros _. split; auto.
             apply Hdiv in Hm. destruct Hm as [e He]. exists e.
             rewrite (Z.div_mod s (cB c)) at 1 by lia. rewrite Hs, He, Hsu. lia.
          -- apply Z.eqb_neq in Hm. split; [tauto|]. intros [_ [e He]]. exfalso. apply Hm.
             apply Hdiv. exists e. subst s. rewrite Hsu.
             replace (upe c * cB c * e) with (upe c * e * cB c) by ring. now rewrite Z.div_mul by lia.
        * rewrite orb_true_r. cbn [accepted]. split; [tauto|]. intros [Hf _]. discriminate.
      + cbn [accepted]. apply Z.eqb_neq in Hs. split; [tauto|]. intros [Hd [e He]]. exfalso. apply Hs.
        subst s. rewrite (spe_upe_drop c mi W Hd).
        replace (upe c * cB c * e) with (upe c * e * cB c) by ring. apply Z.mod_mul. lia.
    - intros s. cbn [init_checkpoint start_opts checkpoint is_some orb].
      destruct (s mod cB c =? 0) eqn:Hs; cbn [negb].
      + apply Z.eqb_eq in Hs.
        destruct (negb (s / cB c mod upe c =? 0) || negb (drop_last c)); cbn [accepted]; split; auto; try tauto; try discriminate.
      + apply Z.eqb_neq in Hs. cbn [accepted]. split; [tauto|discriminate].
  Qed.

  (* the three ways of giving a checkpoint are consistent with one another:
     whatever form is accepted denotes an epoch e and yields exactly the triple
     that start_epoch = e yields; and with drop_last each form can name every epoch *)
  Theorem checkpoint_forms_agree :
    (forall a e u s, init_checkpoint c a = Start e u s -> init_checkpoint c (StartEpoch e) = Start e u s) /\
    (forall e, drop_last c = true ->
       init_checkpoint c (StartUpdate (upe c * e)) = init_checkpoint c (StartEpoch e) /\
       init_checkpoint c (StartSample (spe c * e)) = init_checkpoint c (StartEpoch e)).
  Proof.
    pose proof (upe_pos c mi W) as Hupe. pose proof (wf_B c mi W) as HB. split.
    - intros a e u s H. rewrite init_checkpoint_spec in H.
      cbn [init_checkpoint start_opts checkpoint is_some orb].
      destruct a as [|e'|u'|s']; cbn [spec_start] in H.
      + injection H as <- <- <-. f_equal; lia.
      + injection H as <- <- <-. f_equal; lia.
      + destruct (drop_last c && (u' mod upe c =? 0)) eqn:E; [|discriminate].
        apply andb_true_iff in E. destruct E as [_ Hm]. apply Z.eqb_eq in Hm.
        injection H as <- <- <-. f_equal; [|lia].
        rewrite (Z.div_mod u' (upe c)) at 2 by lia. lia.
      + destruct (s' mod cB c =? 0) eqn:Hs; cbn [negb] in H; [|discriminate].
        destruct (drop_last c && (s' / cB c mod upe c =? 0)) eqn:E; [|discriminate].
        apply andb_true_iff in E. destruct E as [_ Hm]. apply Z.eqb_eq in Hm.
        injection H as <- <- <-. f_equal; [|lia].
        rewrite (Z.div_mod (s' / cB c) (upe c)) at 2 by lia. lia.
    - intros e Hd. rewrite !init_checkpoint_spec. cbn [spec_start]. rewrite Hd. cbn [andb negb].
      pose proof (spe_upe_drop c mi W Hd) as Hsu. split.
      + replace (upe c * e) with (e * upe c) by ring. rewrite Z.mod_mul, Z.div_mul by lia. reflexivity.
      + assert (spe c * e = e * upe c * cB c) as -> by (rewrite Hsu; ring).
        rewrite Z.mod_mul, Z.div_mul by lia. cbn [negb]. rewrite Z.mod_mul, Z.div_mul by lia.
        cbn. f_equal; rewrite Hsu; ring.
  Qed.

  (* ---------------- zero budget ---------------- *)
  Theorem zero_budget_one_pass pn : zero_budget c = true ->
    sampler_iter c mi 0 0 0 pn = Some (spec_eval c 0 (sides c) pn).
  Proof.
    intros Hz. unfold sampler_iter. rewrite Hz. cbn. now rewrite (eval_loop_spec c mi W).
  Qed.

  Theorem iter_eq_spec e pn n : length pn = length (sides c) -> zero_budget c = false ->
    n = default_fuel c (start_state e pn) ->
    sampler_iter c mi e (upe c * e) (spe c * e) pn = spec_iter c mi e pn n.
  Proof.
    intros Hpl Hz Hn. unfold sampler_iter, spec_iter. rewrite Hz, Hn. now apply (model_eq_spec c mi W).
  Qed.
End Cor.

(* giving a checkpoint in more than one way is rejected *)
Theorem checkpoint_two_forms_rejected c se su ss :
  (2 <= b2n (is_some se) + b2n (is_some su) + b2n (is_some ss))%nat -> checkpoint c se su ss = AssertFail.
Proof.
  destruct se, su, ss; cbn; intros H; try reflexivity; lia.
Qed.

(* ---------------- the constructor's assertions ---------------- *)
(* declarative: which argument combinations pass the assertions before the checkpoint *)
Definition one_budget (a : ctor_args) : Prop :=
  (exists v, 0 <= v /\ a_epochs a = Some v /\ a_updates a = None /\ a_samples a = None) \/
  (exists v, 0 <= v /\ a_epochs a = None /\ a_updates a = Some v /\ a_samples a = None) \/
  (exists v, 0 <= v /\ a_epochs a = None /\ a_updates a = None /\ a_samples a = Some v).

Definition args_valid (a : ctor_args) : Prop :=
  cfg_ok (cfg_of_args a) /\ one_budget a.

Lemma opt_pos_true o : (forall n, o = Some n -> 0 < n) -> opt_pos o = true.
Proof. intros H. destruct o as [n|]; [|reflexivity]. cbn. apply Z.ltb_lt. now apply H. Qed.

(* an accepted constructor call: the configuration satisfies everything the
   theorems' well-formedness premise asks of the arguments, exactly one budget
   is given, and the start triple is the checkpoint derivation's *)
Theorem ctor_ok a c e u s : ctor a = Ok c e u s ->
  c = cfg_of_args a /\ args_valid a /\
  checkpoint c (a_start_epoch a) (a_start_update a) (a_start_sample a) = Start e u s.
Proof.
  unfold ctor. intros H.
  destruct (0 <? a_B a) eqn:H1; cbn [negb] in H; [|discriminate].
  destruct (a_B a <=? a_N a) eqn:H2; cbn [negb] in H; [|discriminate].
  destruct (match a_D a with Some d => _ | None => true end) eqn:H3; cbn [negb] in H; [|discriminate].
  destruct (opt_nonneg (a_epochs a)) eqn:H4; cbn [negb] in H; [|discriminate].
  destruct (opt_nonneg (a_updates a)) eqn:H5; cbn [negb] in H; [|discriminate].
  destruct (opt_nonneg (a_samples a)) eqn:H6; cbn [negb] in H; [|discriminate].
  destruct (Nat.eqb _ 1) eqn:H7; cbn [negb] in H; [|discriminate].
  destruct (forallb side_asserts (a_sides a)) eqn:H8; cbn [negb] in H; [|discriminate].
  destruct (checkpoint (cfg_of_args a) _ _ _) as [e' u' s'| |] eqn:H9; try discriminate.
  injection H as <- <- <- <-. split; [reflexivity|]. split; [|exact H9].
  apply Z.ltb_lt in H1. apply Z.leb_le in H2. apply Nat.eqb_eq in H7. split.
  - unfold cfg_ok, cfg_of_args. cbn [cB cN cD drop_last sides].
    split; [lia|]. split; [lia|]. split.
    + intros d Hd. rewrite Hd in H3.
      apply andb_true_iff in H3. destruct H3 as [H3 H3c]. apply andb_true_iff in H3. destruct H3 as [H3 H3b].
      apply andb_true_iff in H3. destruct H3 as [H3a H3m].
      apply Z.eqb_eq in H3m. apply Z.leb_le in H3b, H3c. split; [exact H3a|]. split; [|lia].
      exists (d / a_B a). rewrite (Z.div_mod d (a_B a)) at 1 by lia. lia.
    + apply Forall_forall. intros sc Hin. rewrite forallb_forall in H8. now apply H8.
  - unfold one_budget.
    destruct (a_epochs a) as [x|], (a_updates a) as [y|], (a_samples a) as [z|]; cbn in H7; try discriminate.
    + left. exists x. cbn in H4. apply Z.leb_le in H4. auto.
    + right; left. exists y. cbn in H5. apply Z.leb_le in H5. auto.
    + right; right. exists z. cbn in H6. apply Z.leb_le in H6. auto.
Qed.

(* and conversely: valid arguments pass all assertions, the outcome is the checkpoint's *)
Theorem ctor_complete a : args_valid a ->
  ctor a = match checkpoint (cfg_of_args a) (a_start_epoch a) (a_start_update a) (a_start_sample a) with
           | Start e u s => Ok (cfg_of_args a) e u s
           | NotImplemented => CNotImplemented
           | AssertFail => CAssertFail
           end.
Proof.
  intros [(HB & HBN & HD & HS) Hone]. unfold cfg_of_args in HB, HBN, HD, HS. cbn [cB cN cD drop_last sides] in *.
  unfold ctor.
  rewrite (proj2 (Z.ltb_lt _ _)) by lia. cbn [negb].
  rewrite (proj2 (Z.leb_le _ _)) by lia. cbn [negb].
  assert (match a_D a with
          | Some d => (a_drop_last a && (d mod a_B a =? 0)) && (a_B a <=? d) && (d <=? a_N a)
          | None => true end = true) as ->.
  { destruct (a_D a) as [d|]; [|reflexivity]. destruct (HD d eq_refl) as (Hdl & [m Hm] & Hr).
    rewrite Hdl. subst d. rewrite Z.mod_mul by lia. cbn.
    rewrite (proj2 (Z.leb_le _ _)) by lia. rewrite (proj2 (Z.leb_le _ _)) by lia. reflexivity. }
  cbn [negb].
  assert (opt_nonneg (a_epochs a) = true /\ opt_nonneg (a_updates a) = true /\ opt_nonneg (a_samples a) = true /\
          Nat.eqb (b2n (is_some (a_epochs a)) + b2n (is_some (a_updates a)) + b2n (is_some (a_samples a))) 1 = true)
    as (-> & -> & -> & ->).
  { destruct Hone as [(v & Hv & -> & -> & ->)|[(v & Hv & -> & -> & ->)|(v & Hv & -> & -> & ->)]]; cbn;
      rewrite (proj2 (Z.leb_le _ _)) by lia; auto. }
  cbn [negb].
  assert (forallb side_asserts (a_sides a) = true) as ->.
  { apply forallb_forall. intros sc Hin. rewrite Forall_forall in HS. now apply HS. }
  cbn [negb]. reflexivity.
Qed.

(* hence the premise of the property theorems is not vacuous on real use: what
   the constructor accepts is well-formed as soon as the samplers' len() is
   what their iteration yields *)
Theorem ctor_accepts_wf a c e u s mi : ctor a = Ok c e u s -> env_ok c mi -> WF c mi.
Proof.
  intros H He. destruct (ctor_ok a c e u s H) as (-> & [Hok _] & _). now apply WF_of_ok.
Qed.

(* every index of a pass resolves back to its own dataset and position *)
Lemma concat_lookup_aux_app : forall pre n post di idx,
  Forall (fun x => 0 <= x) pre -> 0 <= idx < n ->
  concat_lookup_aux (pre ++ n :: post) di (fold_right Z.add 0 pre + idx) = Some ((di + length pre)%nat, idx).
Proof.
  induction pre as [|p pre IH]; intros n post di idx Hpre Hidx.
  - cbn. destruct (idx <? n) eqn:E; [|apply Z.ltb_ge in E; lia]. f_equal. f_equal. lia.
  - inversion Hpre as [|? ? Hp Hpre']; subst. cbn [app concat_lookup_aux fold_right].
    assert (0 <= fold_right Z.add 0 pre).
    { clear -Hpre'. induction Hpre'; cbn; lia. }
    destruct (p + fold_right Z.add 0 pre + idx <? p) eqn:E; [apply Z.ltb_lt in E; lia|].
    replace (p + fold_right Z.add 0 pre + idx - p) with (fold_right Z.add 0 pre + idx) by lia.
    rewrite IH by auto. f_equal. f_equal. simpl length. lia.
Qed.

Theorem offset_roundtrip c mi ci sc j : WF c mi ->
  nth_error (sides c) ci = Some sc -> 0 <= j < dslen sc ->
  concat_lookup c (offset_of c ci + j) = Some (S ci, j).
Proof.
  intros W Hn Hj. unfold concat_lookup, offset_of.
  destruct (nth_error_split _ _ Hn) as [pre [post [Hs Hl]]].
  rewrite Hs, firstn_app, firstn_all2 by lia. subst ci. rewrite Nat.sub_diag. cbn [firstn].
  rewrite app_nil_r, map_app. cbn [map].
  change (dsN c :: map dslen pre ++ dslen sc :: map dslen post)
    with ((dsN c :: map dslen pre) ++ dslen sc :: map dslen post).
  replace (dsN c + fold_right Z.add 0 (map dslen pre) + j)
    with (fold_right Z.add 0 (dsN c :: map dslen pre) + j) by (cbn; lia).
  rewrite concat_lookup_aux_app; auto.
  - f_equal. f_equal. simpl length. rewrite map_length. lia.
  - constructor; [apply (wf_dsN c mi W)|].
    pose proof (wf_sides c mi W) as HF. rewrite Hs in HF. apply Forall_app in HF. destruct HF as [HF _].
    clear -HF. induction HF as [|x l Hx HF IH]; cbn; constructor; auto.
    destruct Hx as (_ & _ & _ & _ & _ & H). exact H.
Qed.

(* main indices resolve to dataset 0 *)
Theorem main_roundtrip c j : 0 <= j < dsN c -> concat_lookup c j = Some (0%nat, j).
Proof.
  intros Hj. unfold concat_lookup. cbn. destruct (j <? dsN c) eqn:E; [reflexivity|apply Z.ltb_ge in E; lia].
Qed.

(* a pass shows exactly the config's indices, shifted, in order *)
Definition ev_idx (e : event) : Z := match e with SetEpoch x => x | IterStart x => x | Main _ i => i | Side _ _ i => i end.
Lemma emit_idx {E} (mk : bool -> Z -> E) (f : E -> Z) b : (forall fl i, f (mk fl i) = i) -> map f (emit mk b) = b.
Proof.
  intros H. induction b as [|i b IH]; [reflexivity|].
  destruct b as [|j b]; [cbn; now rewrite H|]. rewrite emit_cons2, map_cons, H, IH. reflexivity.
Qed.
Theorem side_pass_whole c ci sc p : 0 < or_default (sbs sc) (cB c) ->
  map ev_idx (side_events c ci sc p) = map (Z.add (offset_of c ci)) (sidx sc p).
Proof.
  intros Hb. unfold side_events.
  rewrite <- (concat_chunk (Z.to_nat (or_default (sbs sc) (cB c))) (map (Z.add (offset_of c ci)) (sidx sc p))) at 2 by lia.
  induction (chunk _ _) as [|b bs IH]; [reflexivity|].
  cbn [flat_map concat]. rewrite map_app, IH. f_equal. apply emit_idx. reflexivity.
Qed.

(* reached-or-crossed, spelled out *)
Theorem due_iff sc k : (forall n, ens sc = Some n -> 0 < n) ->
  due sc k = true <->
  (exists n, ene sc = Some n /\ k_epoch_end k = true /\ k_epoch k mod n = 0) \/
  (exists n, enu sc = Some n /\ k_update k mod n = 0) \/
  (exists n m, ens sc = Some n /\ k_prev_sample k < m * n <= k_sample k).
Proof.
  intros Hs. unfold due. rewrite !orb_true_iff. split.
  - intros [[H|H]|H].
    + left. destruct (ene sc) as [n|]; [|discriminate]. apply andb_true_iff in H. destruct H as [H1 H2].
      exists n. repeat split; auto. now apply Z.eqb_eq.
    + right; left. destruct (enu sc) as [n|]; [|discriminate]. exists n. split; auto. now apply Z.eqb_eq.
    + right; right. destruct (ens sc) as [n|] eqn:E; [|discriminate].
      apply crossed_iff in H; [|now apply Hs]. destruct H as [m Hm]. exists n, m. auto.
  - intros [[n [E [H1 H2]]]|[[n [E H]]|[n [m [E H]]]]].
    + left; left. rewrite E, H1. apply Z.eqb_eq. exact H2.
    + left; right. rewrite E. now apply Z.eqb_eq.
    + right. rewrite E. apply crossed_iff; [now apply Hs|]. exists m. exact H.
Qed.

(* samples per epoch: everything without drop_last, else the largest multiple of
   the dropping unit (drop_last_batch_size if given, else batch_size) *)
Theorem spe_spec c mi : WF c mi ->
  if drop_last c
  then let unit := or_default (cD c) (cB c) in
       spe c mod unit = 0 /\ spe c <= cN c < spe c + unit
  else spe c = cN c.
Proof.
  intros W. pose proof (wf_B c mi W) as HB. pose proof (wf_BN c mi W) as HBN.
  unfold spe. destruct (drop_last c) eqn:Hd; [|reflexivity]. cbv zeta.
  assert (0 < or_default (cD c) (cB c)) as Hu.
  { unfold or_default. destruct (cD c) as [d|] eqn:E; [|lia].
    destruct (wf_D c mi W d E) as (_ & _ & Hr). lia. }
  set (u := or_default (cD c) (cB c)) in *. split.
  - apply Z.mod_mul. lia.
  - pose proof (Z.mul_div_le (cN c) u Hu). pose proof (Z.mul_succ_div_gt (cN c) u Hu). lia.
Qed.

Definition is_main (e : event) : bool := match e with Main _ _ => true | _ => false end.

Lemma filter_main_emit_main b : filter is_main (emit Main b) = emit Main b.
Proof.
  induction b as [|i b IH]; [reflexivity|]. destruct b as [|j b]; [reflexivity|].
  rewrite emit_cons2. cbn [filter is_main]. now rewrite IH.
Qed.
Lemma filter_main_emit_side ci b : filter is_main (emit (Side ci) b) = [].
Proof.
  induction b as [|i b IH]; [reflexivity|]. destruct b as [|j b]; [reflexivity|].
  rewrite emit_cons2. cbn [filter is_main]. exact IH.
Qed.
Lemma filter_main_side_events c ci sc p : filter is_main (side_events c ci sc p) = [].
Proof.
  unfold side_events. induction (chunk _ _) as [|b bs IH]; [reflexivity|].
  cbn [flat_map]. rewrite filter_app, filter_main_emit_side, IH. reflexivity.
Qed.
Lemma filter_main_passes c k : forall l ci pn, filter is_main (passes_from c ci l pn k) = [].
Proof.
  induction l as [|sc l IH]; intros ci pn; [reflexivity|]. destruct pn as [|p pn]; [reflexivity|]. cbn [passes_from].
  rewrite filter_app, IH, app_nil_r. destruct (due sc k); [apply filter_main_side_events|reflexivity].
Qed.

(* the main part of an update is exactly its batch: all indices not-full but the last *)
Theorem update_main_part c e bs pn j :
  filter is_main (u_events (upd_at c e bs pn j)) = emit Main (nth j bs []).
Proof.
  unfold upd_at. cbn [u_events]. rewrite filter_app, filter_main_emit_main, filter_main_passes.
  apply app_nil_r.
Qed.

(* and the side part of an update is exactly the passes of the due configs *)
Theorem update_side_part c e bs pn j :
  filter (fun x => negb (is_main x)) (u_events (upd_at c e bs pn j))
  = passes_from c 0 (sides c) (pn_at c pn e bs j) (counters_at c e bs j).
Proof.
  unfold upd_at. cbn [u_events]. rewrite filter_app.
  assert (forall b, filter (fun x => negb (is_main x)) (emit Main b) = []) as ->.
  { induction b as [|i b IH]; [reflexivity|]. destruct b as [|i2 b]; [reflexivity|].
    rewrite emit_cons2. cbn [filter is_main negb]. exact IH. }
  cbn [app].
  assert (forall l ci pn, filter (fun x => negb (is_main x)) (passes_from c ci l pn (counters_at c e bs j))
                       = passes_from c ci l pn (counters_at c e bs j)) as H.
  { induction l as [|sc l IH]; intros ci pn0; [reflexivity|]. destruct pn0 as [|p pn0]; [reflexivity|]. cbn [passes_from].
    rewrite filter_app, IH. f_equal. destruct (due sc _); [|reflexivity].
    unfold side_events. induction (chunk _ _) as [|b bs' IHb]; [reflexivity|].
    cbn [flat_map]. rewrite filter_app, IHb. f_equal.
    induction b as [|i b IHe]; [reflexivity|]. destruct b as [|i2 b]; [reflexivity|].
    rewrite emit_cons2. cbn [filter is_main negb]. now rewrite IHe. }
  apply H.
Qed.
