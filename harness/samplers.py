"""Shared machinery for C12/C13: spies on the torch draw functions, running all
ranks of the real samplers, rendering of cases into Coq.

The spies are installed for the duration of one sampler construction+iteration:
  torch.Generator         -> subclass logging manual_seed(seed)
  torch.randperm/randint/multinomial -> wrappers logging (generator id, request, result)
  torch.Tensor.random_    -> wrapper logging (generator id, value)   (SemiSampler's rank/epoch seeds)
A draw made without a generator (global RNG) is logged with generator id None.
"""
from .common import C, Nat, Opt, Raw, Rec, coq

MAX_DRAWS = 400   # a real epoch of the generated sizes needs < 100 draws


class Runaway(Exception):
    pass


CPU_LIMIT = 1.5     # seconds of process CPU time per sampler construction + epoch(s) (a real one takes milliseconds;
                    # imports are done before the clock starts)
WALL_LIMIT = 90.0   # fallback for a hang that does not burn CPU; generous, the machine may be heavily loaded


class Alarm:
    """runaway guard for one sampler run.  A loop that makes no draw at all (ClassBalancedSampler with shuffle=False
    on an empty pool) is not seen by the draw counter of Recorder.  The guard counts the process's own CPU time
    (ITIMER_VIRTUAL / SIGVTALRM: a Python busy loop burns user CPU, a run that is merely descheduled on a loaded
    machine does not) and has a generous wall-clock fallback (ITIMER_REAL / SIGALRM) for a hang that sleeps.
    Both raise Runaway inside the running Python code."""

    def __init__(self, cpu=None, wall=None):
        self.cpu = CPU_LIMIT if cpu is None else cpu
        self.wall = WALL_LIMIT if wall is None else wall

    def __enter__(self):
        import signal

        def fire(*a):
            raise Runaway()
        self.old_v = signal.signal(signal.SIGVTALRM, fire)
        self.old_r = signal.signal(signal.SIGALRM, fire)
        signal.setitimer(signal.ITIMER_VIRTUAL, self.cpu)
        signal.setitimer(signal.ITIMER_REAL, self.wall)
        return self

    def __exit__(self, *exc):
        import signal
        signal.setitimer(signal.ITIMER_VIRTUAL, 0)
        signal.setitimer(signal.ITIMER_REAL, 0)
        signal.signal(signal.SIGVTALRM, self.old_v)
        signal.signal(signal.SIGALRM, self.old_r)
        return False


RUNAWAY_RANK = {"result": "RUNAWAY", "stream": [], "len": None, "seeds": [], "draws": [], "alien": False,
                "random_": [], "kinds": [], "seed_events": [], "draw_gens": []}


def guarded(fn, *a, **k):
    """fn(*a, **k) under the runaway guard; -> (value, ran_away)"""
    import torch  # noqa: F401  (first imports cost CPU seconds: not on the guard's clock)
    import kappadata.samplers  # noqa: F401
    try:
        with Alarm():
            return fn(*a, **k), False
    except Runaway:   # fired outside fn's own try blocks
        return None, True


def run_rank_guarded(case, rank, world, **kw):
    out, ran_away = guarded(run_rank, case, rank, world, **kw)
    return dict(RUNAWAY_RANK) if ran_away else out


class Recorder:
    def __init__(self):
        self.log = []
        self.base = 0      # log index where the current list(sampler) call started (the draw cap is per call)
        self.gens = {}     # id(generator) -> small id

    def gid(self, g):
        if g is None:
            return None
        if id(g) not in self.gens:
            self.gens[id(g)] = "ext%d" % len(self.gens)
        return self.gens[id(g)]

    def __enter__(self):
        import torch
        rec = self
        self.torch = torch
        self.saved = (torch.Generator, torch.randperm, torch.randint, torch.multinomial)
        OrigGen = torch.Generator
        self.keep = []

        class SpyGenerator(OrigGen):
            def __init__(self, *a, **k):
                super().__init__()
                rec.keep.append(self)
                rec.gens[id(self)] = len(rec.gens)

            def manual_seed(self, seed):
                rec.log.append(["seed", rec.gid(self), int(seed)])
                super().manual_seed(seed)
                return self

        o_randperm, o_randint, o_multinomial = torch.randperm, torch.randint, torch.multinomial

        def count():
            if sum(1 for ev in rec.log[rec.base:] if ev[0] != "seed") > MAX_DRAWS:
                raise Runaway()

        def randperm(n, *a, generator=None, **k):
            count()
            r = o_randperm(n, *a, generator=generator, **k)
            rec.log.append(["randperm", rec.gid(generator), int(n), [int(x) for x in r.tolist()]])
            return r

        def randint(*a, generator=None, **k):
            count()
            r = o_randint(*a, generator=generator, **k)
            high = k.get("high", a[-1] if a else None)
            rec.log.append(["randint", rec.gid(generator), int(r.numel()), [int(x) for x in r.flatten().tolist()],
                            int(high) if high is not None else None])
            return r

        def multinomial(w, num_samples, replacement=False, *, generator=None, **k):
            count()
            r = o_multinomial(w, num_samples, replacement, generator=generator, **k)
            rec.log.append(["multinomial", rec.gid(generator), int(num_samples), [int(x) for x in r.tolist()],
                            bool(replacement)])
            return r

        torch.Generator = SpyGenerator
        torch.randperm, torch.randint, torch.multinomial = randperm, randint, multinomial
        o_random_ = torch._C.TensorBase.random_
        self.o_random_ = o_random_

        def random_(t, *a, generator=None, **k):
            r = o_random_(t, *a, generator=generator, **k)
            if r.numel() == 1:
                rec.log.append(["random_", rec.gid(generator), int(r.item())])
            return r

        torch.Tensor.random_ = random_
        return self

    def __exit__(self, *exc):
        torch = self.torch
        torch.Generator, torch.randperm, torch.randint, torch.multinomial = self.saved
        try:
            del torch.Tensor.random_
        except AttributeError:
            pass
        return False


# label REPRESENTATIONS: what getall_class hands to kappadata.utils.getall_as_tensor
INT_RANGE = {"int64": (-2 ** 63, 2 ** 63 - 1), "int32": (-2 ** 31, 2 ** 31 - 1), "int16": (-2 ** 15, 2 ** 15 - 1),
             "int8": (-128, 127), "uint8": (0, 255)}
REPS = ["list"] + ["%s:%s" % (f, d) for f in ("ndarray", "tensor") for d in ("int64", "int32", "int16", "int8", "uint8")]


def rep_fits(classes, rep):
    if rep == "list":
        return True
    lo, hi = INT_RANGE[rep.split(":")[1]]
    return all(lo <= c <= hi for c in classes)


def labels_in_rep(classes, rep):
    if rep == "list":
        return [int(c) for c in classes]
    form, dt = rep.split(":")
    if form == "ndarray":
        import numpy as np
        return np.asarray([int(c) for c in classes], dtype=dt)
    import torch
    return torch.tensor([int(c) for c in classes], dtype=getattr(torch, dt))


class ClassDataset:
    """labels live in a python list (the truth the oracles read); getall_class hands them out in the representation
    `rep` (list / numpy array / torch tensor of a given integer dtype), a fresh object per call"""

    def __init__(self, classes, dim, rep="list"):
        self.classes, self.dim, self.rep = [int(c) for c in classes], dim, rep

    def __len__(self):
        return len(self.classes)

    def getdim_class(self):
        return self.dim

    def getall_class(self):
        return labels_in_rep(self.classes, self.rep)

    def getitem_class(self, idx, ctx=None):
        return self.classes[idx]

    def relabel(self, classes):
        """the labels change IN PLACE (same object, same list object; the length may change)"""
        self.classes[:] = [int(c) for c in classes]

    def __getitem__(self, idx):
        return int(idx)


class ItemDataset:
    """a dataset WITHOUT getall_class: labels are reachable sample by sample only (kappadata.utils.getall's slow path)"""

    def __init__(self, classes, dim):
        self.classes, self.dim = [int(c) for c in classes], dim

    def __len__(self):
        return len(self.classes)

    def getdim_class(self):
        return self.dim

    def getitem_class(self, idx, ctx=None):
        return self.classes[idx]

    def relabel(self, classes):
        self.classes[:] = [int(c) for c in classes]

    def __getitem__(self, idx):
        return int(idx)


def make_dataset(case, classes=None):
    """the dataset object of a cb / semi case: case["rep"] (default "list"), case["getall"] (default True)"""
    classes = case["classes"] if classes is None else classes
    if not case.get("getall", True):
        return ItemDataset(classes, case["dim"])
    return ClassDataset(classes, case["dim"], case.get("rep", "list"))


def build(case, rank, world, seed=None, generator=None, dataset=None):
    """construct the real sampler of the case for one rank (dataset: an existing dataset object to build it on)"""
    import torch
    kind = case["kind"]
    seed = case["seed"] if seed is None else seed
    if kind == "dist":
        from kappadata.samplers.distributed_sampler import DistributedSampler
        return DistributedSampler(list(range(case["n"])), num_replicas=world, rank=rank, shuffle=case["shuffle"],
                                  seed=seed, drop_last=case["drop_last"], num_repeats=case["rep"])
    if kind == "rand":
        from kappadata.samplers.random_sampler import RandomSampler
        return RandomSampler(list(range(case["n"])), replacement=case["replacement"], generator=generator,
                             num_repeats=case["rep"])
    if kind == "weighted":
        from kappadata.samplers.weighted_sampler import WeightedSampler
        return WeightedSampler(list(range(case["n"])), weights=torch.tensor(case["weights"], dtype=torch.float64),
                               size=case["size"], seed=seed, rank=rank, world_size=world)
    if kind == "cb":
        from kappadata.samplers.class_balanced_sampler import ClassBalancedSampler
        return ClassBalancedSampler(dataset if dataset is not None else make_dataset(case), shuffle=case["shuffle"],
                                    samples_per_class=case["spc"], seed=seed, rank=rank, world_size=world)
    if kind == "semi":
        from kappadata.samplers.semi_sampler import SemiSampler
        return SemiSampler(dataset if dataset is not None else make_dataset(case), num_labeled=case["L"],
                           num_unlabeled=case["U"],
                           rank=rank, world_size=world, seed=seed, length_mode=case["mode"])
    raise ValueError(kind)


def digest_log(out, log):
    """fill seeds / draws / ... of one record from the spy events of its call"""
    draw_gens = set()
    for ev in log:
        if ev[0] == "seed":
            out["seeds"].append(ev[2])
        elif ev[0] == "random_":
            out["random_"].append([ev[1], ev[2]])
        else:
            out["draws"].append([ev[2], ev[3]])
            draw_gens.add(ev[1])
            if ev[1] is None:
                out["alien"] = True
            if ev[0] == "multinomial" and ev[4]:
                out["alien"] = True
    if out["result"] == "RUNAWAY":       # keep replay files readable
        out["draws"] = out["draws"][:3]
    out["seed_events"] = [[ev[1], ev[2]] for ev in log if ev[0] == "seed"]
    out["draw_gens"] = sorted(draw_gens, key=str)
    out["kinds"] = [ev[0] for ev in log if ev[0] not in ("seed", "random_")][:len(out["draws"])]
    return out


def run_ops(case, rank, world, ops):
    """ONE sampler object of the given rank driven through ops = [["set", e] | ["iter"], ...].
    -> list parallel to ops: None for a set_epoch call, a record like run_rank's for every list(sampler) call
    (the spy events of the construction are attributed to the first list(sampler) call).
    Once a call fails the later list(sampler) calls are reported with the same failure and not executed."""
    import torch
    out = []
    gen = None
    if case["kind"] == "rand":
        gen = torch.Generator().manual_seed(case["seed"])
    rec = Recorder()
    failed = None
    with rec:
        s = None
        try:
            s = build(case, rank, world, generator=gen)
        except AssertionError:
            failed = "AssertionError"
        except Runaway:
            failed = "RUNAWAY"
        except Exception as e:  # noqa
            failed = type(e).__name__ + ": " + str(e)[:200]
        for op in ops:
            if op[0] == "set":
                out.append(None)
                if failed is None:
                    try:
                        s.set_epoch(op[1])
                    except Exception as e:  # noqa
                        failed = type(e).__name__ + ": " + str(e)[:200]
                continue
            r = {"result": "ok", "stream": [], "len": None, "seeds": [], "draws": [], "alien": False, "random_": []}
            if failed is None:
                try:
                    r["len"] = int(len(s))
                    stream = []
                    for i in s:
                        stream.append(int(i))
                        if len(stream) > 100000:
                            raise Runaway()
                    r["stream"] = stream
                except AssertionError:
                    failed = "AssertionError"
                except Runaway:
                    failed = "RUNAWAY"
                except Exception as e:  # noqa
                    failed = type(e).__name__ + ": " + str(e)[:200]
            if failed is not None:
                r["result"] = failed
            digest_log(r, rec.log[rec.base:])
            rec.base = len(rec.log)
            out.append(r)
    return out


def run_ops_guarded(case, rank, world, ops):
    out, ran_away = guarded(run_ops, case, rank, world, ops)
    if ran_away:
        return [None if op[0] == "set" else dict(RUNAWAY_RANK) for op in ops]
    return out


def run_rank(case, rank, world, epoch=None, seed=None, dataset=None):
    """-> dict(result, stream, len, seeds, draws=[[request, result]], gens, alien, random_)"""
    import torch
    epoch = case["epoch"] if epoch is None else epoch
    out = {"result": "ok", "stream": [], "len": None, "seeds": [], "draws": [], "alien": False, "random_": []}
    gen = None
    if case["kind"] == "rand":
        gen = torch.Generator().manual_seed(case["seed"] if seed is None else seed)
    rec = Recorder()
    with rec:
        try:
            s = build(case, rank, world, seed=seed, generator=gen, dataset=dataset)
            if epoch is not None and hasattr(s, "set_epoch"):
                s.set_epoch(epoch)
            out["len"] = int(len(s))
            stream = []
            for i in s:
                stream.append(int(i))
                if len(stream) > 100000:
                    raise Runaway()
            out["stream"] = stream
        except AssertionError:
            out["result"] = "AssertionError"
        except Runaway:
            out["result"] = "RUNAWAY"
        except Exception as e:  # noqa
            out["result"] = type(e).__name__ + ": " + str(e)[:200]
    return digest_log(out, rec.log)


class SplitRun:
    """run_rank in two phases that may be separated by anything else the process does: make() constructs the sampler,
    use(epoch) = set_epoch(epoch), len(sampler), list(sampler).  The draw spies are installed during both phases only
    (not in between); the record of the FIRST use carries the spy events of the construction like run_rank's, later
    uses the events of their own call."""

    def __init__(self, case, rank, world):
        self.case, self.rank, self.world = case, rank, world
        self.rec = Recorder()
        self.s, self.failed = None, None

    def make(self):
        import torch
        gen = None
        with self.rec:
            try:
                if self.case["kind"] == "rand":
                    gen = torch.Generator().manual_seed(self.case["seed"])
                self.s = build(self.case, self.rank, self.world, generator=gen)
            except AssertionError:
                self.failed = "AssertionError"
            except Runaway:
                self.failed = "RUNAWAY"
            except Exception as e:  # noqa
                self.failed = type(e).__name__ + ": " + str(e)[:200]
        self.kept = list(self.rec.keep)      # the generators of the construction stay alive (their ids stay theirs)

    def use(self, epoch):
        out = {"result": "ok", "stream": [], "len": None, "seeds": [], "draws": [], "alien": False, "random_": []}
        rec, s = self.rec, self.s
        with rec:
            if self.failed is None:
                try:
                    if epoch is not None and hasattr(s, "set_epoch"):
                        s.set_epoch(epoch)
                    out["len"] = int(len(s))
                    stream = []
                    for i in s:
                        stream.append(int(i))
                        if len(stream) > 100000:
                            raise Runaway()
                    out["stream"] = stream
                except AssertionError:
                    out["result"] = "AssertionError"
                except Runaway:
                    out["result"] = "RUNAWAY"
                except Exception as e:  # noqa
                    out["result"] = type(e).__name__ + ": " + str(e)[:200]
            else:
                out["result"] = self.failed
        digest_log(out, rec.log[rec.base:])
        rec.base = len(rec.log)
        return out


def same_run(a, b):
    return (a["result"] == b["result"] and a["len"] == b["len"] and a["stream"] == b["stream"]
            and a["seeds"] == b["seeds"] and a["draws"] == b["draws"]
            and [v for _, v in a["random_"]] == [v for _, v in b["random_"]])


def run_relabel(case, W):
    """CONSTRUCTION HISTORY on one dataset object: the dataset holds the labels case["relabel"]["before"]; sampler A
    (case["relabel"]["A"]: "cb" / "semi" with default arguments, "getall" = kappadata.utils.getall_as_tensor alone) is
    built on it and iterated; the labels change in place to case["classes"]; the case's sampler is then built on the SAME
    object for every rank -> {"A": result of A, "ranks": [record per rank]}"""
    import itertools
    rl = case["relabel"]
    ds = make_dataset(case, classes=rl["before"])
    a_res = "ok"
    try:
        if rl["A"] == "cb":
            from kappadata.samplers.class_balanced_sampler import ClassBalancedSampler
            a = ClassBalancedSampler(ds, seed=case["seed"])
        elif rl["A"] == "semi":
            from kappadata.samplers.semi_sampler import SemiSampler
            a = SemiSampler(ds, seed=case["seed"])
        else:
            from kappadata.utils.getall_as_tensor import getall_as_tensor
            getall_as_tensor(ds, item="class")
            a = []
        a_res = "ok:%d" % len(list(itertools.islice(iter(a), 20000)))
    except AssertionError:
        a_res = "AssertionError"
    except Runaway:
        raise
    except Exception as e:  # noqa
        a_res = type(e).__name__
    ds.relabel(case["classes"])
    return {"A": a_res, "ranks": [run_rank(case, r, W, dataset=ds) for r in range(W)]}


def run_relabel_guarded(case, W):
    out, ran_away = guarded(run_relabel, case, W)
    return {"A": "RUNAWAY", "ranks": [dict(RUNAWAY_RANK)]} if ran_away else out


def oracle_relabel(case, obs):
    """the sampler built on the relabelled object shows what the sampler built on a pristine dataset holding the current
    labels shows (obs["ranks"])"""
    rl, got = case["relabel"], obs["relabel"]
    what = ("dataset object %s getall_class held the labels %s; %s was applied to it (%s); the labels were "
            "changed in place to %s; the sampler then built on the same object"
            % ("with" if case.get("getall", True) else "WITHOUT", rl["before"],
               {"cb": "a ClassBalancedSampler", "semi": "a SemiSampler", "getall": "getall_as_tensor"}[rl["A"]], got["A"],
               case["classes"]))
    if got["A"] == "RUNAWAY" or len(got["ranks"]) != len(obs["ranks"]):
        return what + " does not return"
    for r, (b, ref) in enumerate(zip(got["ranks"], obs["ranks"])):
        if not same_run(b, ref):
            return ("%s (rank %d) shows len %s, stream %s (%s), draws of sizes %s; the sampler built on a pristine dataset "
                    "with the CURRENT labels shows len %s, stream %s (%s), draws of sizes %s"
                    % (what, r, b["len"], b["stream"], b["result"], [d[0] for d in b["draws"]], ref["len"], ref["stream"],
                       ref["result"], [d[0] for d in ref["draws"]]))
    return None


def gen_before(rng, classes, pool):
    """labels the dataset object held BEFORE it was relabelled to `classes` (different from classes)"""
    n = len(classes)
    for _ in range(20):
        q = rng.random()
        before = list(classes)
        if q < 0.25:
            rng.shuffle(before)
        elif q < 0.65:      # some entries differed (pseudo-labelling: -1 before, a label now; label cleaning)
            for i in rng.sample(range(n), rng.randint(1, max(1, n // 3))):
                before[i] = rng.choice(pool)
        elif q < 0.8:       # the dataset was longer
            before += [rng.choice(pool) for _ in range(rng.randint(1, 4))]
        else:               # ... or shorter
            before = before[:max(1, n - rng.randint(1, 3))]
        if before != list(classes):
            return before
    return list(classes) + [pool[0]]


def interleave(streams):
    """round-robin merge"""
    out = []
    for j in range(max((len(s) for s in streams), default=0)):
        for s in streams:
            if j < len(s):
                out.append(s[j])
    return out


def is_perm(l, n):
    return sorted(l) == list(range(n))


# ---------------------------------------------------------------------------
# rendering to Coq
# ---------------------------------------------------------------------------
CODE = {"ok": 0, "AssertionError": 1, "RUNAWAY": 2,
        "GroupError": 3}     # only in process-group histories (harness/pgroup.py): torch's DistributedSampler constructor
                             # raises without a group to take the default rank / world size from


def nats(l):
    return [Nat(x) for x in l]


def coq_rank(r):
    return (Nat(CODE[r["result"]]), nats(r["stream"]), Nat(r["len"] or 0), [int(s) for s in r["seeds"]],
            [(Nat(d[0]), nats(d[1])) for d in r["draws"]])


def coq_cfg(case):
    k = case["kind"]
    if k == "dist":
        return C("SDist", Rec(d_n=Nat(case["n"]), d_W=Nat(case["W"]), d_shuffle=case["shuffle"], d_seed=case["seed"],
                              d_drop=case["drop_last"], d_rep=Nat(case["rep"]), d_epoch=case["epoch"] or 0))
    if k == "rand":
        return C("SRand", Rec(rs_n=Nat(case["n"]), rs_rep=Nat(case["rep"]), rs_replacement=case["replacement"],
                              rs_seed=case["seed"]))
    if k == "weighted":
        return C("SW", Rec(w_n=Nat(case["n"]), w_size=Opt(None if case["size"] is None else Nat(case["size"])),
                           w_seed=case["seed"], w_epoch=case["epoch"] or 0, w_W=Nat(case["W"])))
    if k == "cb":
        return C("SCB", coq_cb(case))
    raise ValueError(k)


def coq_cb(case):
    return Rec(cb_classes=[int(c) for c in case["classes"]], cb_dim=Nat(case["dim"]),
               cb_spc_arg=Opt(None if case["spc"] is None else Nat(case["spc"])), cb_shuffle=case["shuffle"],
               cb_seed=case["seed"], cb_epoch=case["epoch"] or 0, cb_W=Nat(case["W"]))


def coq_hist(rank, ops, recs):
    """(rank, [HSet e | HIter rank_rec]) for C12.Check.hist_t"""
    hs = []
    for op, r in zip(ops, recs):
        if op[0] == "set":
            hs.append(C("HSet", int(op[1])))
        else:
            hs.append(C("HIter", Raw(coq(coq_rank(r)))))
    return (Nat(rank), Raw("[" + "; ".join(str(h) for h in hs) + "]"))
