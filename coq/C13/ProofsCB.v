(* Proofs for C13, part 1: ClassBalancedSampler (model in C12.Model, the rank
   split and the termination of the draw loops in C12.Proofs). *)
From Coq Require Import ZArith List Bool Arith Lia Permutation.
Import ListNotations.
From KD Require Import C12.Model C12.Spec C12.Proofs C13.Model C13.Spec.

(* ------------------------------------------------------------------ *)
(* lists                                                                *)
(* ------------------------------------------------------------------ *)
Lemma map_nth_seq : forall (l : list nat) d, map (fun p => nth p l d) (seq 0 (length l)) = l.
Proof.
  induction l as [|a l IH]; intro d; auto.
  simpl. f_equal. rewrite <- seq_shift, map_map. apply IH.
Qed.

(* pool[perm] for a permutation perm of the positions is a permutation of the pool *)
Lemma gather_perm : forall pool perm, Permutation perm (seq 0 (length pool)) -> Permutation (gather pool perm) pool.
Proof.
  intros pool perm H. unfold gather.
  eapply Permutation_trans; [apply Permutation_map; exact H|].
  rewrite map_nth_seq. apply Permutation_refl.
Qed.

Lemma gather_app : forall pool a b, gather pool (a ++ b) = gather pool a ++ gather pool b.
Proof. intros. unfold gather. apply map_app. Qed.

Lemma NoDup_firstn : forall {A} n (l : list A), NoDup l -> NoDup (firstn n l).
Proof.
  intros A n l H. revert n. induction H as [|x l Hx H IH]; intros [|n]; simpl; try constructor; auto.
  intro Hin. apply Hx. rewrite <- (firstn_skipn n l). apply in_or_app. auto.
Qed.

Lemma NoDup_count_le1 : forall (l : list nat) x, NoDup l -> count_occ Nat.eq_dec l x <= 1.
Proof.
  intros l x H. destruct (in_dec Nat.eq_dec x l) as [i|ni].
  - rewrite (proj1 (NoDup_count_occ' Nat.eq_dec l) H x i). lia.
  - apply (count_occ_not_In Nat.eq_dec) in ni. lia.
Qed.

Lemma count_occ_not_in_0 : forall (l : list nat) x, ~ In x l -> count_occ Nat.eq_dec l x = 0.
Proof. intros l x H. apply (count_occ_not_In Nat.eq_dec). exact H. Qed.

Lemma map_const_repeat : forall {A B} (f : A -> B) c l, Forall (fun x => f x = c) l -> map f l = repeat c (length l).
Proof. intros A B f c l H. induction H; simpl; congruence. Qed.

(* ------------------------------------------------------------------ *)
(* arithmetic of floor / ceil                                           *)
(* ------------------------------------------------------------------ *)
Lemma div_step : forall r k, 1 <= k -> k <= r -> r / k = S ((r - k) / k).
Proof.
  intros r k Hk Hr. replace r with ((r - k) + 1 * k) at 1 by lia. rewrite Nat.div_add by lia. lia.
Qed.

Lemma cdiv_step : forall r k, 1 <= k -> k <= r -> cdiv r k = S (cdiv (r - k) k).
Proof.
  intros r k Hk Hr. unfold cdiv. replace (r + k - 1) with ((r - k + k - 1) + 1 * k) by lia.
  rewrite Nat.div_add by lia. lia.
Qed.

Lemma cdiv_0 : forall k, 1 <= k -> cdiv 0 k = 0.
Proof. intros k Hk. unfold cdiv. apply Nat.div_small. lia. Qed.

Lemma cdiv_small : forall r k, 1 <= r -> r <= k -> cdiv r k = 1.
Proof.
  intros r k H1 H2. unfold cdiv. replace (r + k - 1) with ((r - 1) + 1 * k) by lia.
  rewrite Nat.div_add by lia. rewrite Nat.div_small by lia. reflexivity.
Qed.

(* ------------------------------------------------------------------ *)
(* the pools                                                            *)
(* ------------------------------------------------------------------ *)
Lemma pool_of_In : forall classes i x,
    In x (pool_of classes i) <-> x < length classes /\ cls classes x = Z.of_nat i.
Proof.
  intros classes i x. unfold pool_of, cls. rewrite filter_In, in_seq, Z.eqb_eq. intuition lia.
Qed.

Lemma pool_of_NoDup : forall classes i, NoDup (pool_of classes i).
Proof. intros. apply NoDup_filter, seq_NoDup. Qed.

Lemma filter_cons' : forall {A} (f : A -> bool) x l,
    filter f (x :: l) = if f x then x :: filter f l else filter f l.
Proof. reflexivity. Qed.

Lemma filter_nth_seq_length : forall {A} (f : A -> bool) d (l : list A) s,
    length (filter (fun p => f (nth (p - s) l d)) (seq s (length l))) = length (filter f l).
Proof.
  intros A f d. induction l as [|a l IH]; intro s; auto.
  replace (seq s (length (a :: l))) with (s :: seq (S s) (length l)) by reflexivity.
  rewrite !filter_cons'. rewrite Nat.sub_diag. change (nth 0 (a :: l) d) with a.
  assert (filter (fun p => f (nth (p - s) (a :: l) d)) (seq (S s) (length l)) =
          filter (fun p => f (nth (p - S s) l d)) (seq (S s) (length l))) as ->.
  { apply filter_ext_in. intros p Hp. apply in_seq in Hp.
    replace (p - s) with (S (p - S s)) by lia. reflexivity. }
  destruct (f a); simpl; rewrite IH; reflexivity.
Qed.

Lemma pool_of_length : forall classes i, length (pool_of classes i) = class_size classes (Z.of_nat i).
Proof.
  intros classes i. unfold pool_of, class_size.
  transitivity (length (filter (fun z => (z =? Z.of_nat i)%Z) classes)).
  - rewrite <- (filter_nth_seq_length (fun z => (z =? Z.of_nat i)%Z) (-1)%Z classes 0).
    f_equal. apply filter_ext. intro p. rewrite Nat.sub_0_r. reflexivity.
  - induction classes as [|a l IH]; auto. simpl.
    destruct (Z.eqb_spec a (Z.of_nat i)); destruct (Z.eq_dec a (Z.of_nat i)); try congruence; simpl; rewrite IH; auto.
Qed.

(* ------------------------------------------------------------------ *)
(* one class: the while loop reuses the pool's samples evenly           *)
(* ------------------------------------------------------------------ *)
Lemma pool_loop_counts : forall g shuffle pool, pool <> [] -> NoDup pool ->
    (forall h k, Permutation (g h k) (seq 0 k)) ->
    forall fuel remaining h chunk h', pool_loop fuel g shuffle pool remaining h = Ok (chunk, h') ->
    forall x, In x pool ->
      remaining / length pool <= count_occ Nat.eq_dec chunk x <= cdiv remaining (length pool).
Proof.
  intros g shuffle pool Hne Hnd Hg.
  assert (1 <= length pool) as Hk by (destruct pool; simpl; [congruence|lia]).
  induction fuel as [|fuel IH]; intros remaining h chunk h' Hrun x Hx; [discriminate|].
  simpl in Hrun. destruct (Nat.eqb_spec remaining 0) as [->|Hr].
  - inversion Hrun; subst. simpl. rewrite Nat.div_0_l, cdiv_0 by lia. lia.
  - set (perm := if shuffle then g h (length pool) else seq 0 (length pool)) in *.
    assert (Permutation perm (seq 0 (length pool))) as Hp by (unfold perm; destruct shuffle; auto).
    assert (length perm = length pool) as Hlp by (rewrite (Permutation_length Hp); apply seq_length).
    destruct (pool_loop fuel g shuffle pool (remaining - length (firstn remaining perm))
                        (if shuffle then h ++ [length pool] else h)) as [[rest h'']| |] eqn:Erec; try discriminate.
    inversion Hrun; subst chunk h'. clear Hrun.
    specialize (IH _ _ _ _ Erec x Hx). rewrite count_occ_app.
    (* the full permutation holds x exactly once *)
    assert (count_occ Nat.eq_dec (gather pool (firstn remaining perm)) x
            + count_occ Nat.eq_dec (gather pool (skipn remaining perm)) x = 1) as Hone.
    { rewrite <- count_occ_app, <- gather_app, firstn_skipn.
      rewrite (proj1 (Permutation_count_occ Nat.eq_dec _ _) (gather_perm pool perm Hp) x).
      apply (proj1 (NoDup_count_occ' Nat.eq_dec pool) Hnd x Hx). }
    rewrite firstn_length, Hlp in IH.
    destruct (Nat.le_gt_cases (length pool) remaining) as [ge|lt].
    + rewrite skipn_all2 in Hone by lia. simpl in Hone.
      rewrite Nat.min_r in IH by lia.
      rewrite (div_step remaining), (cdiv_step remaining) by lia. lia.
    + rewrite Nat.min_l in IH by lia. rewrite Nat.sub_diag in IH.
      rewrite Nat.div_0_l, cdiv_0 in IH by lia.
      rewrite Nat.div_small, cdiv_small by lia. lia.
Qed.

(* what one class contributes *)
Definition chunk_ok (spc : nat) (pool chunk : list nat) : Prop :=
  length chunk = spc /\ Forall (fun x => In x pool) chunk /\
  forall x, In x pool -> spc / length pool <= count_occ Nat.eq_dec chunk x <= cdiv spc (length pool).

Lemma classes_loop_chunks : forall g shuffle spc, (forall h k, Permutation (g h k) (seq 0 k)) ->
    forall pools h idx h', Forall (fun p => p <> [] /\ NoDup p) pools ->
    classes_loop g shuffle spc pools h = Ok (idx, h') ->
    exists chunks, idx = concat chunks /\ Forall2 (chunk_ok spc) pools chunks.
Proof.
  intros g shuffle spc Hg. induction pools as [|pool pools IH]; intros h idx h' Hp Hrun.
  - simpl in Hrun. inversion Hrun; subst. exists []. split; auto.
  - inversion Hp as [|? ? [Hne Hnd] Hp']; subst. cbn [classes_loop] in Hrun.
    destruct (pool_loop_ok g shuffle pool Hne Hg (S spc) spc h) as (chunk & h1 & E1 & E2 & E3); [lia|].
    rewrite E1 in Hrun.
    destruct (classes_loop g shuffle spc pools h1) as [[rest h2]| |] eqn:Erec; try discriminate.
    inversion Hrun; subst idx h'. clear Hrun.
    destruct (IH _ _ _ Hp' Erec) as (chunks & -> & HF).
    exists (chunk :: chunks). split; auto. constructor; auto.
    split; auto. split; auto.
    intros x Hx. apply (pool_loop_counts g shuffle pool Hne Hnd Hg _ _ _ _ _ E1 x Hx).
Qed.

(* the classes of the concatenated chunks: spc times class i, for each i in turn *)
Lemma chunks_classes : forall classes spc is chunks,
    Forall2 (chunk_ok spc) (map (pool_of classes) is) chunks ->
    map (cls classes) (concat chunks) = flat_map (fun i => repeat (Z.of_nat i) spc) is.
Proof.
  intros classes spc. induction is as [|i is IH]; intros chunks H; inversion H; subst; auto.
  simpl. rewrite map_app. f_equal; auto.
  destruct H2 as (Hlen & Hin & _). rewrite <- Hlen. apply map_const_repeat.
  eapply Forall_impl; [|exact Hin]. intros x Hx. apply pool_of_In in Hx. tauto.
Qed.

Lemma count_flat_repeat : forall spc is j, NoDup is -> In j is ->
    count_occ Z.eq_dec (flat_map (fun i => repeat (Z.of_nat i) spc) is) (Z.of_nat j) = spc.
Proof.
  intros spc. induction is as [|i is IH]; intros j Hnd Hj; [contradiction|].
  inversion Hnd; subst. simpl. rewrite count_occ_app.
  destruct Hj as [->|Hj].
  - rewrite count_occ_repeat_eq by auto.
    assert (count_occ Z.eq_dec (flat_map (fun i => repeat (Z.of_nat i) spc) is) (Z.of_nat j) = 0); [|lia].
    apply count_occ_not_In. intro Hin. apply in_flat_map in Hin. destruct Hin as [i' [Hi' Hr]].
    apply repeat_spec in Hr. apply Nat2Z.inj in Hr. subst. contradiction.
  - rewrite count_occ_repeat_neq; [rewrite IH; auto|].
    intro E. apply Nat2Z.inj in E. subst. contradiction.
Qed.

Lemma chunks_members : forall classes spc is chunks,
    Forall2 (chunk_ok spc) (map (pool_of classes) is) chunks ->
    forall y, In y (concat chunks) -> exists j, In j is /\ In y (pool_of classes j).
Proof.
  intros classes spc. induction is as [|i is IH]; intros chunks H y Hy; inversion H; subst; simpl in Hy; [contradiction|].
  apply in_app_or in Hy. destruct Hy as [Hy|Hy].
  - destruct H2 as (_ & Hin & _). rewrite Forall_forall in Hin. exists i. split; [left; auto|auto].
  - destruct (IH _ H4 y Hy) as [j [Hj1 Hj2]]. exists j. split; [right; auto|auto].
Qed.

Lemma chunks_reuse : forall classes spc is chunks,
    Forall2 (chunk_ok spc) (map (pool_of classes) is) chunks -> NoDup is ->
    forall i x, In i is -> In x (pool_of classes i) ->
      spc / length (pool_of classes i) <= count_occ Nat.eq_dec (concat chunks) x
      <= cdiv spc (length (pool_of classes i)).
Proof.
  intros classes spc. induction is as [|a is IH]; intros chunks H Hnd i x Hi Hx; [contradiction|].
  inversion H; subst. inversion Hnd; subst. simpl. rewrite count_occ_app.
  pose proof Hx as Hx'. apply pool_of_In in Hx'. destruct Hx' as [_ Hcx].
  destruct Hi as [->|Hi].
  - destruct H2 as (_ & _ & Hc). specialize (Hc x Hx).
    rewrite (count_occ_not_in_0 (concat l')); [lia|].
    intro Hin. destruct (chunks_members _ _ _ _ H4 x Hin) as [j [Hj1 Hj2]].
    apply pool_of_In in Hj2. destruct Hj2 as [_ Hj2]. rewrite Hcx in Hj2. apply Nat2Z.inj in Hj2. subst. contradiction.
  - destruct H2 as (_ & Hin & _).
    rewrite (count_occ_not_in_0 y); [simpl; apply IH; auto|].
    intro Hy. rewrite Forall_forall in Hin. apply Hin in Hy. apply pool_of_In in Hy. destruct Hy as [_ Hy].
    rewrite Hcx in Hy. apply Nat2Z.inj in Hy. subst. contradiction.
Qed.

(* ------------------------------------------------------------------ *)
(* the epoch's global draw                                              *)
(* ------------------------------------------------------------------ *)
Lemma cb_pools_good : forall c, cb_ctor_ok c = true -> Forall (fun p => p <> [] /\ NoDup p) (cb_pools c).
Proof.
  intros c H. pose proof (cb_ctor_pools c H) as Hp. unfold cb_pools in *.
  rewrite Forall_forall in *. intros p Hin. split; auto.
  apply in_map_iff in Hin. destruct Hin as [i [<- _]]. apply pool_of_NoDup.
Qed.

(* G is a rearrangement of the concatenated chunks *)
Lemma cb_global_chunks : forall c draw G h, perm_oracle draw -> cb_ctor_ok c = true ->
    cb_global c draw = Ok (G, h) ->
    exists chunks, Permutation G (concat chunks) /\
                   Forall2 (chunk_ok (cb_spc c)) (map (pool_of (cb_classes c)) (seq 0 (cb_C c))) chunks.
Proof.
  intros c draw G h Hd Hc. unfold cb_global.
  destruct (classes_loop (draw (cb_seed c + cb_epoch c)%Z) (cb_shuffle c) (cb_spc c) (cb_pools c) [])
    as [[idx h0]| |] eqn:E; try discriminate.
  destruct (classes_loop_chunks _ _ _ (Hd _) _ _ _ _ (cb_pools_good c Hc) E) as (chunks & -> & HF).
  intro H. exists chunks. split; auto.
  destruct (cb_shuffle c); inversion H; subst; auto.
  apply gather_perm. apply Hd.
Qed.

Lemma cb_exact : forall c draw G h, perm_oracle draw -> cb_ctor_ok c = true ->
    cb_global c draw = Ok (G, h) ->
    exact_per_class (cb_classes c) (cb_C c) (cb_spc c) G.
Proof.
  intros c draw G h Hd Hc HG.
  destruct (cb_global_ok c draw Hd Hc) as (G' & h' & E1 & E2). rewrite HG in E1. inversion E1; subst G' h'.
  split; [exact E2|].
  destruct (cb_global_chunks c draw G h Hd Hc HG) as (chunks & HP & HF).
  intros i Hi. unfold class_count.
  rewrite (proj1 (Permutation_count_occ Z.eq_dec _ _) (Permutation_map (cls (cb_classes c)) HP)).
  rewrite (chunks_classes _ _ _ _ HF). apply count_flat_repeat; [apply seq_NoDup | apply in_seq; lia].
Qed.

Lemma cb_reuse : forall c draw G h, perm_oracle draw -> cb_ctor_ok c = true ->
    cb_global c draw = Ok (G, h) ->
    reuse_even_spec (cb_classes c) (cb_C c) (cb_spc c) G.
Proof.
  intros c draw G h Hd Hc HG x i Hx Hi Hcx k. unfold k. clear k.
  destruct (cb_global_chunks c draw G h Hd Hc HG) as (chunks & HP & HF).
  rewrite (proj1 (Permutation_count_occ Nat.eq_dec _ _) HP x).
  rewrite <- pool_of_length.
  apply (chunks_reuse _ _ _ _ HF (seq_NoDup _ _)); [apply in_seq; lia|].
  apply pool_of_In. auto.
Qed.

Lemma cb_valid : forall c draw G h, perm_oracle draw -> cb_ctor_ok c = true ->
    cb_global c draw = Ok (G, h) -> indices_valid (length (cb_classes c)) G.
Proof.
  intros c draw G h Hd Hc HG.
  destruct (cb_global_chunks c draw G h Hd Hc HG) as (chunks & HP & HF).
  apply Forall_forall. intros x Hx. apply (Permutation_in _ HP) in Hx.
  destruct (chunks_members _ _ _ _ HF x Hx) as [j [_ Hj]]. apply pool_of_In in Hj. tauto.
Qed.

(* ------------------------------------------------------------------ *)
(* the ranks                                                            *)
(* ------------------------------------------------------------------ *)
Lemma rank_split_incl : forall E W rank G, 1 <= W -> rank < W -> length G = E ->
    forall x, In x (rank_split E W rank G) -> In x G.
Proof.
  intros E W rank G HW Hr HG x Hx. destruct (rank_split_spec E W rank G HW Hr HG) as [Hl Hn].
  apply In_nth_error in Hx. destruct Hx as [j Hj].
  assert (j < E / W) as Hlt by (rewrite <- Hl; apply nth_error_Some; congruence).
  rewrite Hn in Hj by auto. eapply nth_error_In; eauto.
Qed.

(* everything C13 says about one epoch of the class-balanced sampler *)
Lemma cb_epoch_spec : forall c draw, perm_oracle draw -> cb_ctor_ok c = true -> 1 <= cb_W c ->
    let n := length (cb_classes c) in
    let C := cb_C c in let spc := cb_spc c in let W := cb_W c in
    let streams := map (fun rank => stream_of (r_out (cb_run c draw rank))) (seq 0 W) in
    exists G h, cb_global c draw = Ok (G, h) /\
      exact_per_class (cb_classes c) C spc G /\
      reuse_even_spec (cb_classes c) C spc G /\
      indices_valid n G /\
      (* the ranks: equally long, together a prefix of G with fewer than W entries cut off *)
      split_of true W (C * spc / W) G streams /\
      interleave streams = firstn (W * (C * spc / W)) G /\
      Forall (indices_valid n) streams /\
      (forall rank, rank < W -> r_len (cb_run c draw rank) = C * spc / W) /\
      ((C * spc) mod W = 0 -> interleave streams = G).
Proof.
  intros c draw Hd Hc HW n C spc W streams.
  destruct (cb_split c draw Hd Hc HW) as (G & h & HG & Hlen & Hranks & Hsplit).
  exists G, h. split; auto.
  split; [eapply cb_exact; eauto|]. split; [eapply cb_reuse; eauto|].
  pose proof (cb_valid c draw G h Hd Hc HG) as Hv. split; auto.
  fold W streams in Hsplit. unfold cb_E in *. fold C spc in Hsplit, Hlen. split; auto.
  destruct Hsplit as (Hs1 & Hs2 & Hs3 & Hs4 & Hs5).
  assert (interleave streams = firstn (W * (C * spc / W)) G) as Hpre.
  { rewrite Hs3. apply wrap_take_prefix. auto. }
  split; auto. split.
  - apply Forall_forall. intros s Hs. unfold streams in Hs. apply in_map_iff in Hs.
    destruct Hs as [rank [<- Hr]]. apply in_seq in Hr. unfold cb_run. rewrite Hc, HG. simpl.
    apply Forall_forall. intros x Hx. apply rank_split_incl in Hx; auto; [|lia].
    unfold indices_valid in Hv. rewrite Forall_forall in Hv. auto.
  - split.
    + intros rank Hr. destruct (Hranks rank Hr) as (s & _ & _ & H & _). exact H.
    + intro Hm. rewrite Hpre. apply firstn_all2. rewrite Hlen.
      pose proof (Nat.div_mod (C * spc) W). lia.
Qed.
