(* C13 — the property, in terms of what one sees from outside: the dataset's class
   list, the configuration numbers (number of classes C, samples_per_class spc,
   num_labeled L, num_unlabeled U, the length mode, the world size W) and the
   emitted index streams.  No implementation vocabulary.
   (interleave / split_of — "the rank streams merge round-robin into the global
   draw, fewer than W trailing entries dropped" — are C12.Spec's.) *)
From Coq Require Import ZArith List Bool Arith Permutation.
Import ListNotations.
From KD Require Import C12.Spec.

(* class of dataset index x (-1 = unlabeled; also for x outside the dataset) *)
Definition cls (classes : list Z) (x : nat) : Z := nth x classes (-1)%Z.

Definition indices_valid (n : nat) (s : list nat) : Prop := Forall (fun x => x < n) s.

(* ------------------------------------------------------------------ *)
(* class-balanced                                                       *)
(* ------------------------------------------------------------------ *)
(* how many entries of G belong to class z *)
Definition class_count (classes : list Z) (z : Z) (G : list nat) : nat :=
  count_occ Z.eq_dec (map (cls classes) G) z.

(* "exactly spc indices of every class 0..C-1, and nothing else" *)
Definition exact_per_class (classes : list Z) (C spc : nat) (G : list nat) : Prop :=
  length G = C * spc /\ forall i, i < C -> class_count classes (Z.of_nat i) G = spc.

(* number of dataset samples of class z *)
Definition class_size (classes : list Z) (z : Z) : nat := count_occ Z.eq_dec classes z.

Definition cdiv (a b : nat) : nat := (a + b - 1) / b.

(* "a class's samples are reused as evenly as possible": a sample x whose class
   has k samples occurs floor(spc/k) or ceil(spc/k) times *)
Definition reuse_even_spec (classes : list Z) (C spc : nat) (G : list nat) : Prop :=
  forall x i, x < length classes -> i < C -> cls classes x = Z.of_nat i ->
    let k := class_size classes (Z.of_nat i) in
    spc / k <= count_occ Nat.eq_dec G x <= cdiv spc k.

(* ------------------------------------------------------------------ *)
(* semi-supervised                                                      *)
(* ------------------------------------------------------------------ *)
Definition labeled (classes : list Z) (x : nat) : bool := negb (Z.eqb (cls classes x) (-1)%Z).

(* "L labeled then U unlabeled indices, in strict alternation": position i holds
   a labeled sample iff i mod (L+U) < L, an unlabeled one otherwise; all valid *)
Definition alternation (classes : list Z) (L U : nat) (s : list nat) : Prop :=
  forall i x, nth_error s i = Some x ->
    x < length classes /\ labeled classes x = (i mod (L + U) <? L).

(* what the stream picks from the labeled / unlabeled pool, in order *)
Definition labeled_picks (classes : list Z) (s : list nat) : list nat := filter (labeled classes) s.
Definition unlabeled_picks (classes : list Z) (s : list nat) : list nat :=
  filter (fun x => negb (labeled classes x)) s.

(* the pools *)
Definition labeled_pool (classes : list Z) : list nat := filter (labeled classes) (seq 0 (length classes)).
Definition unlabeled_pool (classes : list Z) : list nat :=
  filter (fun x => negb (labeled classes x)) (seq 0 (length classes)).

(* "goes through the whole pool before repeating any of its elements": the picks
   are a prefix of permutation-of-the-pool after permutation-of-the-pool ... *)
Definition cycles_through (pool picks : list nat) : Prop :=
  exists ps tail, Forall (fun p => Permutation p pool) ps /\ concat ps = picks ++ tail.

(* ... i.e. every aligned block of |pool| picks is a permutation of the pool and
   the unfinished block at the end has no repetition *)
Definition block {A} (k b : nat) (l : list A) : list A := firstn k (skipn (b * k) l).
Definition blocks_exhaust (pool picks : list nat) : Prop :=
  let k := length pool in
  (forall b, (b + 1) * k <= length picks -> Permutation (block k b picks) pool) /\
  NoDup (skipn ((length picks / k) * k) picks) /\
  Forall (fun x => In x pool) picks.

(* documented length modes: one epoch (all ranks together, before the division
   by the world size) is a whole number of chunks of L+U indices:
   "labeled": as many chunks as the labeled samples fill,  "unlabeled": as the
   unlabeled samples fill, "all": as all samples fill *)
Inductive length_mode := ByLabeled | ByUnlabeled | ByAll.
Definition chunks (m : length_mode) (nl nu L U : nat) : nat :=
  match m with ByLabeled => nl / L | ByUnlabeled => nu / U | ByAll => (nl + nu) / (L + U) end.
Definition epoch_length (m : length_mode) (nl nu L U : nat) : nat := chunks m nl nu L U * (L + U).

(* ------------------------------------------------------------------ *)
(* executable versions used by the correspondence run                   *)
(* ------------------------------------------------------------------ *)
Definition indices_validb (n : nat) (s : list nat) : bool := forallb (fun x => x <? n) s.

Definition exact_per_classb (classes : list Z) (C spc : nat) (G : list nat) : bool :=
  (length G =? C * spc) &&
  forallb (fun i => class_count classes (Z.of_nat i) G =? spc) (seq 0 C).

Definition reuse_evenb (classes : list Z) (C spc : nat) (G : list nat) : bool :=
  forallb (fun x =>
    forallb (fun i =>
      if Z.eqb (cls classes x) (Z.of_nat i) then
        let k := class_size classes (Z.of_nat i) in
        (spc / k <=? count_occ Nat.eq_dec G x) && (count_occ Nat.eq_dec G x <=? cdiv spc k)
      else true) (seq 0 C)) (seq 0 (length classes)).

Definition alternationb (classes : list Z) (L U : nat) (s : list nat) : bool :=
  forallb (fun '(i, x) => (x <? length classes) && Bool.eqb (labeled classes x) (i mod (L + U) <? L))
          (combine (seq 0 (length s)) s).

Fixpoint nodupb (l : list nat) : bool :=
  match l with
  | [] => true
  | x :: l' => negb (existsb (Nat.eqb x) l') && nodupb l'
  end.

Definition memb (x : nat) (l : list nat) : bool := existsb (Nat.eqb x) l.

(* a duplicate-free list of |pool| elements of the duplicate-free pool is a permutation of it *)
Definition blocks_exhaustb (pool picks : list nat) : bool :=
  let k := length pool in
  forallb (fun b => nodupb (block k b picks) && (length (block k b picks) =? k)) (seq 0 (length picks / k)) &&
  nodupb (skipn ((length picks / k) * k) picks) &&
  forallb (fun x => memb x pool) picks.
