(* Implementation model for C13.
     kappadata/samplers/class_balanced_sampler.py   -> C12.Model (cb_run, cb_global, pool_loop, classes_loop:
                                                       the model of the repaired constructor + __iter__, reused)
     kappadata/samplers/weighted_sampler.py         -> C12.Model (w_run, w_global, reused)
     kappadata/samplers/semi_sampler.py             -> this file
   Mirrors the code statement by statement; no proofs here.

   Randomness as in C12: a torch.Generator is a deterministic function of its
   seed and of the requests made on it, so the model takes an oracle
       draw : seed -> sizes requested earlier -> requested size -> result
   SemiSampler derives the seed of its generator from two Tensor.random_() draws
   on generators seeded with the rank and the epoch; the two values drawn are
   explicit arguments (rank_seed, epoch_seed) of the model. *)
From Coq Require Import ZArith List Bool Arith.
Import ListNotations.
From KD Require Import C12.Model.

(* length_mode; any other string makes the constructor's assert fail *)
Inductive lmode := MLabeled | MUnlabeled | MAll | MOther.

Record semicfg := {
  se_classes : list Z;     (* getall_as_tensor(dataset) *)
  se_L : nat;              (* num_labeled *)
  se_U : nat;              (* num_unlabeled *)
  se_mode : lmode;
  se_seed : Z; se_epoch : Z;
  se_W : nat }.

(* is_unlabeled = self.classes == -1 *)
Definition is_unl (classes : list Z) (p : nat) : bool := Z.eqb (nth p classes 0%Z) (-1)%Z.
(* (~is_unlabeled).nonzero().squeeze(1).tolist() / is_unlabeled.nonzero().squeeze(1).tolist() *)
Definition labeled_idxs (classes : list Z) : list nat :=
  filter (fun p => negb (is_unl classes p)) (seq 0 (length classes)).
Definition unlabeled_idxs (classes : list Z) : list nat :=
  filter (is_unl classes) (seq 0 (length classes)).

(* the constructor's assertions, in order *)
Definition semi_ctor_ok (c : semicfg) : bool :=
  (1 <=? se_L c) && (1 <=? se_U c) &&
  (match se_mode c with MOther => false | _ => true end) &&
  ((0 <? length (labeled_idxs (se_classes c))) && (0 <? length (unlabeled_idxs (se_classes c)))).

(* effective_length *)
Definition semi_E (c : semicfg) : nat :=
  let nl := length (labeled_idxs (se_classes c)) in
  let nu := length (unlabeled_idxs (se_classes c)) in
  let num_chunks :=
    match se_mode c with
    | MLabeled => nl / se_L c
    | MUnlabeled => nu / se_U c
    | MAll => (nl + nu) / (se_L c + se_U c)
    | MOther => 0
    end in
  num_chunks * (se_L c + se_U c).

(* __len__ *)
Definition semi_len (c : semicfg) : nat := semi_E c / se_W c.

(* next(_iterator(idxs)) on the shared generator g.  buf = what is left of the
   permutation the iterator is currently yielding from; a new randperm(len(idxs))
   is requested only when next() is called on an exhausted one.  randperm(0)
   would make `while True: yield from []` spin forever. *)
Definition take (g : list nat -> nat -> list nat) (k : nat) (buf h : list nat)
  : outcome (nat * list nat * list nat) :=
  match buf with
  | p :: buf' => Ok (p, buf', h)
  | [] => match g h k with
          | p :: buf' => Ok (p, buf', h ++ [k])
          | [] => Runaway
          end
  end.

(* for i in range(len(self)): ... ; `steps` iterations are left, i is the loop variable *)
Fixpoint semi_loop (g : list nat -> nat -> list nat) (L U : nat) (lab unl : list nat)
         (steps i : nat) (bl bu h : list nat) : outcome (list nat * list nat) :=
  match steps with
  | O => Ok ([], h)
  | S steps' =>
      if i mod (L + U) <? L then
        match take g (length lab) bl h with
        | Ok (p, bl', h') =>
            match semi_loop g L U lab unl steps' (S i) bl' bu h' with
            | Ok (rest, h'') => Ok (nth p lab 0 :: rest, h'')
            | AssertFail => AssertFail
            | Runaway => Runaway
            end
        | AssertFail => AssertFail
        | Runaway => Runaway
        end
      else
        match take g (length unl) bu h with
        | Ok (p, bu', h') =>
            match semi_loop g L U lab unl steps' (S i) bl bu' h' with
            | Ok (rest, h'') => Ok (nth p unl 0 :: rest, h'')
            | AssertFail => AssertFail
            | Runaway => Runaway
            end
        | AssertFail => AssertFail
        | Runaway => Runaway
        end
  end.

(* the seed of the generator the permutations are drawn from *)
Definition semi_gen_seed (c : semicfg) (rank_seed epoch_seed : Z) : Z :=
  (se_seed c + rank_seed + epoch_seed)%Z.

(* __iter__ of one rank: stream and the sizes requested from the generator *)
Definition semi_iter (c : semicfg) (rank_seed epoch_seed : Z) (draw : oracle) : outcome (list nat * list nat) :=
  semi_loop (draw (semi_gen_seed c rank_seed epoch_seed)) (se_L c) (se_U c)
            (labeled_idxs (se_classes c)) (unlabeled_idxs (se_classes c))
            (semi_len c) 0 [] [] [].

Definition semi_run (c : semicfg) (rank_seed epoch_seed : Z) (draw : oracle) (rank : nat) : run :=
  if negb (semi_ctor_ok c) then {| r_out := AssertFail; r_len := 0; r_seeds := []; r_reqs := [] |} else
  let seeds := [Z.of_nat rank; se_epoch c; semi_gen_seed c rank_seed epoch_seed] in
  match semi_iter c rank_seed epoch_seed draw with
  | Ok (s, h) => {| r_out := Ok s; r_len := semi_len c; r_seeds := seeds; r_reqs := h |}
  | AssertFail => {| r_out := AssertFail; r_len := semi_len c; r_seeds := seeds; r_reqs := [] |}
  | Runaway => {| r_out := Runaway; r_len := semi_len c; r_seeds := seeds; r_reqs := [] |}
  end.

(* ------------------------------------------------------------------ *)
(* one SemiSampler OBJECT over several epochs: set_epoch(e) assigns     *)
(* self.epoch, __iter__ builds its three generators afresh and assigns  *)
(* no attribute (C12.Model.run_ops).  The value Tensor.random_() gives  *)
(* on a fresh generator seeded with x is a function rnd x of x; it is   *)
(* used for x = rank and for x = epoch.                                 *)
(* ------------------------------------------------------------------ *)
Definition se_set_epoch (c : semicfg) (e : Z) : semicfg :=
  {| se_classes := se_classes c; se_L := se_L c; se_U := se_U c; se_mode := se_mode c; se_seed := se_seed c;
     se_epoch := e; se_W := se_W c |}.

Definition semi_run_rnd (c : semicfg) (rnd : Z -> Z) (draw : oracle) (rank : nat) : run :=
  semi_run c (rnd (Z.of_nat rank)) (rnd (se_epoch c)) draw rank.

Definition semi_object (c : semicfg) (rnd : Z -> Z) (draw : oracle) (rank : nat) (ops : list op) : list run :=
  run_ops se_set_epoch (fun c' => semi_run_rnd c' rnd draw rank) c ops.

(* ------------------------------------------------------------------ *)
(* SemiSampler(dataset, ..., rank=rank, world_size=world) constructed   *)
(* while torch.distributed is in state g (C12.Model.pgroup):            *)
(*   self.rank = get_rank() if rank is None else rank                   *)
(*   self.world_size = get_world_size() if world_size is None else ...  *)
(* ------------------------------------------------------------------ *)
Definition se_set_world (c : semicfg) (W : nat) : semicfg :=
  {| se_classes := se_classes c; se_L := se_L c; se_U := se_U c; se_mode := se_mode c; se_seed := se_seed c;
     se_epoch := se_epoch c; se_W := W |}.

Definition semi_built (c : semicfg) (rank world : option nat) (g : pgroup) (rnd : Z -> Z) (draw : oracle) : run :=
  let '(r, W) := resolve_rank_world rank world g in semi_run_rnd (se_set_world c W) rnd draw r.
