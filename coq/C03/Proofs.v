(* C03 — proofs.  All statements are for every class layout / size / parameter /
   draw sequence; induction over lists and fuel, no bounded sweeps. *)
From Coq Require Import ZArith List Bool Lia ZifyBool Permutation Sorted Arith.
Import ListNotations.
From KD Require Import C03.Model C03.Spec.
Open Scope Z_scope.

(* ------------------------------------------------------------------ *)
(* zrange                                                              *)
(* ------------------------------------------------------------------ *)
Lemma zlen_nonneg {A} (l : list A) : 0 <= zlen l.
Proof. unfold zlen. lia. Qed.

Lemma zlen_app {A} (a b : list A) : zlen (a ++ b) = zlen a + zlen b.
Proof. unfold zlen. rewrite app_length. lia. Qed.

Lemma zlen_cons {A} (x : A) l : zlen (x :: l) = 1 + zlen l.
Proof. unfold zlen. simpl length. lia. Qed.

Lemma zrange_nil a b : b <= a -> zrange a b = [].
Proof. intros. unfold zrange. replace (Z.to_nat (b - a)) with 0%nat by lia. reflexivity. Qed.

Lemma zrange_cons a b : a < b -> zrange a b = a :: zrange (a + 1) b.
Proof.
  intros. unfold zrange.
  replace (Z.to_nat (b - a)) with (S (Z.to_nat (b - (a + 1)))) by lia.
  simpl. f_equal. lia.
  rewrite <- seq_shift, map_map. apply map_ext. intros. lia.
Qed.

Lemma In_zrange x a b : In x (zrange a b) <-> a <= x < b.
Proof.
  unfold zrange. rewrite in_map_iff. split.
  - intros (k & <- & Hk). apply in_seq in Hk. lia.
  - intros. exists (Z.to_nat (x - a)). split. lia. apply in_seq. lia.
Qed.

Lemma zrange_length a b : length (zrange a b) = Z.to_nat (b - a).
Proof. unfold zrange. now rewrite map_length, seq_length. Qed.

Lemma zlen_zrange a b : zlen (zrange a b) = Z.max 0 (b - a).
Proof. unfold zlen. rewrite zrange_length. lia. Qed.

Lemma zrange_app a m b : a <= m <= b -> zrange a m ++ zrange m b = zrange a b.
Proof.
  remember (Z.to_nat (m - a)) as k. revert a Heqk.
  induction k; intros.
  - assert (m = a) by lia. subst. now rewrite zrange_nil by lia.
  - rewrite (zrange_cons a m), (zrange_cons a b) by lia. simpl. f_equal. apply IHk; lia.
Qed.

Lemma zrange_snoc a b : a <= b -> zrange a (b + 1) = zrange a b ++ [b].
Proof.
  intros. rewrite <- (zrange_app a b (b + 1)) by lia. f_equal.
  rewrite zrange_cons by lia. now rewrite zrange_nil by lia.
Qed.

Lemma zrange_nth a b k : (k < length (zrange a b))%nat -> nth k (zrange a b) 0 = a + Z.of_nat k.
Proof.
  intros. unfold zrange in *. rewrite map_length, seq_length in H.
  rewrite (nth_indep _ 0 (a + Z.of_nat 0)) by (now rewrite map_length, seq_length).
  rewrite (map_nth (fun k => a + Z.of_nat k)). now rewrite seq_nth.
Qed.

Lemma zrange_sorted a b : StronglySorted Z.lt (zrange a b).
Proof.
  remember (Z.to_nat (b - a)) as k. revert a Heqk.
  induction k; intros.
  - rewrite zrange_nil by lia. constructor.
  - rewrite zrange_cons by lia. constructor. apply IHk; lia.
    apply Forall_forall. intros x Hx. apply In_zrange in Hx. lia.
Qed.

Lemma zrange_nodup a b : NoDup (zrange a b).
Proof.
  unfold zrange. apply FinFun.Injective_map_NoDup. intros x y. lia. apply seq_NoDup.
Qed.

(* ------------------------------------------------------------------ *)
(* counting                                                            *)
(* ------------------------------------------------------------------ *)
Definition cntf (f : Z -> bool) (l : list Z) : Z := zlen (filter f l).

Lemma cntf_nil f : cntf f [] = 0.
Proof. reflexivity. Qed.

Lemma cntf_cons f x l : cntf f (x :: l) = (if f x then 1 else 0) + cntf f l.
Proof. unfold cntf. simpl. destruct (f x). apply zlen_cons. lia. Qed.

Lemma cntf_app f a b : cntf f (a ++ b) = cntf f a + cntf f b.
Proof. unfold cntf. now rewrite filter_app, zlen_app. Qed.

Lemma cntf_nonneg f l : 0 <= cntf f l.
Proof. apply zlen_nonneg. Qed.

Lemma cntf_le_len f l : cntf f l <= zlen l.
Proof. induction l. unfold cntf, zlen; simpl; lia. rewrite cntf_cons, zlen_cons. destruct (f a); lia. Qed.

Lemma cntf_all f l : (forall x, In x l -> f x = true) -> cntf f l = zlen l.
Proof.
  induction l; intros. reflexivity.
  rewrite cntf_cons, zlen_cons, H by (now left). rewrite IHl. lia. intros. apply H. now right.
Qed.

Lemma cntf_none f l : (forall x, In x l -> f x = false) -> cntf f l = 0.
Proof.
  induction l; intros. reflexivity.
  rewrite cntf_cons, H by (now left). rewrite IHl. lia. intros. apply H. now right.
Qed.

Lemma cntf_ext_in f g l : (forall x, In x l -> f x = g x) -> cntf f l = cntf g l.
Proof. intros. unfold cntf. f_equal. now apply filter_ext_in. Qed.

Lemma cntf_concat_repeat f l k : cntf f (concat (repeat l k)) = Z.of_nat k * cntf f l.
Proof. induction k. reflexivity. simpl repeat. simpl concat. rewrite cntf_app, IHk. lia. Qed.

Lemma cntf_firstn_le f k l : cntf f (firstn k l) <= cntf f l.
Proof.
  revert k. induction l; intros; destruct k; simpl; try (rewrite ?cntf_nil; lia).
  - rewrite cntf_nil. apply cntf_nonneg.
  - rewrite !cntf_cons. specialize (IHl k). lia.
Qed.

Lemma cntf_pos_In f l : 0 < cntf f l <-> exists x, In x l /\ f x = true.
Proof.
  split.
  - induction l. rewrite cntf_nil. lia.
    rewrite cntf_cons. destruct (f a) eqn:E; intros.
    + exists a. simpl. auto.
    + destruct IHl as (x & ? & ?). lia. exists x. simpl. auto.
  - intros (x & Hin & Hf). induction l. destruct Hin.
    rewrite cntf_cons. pose proof (cntf_nonneg f l). destruct Hin.
    + subst. rewrite Hf. lia.
    + specialize (IHl H0). destruct (f a); lia.
Qed.

Lemma occ_cntf i out : occ i out = cntf (Z.eqb i) out.
Proof. reflexivity. Qed.

Lemma class_occ_cntf classes c out : class_occ classes c out = cntf (fun i => cls classes i =? c) out.
Proof. reflexivity. Qed.

Lemma count_of_cntf c l : count_of c l = cntf (Z.eqb c) l.
Proof. reflexivity. Qed.

Lemma occ_nodup i l : NoDup l -> occ i l = if in_dec Z.eq_dec i l then 1 else 0.
Proof.
  rewrite occ_cntf. induction 1. now rewrite cntf_nil.
  rewrite cntf_cons, IHNoDup. destruct (Z.eqb_spec i x).
  - subst. destruct (in_dec Z.eq_dec x l). contradiction.
    destruct (in_dec Z.eq_dec x (x :: l)). lia. exfalso. apply n0. now left.
  - destruct (in_dec Z.eq_dec i l); destruct (in_dec Z.eq_dec i (x :: l)); try lia.
    + exfalso. apply n0. now right.
    + destruct i0. congruence. contradiction.
Qed.

(* ------------------------------------------------------------------ *)
(* sel_from / positions                                                *)
(* ------------------------------------------------------------------ *)
Lemma sel_from_filter f l : forall i,
  sel_from i f l = filter (fun j => f (nth (Z.to_nat (j - i)) l (-1))) (zrange i (i + zlen l)).
Proof.
  induction l; intros.
  - simpl. rewrite zrange_nil. reflexivity. unfold zlen. simpl. lia.
  - rewrite zlen_cons, zrange_cons by (pose proof (zlen_nonneg l); lia).
    simpl filter. replace (Z.to_nat (i - i)) with 0%nat by lia. simpl nth.
    assert (E : sel_from (i + 1) f l =
                filter (fun j => f (nth (Z.to_nat (j - i)) (a :: l) (-1))) (zrange (i + 1) (i + (1 + zlen l)))).
    { rewrite IHl. replace (i + 1 + zlen l) with (i + (1 + zlen l)) by lia.
      apply filter_ext_in. intros j Hj. apply In_zrange in Hj.
      replace (Z.to_nat (j - i)) with (S (Z.to_nat (j - (i + 1)))) by lia. reflexivity. }
    simpl. rewrite E. reflexivity.
Qed.

Lemma sel_from_spec f classes :
  sel_from 0 f classes = filter (fun i => f (cls classes i)) (all_ids classes).
Proof.
  rewrite sel_from_filter. unfold all_ids, cls. simpl.
  apply filter_ext. intros. now rewrite Z.sub_0_r.
Qed.

Lemma positions_filter c classes :
  positions c classes = filter (fun i => cls classes i =? c) (all_ids classes).
Proof.
  unfold positions. rewrite sel_from_spec. apply filter_ext. intros. apply Z.eqb_sym.
Qed.

Lemma In_positions x c classes :
  In x (positions c classes) <-> 0 <= x < zlen classes /\ cls classes x = c.
Proof.
  rewrite positions_filter, filter_In. unfold all_ids. rewrite In_zrange, Z.eqb_eq. tauto.
Qed.

Lemma sel_from_len f l : forall i, zlen (sel_from i f l) = cntf f l.
Proof.
  induction l; intros. reflexivity.
  simpl. rewrite cntf_cons. destruct (f a). rewrite zlen_cons, IHl. lia. rewrite IHl. lia.
Qed.

Lemma zlen_positions c classes : zlen (positions c classes) = count_of c classes.
Proof. unfold positions. now rewrite sel_from_len. Qed.

Lemma length_positions c classes : length (positions c classes) = Z.to_nat (count_of c classes).
Proof. rewrite <- zlen_positions. unfold zlen. lia. Qed.

Lemma filter_sorted {A} (R : A -> A -> Prop) f l : StronglySorted R l -> StronglySorted R (filter f l).
Proof.
  induction 1. constructor. simpl. destruct (f a); auto. constructor; auto.
  apply Forall_forall. intros x Hx. apply filter_In in Hx.
  rewrite Forall_forall in H0. apply H0. tauto.
Qed.

Lemma positions_sorted c classes : StronglySorted Z.lt (positions c classes).
Proof. rewrite positions_filter. apply filter_sorted, zrange_sorted. Qed.

Lemma positions_nodup c classes : NoDup (positions c classes).
Proof. rewrite positions_filter. apply NoDup_filter, zrange_nodup. Qed.

Lemma count_of_nonneg c l : 0 <= count_of c l.
Proof. apply zlen_nonneg. Qed.

(* a sample's own class is present *)
Lemma count_of_cls_pos classes i : 0 <= i < zlen classes -> 0 < count_of (cls classes i) classes.
Proof.
  intros. rewrite <- zlen_positions.
  assert (In i (positions (cls classes i) classes)) by (apply In_positions; auto).
  destruct (positions (cls classes i) classes). destruct H0. rewrite zlen_cons. pose proof (zlen_nonneg l). lia.
Qed.

Lemma cls_in classes i : 0 <= i < zlen classes -> In (cls classes i) classes.
Proof. intros. unfold cls. apply nth_In. unfold zlen in H. lia. Qed.

(* occurrences of sample i / of class c in the block of class c' *)
Lemma occ_positions i c classes :
  occ i (positions c classes) = if (0 <=? i) && (i <? zlen classes) && (cls classes i =? c) then 1 else 0.
Proof.
  rewrite occ_nodup by apply positions_nodup.
  destruct (in_dec Z.eq_dec i (positions c classes)) as [H|H]; rewrite In_positions in H;
    destruct (Z.leb_spec 0 i), (Z.ltb_spec i (zlen classes)), (Z.eqb_spec (cls classes i) c); simpl; try lia; tauto.
Qed.

Lemma class_occ_positions c c' classes :
  class_occ classes c (positions c' classes) = if c =? c' then count_of c classes else 0.
Proof.
  rewrite class_occ_cntf. destruct (Z.eqb_spec c c').
  - subst. rewrite cntf_all. apply zlen_positions.
    intros x Hx. apply In_positions in Hx. lia.
  - apply cntf_none. intros x Hx. apply In_positions in Hx. lia.
Qed.

Lemma class_occ_all_ids c classes : class_occ classes c (all_ids classes) = count_of c classes.
Proof.
  rewrite <- zlen_positions, positions_filter. reflexivity.
Qed.

(* ------------------------------------------------------------------ *)
(* ClassFilterWrapper                                                  *)
(* ------------------------------------------------------------------ *)
Lemma class_filter_spec_l valid cs classes :
  class_filter valid cs classes
  = spec_class_filter classes (fun c => Bool.eqb (existsb (Z.eqb c) cs) valid).
Proof. unfold class_filter, spec_class_filter. apply sel_from_spec. Qed.

Lemma class_filter_valid_l cs classes i :
  In i (class_filter true cs classes) <-> 0 <= i < zlen classes /\ In (cls classes i) cs.
Proof.
  rewrite class_filter_spec_l. unfold spec_class_filter, all_ids. rewrite filter_In, In_zrange.
  rewrite eqb_true_iff, existsb_exists. split.
  - intros (? & x & ? & E). apply Z.eqb_eq in E. subst. tauto.
  - intros (? & ?). split; auto. exists (cls classes i). split; auto. apply Z.eqb_refl.
Qed.

Lemma class_filter_invalid_l cs classes i :
  In i (class_filter false cs classes) <-> 0 <= i < zlen classes /\ ~ In (cls classes i) cs.
Proof.
  rewrite class_filter_spec_l. unfold spec_class_filter, all_ids. rewrite filter_In, In_zrange.
  destruct (existsb (Z.eqb (cls classes i)) cs) eqn:E; simpl.
  - apply existsb_exists in E. destruct E as (x & ? & E). apply Z.eqb_eq in E. subst.
    split. intros (? & ?); discriminate. tauto.
  - split; [|tauto]. intros (? & _). split; auto. intro Hin.
    assert (existsb (Z.eqb (cls classes i)) cs = true)
      by (apply existsb_exists; eexists; split; eauto; apply Z.eqb_refl).
    congruence.
Qed.

Lemma class_filter_sorted_l valid cs classes : StronglySorted Z.lt (class_filter valid cs classes).
Proof. rewrite class_filter_spec_l. apply filter_sorted, zrange_sorted. Qed.

(* ------------------------------------------------------------------ *)
(* ranges: PercentFilterWrapper, SubsetWrapper                         *)
(* ------------------------------------------------------------------ *)
(* what the theorems need of the percent operations on a dataset of size n (for the binary64
   instance float_ops the computable clauses are checked on every generated case, not proved) *)
Definition pct_contract {P} (O : pct_ops P) (n : Z) : Prop :=
  p_ok O (p_zero O) = true /\ p_ok O (p_one O) = true /\
  (forall p, p_ok O p = true -> p_leb O (p_zero O) p = true /\ p_leb O p (p_one O) = true) /\
  (forall c, p_cut O c (p_zero O) n = 0) /\ (forall c, p_cut O c (p_one O) n = n) /\
  (forall c p, p_ok O p = true -> 0 <= p_cut O c p n <= n).

Lemma block_contiguous_l a b :
  zlen (zrange a b) = Z.max 0 (b - a) /\
  forall k, (k < length (zrange a b))%nat -> nth k (zrange a b) 0 = a + Z.of_nat k.
Proof. split. apply zlen_zrange. apply zrange_nth. Qed.

Lemma three_blocks a b n : 0 <= a <= b -> b <= n -> zrange 0 a ++ zrange a b ++ zrange b n = zrange 0 n.
Proof. intros. rewrite (zrange_app a b n), (zrange_app 0 a n) by lia. reflexivity. Qed.

Lemma percent_filter_block {P} (O : pct_ops P) n f t cf ct out :
  percent_filter_g O n f t cf ct = Some out ->
  out = zrange (p_cut O cf (odflt f (p_zero O)) n) (p_cut O ct (odflt t (p_one O)) n).
Proof. unfold percent_filter_g. destruct (_ && _); congruence. Qed.

Lemma subset_range_block n s e out :
  subset_range n s e = Some out ->
  out = zrange (odflt s 0) (Z.min (odflt e n) n) /\ odflt s 0 <= Z.min (odflt e n) n.
Proof.
  unfold subset_range. destruct (negb _). discriminate.
  destruct (Z.leb_spec (odflt s 0) (Z.min (odflt e n) n)); intros E; inversion E. auto.
Qed.

Lemma subset_percent_block {P} (O : pct_ops P) n s e out :
  subset_percent_g O n s e = Some out ->
  out = zrange (p_cut O false (odflt s (p_zero O)) n) (p_cut O false (odflt e (p_one O)) n).
Proof.
  unfold subset_percent_g. destruct (negb (is_some s || is_some e)). discriminate.
  destruct (negb _). discriminate. destruct (p_leb O _ _); congruence.
Qed.

Lemma percent_filter_partition {P} (O : pct_ops P) n p q c1 c2 :
  pct_contract O n -> p_ok O p = true -> p_ok O q = true -> p_cut O c1 p n <= p_cut O c2 q n ->
  exists A B D,
    percent_filter_g O n None (Some p) false c1 = Some A /\
    percent_filter_g O n (Some p) (Some q) c1 c2 = Some B /\
    percent_filter_g O n (Some q) None c2 false = Some D /\
    A ++ B ++ D = zrange 0 n.
Proof.
  intros (Hz & Ho & _ & H0 & H1 & Hb) Hp Hq Hle. unfold percent_filter_g. cbn [odflt].
  rewrite Hp, Hq, Hz, Ho. cbn [andb]. do 3 eexists. repeat split.
  rewrite H0, H1. apply three_blocks. pose proof (Hb c1 p Hp). lia. apply Hb; auto.
Qed.

Lemma percent_filter_partition2 {P} (O : pct_ops P) n p c :
  pct_contract O n -> p_ok O p = true ->
  exists A D,
    percent_filter_g O n None (Some p) false c = Some A /\
    percent_filter_g O n (Some p) None c false = Some D /\
    A ++ D = zrange 0 n.
Proof.
  intros (Hz & Ho & _ & H0 & H1 & Hb) Hp. unfold percent_filter_g. cbn [odflt].
  rewrite Hp, Hz, Ho. cbn [andb]. do 2 eexists. repeat split.
  rewrite H0, H1. apply zrange_app. apply Hb; auto.
Qed.

Lemma subset_range_partition n a b :
  0 <= a <= b -> a <= n ->
  exists A B D,
    subset_range n None (Some a) = Some A /\
    subset_range n (Some a) (Some b) = Some B /\
    subset_range n (Some (Z.min b n)) None = Some D /\
    A ++ B ++ D = zrange 0 n.
Proof.
  intros. unfold subset_range. simpl.
  destruct (Z.leb_spec 0 (Z.min a n)); [|lia].
  destruct (Z.leb_spec a (Z.min b n)); [|lia].
  destruct (Z.leb_spec (Z.min b n) (Z.min n n)); [|lia].
  do 3 eexists. repeat split.
  replace (Z.min a n) with a by lia. replace (Z.min n n) with n by lia.
  apply three_blocks; lia.
Qed.

Lemma subset_range_partition2 n c :
  0 <= c <= n ->
  exists A D,
    subset_range n None (Some c) = Some A /\ subset_range n (Some c) None = Some D /\ A ++ D = zrange 0 n.
Proof.
  intros. unfold subset_range. simpl.
  destruct (Z.leb_spec 0 (Z.min c n)); [|lia].
  destruct (Z.leb_spec c (Z.min n n)); [|lia].
  do 2 eexists. repeat split.
  replace (Z.min c n) with c by lia. replace (Z.min n n) with n by lia. apply zrange_app. lia.
Qed.

Lemma subset_percent_partition {P} (O : pct_ops P) n p q :
  pct_contract O n -> p_ok O p = true -> p_ok O q = true -> p_leb O p q = true ->
  p_cut O false p n <= p_cut O false q n ->
  exists A B D,
    subset_percent_g O n None (Some p) = Some A /\
    subset_percent_g O n (Some p) (Some q) = Some B /\
    subset_percent_g O n (Some q) None = Some D /\
    A ++ B ++ D = zrange 0 n.
Proof.
  intros (Hz & Ho & Hl & H0 & H1 & Hb) Hp Hq Hle Hm. unfold subset_percent_g. cbn [odflt is_some orb negb].
  rewrite Hp, Hq, Hz, Ho, Hle, (proj1 (Hl p Hp)), (proj2 (Hl q Hq)). cbn [andb negb].
  do 3 eexists. repeat split. rewrite H0, H1. apply three_blocks.
  pose proof (Hb false p Hp). lia. apply Hb; auto.
Qed.

(* an exact instance of the percent operations: percents as fractions a/b (b > 0), the cut is
   floor / ceil of a*n/b.  It meets the contract for every n >= 0 (non-vacuity of the contract,
   and the ideal the binary64 instance approximates). *)
Definition rat_ops : pct_ops (Z * Z) :=
  {| p_zero := (0, 1); p_one := (1, 1);
     p_ok := fun '(a, b) => (0 <? b) && (0 <=? a) && (a <=? b);
     p_leb := fun '(a, b) '(c, d) => a * d <=? c * b;
     p_cut := fun ceil '(a, b) n => if ceil then (a * n + b - 1) / b else a * n / b |}.

(* ------------------------------------------------------------------ *)
(* ShuffleWrapper                                                      *)
(* ------------------------------------------------------------------ *)
Lemma shuffle_perm_l classes draw :
  Permutation draw (zrange 0 (zlen classes)) -> Permutation (shuffle (zlen classes) draw) (all_ids classes).
Proof. auto. Qed.

(* ------------------------------------------------------------------ *)
(* RepeatWrapper                                                       *)
(* ------------------------------------------------------------------ *)
Ltac Zify.zify_post_hook ::= Z.to_euclidean_division_equations.

Lemma zlen_concat_repeat {A} (l : list A) k : zlen (concat (repeat l k)) = Z.of_nat k * zlen l.
Proof. induction k. reflexivity. simpl repeat. simpl concat. rewrite zlen_app, IHk, Nat2Z.inj_succ. ring. Qed.

Lemma repeat_reps_l classes r :
  0 < zlen classes -> 0 < r ->
  repeat_wrapper (zlen classes) (Some r) None = Some (copies classes r).
Proof.
  intros. unfold repeat_wrapper. simpl.
  destruct (Z.leb_spec (zlen classes) 0); [lia|]. destruct (Z.leb_spec r 0); [lia|]. reflexivity.
Qed.

Lemma repeat_min_size_l classes m :
  0 < zlen classes -> 0 < m ->
  let n := zlen classes in
  let k := (m + n - 1) / n in
  repeat_wrapper n None (Some m) = Some (copies classes k) /\
  zlen (copies classes k) = k * n /\ (k - 1) * n < m <= k * n.
Proof.
  intros. unfold repeat_wrapper. simpl. fold n.
  destruct (Z.leb_spec n 0); [lia|]. destruct (Z.leb_spec m 0); [lia|].
  split. reflexivity. split.
  - unfold copies. rewrite zlen_concat_repeat. unfold all_ids. rewrite zlen_zrange. fold n.
    assert (0 <= k) by (unfold k; apply Z.div_pos; lia). nia.
  - unfold k. nia.
Qed.

Lemma copies_nth_l classes : forall k j,
  0 <= j < Z.of_nat k * zlen classes ->
  nth (Z.to_nat j) (concat (repeat (all_ids classes) k)) (-1) = j mod zlen classes.
Proof.
  set (n := zlen classes).
  assert (Hl : length (all_ids classes) = Z.to_nat n) by (unfold all_ids; rewrite zrange_length; f_equal; lia).
  induction k; intros. lia.
  simpl repeat. simpl concat. destruct (Z.ltb_spec j n).
  - rewrite app_nth1 by lia. unfold all_ids. rewrite (nth_indep _ (-1) 0) by (fold (all_ids classes); lia).
    rewrite zrange_nth by (fold (all_ids classes); lia). rewrite Z.mod_small; lia.
  - rewrite app_nth2 by lia. rewrite Hl.
    replace (Z.to_nat j - Z.to_nat n)%nat with (Z.to_nat (j - n)) by lia.
    rewrite IHk by lia. assert (0 < n) by lia.
    replace j with ((j - n) + 1 * n) at 2 by lia. now rewrite Z.mod_add by lia.
Qed.

(* ------------------------------------------------------------------ *)
(* SortByClassWrapper                                                  *)
(* ------------------------------------------------------------------ *)
Definition labels_in (classes : list Z) (C : Z) : Prop := Forall (fun c => 0 <= c < C) classes.

(* i comes before j: smaller class, or same class and smaller id (stable) *)
Definition before (classes : list Z) (i j : Z) : Prop :=
  cls classes i < cls classes j \/ (cls classes i = cls classes j /\ i < j).

Lemma filter_all {A} (f : A -> bool) l : (forall x, In x l -> f x = true) -> filter f l = l.
Proof.
  induction l; intros. reflexivity. simpl. rewrite H by (now left). f_equal. apply IHl. intros. apply H. now right.
Qed.

Lemma filter_none {A} (f : A -> bool) l : (forall x, In x l -> f x = false) -> filter f l = [].
Proof.
  induction l; intros. reflexivity. simpl. rewrite H by (now left). apply IHl. intros. apply H. now right.
Qed.

Lemma filter_split_perm {A} (f g h : A -> bool) l :
  (forall x, f x = g x || h x) -> (forall x, g x && h x = false) ->
  Permutation (filter f l) (filter g l ++ filter h l).
Proof.
  intros Hf Hd. induction l. constructor.
  simpl. rewrite Hf. specialize (Hd a). destruct (g a), (h a); simpl in *; try discriminate.
  - now constructor.
  - now apply Permutation_cons_app.
  - assumption.
Qed.

Lemma labels_in_cls classes C i : labels_in classes C -> 0 <= i < zlen classes -> 0 <= cls classes i < C.
Proof.
  intros H Hi. unfold labels_in in H. rewrite Forall_forall in H. apply H. now apply cls_in.
Qed.

(* unlabeled samples allowed: every label is -1 or a class in [0, C) *)
Definition labels_in_u (classes : list Z) (C : Z) : Prop := Forall (fun c => -1 <= c < C) classes.

Lemma labels_in_u_of classes C : labels_in classes C -> labels_in_u classes C.
Proof. unfold labels_in, labels_in_u. rewrite !Forall_forall. intros H x Hx. specialize (H x Hx). lia. Qed.

Lemma labels_in_u_cls classes C i : labels_in_u classes C -> 0 <= i < zlen classes -> -1 <= cls classes i < C.
Proof.
  intros H Hi. unfold labels_in_u in H. rewrite Forall_forall in H. apply H. now apply cls_in.
Qed.

Lemma labels_in_u_neg classes C : labels_in_u classes C -> C < 0 -> classes = [].
Proof. intros H HC. destruct classes. reflexivity. inversion H. lia. Qed.

Definition blocks (classes : list Z) (k : Z) : list Z := concat (map (fun c => positions c classes) (zrange 0 k)).

Lemma blocks_snoc classes k : 0 <= k -> blocks classes (k + 1) = blocks classes k ++ positions k classes.
Proof.
  intros. unfold blocks. rewrite zrange_snoc by lia. rewrite map_app, concat_app. simpl. now rewrite app_nil_r.
Qed.

Lemma blocks_perm_k classes : forall k : nat,
  Permutation (blocks classes (Z.of_nat k))
              (filter (fun i => (0 <=? cls classes i) && (cls classes i <? Z.of_nat k)) (all_ids classes)).
Proof.
  induction k.
  - unfold blocks. simpl. rewrite filter_none. constructor. intros. lia.
  - rewrite Nat2Z.inj_succ. unfold Z.succ. rewrite blocks_snoc by lia.
    rewrite positions_filter.
    etransitivity. apply Permutation_app_tail. apply IHk.
    symmetry. apply filter_split_perm; intros; lia.
Qed.

Lemma blocks_perm classes C : labels_in classes C -> Permutation (blocks classes C) (all_ids classes).
Proof.
  intros H. destruct (Z.leb_spec 0 C).
  - rewrite <- (Z2Nat.id C) by lia. etransitivity. apply blocks_perm_k.
    rewrite filter_all. reflexivity. intros x Hx. apply In_zrange in Hx.
    pose proof (labels_in_cls classes C x H Hx). lia.
  - destruct classes. unfold blocks. rewrite zrange_nil by lia. constructor.
    inversion H. lia.
Qed.

Lemma sorted_app {A} (R : A -> A -> Prop) l1 l2 :
  StronglySorted R l1 -> StronglySorted R l2 -> (forall x y, In x l1 -> In y l2 -> R x y) ->
  StronglySorted R (l1 ++ l2).
Proof.
  induction 1; intros; simpl. assumption.
  constructor. apply IHStronglySorted; auto. intros. apply H2; simpl; auto.
  apply Forall_forall. intros y Hy. apply in_app_or in Hy. destruct Hy.
  rewrite Forall_forall in H0. auto. apply H2; simpl; auto.
Qed.

Lemma sorted_impl_in {A} (R R' : A -> A -> Prop) l :
  StronglySorted R l -> (forall x y, In x l -> In y l -> R x y -> R' x y) -> StronglySorted R' l.
Proof.
  induction 1; intros. constructor. constructor.
  apply IHStronglySorted. intros. apply H1; simpl; auto.
  apply Forall_forall. intros y Hy. rewrite Forall_forall in H0. apply H1; simpl; auto.
Qed.

Lemma blocks_sorted_k classes : forall k : nat,
  StronglySorted (before classes) (blocks classes (Z.of_nat k)) /\
  forall x, In x (blocks classes (Z.of_nat k)) -> cls classes x < Z.of_nat k.
Proof.
  induction k.
  - unfold blocks. simpl. split. constructor. intros x [].
  - destruct IHk as (IHs & IHc). rewrite Nat2Z.inj_succ. unfold Z.succ. rewrite blocks_snoc by lia. split.
    + apply sorted_app; auto.
      * apply sorted_impl_in with (R := Z.lt). apply positions_sorted.
        intros x y Hx Hy Hlt. apply In_positions in Hx. apply In_positions in Hy. right. lia.
      * intros x y Hx Hy. apply IHc in Hx. apply In_positions in Hy. left. lia.
    + intros x Hx. apply in_app_or in Hx. destruct Hx as [Hx|Hx].
      apply IHc in Hx. lia. apply In_positions in Hx. lia.
Qed.

Lemma In_blocks classes k y : In y (blocks classes k) -> 0 <= cls classes y < k.
Proof.
  unfold blocks. intros H. apply in_concat in H. destruct H as (l & Hl & Hy).
  apply in_map_iff in Hl. destruct Hl as (c & <- & Hc). apply In_zrange in Hc. apply In_positions in Hy. lia.
Qed.

(* range(-1, C): the unlabeled samples, then class 0, 1, ... *)
Lemma sort_by_class_unfold classes C : 0 <= C -> sort_by_class classes C = positions (-1) classes ++ blocks classes C.
Proof. intros. unfold sort_by_class, blocks. rewrite zrange_cons by lia. reflexivity. Qed.

Lemma blocks_u_perm classes C :
  labels_in_u classes C -> Permutation (positions (-1) classes ++ blocks classes C) (all_ids classes).
Proof.
  intros H. destruct (Z.leb_spec 0 C).
  - pose proof (blocks_perm_k classes (Z.to_nat C)) as Hb. rewrite Z2Nat.id in Hb by lia.
    rewrite positions_filter. etransitivity. apply Permutation_app_head, Hb.
    set (f := fun i => (cls classes i =? -1) || ((0 <=? cls classes i) && (cls classes i <? C))).
    assert (E : filter f (all_ids classes) = all_ids classes).
    { apply filter_all. intros x Hx. apply In_zrange in Hx.
      pose proof (labels_in_u_cls classes C x H Hx). unfold f. lia. }
    apply Permutation_trans with (filter f (all_ids classes)); [|now rewrite E].
    symmetry. apply filter_split_perm; intros; unfold f; lia.
  - rewrite (labels_in_u_neg _ _ H) by lia. unfold blocks. rewrite zrange_nil by lia. constructor.
Qed.

Lemma sort_by_class_u_l classes C :
  labels_in_u classes C ->
  Permutation (sort_by_class classes C) (all_ids classes) /\
  StronglySorted (before classes) (sort_by_class classes C).
Proof.
  intros H. destruct (Z.leb_spec 0 C).
  - rewrite sort_by_class_unfold by lia. split. now apply blocks_u_perm.
    apply sorted_app.
    + apply sorted_impl_in with (R := Z.lt). apply positions_sorted.
      intros x y Hx Hy Hlt. apply In_positions in Hx. apply In_positions in Hy. right. lia.
    + pose proof (blocks_sorted_k classes (Z.to_nat C)) as [Hs _]. rewrite Z2Nat.id in Hs by lia. exact Hs.
    + intros x y Hx Hy. apply In_positions in Hx. apply In_blocks in Hy. left. lia.
  - rewrite (labels_in_u_neg _ _ H) by lia. unfold sort_by_class. rewrite zrange_nil by lia. split; constructor.
Qed.

Lemma sort_by_class_l classes C :
  labels_in classes C ->
  Permutation (sort_by_class classes C) (all_ids classes) /\
  StronglySorted (before classes) (sort_by_class classes C).
Proof. intros H. apply sort_by_class_u_l. now apply labels_in_u_of. Qed.

(* a fully labelled dataset: the selection is the concatenation of the class blocks 0 .. C-1 *)
Lemma sort_by_class_labelled classes C : labels_in classes C -> sort_by_class classes C = blocks classes C.
Proof.
  intros H. assert (E : positions (-1) classes = []).
  { rewrite positions_filter. apply filter_none. intros x Hx. apply In_zrange in Hx.
    pose proof (labels_in_cls classes C x H Hx). lia. }
  destruct (Z.leb_spec 0 C).
  - rewrite sort_by_class_unfold by lia. now rewrite E.
  - unfold sort_by_class, blocks. now rewrite !zrange_nil by lia.
Qed.

(* the relation is a strict total order on sample ids, so the sorted permutation is unique:
   sort_by_class is THE stable sort *)
Lemma before_trans classes i j k : before classes i j -> before classes j k -> before classes i k.
Proof. unfold before. lia. Qed.

Lemma before_irrefl classes i : ~ before classes i i.
Proof. unfold before. lia. Qed.

Lemma before_total classes i j : i <> j -> before classes i j \/ before classes j i.
Proof. unfold before. lia. Qed.

(* ------------------------------------------------------------------ *)
(* class counts                                                        *)
(* ------------------------------------------------------------------ *)
Lemma combine_map_self {A B} (f : A -> B) l : combine l (map f l) = map (fun x => (x, f x)) l.
Proof. induction l; simpl. reflexivity. now rewrite IHl. Qed.

Lemma zrange_max0 c : zrange 0 (Z.max 0 c) = zrange 0 c.
Proof. destruct (Z.leb_spec 0 c). now rewrite Z.max_r by lia. rewrite Z.max_l by lia. now rewrite !zrange_nil by lia. Qed.

Definition counts_of (classes : list Z) (C' : Z) : list Z := map (fun c => count_of c classes) (zrange 0 C').
Definition mxc (classes : list Z) (C' : Z) : Z := zmax (counts_of classes C').

Lemma class_counts_some_u classes C :
  labels_in_u classes (n_classes_eff C) -> class_counts classes C = Some (counts_of classes (n_classes_eff C)).
Proof.
  intros H. unfold class_counts. rewrite (proj2 (forallb_forall _ _)). reflexivity.
  unfold labels_in_u in H. rewrite Forall_forall in H. intros x Hx. specialize (H x Hx). lia.
Qed.

Lemma class_counts_some classes C :
  labels_in classes (n_classes_eff C) -> class_counts classes C = Some (counts_of classes (n_classes_eff C)).
Proof. intros H. apply class_counts_some_u. now apply labels_in_u_of. Qed.

(* the assertion of get_class_counts: exactly the labels -1 and 0 .. n_classes-1 are accepted *)
Lemma class_counts_none_iff classes C :
  0 <= C -> (class_counts classes C = None <-> ~ labels_in_u classes (n_classes_eff C)).
Proof.
  intros HC. assert (0 <= n_classes_eff C) by (unfold n_classes_eff; destruct (C =? 1); lia).
  split.
  - intros E H0. rewrite (class_counts_some_u _ _ H0) in E. discriminate.
  - intros H'. unfold class_counts. cbv zeta. destruct (forallb _ classes) eqn:E; [|reflexivity].
    exfalso. apply H'. apply Forall_forall. intros x Hx. rewrite forallb_forall in E. specialize (E x Hx). cbv beta in *. lia.
Qed.

Lemma class_counts_inv classes C counts :
  class_counts classes C = Some counts -> counts = counts_of classes (n_classes_eff C).
Proof. unfold class_counts, counts_of. cbv zeta. destruct (forallb _ _); intros E; inversion E; reflexivity. Qed.

Lemma zmax_ge l x : In x l -> x <= zmax l.
Proof. induction l; simpl; intros. tauto. destruct H. subst. lia. specialize (IHl H). lia. Qed.

Lemma zmax_nonneg l : 0 <= zmax l.
Proof. induction l; simpl; lia. Qed.

Lemma zmax_in l : zmax l = 0 \/ In (zmax l) l.
Proof.
  induction l; simpl. auto. destruct IHl.
  - destruct (Z.max_spec a (zmax l)) as [(?&->)|(?&->)]; auto.
  - destruct (Z.max_spec a (zmax l)) as [(?&->)|(?&->)]; auto.
Qed.

Lemma count_le_mxc classes C' c : 0 <= c < C' -> count_of c classes <= mxc classes C'.
Proof.
  intros. apply zmax_ge. unfold counts_of. apply in_map_iff. exists c. split; auto. now apply In_zrange.
Qed.

Lemma mxc_attained classes C' : 0 < mxc classes C' -> exists c, 0 <= c < C' /\ count_of c classes = mxc classes C'.
Proof.
  intros. destruct (zmax_in (counts_of classes C')) as [E|E]. unfold mxc in H. lia.
  unfold counts_of in E at 2. apply in_map_iff in E. destruct E as (c & E & Hc). apply In_zrange in Hc.
  exists c. split; auto.
Qed.

Lemma mxc_pos classes C' : classes <> [] -> labels_in classes C' -> 0 < mxc classes C'.
Proof.
  intros Hne Hl. destruct classes as [|c r]. congruence.
  inversion Hl; subst. pose proof (count_le_mxc (c :: r) C' c H1).
  assert (0 < count_of c (c :: r)).
  { rewrite count_of_cntf, cntf_cons, Z.eqb_refl. pose proof (cntf_nonneg (Z.eqb c) r). lia. }
  lia.
Qed.

(* ------------------------------------------------------------------ *)
(* counting over a concatenation of per-class blocks                   *)
(* ------------------------------------------------------------------ *)
Lemma cntf_concat_map_zero f (g : Z -> list Z) l :
  (forall c, In c l -> cntf f (g c) = 0) -> cntf f (concat (map g l)) = 0.
Proof.
  induction l; intros. reflexivity. simpl. rewrite cntf_app, H by (now left). rewrite IHl. reflexivity.
  intros. apply H. now right.
Qed.

Lemma cntf_concat_map_single f (g : Z -> list Z) l c0 :
  NoDup l -> In c0 l -> (forall c, In c l -> c <> c0 -> cntf f (g c) = 0) ->
  cntf f (concat (map g l)) = cntf f (g c0).
Proof.
  induction 1; intros Hin Hz. destruct Hin.
  simpl. rewrite cntf_app. destruct Hin.
  - subst. rewrite cntf_concat_map_zero. lia.
    intros c Hc. apply Hz. now right. intro. subst. contradiction.
  - rewrite (Hz x). rewrite IHNoDup; auto. intros. apply Hz; auto. now right.
    now left. intro. subst. contradiction.
Qed.

Lemma cntf_blocks_single f (g : Z -> list Z) C' c0 :
  0 <= c0 < C' -> (forall c, 0 <= c < C' -> c <> c0 -> cntf f (g c) = 0) ->
  cntf f (concat (map g (zrange 0 C'))) = cntf f (g c0).
Proof.
  intros. apply cntf_concat_map_single. apply zrange_nodup. now apply In_zrange.
  intros c Hc. apply In_zrange in Hc. auto.
Qed.

(* ------------------------------------------------------------------ *)
(* OversamplingWrapper                                                 *)
(* ------------------------------------------------------------------ *)
Lemma occ_zrange i a b : occ i (zrange a b) = if (a <=? i) && (i <? b) then 1 else 0.
Proof.
  rewrite occ_nodup by apply zrange_nodup.
  destruct (in_dec Z.eq_dec i (zrange a b)) as [H|H]; rewrite In_zrange in H;
    destruct (Z.leb_spec a i), (Z.ltb_spec i b); simpl; lia.
Qed.

Lemma ids_of_counts classes C' : zrange 0 (zlen (counts_of classes C')) = zrange 0 C'.
Proof.
  unfold counts_of, zlen. rewrite map_length, zrange_length.
  replace (Z.of_nat (Z.to_nat (C' - 0))) with (Z.max 0 C') by lia. apply zrange_max0.
Qed.

Definition mult_blocks (classes : list Z) (C' : Z) : list Z :=
  concat (map (fun c => multiply_block classes (mxc classes C') c (count_of c classes)) (zrange 0 C')).

Lemma oversample_multiply_eq classes C counts :
  class_counts classes C = Some counts ->
  oversample false classes C = Some (all_ids classes ++ mult_blocks classes (n_classes_eff C)).
Proof.
  intros H. unfold oversample. rewrite H. apply class_counts_inv in H. subst counts.
  cbv zeta. rewrite ids_of_counts. unfold counts_of at 2. rewrite combine_map_self, map_map. reflexivity.
Qed.

Lemma oversample_some_counts ex classes C out :
  oversample ex classes C = Some out -> exists counts, class_counts classes C = Some counts.
Proof. unfold oversample. destruct (class_counts classes C). eauto. discriminate. Qed.

Lemma occ_multiply_block classes mx i c :
  occ i (multiply_block classes mx c (count_of c classes)) =
  if (0 <=? i) && (i <? zlen classes) && (cls classes i =? c)
  then Z.max 0 (mx / count_of c classes - 1) else 0.
Proof.
  unfold multiply_block. destruct (Z.eqb_spec (count_of c classes) 0).
  - rewrite e, Zdiv_0_r. destruct (_ && _); reflexivity.
  - destruct (Z.ltb_spec 0 (mx / count_of c classes - 1)).
    + rewrite occ_cntf, cntf_concat_repeat, <- occ_cntf, occ_positions. destruct (_ && _); lia.
    + destruct (_ && _); rewrite occ_cntf, cntf_nil; lia.
Qed.

Lemma class_occ_multiply_block classes mx c c' :
  class_occ classes c (multiply_block classes mx c' (count_of c' classes)) =
  if c =? c' then count_of c classes * Z.max 0 (mx / count_of c classes - 1) else 0.
Proof.
  unfold multiply_block. destruct (Z.eqb_spec (count_of c' classes) 0).
  - rewrite class_occ_cntf, cntf_nil. destruct (Z.eqb_spec c c'); subst; lia.
  - destruct (Z.ltb_spec 0 (mx / count_of c' classes - 1)).
    + rewrite class_occ_cntf, cntf_concat_repeat, <- class_occ_cntf, class_occ_positions.
      destruct (Z.eqb_spec c c'); subst; lia.
    + rewrite class_occ_cntf, cntf_nil. destruct (Z.eqb_spec c c'); subst; lia.
Qed.

Lemma oversample_multiply_occ classes C out i :
  oversample false classes C = Some out ->
  0 <= i < zlen classes -> 0 <= cls classes i < n_classes_eff C ->
  occ i out = mxc classes (n_classes_eff C) / count_of (cls classes i) classes.
Proof.
  intros H Hi Hc. destruct (oversample_some_counts _ _ _ _ H) as (counts & Hcc).
  rewrite (oversample_multiply_eq _ _ _ Hcc) in H. inversion H; subst out; clear H.
  rewrite occ_cntf, cntf_app, <- !occ_cntf. unfold all_ids at 1. rewrite occ_zrange.
  unfold mult_blocks. rewrite occ_cntf, (cntf_blocks_single _ _ _ (cls classes i)), <- occ_cntf; auto.
  - rewrite occ_multiply_block.
    pose proof (count_of_cls_pos classes i Hi). pose proof (count_le_mxc classes _ _ Hc).
    rewrite Z.eqb_refl. destruct (Z.leb_spec 0 i), (Z.ltb_spec i (zlen classes)); cbn [andb]; lia.
  - intros c Hcr Hne. rewrite <- occ_cntf, occ_multiply_block.
    destruct (Z.eqb_spec (cls classes i) c). congruence. now rewrite andb_false_r.
Qed.

Lemma oversample_multiply_class_occ classes C out c :
  oversample false classes C = Some out -> 0 <= c < n_classes_eff C -> 0 < count_of c classes ->
  let mx := mxc classes (n_classes_eff C) in
  class_occ classes c out = count_of c classes * (mx / count_of c classes) /\
  mx < 2 * class_occ classes c out /\ class_occ classes c out <= mx.
Proof.
  intros H Hc Hpos mx. destruct (oversample_some_counts _ _ _ _ H) as (counts & Hcc).
  rewrite (oversample_multiply_eq _ _ _ Hcc) in H. inversion H; subst out; clear H.
  pose proof (count_le_mxc classes _ _ Hc). fold mx in H.
  assert (E : class_occ classes c (all_ids classes ++ mult_blocks classes (n_classes_eff C))
              = count_of c classes * (mx / count_of c classes)).
  { rewrite class_occ_cntf, cntf_app, <- !class_occ_cntf, class_occ_all_ids.
    unfold mult_blocks. rewrite class_occ_cntf, (cntf_blocks_single _ _ _ c), <- class_occ_cntf; auto.
    - rewrite class_occ_multiply_block, Z.eqb_refl. fold mx.
      assert (1 <= mx / count_of c classes) by (apply Z.div_le_lower_bound; lia). nia.
    - intros c' Hcr Hne. rewrite <- class_occ_cntf, class_occ_multiply_block.
      destruct (Z.eqb_spec c c'); congruence. }
  rewrite E. split. reflexivity.
  assert (1 <= mx / count_of c classes) by (apply Z.div_le_lower_bound; lia).
  pose proof (Z.div_mod mx (count_of c classes)). pose proof (Z.mod_pos_bound mx (count_of c classes) Hpos).
  assert (count_of c classes <= count_of c classes * (mx / count_of c classes)) by nia. lia.
Qed.

Lemma oversample_multiply_absent classes C out c :
  oversample false classes C = Some out -> count_of c classes = 0 -> class_occ classes c out = 0.
Proof.
  intros H Hz. destruct (oversample_some_counts _ _ _ _ H) as (counts & Hcc).
  rewrite (oversample_multiply_eq _ _ _ Hcc) in H. inversion H; subst out; clear H.
  rewrite class_occ_cntf, cntf_app, <- !class_occ_cntf, class_occ_all_ids, Hz.
  unfold mult_blocks. rewrite class_occ_cntf, cntf_concat_map_zero. reflexivity.
  intros c' _. rewrite <- class_occ_cntf, class_occ_multiply_block. destruct (c =? c'); lia.
Qed.

Lemma oversample_multiply_prefix classes C out :
  oversample false classes C = Some out -> exists extra, out = all_ids classes ++ extra.
Proof.
  intros H. destruct (oversample_some_counts _ _ _ _ H) as (counts & Hcc).
  rewrite (oversample_multiply_eq _ _ _ Hcc) in H. inversion H. eauto.
Qed.

(* ---- mode = "exact" ---- *)
Lemma zlen_firstn {A} k (l : list A) : zlen (firstn k l) = Z.min (Z.of_nat k) (zlen l).
Proof. unfold zlen. rewrite firstn_length. lia. Qed.

Lemma exact_loop_spec idxs : 0 < zlen idxs -> forall fuel R, 0 <= R < Z.of_nat fuel ->
  exact_loop fuel idxs R
  = Some (concat (repeat idxs (Z.to_nat (R / zlen idxs))) ++ firstn (Z.to_nat (R mod zlen idxs)) idxs).
Proof.
  intros HL. induction fuel; intros R HR. lia.
  cbn [exact_loop]. destruct (Z.leb_spec R 0).
  - assert (R = 0) by lia. subst. rewrite Z.div_0_l, Z.mod_0_l by lia. reflexivity.
  - destruct (Z.ltb_spec R (zlen idxs)).
    + rewrite zlen_firstn. replace (R - Z.min (Z.of_nat (Z.to_nat R)) (zlen idxs)) with 0 by lia.
      rewrite IHfuel by lia. rewrite Z.div_0_l, Z.mod_0_l by lia.
      rewrite Z.div_small, Z.mod_small by lia. simpl. now rewrite app_nil_r.
    + rewrite firstn_all2 by (unfold zlen in *; lia).
      assert (E1 : R / zlen idxs = (R - zlen idxs) / zlen idxs + 1)
        by (rewrite <- Z.div_add by lia; f_equal; lia).
      assert (E2 : R mod zlen idxs = (R - zlen idxs) mod zlen idxs)
        by (rewrite <- (Z.mod_add (R - zlen idxs) 1 (zlen idxs)) by lia; f_equal; lia).
      rewrite IHfuel by lia. rewrite E1, E2.
      assert (0 <= (R - zlen idxs) / zlen idxs) by (apply Z.div_pos; lia).
      replace (Z.to_nat ((R - zlen idxs) / zlen idxs + 1)) with (S (Z.to_nat ((R - zlen idxs) / zlen idxs))) by lia.
      simpl. now rewrite app_assoc.
Qed.

(* why the guard for absent classes is needed: without it the loop of an absent class
   makes no progress, whatever the fuel *)
Lemma exact_loop_empty_diverges : forall fuel R, 0 < R -> exact_loop fuel [] R = None.
Proof.
  induction fuel; intros. reflexivity.
  cbn [exact_loop]. destruct (Z.leb_spec R 0). lia.
  rewrite firstn_nil. replace (R - zlen (@nil Z)) with R by (unfold zlen; simpl; lia).
  now rewrite IHfuel.
Qed.

Definition exact_block_val (classes : list Z) (mx c : Z) : list Z :=
  let pos := positions c classes in
  let cnt := count_of c classes in
  if cnt =? 0 then []
  else concat (repeat pos (Z.to_nat (mx / cnt))) ++ firstn (Z.to_nat (mx mod cnt)) pos.

Lemma exact_block_eq classes mx c :
  0 <= mx -> exact_block classes mx c (count_of c classes) = Some (exact_block_val classes mx c).
Proof.
  intros. unfold exact_block, exact_block_val. cbv zeta.
  destruct (Z.eqb_spec (count_of c classes) 0). reflexivity.
  pose proof (count_of_nonneg c classes).
  rewrite exact_loop_spec; rewrite ?zlen_positions; try lia. reflexivity.
Qed.

Lemma concat_opt_map_some {A} (g : Z -> option (list A)) (h : Z -> list A) l :
  (forall c, In c l -> g c = Some (h c)) -> concat_opt (map g l) = Some (concat (map h l)).
Proof.
  induction l; intros. reflexivity.
  simpl. rewrite H by (now left). rewrite IHl. reflexivity. intros. apply H. now right.
Qed.

Lemma oversample_exact_eq classes C counts :
  class_counts classes C = Some counts ->
  oversample true classes C =
  Some (concat (map (exact_block_val classes (mxc classes (n_classes_eff C))) (zrange 0 (n_classes_eff C)))
        ++ positions (-1) classes).
Proof.
  intros H. unfold oversample. rewrite H. apply class_counts_inv in H. subst counts.
  cbv zeta. fold (mxc classes (n_classes_eff C)).
  rewrite ids_of_counts. unfold counts_of. rewrite combine_map_self, map_map.
  erewrite concat_opt_map_some. reflexivity.
  intros. apply exact_block_eq. apply zmax_nonneg.
Qed.

(* the constructor returns whenever get_class_counts accepts the labels (absent classes,
   unlabeled samples, even no labelled sample at all) *)
Lemma exact_terminates_l classes C counts :
  class_counts classes C = Some counts -> exists out, oversample true classes C = Some out.
Proof. intros H. rewrite (oversample_exact_eq _ _ _ H). eauto. Qed.

Lemma oversample_none_iff ex classes C :
  0 <= C -> (oversample ex classes C = None <-> ~ labels_in_u classes (n_classes_eff C)).
Proof.
  intros HC. rewrite <- class_counts_none_iff by assumption. destruct (class_counts classes C) as [counts|] eqn:E.
  - destruct ex. rewrite (oversample_exact_eq _ _ _ E). split; discriminate.
    rewrite (oversample_multiply_eq _ _ _ E). split; discriminate.
  - unfold oversample. rewrite E. tauto.
Qed.

Lemma exact_succeeds_l classes C :
  labels_in_u classes (n_classes_eff C) -> exists out, oversample true classes C = Some out.
Proof. intros Hl. exact (exact_terminates_l _ _ _ (class_counts_some_u classes C Hl)). Qed.

Lemma In_exact_block_val classes mx c x : In x (exact_block_val classes mx c) -> In x (positions c classes).
Proof.
  unfold exact_block_val. cbv zeta. destruct (_ =? 0). intros [].
  intros H. apply in_app_or in H. destruct H as [H|H].
  - apply in_concat in H. destruct H as (l & Hl & Hx). apply repeat_spec in Hl. now subst.
  - rewrite <- (firstn_skipn (Z.to_nat (mx mod count_of c classes)) (positions c classes)).
    apply in_or_app. now left.
Qed.

Lemma zlen_exact_block_val classes mx c :
  0 <= mx -> 0 < count_of c classes -> zlen (exact_block_val classes mx c) = mx.
Proof.
  intros. unfold exact_block_val. cbv zeta. destruct (Z.eqb_spec (count_of c classes) 0). lia.
  rewrite zlen_app, zlen_concat_repeat, zlen_firstn, zlen_positions.
  assert (0 <= mx / count_of c classes) by (apply Z.div_pos; lia).
  pose proof (Z.mod_pos_bound mx (count_of c classes) H0).
  pose proof (Z.div_mod mx (count_of c classes)). nia.
Qed.

Lemma class_occ_exact_block_val classes mx c c' :
  0 <= mx ->
  class_occ classes c (exact_block_val classes mx c') =
  if (c =? c') && negb (count_of c classes =? 0) then mx else 0.
Proof.
  intros. rewrite class_occ_cntf. destruct (Z.eqb_spec c c').
  - subst c'. destruct (Z.eqb_spec (count_of c classes) 0); simpl.
    + unfold exact_block_val. cbv zeta. rewrite e, Z.eqb_refl. reflexivity.
    + rewrite cntf_all. apply zlen_exact_block_val; auto. pose proof (count_of_nonneg c classes). lia.
      intros x Hx. apply In_exact_block_val, In_positions in Hx. lia.
  - simpl. apply cntf_none. intros x Hx. apply In_exact_block_val, In_positions in Hx. lia.
Qed.

Lemma occ_exact_block_val_other classes mx c i : cls classes i <> c -> occ i (exact_block_val classes mx c) = 0.
Proof.
  intros. rewrite occ_cntf. apply cntf_none. intros x Hx. apply In_exact_block_val, In_positions in Hx.
  destruct (Z.eqb_spec i x); auto. subst. lia.
Qed.

Lemma occ_exact_block_val_own classes mx i :
  0 <= mx -> 0 <= i < zlen classes ->
  let q := mx / count_of (cls classes i) classes in
  q <= occ i (exact_block_val classes mx (cls classes i)) <= q + 1.
Proof.
  intros Hmx Hi q. pose proof (count_of_cls_pos classes i Hi).
  unfold exact_block_val. cbv zeta. destruct (Z.eqb_spec (count_of (cls classes i) classes) 0). lia.
  rewrite occ_cntf, cntf_app, cntf_concat_repeat.
  assert (E : cntf (Z.eqb i) (positions (cls classes i) classes) = 1).
  { rewrite <- occ_cntf, occ_positions, Z.eqb_refl.
    destruct (Z.leb_spec 0 i), (Z.ltb_spec i (zlen classes)); simpl; lia. }
  rewrite E.
  pose proof (cntf_firstn_le (Z.eqb i) (Z.to_nat (mx mod count_of (cls classes i) classes)) (positions (cls classes i) classes)).
  pose proof (cntf_nonneg (Z.eqb i) (firstn (Z.to_nat (mx mod count_of (cls classes i) classes)) (positions (cls classes i) classes))).
  assert (0 <= q) by (apply Z.div_pos; lia). fold q. lia.
Qed.

Lemma oversample_exact_class_occ classes C out c :
  oversample true classes C = Some out -> 0 <= c < n_classes_eff C ->
  class_occ classes c out = if count_of c classes =? 0 then 0 else mxc classes (n_classes_eff C).
Proof.
  intros H Hc. destruct (oversample_some_counts _ _ _ _ H) as (counts & Hcc).
  rewrite (oversample_exact_eq _ _ _ Hcc) in H.
  inversion H; subst out; clear H.
  rewrite class_occ_cntf, cntf_app, <- (class_occ_cntf classes c (positions _ _)), class_occ_positions.
  destruct (Z.eqb_spec c (-1)). lia. rewrite Z.add_0_r.
  rewrite (cntf_blocks_single _ _ _ c), <- class_occ_cntf; auto.
  - rewrite class_occ_exact_block_val by apply zmax_nonneg. rewrite Z.eqb_refl.
    destruct (count_of c classes =? 0); reflexivity.
  - intros c' Hcr Hne. rewrite <- class_occ_cntf, class_occ_exact_block_val by apply zmax_nonneg.
    destruct (Z.eqb_spec c c'). congruence. reflexivity.
Qed.

Lemma oversample_exact_occ classes C out i :
  oversample true classes C = Some out ->
  0 <= i < zlen classes -> 0 <= cls classes i < n_classes_eff C ->
  let q := mxc classes (n_classes_eff C) / count_of (cls classes i) classes in
  1 <= q /\ q <= occ i out <= q + 1.
Proof.
  intros H Hi Hc q. destruct (oversample_some_counts _ _ _ _ H) as (counts & Hcc).
  rewrite (oversample_exact_eq _ _ _ Hcc) in H.
  inversion H; subst out; clear H.
  pose proof (count_of_cls_pos classes i Hi). pose proof (count_le_mxc classes _ _ Hc).
  split. apply Z.div_le_lower_bound; lia.
  rewrite occ_cntf, cntf_app, <- (occ_cntf i (positions _ _)), occ_positions.
  destruct (Z.eqb_spec (cls classes i) (-1)). lia. rewrite andb_false_r, Z.add_0_r.
  rewrite (cntf_blocks_single _ _ _ (cls classes i)), <- occ_cntf; auto.
  - apply occ_exact_block_val_own; auto. apply zmax_nonneg.
  - intros c Hcr Hne. rewrite <- occ_cntf. apply occ_exact_block_val_other. congruence.
Qed.

(* ------------------------------------------------------------------ *)
(* IntraClassShuffleWrapper                                            *)
(* ------------------------------------------------------------------ *)
(* generator contract: rng.permutation(x) is a permutation of x; one call per class 0..C-1, then
   one for the unlabeled samples *)
Definition intra_draws_ok (classes : list Z) (C : Z) (draws : list (list Z)) : Prop :=
  Forall2 (fun c d => Permutation d (positions c classes)) (zrange 0 C ++ [-1]) draws.

Lemma length_set_nth {A} k (y : A) l : length (set_nth k y l) = length l.
Proof. revert k. induction l; intros; destruct k; simpl; auto. Qed.

Lemma nth_set_nth_eq {A} k (y d : A) l : (k < length l)%nat -> nth k (set_nth k y l) d = y.
Proof. revert k. induction l; intros; destruct k; simpl in *; try lia; auto. apply IHl. lia. Qed.

Lemma nth_set_nth_neq {A} k j (y d : A) l : k <> j -> nth k (set_nth j y l) d = nth k l d.
Proof. revert k j. induction l; intros; destruct k, j; simpl; auto; try congruence. Qed.

Lemma concat_set_nth_perm {A} (perms : list (list A)) : forall j x rest,
  nth_error perms j = Some (x :: rest) -> Permutation (x :: concat (set_nth j rest perms)) (concat perms).
Proof.
  induction perms; intros; destruct j; simpl in *; try discriminate.
  - inversion H. subst. reflexivity.
  - etransitivity. apply Permutation_middle. apply Permutation_app_head. now apply IHperms.
Qed.

Lemma concat_all_nil {A} (l : list (list A)) : (forall k, (k < length l)%nat -> nth k l [] = []) -> concat l = [].
Proof.
  induction l; intros. reflexivity.
  pose proof (H 0%nat ltac:(simpl; lia)) as E. simpl in E. subst a.
  simpl. apply IHl. intros. apply (H (S k)). simpl. lia.
Qed.

Lemma nth_error_nth_some {A} (l : list A) k d : (k < length l)%nat -> nth_error l k = Some (nth k l d).
Proof. revert k. induction l; intros; destruct k; simpl in *; try lia; auto. apply IHl. lia. Qed.

Lemma count_of_cons c x r : count_of c (x :: r) = (if c =? x then 1 else 0) + count_of c r.
Proof. rewrite !count_of_cntf. apply cntf_cons. Qed.

Lemma intra_go_ok (Q : Z -> Z -> Prop) : forall r perms,
  (forall c, In c r -> 0 <= c < zlen perms) ->
  (forall k, (k < length perms)%nat -> zlen (nth k perms []) = count_of (Z.of_nat k) r) ->
  (forall k x, In x (nth k perms []) -> Q (Z.of_nat k) x) ->
  exists out, intra_go r perms = Some out /\ Permutation out (concat perms) /\ Forall2 (fun o c => Q c o) out r.
Proof.
  induction r as [|c r IH]; intros perms Hr Hlen HQ.
  - exists []. split. reflexivity. split; [|constructor].
    rewrite concat_all_nil. constructor. intros k Hk. specialize (Hlen k Hk).
    destruct (nth k perms []). reflexivity. rewrite zlen_cons in Hlen. pose proof (zlen_nonneg l).
    exfalso. change (count_of (Z.of_nat k) []) with 0 in Hlen. lia.
  - assert (Hc : 0 <= c < zlen perms) by (apply Hr; now left).
    assert (Hk : (Z.to_nat c < length perms)%nat) by (unfold zlen in Hc; lia).
    cbn [intra_go]. destruct (Z.ltb_spec c 0). lia.
    rewrite (nth_error_nth_some perms (Z.to_nat c) [] Hk).
    pose proof (Hlen _ Hk) as Hl. rewrite Z2Nat.id in Hl by lia. rewrite count_of_cons, Z.eqb_refl in Hl.
    pose proof (count_of_nonneg c r).
    destruct (nth (Z.to_nat c) perms []) as [|x rest] eqn:Ep.
    { change (zlen (@nil Z)) with 0 in Hl. lia. }
    rewrite zlen_cons in Hl.
    destruct (IH (set_nth (Z.to_nat c) rest perms)) as (out & Ho & Hp & Hf).
    + intros c' Hc'. unfold zlen. rewrite length_set_nth. apply Hr. now right.
    + intros k Hk'. rewrite length_set_nth in Hk'. destruct (Nat.eq_dec k (Z.to_nat c)).
      * subst k. rewrite nth_set_nth_eq by auto. rewrite Z2Nat.id by lia. lia.
      * rewrite nth_set_nth_neq by auto. rewrite (Hlen k Hk'), count_of_cons.
        destruct (Z.eqb_spec (Z.of_nat k) c); lia.
    + intros k y Hy. apply HQ. destruct (Nat.eq_dec k (Z.to_nat c)).
      * subst k. rewrite nth_set_nth_eq in Hy by auto. rewrite Ep. now right.
      * now rewrite nth_set_nth_neq in Hy by auto.
    + rewrite Ho. exists (x :: out). split. reflexivity. split.
      * etransitivity. apply perm_skip, Hp. apply concat_set_nth_perm.
        rewrite (nth_error_nth_some perms (Z.to_nat c) [] Hk). now rewrite Ep.
      * constructor; auto. rewrite <- (Z2Nat.id c) by lia. apply HQ. rewrite Ep. now left.
Qed.

Lemma Forall2_nth {A B} (R : A -> B -> Prop) l1 l2 d1 d2 :
  Forall2 R l1 l2 -> forall k, (k < length l1)%nat -> R (nth k l1 d1) (nth k l2 d2).
Proof. induction 1; intros k Hk; destruct k; simpl in *; try lia; auto. apply IHForall2. lia. Qed.

Lemma Forall2_length {A B} (R : A -> B -> Prop) l1 l2 : Forall2 R l1 l2 -> length l1 = length l2.
Proof. induction 1; simpl; auto. Qed.

Lemma Forall2_perm_concat (g : Z -> list Z) l ds :
  Forall2 (fun c d => Permutation d (g c)) l ds -> Permutation (concat ds) (concat (map g l)).
Proof. induction 1; simpl. constructor. now apply Permutation_app. Qed.

Lemma Forall2_map_eq {A B} (f : A -> B) out l : Forall2 (fun o c => f o = c) out l -> map f out = l.
Proof. induction 1; simpl; congruence. Qed.

Lemma Forall2_map_r {A B D} (R : A -> D -> Prop) (f : B -> D) l1 l2 :
  Forall2 R l1 (map f l2) -> Forall2 (fun a b => R a (f b)) l1 l2.
Proof. revert l1. induction l2; intros l1 H; inversion H; subst; constructor; auto. Qed.

Lemma Forall2_impl_in {A B} (R R' : A -> B -> Prop) l1 l2 :
  Forall2 R l1 l2 -> (forall x y, In x l1 -> In y l2 -> R x y -> R' x y) -> Forall2 R' l1 l2.
Proof.
  induction 1; intros HI; constructor. apply HI; simpl; auto.
  apply IHForall2. intros. apply HI; simpl; auto.
Qed.

(* the dict keys 0 .. C-1, -1 and their positions 0 .. C *)
Lemma slot_inj C a b : 0 <= C -> -1 <= a < C -> -1 <= b < C -> slot C a = slot C b -> a = b.
Proof.
  unfold slot. intros.
  destruct (Z.eqb_spec a (-1)), (Z.eqb_spec b (-1)), (Z.leb_spec 0 a), (Z.ltb_spec a C),
    (Z.leb_spec 0 b), (Z.ltb_spec b C); simpl in *; lia.
Qed.

Lemma slot_range C c : 0 <= C -> -1 <= c < C -> 0 <= slot C c <= C.
Proof.
  unfold slot. intros. destruct (Z.eqb_spec c (-1)), (Z.leb_spec 0 c), (Z.ltb_spec c C); simpl; lia.
Qed.

Lemma slot_key C k : 0 <= C -> 0 <= k <= C -> slot C (if k =? C then -1 else k) = k.
Proof.
  unfold slot. intros. destruct (Z.eqb_spec k C). simpl. lia.
  destruct (Z.eqb_spec k (-1)), (Z.leb_spec 0 k), (Z.ltb_spec k C); simpl; lia.
Qed.

Lemma slot_valid C c : 0 <= C -> -1 <= c < C -> slot C c = if c =? -1 then C else c.
Proof.
  unfold slot. intros. destruct (Z.eqb_spec c (-1)). lia.
  destruct (Z.leb_spec 0 c), (Z.ltb_spec c C); cbn [andb]; lia.
Qed.

Lemma count_of_map_slot classes C k : 0 <= C -> labels_in_u classes C -> 0 <= k <= C ->
  count_of k (map (slot C) classes) = count_of (if k =? C then -1 else k) classes.
Proof.
  intros HC Hl Hk. induction classes as [|c r IH]. reflexivity.
  assert (Hc : -1 <= c < C) by (inversion Hl; assumption).
  assert (Hr : labels_in_u r C) by (inversion Hl; assumption).
  cbn [map]. rewrite !count_of_cons, (IH Hr), (slot_valid C c HC Hc). f_equal.
  destruct (Z.eqb_spec c (-1)), (Z.eqb_spec k C);
    repeat match goal with |- context [?a =? ?b] => destruct (Z.eqb_spec a b) end; lia.
Qed.

Lemma nth_keys C k : 0 <= C -> (k <= Z.to_nat C)%nat ->
  nth k (zrange 0 C ++ [-1]) 0 = if Z.of_nat k =? C then -1 else Z.of_nat k.
Proof.
  intros HC Hk. destruct (Z.eqb_spec (Z.of_nat k) C).
  - rewrite app_nth2 by (rewrite zrange_length; lia). rewrite zrange_length.
    replace (k - Z.to_nat (C - 0))%nat with 0%nat by lia. reflexivity.
  - rewrite app_nth1 by (rewrite zrange_length; lia). rewrite zrange_nth by (rewrite zrange_length; lia). lia.
Qed.

Lemma intra_class_l classes C draws :
  labels_in_u classes C -> intra_draws_ok classes C draws ->
  exists out, intra_class_shuffle classes C draws = Some out /\
              Permutation out (all_ids classes) /\ map (cls classes) out = classes.
Proof.
  intros Hl Hd. destruct (Z.ltb_spec C 0) as [HC|HC].
  { (* no class, hence no sample *)
    rewrite (labels_in_u_neg _ _ Hl HC) in *. unfold intra_draws_ok in Hd. rewrite zrange_nil in Hd by lia.
    simpl in Hd. inversion Hd as [|? d ? ds Hp Hr]; subst. inversion Hr; subst.
    unfold intra_class_shuffle. replace (Z.to_nat C) with 0%nat by lia. simpl. exists [].
    split. reflexivity. split. apply Permutation_refl. reflexivity. }
  unfold intra_class_shuffle.
  pose proof (Forall2_length _ _ _ Hd) as Hlen. rewrite app_length, zrange_length in Hlen. simpl in Hlen.
  assert (Hlen' : length draws = S (Z.to_nat C)) by lia.
  rewrite Hlen', Nat.eqb_refl. cbn [negb].
  assert (Hkey : forall k, (k < length draws)%nat ->
            Permutation (nth k draws []) (positions (if Z.of_nat k =? C then -1 else Z.of_nat k) classes)).
  { intros k Hk. pose proof (Forall2_nth _ _ _ 0 [] Hd k) as Hn. rewrite app_length, zrange_length in Hn. simpl in Hn.
    specialize (Hn ltac:(lia)). cbv beta in Hn. rewrite nth_keys in Hn by lia. exact Hn. }
  destruct (intra_go_ok (fun c o => slot C (cls classes o) = c) (map (slot C) classes) draws) as (out & Ho & Hp & Hf).
  - intros c Hc. apply in_map_iff in Hc. destruct Hc as (c0 & <- & Hc0).
    unfold labels_in_u in Hl. rewrite Forall_forall in Hl. specialize (Hl c0 Hc0).
    pose proof (slot_range C c0 HC Hl). unfold zlen. lia.
  - intros k Hk. rewrite count_of_map_slot by (auto; lia).
    pose proof (Hkey k Hk) as Hn. apply Permutation_length in Hn. unfold zlen. rewrite Hn, length_positions.
    pose proof (count_of_nonneg (if Z.of_nat k =? C then -1 else Z.of_nat k) classes). lia.
  - intros k x Hx. destruct (Nat.lt_ge_cases k (length draws)).
    + eapply Permutation_in in Hx; [|apply Hkey; auto]. apply In_positions in Hx. destruct Hx as (_ & ->).
      apply slot_key; lia.
    + rewrite nth_overflow in Hx by lia. destruct Hx.
  - exists out. split. assumption.
    assert (Hperm : Permutation out (all_ids classes)).
    { etransitivity. apply Hp. etransitivity. apply Forall2_perm_concat, Hd.
      rewrite map_app, concat_app. simpl. rewrite app_nil_r. fold (blocks classes C).
      etransitivity. apply Permutation_app_comm. now apply blocks_u_perm. }
    split. assumption.
    apply Forall2_map_eq. apply Forall2_map_r in Hf. eapply Forall2_impl_in. exact Hf.
    cbv beta. intros o c Ho' Hc' E. apply (slot_inj C); auto.
    + apply labels_in_u_cls; auto. eapply Permutation_in in Ho'; [|exact Hperm]. now apply In_zrange in Ho'.
    + unfold labels_in_u in Hl. rewrite Forall_forall in Hl. auto.
Qed.

(* ------------------------------------------------------------------ *)
(* FewshotWrapper                                                      *)
(* ------------------------------------------------------------------ *)
Definition fewshot_nc (classes : list Z) : Z := zmax (map (fun c => c + 1) classes).

(* generator contract: rng.permutation(k) is a permutation of 0..k-1, one call per class 0..max *)
Definition fewshot_draws_ok (classes : list Z) (draws : list (list Z)) : Prop :=
  Forall2 (fun c d => Permutation d (zrange 0 (count_of c classes))) (zrange 0 (fewshot_nc classes)) draws.

Definition fewshot_block (classes : list Z) (shots : Z) (c : Z) (perm : list Z) : list Z :=
  map (fun j => nth (Z.to_nat j) (positions c classes) 0) (firstn (Z.to_nat shots) perm).

Lemma nodup_firstn {A} k (l : list A) : NoDup l -> NoDup (firstn k l).
Proof.
  revert k. induction l; intros; destruct k; simpl; try constructor.
  - inversion H; subst. intro Hin. apply H2.
    rewrite <- (firstn_skipn k l). apply in_or_app. now left.
  - inversion H; auto.
Qed.

Lemma In_firstn {A} k (l : list A) x : In x (firstn k l) -> In x l.
Proof. intros. rewrite <- (firstn_skipn k l). apply in_or_app. now left. Qed.

Lemma nodup_map_in {A B} (f : A -> B) l :
  NoDup l -> (forall x y, In x l -> In y l -> f x = f y -> x = y) -> NoDup (map f l).
Proof.
  induction 1; intros; simpl; constructor.
  - intro Hin. apply in_map_iff in Hin. destruct Hin as (y & E & Hy).
    assert (y = x) by (apply H1; simpl; auto). subst. contradiction.
  - apply IHNoDup. intros. apply H1; simpl; auto.
Qed.

Lemma nodup_app {A} (a b : list A) : NoDup a -> NoDup b -> (forall x, In x a -> ~ In x b) -> NoDup (a ++ b).
Proof.
  induction 1; intros; simpl. assumption.
  constructor. intro Hin. apply in_app_or in Hin. destruct Hin. contradiction. apply (H2 x); simpl; auto.
  apply IHNoDup; auto. intros. apply H2. now right.
Qed.

Lemma fewshot_block_ok classes shots c perm :
  0 <= shots -> Permutation perm (zrange 0 (count_of c classes)) ->
  let b := fewshot_block classes shots c perm in
  zlen b = Z.min shots (count_of c classes) /\ NoDup b /\ (forall x, In x b -> In x (positions c classes)).
Proof.
  intros Hs Hp b. pose proof (count_of_nonneg c classes) as Hcn.
  assert (Hin : forall j, In j perm -> (Z.to_nat j < length (positions c classes))%nat /\ 0 <= j).
  { intros j Hj. eapply Permutation_in in Hj; eauto. apply In_zrange in Hj. rewrite length_positions. lia. }
  split; [|split].
  - unfold b, fewshot_block, zlen. rewrite map_length, firstn_length.
    apply Permutation_length in Hp. rewrite Hp, zrange_length. lia.
  - apply nodup_map_in.
    + apply nodup_firstn. eapply Permutation_NoDup. symmetry; eauto. apply zrange_nodup.
    + intros x y Hx Hy E. apply In_firstn, Hin in Hx. apply In_firstn, Hin in Hy.
      apply (proj1 (NoDup_nth (positions c classes) 0)) in E; try tauto. lia. apply positions_nodup.
  - intros x Hx. apply in_map_iff in Hx. destruct Hx as (j & <- & Hj). apply In_firstn, Hin in Hj.
    apply nth_In. tauto.
Qed.

Lemma fewshot_blocks_eq classes shots draws :
  classes <> [] -> length draws = Z.to_nat (fewshot_nc classes) ->
  fewshot classes shots draws
  = Some (concat (map (fun '(c, perm) => fewshot_block classes shots c perm)
                      (combine (zrange 0 (fewshot_nc classes)) draws))).
Proof.
  intros Hne Hlen. unfold fewshot. destruct classes. congruence.
  fold (fewshot_nc (z :: classes)). rewrite Hlen, Nat.eqb_refl. reflexivity.
Qed.

(* per-class blocks given as a Forall2 over the class list *)
Definition block_of (classes : list Z) (g : Z -> Z) (c : Z) (b : list Z) : Prop :=
  zlen b = g c /\ NoDup b /\ (forall x, In x b -> In x (positions c classes)).

Lemma blocks_class_occ classes g l bs :
  Forall2 (block_of classes g) l bs -> NoDup l ->
  forall c0, class_occ classes c0 (concat bs) = if in_dec Z.eq_dec c0 l then g c0 else 0.
Proof.
  induction 1 as [|c b l bs (Hlen & _ & Hin) _ IH]; intros Hnd c0. reflexivity.
  inversion Hnd; subst. simpl concat. rewrite class_occ_cntf, cntf_app, <- !class_occ_cntf, IH by auto.
  rewrite class_occ_cntf. destruct (Z.eq_dec c0 c).
  - subst c0. rewrite cntf_all. destruct (in_dec Z.eq_dec c l). contradiction.
    destruct (in_dec Z.eq_dec c (c :: l)). lia. exfalso. apply n0. now left.
    intros x Hx. apply Hin, In_positions in Hx. lia.
  - rewrite cntf_none. destruct (in_dec Z.eq_dec c0 l), (in_dec Z.eq_dec c0 (c :: l)); try lia.
    exfalso. apply n0. now right. destruct i; congruence.
    intros x Hx. apply Hin, In_positions in Hx. lia.
Qed.

Lemma blocks_in classes g l bs x :
  Forall2 (block_of classes g) l bs -> In x (concat bs) -> exists c, In c l /\ In x (positions c classes).
Proof.
  induction 1 as [|c b l bs (_ & _ & Hin) _ IH]; simpl; intros Hx. destruct Hx.
  apply in_app_or in Hx. destruct Hx. exists c. auto. destruct (IH H) as (c' & ? & ?). exists c'. auto.
Qed.

Lemma blocks_nodup classes g l bs :
  Forall2 (block_of classes g) l bs -> NoDup l -> NoDup (concat bs).
Proof.
  induction 1 as [|c b l bs (Hlen & Hnb & Hin) Hrest IH]; intros Hnd. constructor.
  inversion Hnd; subst. simpl. apply nodup_app; auto.
  intros x Hx Hx'. destruct (blocks_in _ _ _ _ _ Hrest Hx') as (c' & Hc' & Hp).
  apply Hin, In_positions in Hx. apply In_positions in Hp. assert (c' = c) by lia. subst. contradiction.
Qed.

Lemma blocks_grouped classes g l bs :
  Forall2 (block_of classes g) l bs -> StronglySorted Z.lt l ->
  StronglySorted (fun i j => cls classes i <= cls classes j) (concat bs).
Proof.
  induction 1 as [|c b l bs (Hlen & Hnb & Hin) Hrest IH]; intros Hs. constructor.
  inversion Hs; subst. simpl. apply sorted_app; auto.
  - clear -Hin. assert (forall x, In x b -> cls classes x = c) by (intros x Hx; apply Hin, In_positions in Hx; lia).
    clear Hin. induction b. constructor. constructor. apply IHb. intros. apply H. now right.
    apply Forall_forall. intros y Hy. rewrite (H a), (H y); simpl; auto. lia.
  - intros x y Hx Hy. destruct (blocks_in _ _ _ _ _ Hrest Hy) as (c' & Hc' & Hp).
    apply Hin, In_positions in Hx. apply In_positions in Hp. rewrite Forall_forall in H2. specialize (H2 c' Hc'). lia.
Qed.

Lemma fewshot_blocks_forall2 classes shots l draws :
  0 <= shots ->
  Forall2 (fun c d => Permutation d (zrange 0 (count_of c classes))) l draws ->
  Forall2 (block_of classes (fun c => Z.min shots (count_of c classes))) l
          (map (fun '(c, perm) => fewshot_block classes shots c perm) (combine l draws)).
Proof.
  intros Hs. induction 1; simpl; constructor; auto.
  unfold block_of. now apply fewshot_block_ok.
Qed.

Lemma fewshot_l classes shots draws :
  classes <> [] -> 0 <= shots -> fewshot_draws_ok classes draws ->
  exists out, fewshot classes shots draws = Some out /\
    NoDup out /\ (forall x, In x out -> 0 <= x < zlen classes) /\
    StronglySorted (fun i j => cls classes i <= cls classes j) out /\
    (forall c, 0 <= c < fewshot_nc classes -> class_occ classes c out = Z.min shots (count_of c classes)) /\
    (forall c, ~ (0 <= c < fewshot_nc classes) -> class_occ classes c out = 0).
Proof.
  intros Hne Hs Hd. unfold fewshot_draws_ok in Hd.
  pose proof (Forall2_length _ _ _ Hd) as Hlen. rewrite zrange_length in Hlen.
  rewrite fewshot_blocks_eq by (auto; rewrite <- Hlen; f_equal; lia).
  pose proof (fewshot_blocks_forall2 classes shots _ _ Hs Hd) as HB.
  eexists. split. reflexivity. split; [|split; [|split; [|split]]].
  - eapply blocks_nodup; eauto. apply zrange_nodup.
  - intros x Hx. destruct (blocks_in _ _ _ _ _ HB Hx) as (c & _ & Hp). apply In_positions in Hp. tauto.
  - eapply blocks_grouped; eauto. apply zrange_sorted.
  - intros c Hc. rewrite (blocks_class_occ _ _ _ _ HB) by apply zrange_nodup.
    destruct (in_dec Z.eq_dec c (zrange 0 (fewshot_nc classes))). reflexivity.
    exfalso. apply n. now apply In_zrange.
  - intros c Hc. rewrite (blocks_class_occ _ _ _ _ HB) by apply zrange_nodup.
    destruct (in_dec Z.eq_dec c (zrange 0 (fewshot_nc classes))). apply In_zrange in i. tauto. reflexivity.
Qed.

(* every label of a non-negatively labelled dataset lies below max+1 *)
Lemma fewshot_nc_covers classes c : In c classes -> c < fewshot_nc classes.
Proof.
  intros. assert (c + 1 <= fewshot_nc classes). apply zmax_ge. apply in_map_iff. eauto. lia.
Qed.

(* ------------------------------------------------------------------ *)
(* ClasswiseSubsetWrapper                                              *)
(* ------------------------------------------------------------------ *)
Lemma firstn_split {A} (a d : nat) (l : list A) : firstn a l ++ firstn d (skipn a l) = firstn (a + d) l.
Proof.
  revert l. induction a; intros. reflexivity.
  destruct l. simpl. now rewrite firstn_nil. simpl. now rewrite IHa.
Qed.

Lemma zlen_slice {A} (l : list A) s e : 0 <= s -> zlen (slice l s e) = Z.max 0 (Z.min (e - s) (zlen l - s)).
Proof. intros. unfold slice, zlen. rewrite firstn_length, skipn_length. lia. Qed.

Lemma slice_partition {A} (l : list A) k : 0 <= k -> slice l 0 k ++ slice l k (zlen l) = l.
Proof.
  intros. unfold slice. simpl skipn. rewrite Z.sub_0_r.
  destruct (Z.leb_spec k (zlen l)).
  - rewrite firstn_split. apply firstn_all2. unfold zlen in *. lia.
  - replace (Z.to_nat (zlen l - k)) with 0%nat by lia. simpl. rewrite app_nil_r. apply firstn_all2. unfold zlen in *. lia.
Qed.

Lemma In_slice {A} (l : list A) s e x : In x (slice l s e) -> In x l.
Proof.
  unfold slice. intros H. apply In_firstn in H.
  rewrite <- (firstn_skipn (Z.to_nat s) l). apply in_or_app. now right.
Qed.

Lemma slice_clip {A} (l : list A) s e : slice l s (Z.min e (zlen l)) = slice l s e.
Proof.
  unfold slice. destruct (Z.leb_spec e (zlen l)). now rewrite Z.min_l by lia.
  rewrite Z.min_r by lia. rewrite !firstn_all2; auto; rewrite skipn_length; unfold zlen in *; lia.
Qed.

Lemma slice_beyond {A} (l : list A) s e : zlen l <= s -> slice l s e = [].
Proof. intros. unfold slice. rewrite skipn_all2. apply firstn_nil. unfold zlen in *. lia. Qed.

Lemma all_some_map {A} (g : Z -> option A) (h : Z -> A) l :
  (forall c, In c l -> g c = Some (h c)) -> all_some (map g l) = Some (map h l).
Proof.
  induction l; intros. reflexivity. simpl. rewrite H by (now left). rewrite IHl. reflexivity.
  intros. apply H. now right.
Qed.

Lemma all_some_none {A} (g : Z -> option A) l c : In c l -> g c = None -> all_some (map g l) = None.
Proof.
  induction l; intros. destruct H. simpl. destruct H.
  - subst. now rewrite H0.
  - destruct (g a). now rewrite IHl. reflexivity.
Qed.

(* the selection in canonical form: class after class, the samples of rank [s, e) inside the class *)
Definition classwise_val (classes : list Z) (C : Z) (lo hi : Z -> Z) : list Z :=
  concat (map (fun c => slice (positions c classes) (lo (count_of c classes)) (hi (count_of c classes))) (zrange 0 C)).

Lemma classwise_range_eq classes C s e check :
  labels_in_u classes (n_classes_eff C) -> is_some s || is_some e = true ->
  let n := zlen classes in
  let e' := Z.min (odflt e n) n in
  let s' := odflt s 0 in
  0 <= s' <= e' ->
  classwise_range classes C s e check =
  if check && existsb (fun c => count_of c classes <? e') (zrange 0 C) then None
  else Some (classwise_val classes C (fun _ => s') (fun _ => e')).
Proof.
  intros Hl Hse n e' s' Hb. unfold classwise_range. rewrite (class_counts_some_u _ _ Hl), Hse.
  cbn [negb]. fold n. fold e'. fold s'. destruct (Z.leb_spec s' e'); [|lia]. cbn [negb].
  destruct (check && existsb (fun c => count_of c classes <? e') (zrange 0 C)) eqn:E.
  - apply andb_prop in E. destruct E as (-> & E). apply existsb_exists in E. destruct E as (c & Hc & E).
    rewrite (all_some_none _ _ c); auto. cbn [andb]. now rewrite E.
  - rewrite (all_some_map _ (fun c => slice (positions c classes) s' e')). reflexivity.
    intros c Hc.
    assert (E2 : check && (count_of c classes <? e') = false).
    { destruct check; auto. simpl in *. destruct (count_of c classes <? e') eqn:E3; auto.
      assert (existsb (fun c => count_of c classes <? e') (zrange 0 C) = true)
        by (apply existsb_exists; eauto). congruence. }
    rewrite E2. destruct (Z.leb_spec (count_of c classes) s').
    + now rewrite slice_beyond by (rewrite zlen_positions; lia).
    + now rewrite <- zlen_positions, slice_clip.
Qed.

Lemma classwise_percent_eq {P} (O : pct_ops P) classes C s e :
  labels_in_u classes (n_classes_eff C) -> is_some s || is_some e = true ->
  p_ok O (odflt s (p_zero O)) = true -> p_ok O (odflt e (p_one O)) = true ->
  p_leb O (odflt s (p_zero O)) (odflt e (p_one O)) = true ->
  classwise_percent_g O classes C s e =
  Some (classwise_val classes C (p_cut O false (odflt s (p_zero O))) (p_cut O false (odflt e (p_one O)))).
Proof.
  intros Hl Hse Hs He Hle. unfold classwise_percent_g.
  rewrite (class_counts_some_u _ _ Hl), Hse, Hs, He, Hle. reflexivity.
Qed.

Lemma classwise_val_class_occ classes C lo hi c :
  0 <= c < C -> 0 <= lo (count_of c classes) ->
  class_occ classes c (classwise_val classes C lo hi)
  = Z.max 0 (Z.min (hi (count_of c classes) - lo (count_of c classes)) (count_of c classes - lo (count_of c classes))).
Proof.
  intros Hc Hlo. unfold classwise_val.
  rewrite class_occ_cntf, (cntf_blocks_single _ _ _ c); auto.
  - rewrite cntf_all. rewrite zlen_slice, zlen_positions by auto. reflexivity.
    intros x Hx. apply In_slice, In_positions in Hx. lia.
  - intros c' _ Hne. apply cntf_none. intros x Hx. apply In_slice, In_positions in Hx. lia.
Qed.

Lemma classwise_val_sublist classes C lo hi x :
  In x (classwise_val classes C lo hi) -> 0 <= x < zlen classes /\ 0 <= cls classes x < C.
Proof.
  unfold classwise_val. intros H. apply in_concat in H. destruct H as (l & Hl & Hx).
  apply in_map_iff in Hl. destruct Hl as (c & <- & Hc). apply In_zrange in Hc.
  apply In_slice, In_positions in Hx. lia.
Qed.

Lemma perm_concat_map_app (f g : Z -> list Z) l :
  Permutation (concat (map f l) ++ concat (map g l)) (concat (map (fun c => f c ++ g c) l)).
Proof.
  induction l; simpl. constructor.
  rewrite <- !app_assoc. apply Permutation_app_head.
  etransitivity. apply Permutation_app_swap_app. apply Permutation_app_head. assumption.
Qed.

(* complementary class-wise selections partition the dataset, for every cut rank k (incl. 0) *)
Lemma classwise_val_partition classes C (k : Z -> Z) :
  labels_in classes C -> (forall m, 0 <= m -> 0 <= k m) ->
  Permutation (classwise_val classes C (fun _ => 0) k ++ classwise_val classes C k (fun m => m)) (all_ids classes).
Proof.
  intros Hl Hk. unfold classwise_val. etransitivity. apply perm_concat_map_app.
  etransitivity; [|apply (blocks_perm classes C Hl)]. unfold blocks.
  apply Permutation_refl'. f_equal. apply map_ext. intros c.
  pose proof (slice_partition (positions c classes) (k (count_of c classes)) (Hk _ (count_of_nonneg c classes))) as E.
  rewrite zlen_positions in E. exact E.
Qed.

Lemma classwise_range_partition classes C k :
  labels_in classes C -> labels_in classes (n_classes_eff C) -> 0 <= k <= zlen classes ->
  exists A B, classwise_range classes C None (Some k) false = Some A /\
              classwise_range classes C (Some k) None false = Some B /\
              Permutation (A ++ B) (all_ids classes).
Proof.
  intros Hl Hl' Hk. pose proof (labels_in_u_of _ _ Hl') as Hlu.
  rewrite !classwise_range_eq; auto; cbn [odflt andb]; try lia.
  do 2 eexists. split. reflexivity. split. reflexivity.
  replace (Z.min k (zlen classes)) with k by lia. replace (Z.min (zlen classes) (zlen classes)) with (zlen classes) by lia.
  etransitivity; [|apply (classwise_val_partition classes C (fun _ => k) Hl); intros; lia].
  apply Permutation_app_head. apply Permutation_refl'. unfold classwise_val. f_equal. apply map_ext_in.
  intros c _. rewrite <- (slice_clip _ k (zlen classes)), <- (slice_clip _ k (count_of c classes)), !zlen_positions.
  f_equal. pose proof (cntf_le_len (Z.eqb c) classes). rewrite <- count_of_cntf in H. lia.
Qed.

Lemma classwise_percent_partition {P} (O : pct_ops P) classes C p :
  labels_in classes C -> labels_in classes (n_classes_eff C) -> (forall m, 0 <= m -> pct_contract O m) ->
  p_ok O p = true ->
  exists A B, classwise_percent_g O classes C None (Some p) = Some A /\
              classwise_percent_g O classes C (Some p) None = Some B /\
              Permutation (A ++ B) (all_ids classes).
Proof.
  intros Hl Hl' Hcut Hp. pose proof (labels_in_u_of _ _ Hl') as Hlu. destruct (Hcut 0 ltac:(lia)) as (Hz & Ho & Hle & _).
  rewrite !classwise_percent_eq; auto; cbn [odflt]; auto; try apply Hle; auto.
  do 2 eexists. split. reflexivity. split. reflexivity.
  etransitivity; [|apply (classwise_val_partition classes C (p_cut O false p) Hl)].
  - apply Permutation_refl'. unfold classwise_val. f_equal; f_equal; apply map_ext; intros c;
      destruct (Hcut (count_of c classes) (count_of_nonneg c classes)) as (_ & _ & _ & H0 & H1 & _); now rewrite ?H0, ?H1.
  - intros m Hm. destruct (Hcut m Hm) as (_ & _ & _ & _ & _ & Hb). apply Hb; auto.
Qed.

(* ------------------------------------------------------------------ *)
(* the selection is a function of the arguments and the draws          *)
(* ------------------------------------------------------------------ *)
Lemma run_function {P} (O : pct_ops P) classes C w o1 o2 :
  run_g O classes C w = o1 -> run_g O classes C w = o2 -> o1 = o2.
Proof. congruence. Qed.

(* an unlabeled sample belongs to no class: it is never oversampled, and never dropped *)
Lemma oversample_unlabeled_once ex classes C out i :
  oversample ex classes C = Some out -> 0 <= i < zlen classes -> cls classes i = -1 -> occ i out = 1.
Proof.
  intros H Hi Hu. destruct (oversample_some_counts _ _ _ _ H) as (counts & Hcc). destruct ex.
  - rewrite (oversample_exact_eq _ _ _ Hcc) in H. inversion H; subst out; clear H.
    rewrite occ_cntf, cntf_app, <- (occ_cntf i (positions _ _)), occ_positions, Hu.
    rewrite cntf_concat_map_zero.
    + destruct (Z.leb_spec 0 i), (Z.ltb_spec i (zlen classes)); simpl; lia.
    + intros c Hc. apply In_zrange in Hc. rewrite <- occ_cntf. apply occ_exact_block_val_other. lia.
  - rewrite (oversample_multiply_eq _ _ _ Hcc) in H. inversion H; subst out; clear H.
    rewrite occ_cntf, cntf_app, <- (occ_cntf i (all_ids _)). unfold all_ids at 1. rewrite occ_zrange.
    unfold mult_blocks. rewrite cntf_concat_map_zero.
    + destruct (Z.leb_spec 0 i), (Z.ltb_spec i (zlen classes)); simpl; lia.
    + intros c Hc. apply In_zrange in Hc. rewrite <- occ_cntf, occ_multiply_block.
      destruct (Z.eqb_spec (cls classes i) c). lia. now rewrite andb_false_r.
Qed.

Lemma oversample_keeps_all_l ex classes C out i :
  oversample ex classes C = Some out -> labels_in_u classes (n_classes_eff C) ->
  0 <= i < zlen classes -> 1 <= occ i out.
Proof.
  intros H Hl Hi. pose proof (labels_in_u_cls _ _ _ Hl Hi) as Hc'.
  destruct (Z.eq_dec (cls classes i) (-1)) as [Hu|Hu].
  { rewrite (oversample_unlabeled_once _ _ _ _ _ H Hi Hu). lia. }
  assert (Hc : 0 <= cls classes i < n_classes_eff C) by lia. clear Hc'. destruct ex.
  - pose proof (oversample_exact_occ _ _ _ _ H Hi Hc). cbv zeta in *. lia.
  - rewrite (oversample_multiply_occ _ _ _ _ H Hi Hc).
    pose proof (count_of_cls_pos classes i Hi). pose proof (count_le_mxc classes _ _ Hc).
    apply Z.div_le_lower_bound; lia.
Qed.

(* ------------------------------------------------------------------ *)
(* the executable predicates of Spec.v mean what they say              *)
(* ------------------------------------------------------------------ *)
Lemma list_eqb_eq a b : list_eqb a b = true <-> a = b.
Proof.
  unfold list_eqb. revert b. induction a; destruct b; simpl; split; intros; try discriminate; auto.
  - apply andb_prop in H. destruct H as (Hl & H). apply andb_prop in H. destruct H as (E & H).
    apply Z.eqb_eq in E. subst. f_equal. apply IHa. now rewrite Hl, H.
  - inversion H; subst. rewrite Z.eqb_refl. simpl. apply (IHa b). reflexivity.
Qed.

Lemma cntf_perm f l l' : Permutation l l' -> cntf f l = cntf f l'.
Proof. induction 1; rewrite ?cntf_cons in *; lia. Qed.

Lemma nodup_of_occ l : (forall x, occ x l <= 1) -> NoDup l.
Proof.
  induction l; intros. constructor. constructor.
  - intro Hin. specialize (H a). rewrite occ_cntf, cntf_cons, Z.eqb_refl in H.
    assert (0 < cntf (Z.eqb a) l) by (apply cntf_pos_In; exists a; split; auto; apply Z.eqb_refl). lia.
  - apply IHl. intros x. specialize (H x). rewrite occ_cntf, cntf_cons in H. rewrite occ_cntf.
    destruct (Z.eqb x a); lia.
Qed.

Lemma is_permutation_iff classes out : is_permutation classes out = true <-> Permutation out (all_ids classes).
Proof.
  unfold is_permutation, in_range. rewrite andb_true_iff, !forallb_forall. split.
  - intros (Hr & Ho). apply NoDup_Permutation.
    + apply nodup_of_occ. intros x. destruct (in_dec Z.eq_dec x out).
      * specialize (Hr x i). assert (In x (all_ids classes)) by (apply In_zrange; lia).
        specialize (Ho x H). lia.
      * rewrite occ_cntf, cntf_none. lia. intros y Hy. destruct (Z.eqb_spec x y); congruence.
    + apply zrange_nodup.
    + intros x. split; intros Hx.
      * specialize (Hr x Hx). apply In_zrange. lia.
      * specialize (Ho x Hx). assert (0 < cntf (Z.eqb x) out) by (rewrite <- occ_cntf; lia).
        apply cntf_pos_In in H. destruct H as (y & Hy & E). apply Z.eqb_eq in E. now subst.
  - intros Hp. split.
    + intros x Hx. eapply Permutation_in in Hx; eauto. apply In_zrange in Hx. lia.
    + intros x Hx. rewrite occ_cntf, (cntf_perm _ _ _ Hp), <- occ_cntf. unfold all_ids in *.
      rewrite occ_zrange. apply In_zrange in Hx.
      destruct (Z.leb_spec 0 x), (Z.ltb_spec x (zlen classes)); simpl; lia.
Qed.

Lemma sorted_stable_iff classes out : sorted_stable classes out = true <-> StronglySorted (before classes) out.
Proof.
  split.
  - intros H. apply Sorted_StronglySorted. intros x y z. apply before_trans.
    induction out as [|i r IH]. constructor. simpl in H. destruct r as [|j r'].
    + constructor; constructor.
    + apply andb_prop in H. destruct H as (Hb & Hr). constructor. now apply IH.
      constructor. unfold before. lia.
  - intros H. apply StronglySorted_Sorted in H. induction H. reflexivity.
    simpl. destruct l as [|j r']. reflexivity. inversion H0; subst. unfold before in H2.
    rewrite IHSorted. destruct H2; lia.
Qed.

(* the stable sort is unique: a permutation of the ids sorted by `before` is sort_by_class *)
Lemma sorted_perm_unique {A} (R : A -> A -> Prop) :
  (forall x, ~ R x x) -> (forall x y, R x y -> R y x -> False) ->
  forall l l', StronglySorted R l -> StronglySorted R l' -> Permutation l l' -> l = l'.
Proof.
  intros Hirr Hasym. induction l; intros l' Hs Hs' Hp.
  - apply Permutation_nil in Hp. now subst.
  - destruct l' as [|b l']. apply Permutation_sym, Permutation_nil in Hp. discriminate.
    inversion Hs; subst. inversion Hs'; subst. rewrite Forall_forall in *.
    assert (a = b).
    { assert (Ha : In a (b :: l')) by (eapply Permutation_in; eauto; now left).
      assert (Hb : In b (a :: l)) by (eapply Permutation_in; [symmetry; eauto|now left]).
      destruct Ha as [|Ha]; auto. destruct Hb as [|Hb]; auto.
      exfalso. apply (Hasym a b); auto. }
    subst. f_equal. apply IHl; auto. eapply Permutation_cons_inv; eauto.
Qed.

Lemma stable_sort_unique classes C out :
  labels_in_u classes C -> Permutation out (all_ids classes) -> StronglySorted (before classes) out ->
  out = sort_by_class classes C.
Proof.
  intros Hl Hp Hs. destruct (sort_by_class_u_l classes C Hl) as (Hp' & Hs').
  apply (sorted_perm_unique (before classes)); auto.
  - apply before_irrefl.
  - unfold before. intros. lia.
  - etransitivity; eauto. now symmetry.
Qed.

Lemma rat_ops_contract n : 0 <= n -> pct_contract rat_ops n.
Proof.
  intros Hn. unfold pct_contract. cbn [rat_ops p_zero p_one p_ok p_leb p_cut].
  split. reflexivity. split. reflexivity. split; [|split; [|split]].
  - intros (a, b) H. lia.
  - intros []. rewrite Z.div_1_r. lia. rewrite Z.div_1_r. lia.
  - intros []; rewrite Z.div_1_r; lia.
  - intros c (a, b) H.
    assert (Hb : 0 < b) by lia. assert (Ha : 0 <= a <= b) by lia.
    assert (0 <= a * n <= b * n) by nia.
    destruct c.
    + split. apply Z.div_pos; lia.
      assert ((a * n + b - 1) / b < n + 1) by (apply Z.div_lt_upper_bound; nia). lia.
    + split. apply Z.div_pos; lia. apply Z.div_le_upper_bound; nia.
Qed.

(* monotonicity of the percent -> index map, and floor <= ceil: what makes `assert p <= q` enough for a
   well-formed range.  Proved for exact fractions; for binary64 evaluated per case (Check.float_mono_ok). *)
Definition pct_mono {P} (O : pct_ops P) (n : Z) : Prop :=
  (forall c p q, p_ok O p = true -> p_ok O q = true -> p_leb O p q = true -> p_cut O c p n <= p_cut O c q n) /\
  (forall p, p_ok O p = true -> p_cut O false p n <= p_cut O true p n).

Lemma rat_ops_mono n : 0 <= n -> pct_mono rat_ops n.
Proof.
  intros Hn. unfold pct_mono. cbn [rat_ops p_ok p_leb p_cut]. split.
  - intros c (a, b) (a', b') Hp Hq Hle.
    assert (Hb : 0 < b) by lia. assert (Hb' : 0 < b') by lia. assert (Hab : a * b' <= a' * b) by lia.
    assert (Ha : 0 <= a) by lia. assert (Ha' : 0 <= a') by lia. clear Hp Hq Hle.
    destruct c.
    + (* ceil *)
      set (y := (a' * n + b' - 1) / b').
      assert (Hy : a' * n <= b' * y).
      { pose proof (Z.div_mod (a' * n + b' - 1) b' ltac:(lia)). pose proof (Z.mod_pos_bound (a' * n + b' - 1) b' Hb').
        fold y in H. lia. }
      assert (Hy' : a * n <= b * y).
      { apply (Z.mul_le_mono_pos_l _ _ b'); [lia|]. 
        assert (b' * (a * n) <= b * (a' * n)) by nia. assert (b * (a' * n) <= b * (b' * y)) by nia. lia. }
      assert ((a * n + b - 1) / b < y + 1) by (apply Z.div_lt_upper_bound; lia). lia.
    + (* floor *)
      set (x := a * n / b).
      assert (Hx : b * x <= a * n) by (apply Z.mul_div_le; lia).
      apply Z.div_le_lower_bound. lia.
      apply (Z.mul_le_mono_pos_l _ _ b); [lia|].
      assert (b * (b' * x) <= b' * (a * n)) by nia. assert (b' * (a * n) <= b * (a' * n)) by nia. lia.
  - intros (a, b) Hp. apply Z.div_le_mono; lia.
Qed.

(* with a monotone cut the assertion p <= q alone makes the three ranges a partition *)
Lemma subset_percent_partition_mono {P} (O : pct_ops P) n p q :
  pct_contract O n -> pct_mono O n -> p_ok O p = true -> p_ok O q = true -> p_leb O p q = true ->
  exists A B D,
    subset_percent_g O n None (Some p) = Some A /\
    subset_percent_g O n (Some p) (Some q) = Some B /\
    subset_percent_g O n (Some q) None = Some D /\
    A ++ B ++ D = zrange 0 n.
Proof.
  intros Hc (Hm & _) Hp Hq Hle. apply subset_percent_partition; auto.
Qed.

Lemma percent_filter_partition_mono {P} (O : pct_ops P) n p q c1 c2 :
  pct_contract O n -> pct_mono O n -> p_ok O p = true -> p_ok O q = true -> p_leb O p q = true ->
  implb c1 c2 = true ->
  exists A B D,
    percent_filter_g O n None (Some p) false c1 = Some A /\
    percent_filter_g O n (Some p) (Some q) c1 c2 = Some B /\
    percent_filter_g O n (Some q) None c2 false = Some D /\
    A ++ B ++ D = zrange 0 n.
Proof.
  intros Hc (Hm & Hfc) Hp Hq Hle Hi. apply percent_filter_partition; auto.
  destruct c1, c2; try discriminate; try (now apply Hm).
  etransitivity. apply (Hm false p q); auto. now apply Hfc.
Qed.

Lemma subset_percent_partition_rat n p q :
  0 <= n -> p_ok rat_ops p = true -> p_ok rat_ops q = true -> p_leb rat_ops p q = true ->
  exists A B D,
    subset_percent_g rat_ops n None (Some p) = Some A /\
    subset_percent_g rat_ops n (Some p) (Some q) = Some B /\
    subset_percent_g rat_ops n (Some q) None = Some D /\
    A ++ B ++ D = zrange 0 n.
Proof.
  intros. apply subset_percent_partition_mono; auto. now apply rat_ops_contract. now apply rat_ops_mono.
Qed.

(* the executable few-shot predicate of Spec.v holds of the model's selection *)
Lemma class_sorted_of classes out :
  StronglySorted (fun i j => cls classes i <= cls classes j) out -> class_sorted classes out = true.
Proof.
  induction 1 as [|a l Hs IH Hf]. reflexivity.
  destruct l as [|z l]. reflexivity.
  change (class_sorted classes (a :: z :: l)) with ((cls classes a <=? cls classes z) && class_sorted classes (z :: l)).
  inversion Hf; subst. apply andb_true_intro. split. lia. exact IH.
Qed.

Lemma fewshot_spec_bool classes shots draws out :
  classes <> [] -> 0 <= shots -> fewshot_draws_ok classes draws -> fewshot classes shots draws = Some out ->
  fewshot_ok classes shots out = true.
Proof.
  intros Hne Hs Hd Ho. destruct (fewshot_l _ _ _ Hne Hs Hd) as (out' & Ho' & Hnd & Hin & Hsort & Hocc & _).
  rewrite Ho in Ho'. inversion Ho'; subst out'. unfold fewshot_ok.
  change (zmax (map (fun c => c + 1) classes)) with (fewshot_nc classes).
  apply andb_true_intro; split; [apply andb_true_intro; split; [apply andb_true_intro; split|]|].
  - apply forallb_forall. intros i Hi. specialize (Hin i Hi). lia.
  - apply forallb_forall. intros i Hi. rewrite (occ_nodup _ _ Hnd). destruct (in_dec _ _ _); reflexivity.
  - now apply class_sorted_of.
  - apply forallb_forall. intros c Hc. apply In_zrange in Hc. rewrite (Hocc c Hc). apply Z.eqb_refl.
Qed.

(* ------------------------------------------------------------------ *)
(* conjunctions stated in Property.v                                   *)
(* ------------------------------------------------------------------ *)
Lemma ranges_contiguous_l :     (forall P (O : pct_ops P) n f t cf ct out, percent_filter_g O n f t cf ct = Some out ->
        out = zrange (p_cut O cf (odflt f (p_zero O)) n) (p_cut O ct (odflt t (p_one O)) n)) /\
    (forall n s e out, subset_range n s e = Some out ->
        out = zrange (odflt s 0) (Z.min (odflt e n) n) /\ odflt s 0 <= Z.min (odflt e n) n) /\
    (forall P (O : pct_ops P) n s e out, subset_percent_g O n s e = Some out ->
        out = zrange (p_cut O false (odflt s (p_zero O)) n) (p_cut O false (odflt e (p_one O)) n)) /\
    (* a block a .. b-1 *)
    (forall a b, zlen (zrange a b) = Z.max 0 (b - a) /\
                 forall k, (k < length (zrange a b))%nat -> nth k (zrange a b) 0 = a + Z.of_nat k).
Proof.
  exact (conj (@percent_filter_block) (conj subset_range_block (conj (@subset_percent_block) block_contiguous_l))).
Qed.

Lemma oversampling_balance_l : forall classes C out,
    oversample false classes C = Some out ->
    let mx := mxc classes (n_classes_eff C) in
    (forall i, 0 <= i < zlen classes -> 0 <= cls classes i < n_classes_eff C ->
               occ i out = mx / count_of (cls classes i) classes) /\
    (forall c, 0 <= c < n_classes_eff C -> 0 < count_of c classes ->
               class_occ classes c out = count_of c classes * (mx / count_of c classes) /\
               mx < 2 * class_occ classes c out /\ class_occ classes c out <= mx) /\
    (forall c, count_of c classes = 0 -> class_occ classes c out = 0).
Proof.
  intros classes C out H mx. split; [|split].
  - intros. now apply oversample_multiply_occ.
  - intros. now apply oversample_multiply_class_occ.
  - intros. eapply oversample_multiply_absent; eauto.
Qed.

Lemma exact_reaches_max_l : forall classes C out,
    oversample true classes C = Some out ->
    let mx := mxc classes (n_classes_eff C) in
    (forall c, 0 <= c < n_classes_eff C ->
               class_occ classes c out = if count_of c classes =? 0 then 0 else mx) /\
    (forall i, 0 <= i < zlen classes -> 0 <= cls classes i < n_classes_eff C ->
               let q := mx / count_of (cls classes i) classes in 1 <= q /\ q <= occ i out <= q + 1).
Proof.
  intros classes C out H mx. split.
  - intros. now apply oversample_exact_class_occ.
  - intros. now apply oversample_exact_occ.
Qed.

Lemma classwise_counts_l : forall classes C s e check,
    labels_in_u classes (n_classes_eff C) -> is_some s || is_some e = true ->
    let n := zlen classes in
    let e' := Z.min (odflt e n) n in
    let s' := odflt s 0 in
    0 <= s' <= e' ->
    classwise_range classes C s e check =
      (if check && existsb (fun c => count_of c classes <? e') (zrange 0 C) then None
       else Some (classwise_val classes C (fun _ => s') (fun _ => e'))) /\
    (forall c, 0 <= c < C ->
       class_occ classes c (classwise_val classes C (fun _ => s') (fun _ => e'))
       = Z.max 0 (Z.min (e' - s') (count_of c classes - s'))) /\
    (forall x, In x (classwise_val classes C (fun _ => s') (fun _ => e')) ->
       0 <= x < zlen classes /\ 0 <= cls classes x < C).
Proof.
  intros classes C s e check Hl Hse n e' s' Hb. split; [|split].
  - now apply classwise_range_eq.
  - intros c Hc. apply (classwise_val_class_occ classes C (fun _ => s') (fun _ => e') c Hc). lia.
  - apply classwise_val_sublist.
Qed.

Lemma labels_in_b classes C : forallb (fun c => (0 <=? c) && (c <? C)) classes = true -> labels_in classes C.
Proof. intros H. apply Forall_forall. intros x Hx. rewrite forallb_forall in H. specialize (H x Hx). lia. Qed.

Lemma labels_in_u_b classes C : forallb (fun c => (-1 <=? c) && (c <? C)) classes = true -> labels_in_u classes C.
Proof. intros H. apply Forall_forall. intros x Hx. rewrite forallb_forall in H. specialize (H x Hx). cbv beta in *. lia. Qed.

(* ------------------------------------------------------------------ *)
(* model output satisfies the executable predicates of Spec.v          *)
(* ------------------------------------------------------------------ *)
Lemma sort_spec_bool classes C :
  labels_in_u classes C ->
  is_permutation classes (sort_by_class classes C) && sorted_stable classes (sort_by_class classes C) = true.
Proof.
  intros H. destruct (sort_by_class_u_l _ _ H). apply andb_true_intro. split.
  now apply is_permutation_iff. now apply sorted_stable_iff.
Qed.

Lemma keeps_all_bool ex classes C out :
  oversample ex classes C = Some out -> labels_in_u classes (n_classes_eff C) -> keeps_all classes out = true.
Proof.
  intros H Hl. unfold keeps_all. apply forallb_forall. intros i Hi. apply In_zrange in Hi.
  pose proof (oversample_keeps_all_l _ _ _ _ i H Hl Hi). lia.
Qed.

Lemma unlabeled_once_bool ex classes C out :
  oversample ex classes C = Some out -> unlabeled_once classes out = true.
Proof.
  intros H. unfold unlabeled_once. apply forallb_forall. intros i Hi. apply In_zrange in Hi.
  destruct (Z.eqb_spec (cls classes i) (-1)); auto.
  rewrite (oversample_unlabeled_once _ _ _ _ _ H Hi e). reflexivity.
Qed.

Lemma balanced_multiply_bool classes C out :
  oversample false classes C = Some out -> balanced_multiply classes (n_classes_eff C) out = true.
Proof.
  intros H. unfold balanced_multiply.
  change (zmax (map (fun c => count_of c classes) (class_ids (n_classes_eff C)))) with (mxc classes (n_classes_eff C)).
  apply forallb_forall. intros c Hc. apply In_zrange in Hc.
  destruct (Z.eqb_spec (count_of c classes) 0).
  - rewrite (oversample_multiply_absent _ _ _ _ H e). reflexivity.
  - pose proof (count_of_nonneg c classes).
    destruct (oversample_multiply_class_occ _ _ _ _ H Hc ltac:(lia)) as (_ & H1 & H2).
    apply andb_true_intro. split. lia.
    apply forallb_forall. intros i Hi. apply In_zrange in Hi.
    destruct (Z.eqb_spec (cls classes i) c); auto. subst c.
    rewrite (oversample_multiply_occ _ _ _ _ H Hi Hc). apply Z.eqb_refl.
Qed.

Lemma balanced_exact_bool classes C out :
  oversample true classes C = Some out -> balanced_exact classes (n_classes_eff C) out = true.
Proof.
  intros H. unfold balanced_exact.
  change (zmax (map (fun c => count_of c classes) (class_ids (n_classes_eff C)))) with (mxc classes (n_classes_eff C)).
  apply forallb_forall. intros c Hc. apply In_zrange in Hc.
  rewrite (oversample_exact_class_occ _ _ _ _ H Hc).
  destruct (Z.eqb_spec (count_of c classes) 0). reflexivity.
  rewrite Z.eqb_refl. cbn [andb].
  apply forallb_forall. intros i Hi. apply In_zrange in Hi.
  destruct (Z.eqb_spec (cls classes i) c); auto. subst c.
  pose proof (oversample_exact_occ _ _ _ _ H Hi Hc). cbv zeta in *. lia.
Qed.

Lemma intra_spec_bool classes C draws out :
  labels_in_u classes C -> intra_draws_ok classes C draws -> intra_class_shuffle classes C draws = Some out ->
  is_permutation classes out && list_eqb (map (cls classes) out) classes = true.
Proof.
  intros Hl Hd Ho. destruct (intra_class_l _ _ _ Hl Hd) as (out' & Ho' & Hp & Hm).
  rewrite Ho in Ho'. inversion Ho'; subst out'. apply andb_true_intro. split.
  now apply is_permutation_iff. now apply list_eqb_eq.
Qed.

(* ---- the class-wise selection in the vocabulary of Spec.v: rank of a sample inside its class ---- *)
Lemma slice_snoc {A} (L : list A) x s e :
  0 <= s -> slice (L ++ [x]) s e = slice L s e ++ (if (s <=? zlen L) && (zlen L <? e) then [x] else []).
Proof.
  intros Hs. unfold slice. rewrite skipn_app, firstn_app, skipn_length. f_equal.
  unfold zlen. destruct (Z.leb_spec s (Z.of_nat (length L))), (Z.ltb_spec (Z.of_nat (length L)) e); cbn [andb].
  - replace (Z.to_nat s - length L)%nat with 0%nat by lia. cbn [skipn].
    destruct (Z.to_nat (e - s) - (length L - Z.to_nat s))%nat eqn:E. lia. simpl. now rewrite firstn_nil.
  - replace (Z.to_nat (e - s) - (length L - Z.to_nat s))%nat with 0%nat by lia. reflexivity.
  - destruct (Z.to_nat s - length L)%nat eqn:E. lia. simpl. rewrite skipn_nil. apply firstn_nil.
  - destruct (Z.to_nat s - length L)%nat eqn:E. lia. simpl. rewrite skipn_nil. apply firstn_nil.
Qed.

Lemma rank_slice classes c s e : 0 <= s -> forall m : nat,
  filter (fun i => (cls classes i =? c) && (s <=? rank classes i) && (rank classes i <? e)) (zrange 0 (Z.of_nat m))
  = slice (filter (fun i => cls classes i =? c) (zrange 0 (Z.of_nat m))) s e.
Proof.
  intros Hs. induction m.
  - simpl. unfold slice. now rewrite skipn_nil, firstn_nil.
  - rewrite Nat2Z.inj_succ. unfold Z.succ. rewrite zrange_snoc by lia. rewrite !filter_app, IHm. cbn [filter].
    destruct (Z.eqb_spec (cls classes (Z.of_nat m)) c).
    + rewrite slice_snoc by auto. f_equal. unfold rank. rewrite e0. cbn [andb]. reflexivity.
    + cbn [andb]. now rewrite !app_nil_r.
Qed.

Lemma classwise_val_spec classes C lo hi :
  (forall m, 0 <= m -> 0 <= lo m) -> classwise_val classes C lo hi = spec_classwise classes lo hi C.
Proof.
  intros Hlo. unfold classwise_val, spec_classwise, class_ids. f_equal. apply map_ext. intros c.
  rewrite positions_filter. unfold all_ids, zlen. symmetry. apply rank_slice. apply Hlo, count_of_nonneg.
Qed.
