(* C11 -- property theorems about the model of the (repaired) KDMixWrapper under ModeWrapper.
   All hold for every dataset (size, class count, sample shapes of any rank), every configuration,
   every index and every draw sequence satisfying the generator's contract (Spec.draws_ok). *)
From Coq Require Import ZArith QArith List Bool Lia Lqa.
Import ListNotations.
From KD Require Import C11.Model C11.Spec C11.Heap C11.Proofs C11.HeapProofs.
Open Scope Z_scope.

(* label vectors are non-negative, sum to one and have n_classes entries *)
Theorem label_convex : forall ds c idx dr s rest,
  labels_ok ds -> draws_ok dr -> getitem_xclass ds c idx dr = Ok (s, rest) ->
  prob_vector (ds_ncls ds) (s_cls s).
Proof. exact label_convex_l. Qed.
Print Assumptions label_convex.

(* a returned sample is either untouched (the first draw exceeded total_p) or the convex combination
   w * sample_idx + (1-w) * (sample_p seen through the box of sample_idx)  of data AND label, for the ONE
   partner p = integers(len) < len and the ONE weight w = beta(alpha, alpha) in [0,1] drawn in this call *)
Theorem data_label_same_partner_weight : forall ds c idx dr s rest,
  draws_ok dr -> getitem_xclass ds c idx dr = Ok (s, rest) ->
  match s_mix s with
  | None => untouched ds idx (s_x s) (s_cls s) /\ exists u, dr = DUnit u :: rest /\ (total_p c < u)%Q
  | Some (p, w) =>
      convex_of ds idx p w (s_x s) (s_cls s) /\
      exists u a, dr = DUnit u :: DInt (Z.of_nat (ds_len ds)) (Z.of_nat p) :: DBeta a w :: rest /\ (u <= total_p c)%Q
  end.
Proof. exact same_partner_weight_l. Qed.
Print Assumptions data_label_same_partner_weight.

(* probability one mixes every sample: the code's test is  apply > total_p  and apply < 1 *)
Theorem p_one_always_mixes : forall ds c idx dr s rest,
  (1 <= total_p c)%Q -> draws_ok dr -> getitem_xclass ds c idx dr = Ok (s, rest) -> s_mix s <> None.
Proof. exact p_one_always_mixes_l. Qed.
Print Assumptions p_one_always_mixes.

(* with a seed set, every mode (image only, label only, joint in any order, with or without the index; no
   duplicate items) returns projections of ONE sample, the one computed from the generator seeded seed + idx *)
Theorem fused_views_agree : forall ds c G toks idx s0 smp rest,
  NoDup toks -> no_other toks -> seed c = Some s0 -> seeded_deterministic G ->
  getitem_xclass ds c idx (G 0%nat (Some (s0 + Z.of_nat idx))) = Ok (smp, rest) ->
  exists calls, mw_getitem ds c G toks idx = Ok (map (view smp idx) toks, calls)
                /\ Forall (fun cl => c_sample cl = smp) calls.
Proof. exact fused_views_agree_l. Qed.
Print Assumptions fused_views_agree.

(* ... and when that sample raises, every mode that asks for image or label raises the same error *)
Theorem fused_views_agree_error : forall ds c G toks idx s0 e,
  NoDup toks -> no_other toks -> seed c = Some s0 -> seeded_deterministic G ->
  getitem_xclass ds c idx (G 0%nat (Some (s0 + Z.of_nat idx))) = Err e ->
  wants_sample toks = true ->
  mw_getitem ds c G toks idx = Err e.
Proof. exact fused_views_err_l. Qed.
Print Assumptions fused_views_agree_error.

(* without any assumption on the generators (no seed): in a joint request, whatever the order of the items,
   the returned image and the returned label come from ONE getitem_xclass call, hence (by
   data_label_same_partner_weight) from one partner and one weight *)
Theorem joint_request_single_draw : forall ds c G toks idx vals calls jx jc,
  NoDup toks -> no_other toks ->
  mw_getitem ds c G toks idx = Ok (vals, calls) ->
  nth_error toks jx = Some TX -> nth_error toks jc = Some TClass ->
  exists cl, In cl calls /\
    nth_error vals jx = Some (VX (s_x (c_sample cl))) /\
    nth_error vals jc = Some (VCls (s_cls (c_sample cl))).
Proof. exact joint_single_draw_l. Qed.
Print Assumptions joint_request_single_draw.

(* pad_or_cut_end: for tensors of equal (arbitrary) rank the loop of F.pad / index_select calls succeeds,
   the result has the first sample's shape, entries inside both boxes are the partner's, the rest is zero *)
Theorem unify_shape : forall x x2,
  length (shape x) = length (shape x2) ->
  exists t, pad_or_cut_end x x2 = Some t /\ shape t = shape x /\
    forall idx, inside (shape x) idx = true ->
      at_ t idx = if inside (shape x2) idx then at_ x2 idx else 0%Q.
Proof. exact unify_shape_l. Qed.
Print Assumptions unify_shape.

(* an untouched sample carries the plain one-hot vector of its class id *)
Theorem untouched_is_one_hot : forall ds c idx dr s rest y,
  getitem_xclass ds c idx dr = Ok (s, rest) -> s_mix s = None ->
  ds_cls ds idx = LInt y -> 0 <= y < Z.of_nat (ds_ncls ds) ->
  s_x s = ds_x ds idx /\ is_one_hot (Z.to_nat y) (ds_ncls ds) (s_cls s).
Proof. exact untouched_is_one_hot_l. Qed.
Print Assumptions untouched_is_one_hot.

(* the partner is a sample of the same dataset *)
Theorem partner_in_range : forall ds c idx dr s rest p w,
  draws_ok dr -> getitem_xclass ds c idx dr = Ok (s, rest) -> s_mix s = Some (p, w) -> (p < ds_len ds)%nat.
Proof. exact partner_in_range_l. Qed.
Print Assumptions partner_in_range.

(* the partner may be sample idx itself (integers(len) includes idx): the result is then sample idx -- data and label.
   Value level; that this is also what happens when the wrapped dataset hands out the SAME tensor for x and x2 is
   self_partner_on_aliasing_dataset below *)
Theorem self_partner_returns_sample : forall ds c idx dr s rest w,
  draws_ok dr -> getitem_xclass ds c idx dr = Ok (s, rest) -> s_mix s = Some (idx, w) ->
  same_tensor (s_x s) (ds_x ds idx) /\ Forall2 Qeq (s_cls s) (label_vector ds idx).
Proof. exact self_partner_l. Qed.
Print Assumptions self_partner_returns_sample.

(* the context a request returns describes the requested sample: whatever is drawn, the only calls of the wrapped
   dataset that are handed the request's context dictionary are the loads of sample idx; the partner is loaded with a
   dictionary of its own (repaired: fixes/C11_partner_ctx.patch) *)
Theorem request_ctx_describes_requested_sample : forall ds c G toks idx vals calls,
  mw_getitem ds c G toks idx = Ok (vals, calls) -> Forall (fun cl => ctx_describes idx (c_sample cl)) calls.
Proof. exact request_ctx_describes_l. Qed.
Print Assumptions request_ctx_describes_requested_sample.

(* ---------- aliasing: the wrapped dataset may hand out its stored tensors (or views of them) ---------- *)
(* the statements of getitem_xclass executed on a heap of tensor objects (Heap.v) return the tensor the value-level model
   computes -- and raise where it raises -- whether getitem_x hands out the stored tensor or a clone: all theorems above
   hold for aliasing datasets as well *)
Theorem heap_model_agrees_with_value_model : forall st c idx dr h, store_wf st h ->
  match getitem_xclass (ds_of_store st h) c idx dr with
  | Ok (s, _) => exists a, snd (getitem_xclass_h st c idx dr h) = Ok a
                           /\ deref (fst (getitem_xclass_h st c idx dr h)) a = s_x s
  | Err e => snd (getitem_xclass_h st c idx dr h) = Err e
  end.
Proof. exact getitem_h_functional_l. Qed.
Print Assumptions heap_model_agrees_with_value_model.

(* the wrapped dataset is unchanged after ANY history of requests (any indices, any draws, returning or raising):
   every tensor that existed before -- in particular every stored sample -- is what it was *)
Theorem wrapped_dataset_unchanged_after_any_history : forall st c reqs h, store_wf st h ->
  (forall a, (a < length h)%nat -> deref (fst (run_history st c reqs h)) a = deref h a) /\
  (forall k, ds_x (ds_of_store st (fst (run_history st c reqs h))) k = ds_x (ds_of_store st h) k).
Proof. intros st c reqs h Hwf. split; [apply store_unchanged_l|apply dataset_unchanged_l]; exact Hwf. Qed.
Print Assumptions wrapped_dataset_unchanged_after_any_history.

(* every request of a history returns -- and the final heap still holds -- what the value-level model computes on the
   dataset as it was BEFORE the history: requests do not influence each other *)
Theorem history_requests_independent : forall st c reqs h, store_wf st h ->
  Forall2 (fun q r => match getitem_xclass (ds_of_store st h) c (fst q) (snd q) with
                      | Ok (s, _) => exists a, r = Ok a /\ deref (fst (run_history st c reqs h)) a = s_x s
                      | Err e => r = Err e
                      end) reqs (snd (run_history st c reqs h)).
Proof. intros st c reqs h Hwf. exact (proj2 (run_history_l st c reqs h Hwf)). Qed.
Print Assumptions history_requests_independent.

(* the same request (same index, same draws: a seeded wrapper) made twice anywhere in a history gives equal tensors *)
Theorem repeated_requests_equal : forall st c reqs h i j q a b, store_wf st h ->
  nth_error reqs i = Some q -> nth_error reqs j = Some q ->
  nth_error (snd (run_history st c reqs h)) i = Some (Ok a) ->
  nth_error (snd (run_history st c reqs h)) j = Some (Ok b) ->
  deref (fst (run_history st c reqs h)) a = deref (fst (run_history st c reqs h)) b.
Proof. exact repeated_requests_equal_l. Qed.
Print Assumptions repeated_requests_equal.

(* partner == idx on any dataset, also one whose getitem_x returns the same tensor object twice (x2 is x): the returned
   tensor is sample idx and the stored tensor is untouched (before the repair: 2*lam*(1-lam)*x, see
   unrepaired_inplace_refuted) *)
Theorem self_partner_on_aliasing_dataset : forall st c idx dr h s rest w, store_wf st h -> draws_ok dr ->
  getitem_xclass (ds_of_store st h) c idx dr = Ok (s, rest) -> s_mix s = Some (idx, w) ->
  exists a, snd (getitem_xclass_h st c idx dr h) = Ok a
    /\ same_tensor (deref (fst (getitem_xclass_h st c idx dr h)) a) (deref h (st_addr st idx))
    /\ deref (fst (getitem_xclass_h st c idx dr h)) (st_addr st idx) = deref h (st_addr st idx).
Proof. exact self_partner_alias_l. Qed.
Print Assumptions self_partner_on_aliasing_dataset.

(* ---------- labels as objects: to_one_hot_vector ALLOCATES (Heap.to_one_hot_vector_h) ---------- *)
(* the label a request returns for a class-id sample (untouched: the one-hot vector) or for any mixed sample is a FRESH
   object: its address did not exist before the request -- it is not the dataset's stored label, not a label returned
   by an earlier request, not a row of any table that outlives the request -- and the heap only grew *)
Theorem returned_label_is_fresh : forall ds c idx dr h h' a s rest,
  getitem_xclass ds c idx dr = Ok (s, rest) ->
  label_request_h ds c idx dr h = Some (h', a) ->
  (s_mix s <> None \/ exists y, ds_cls ds idx = LInt y) ->
  (length h <= a)%nat /\ (a < length h')%nat /\ exists ext, h' = h ++ ext.
Proof. exact returned_label_is_fresh_l. Qed.
Print Assumptions returned_label_is_fresh.

(* that object holds the label vector of the value-level model (so label_convex, untouched_is_one_hot, ... speak about it) *)
Theorem returned_label_object_holds_model_label : forall ds c idx dr h h' a s rest, lstore_wf ds h ->
  getitem_xclass ds c idx dr = Ok (s, rest) ->
  label_request_h ds c idx dr h = Some (h', a) ->
  lderef h' a = s_cls s.
Proof. exact label_request_value_l. Qed.
Print Assumptions returned_label_object_holds_model_label.

(* the label statements never write into an object that existed before the request: whatever a consumer does to labels
   it received earlier (they are its own objects) cannot reach a later request, and a request does not disturb them *)
Theorem label_request_writes_nothing_existing : forall ds c idx dr h h' a,
  label_request_h ds c idx dr h = Some (h', a) ->
  forall b, (b < length h)%nat -> lderef h' b = lderef h b.
Proof. exact label_request_preserves_l. Qed.
Print Assumptions label_request_writes_nothing_existing.

(* two requests served one after the other, the first label still alive: the second label is a different object and
   the first one is what it was *)
Theorem successive_labels_are_distinct_objects : forall ds c i1 d1 i2 d2 h h1 a1 h2 a2 s2 r2,
  label_request_h ds c i1 d1 h = Some (h1, a1) -> (a1 < length h1)%nat ->
  getitem_xclass ds c i2 d2 = Ok (s2, r2) ->
  label_request_h ds c i2 d2 h1 = Some (h2, a2) ->
  (s_mix s2 <> None \/ exists y, ds_cls ds i2 = LInt y) ->
  a1 <> a2 /\ lderef h2 a1 = lderef h1 a1.
Proof. exact successive_labels_distinct_l. Qed.
Print Assumptions successive_labels_are_distinct_objects.

(* ---------- non-vacuity: the premises are satisfiable and the interesting branches are reached ---------- *)
Definition ds_ex : dataset :=
  lit_dataset [([2; 3]%nat, [1; 2; 3; 4; 5; 6]%Q, LInt 0);
               ([3; 2]%nat, [10; 20; 30; 40; 50; 60]%Q, LInt 2);
               ([1; 4]%nat, [7; 8; 9; 10]%Q, LVec [1 # 4; 1 # 4; 1 # 2]%Q)] 3.
Definition c_ex : cfg :=
  {| total_p := 1; cutmix_p := 0; mixup_alpha := Some (4 # 5); cutmix_alpha := None;
     unify := UPadOrCutEnd; seed := Some 5; with_ctx := true |}.
Definition dr_ex : list draw := [DUnit (1 # 3); DInt 3 1; DBeta (4 # 5) (1 # 4)].
(* a generator that depends on its seed argument only *)
Definition G_ex : oracle := fun _ sd => match sd with Some 5 => dr_ex | _ => [DUnit (9 # 10)] end.

Example premises_satisfiable :
  labels_ok ds_ex /\ draws_ok dr_ex /\ seeded_deterministic G_ex /\ (1 <= total_p c_ex)%Q.
Proof.
  split; [|split; [|split]].
  - intro k. destruct k as [|[|[|k]]]; simpl; try lia.
    + split; [reflexivity|]. split; [repeat constructor; unfold Qle; simpl; lia|vm_compute; reflexivity].
    + destruct k; simpl; lia.
  - unfold dr_ex. repeat constructor; simpl; try lia; unfold Qle, Qlt; simpl; lia.
  - intros k k' s. reflexivity.
  - unfold Qle; simpl; lia.
Qed.

(* sample 0 (2x3) mixed with sample 1 (3x2): the partner is cut to 2 rows and padded to 3 columns *)
Example getitem_example :
  exists s, getitem_xclass ds_ex c_ex 0 dr_ex = Ok (s, []) /\
    s_mix s = Some (1%nat, 1 # 4) /\ shape (s_x s) = [2; 3]%nat /\
    Forall2 Qeq (flatten (s_x s)) [31 # 4; 31 # 2; 3 # 4; 47 # 2; 125 # 4; 3 # 2]%Q /\
    Forall2 Qeq (s_cls s) [1 # 4; 0; 3 # 4]%Q.
Proof.
  eexists. split; [vm_compute; reflexivity|]. split; [reflexivity|]. split; [reflexivity|].
  split; vm_compute; repeat constructor.
Qed.

Example unify_example :
  option_map flatten (pad_or_cut_end (ds_x ds_ex 0) (ds_x ds_ex 1)) = Some [10; 20; 0; 30; 40; 0]%Q /\
  option_map flatten (pad_or_cut_end (ds_x ds_ex 1) (ds_x ds_ex 2)) = Some [7; 8; 0; 0; 0; 0]%Q.
Proof. split; vm_compute; reflexivity. Qed.

(* "class index x": the label is first loaded on its own, then overwritten by the fused call's label *)
Example modewrapper_example :
  plan [TClass; TIndex; TX] = [(FI TClass, Single 0); (FI TIndex, Single 1); (FIXClass, Fused 2 0)]%nat /\
  exists s calls, getitem_xclass ds_ex c_ex 0 dr_ex = Ok (s, []) /\
    mw_getitem ds_ex c_ex G_ex [TClass; TIndex; TX] 0 = Ok ([VCls (s_cls s); VIndex 0; VX (s_x s)], calls) /\
    length calls = 2%nat.
Proof.
  split; [reflexivity|]. eexists. eexists. split; [vm_compute; reflexivity|]. split; [vm_compute; reflexivity|reflexivity].
Qed.

(* an untouched sample *)
Example untouched_example :
  exists s, getitem_xclass ds_ex {| total_p := 1 # 2; cutmix_p := 0; mixup_alpha := Some 1%Q; cutmix_alpha := None;
                                     unify := UNone; seed := None; with_ctx := false |} 1 [DUnit (3 # 4)] = Ok (s, []) /\
            s_mix s = None /\ s_cls s = [0; 0; 1]%Q.
Proof. eexists. split; [vm_compute; reflexivity|]. split; reflexivity. Qed.

(* the context of the example request: only loads of sample 0, although sample 1 was loaded as the partner *)
Example ctx_example :
  exists s, getitem_xclass ds_ex c_ex 0 dr_ex = Ok (s, []) /\
    s_loads s = [LdX 0; LdClass 0; LdX 1; LdClass 1] /\ s_ctx s = [LdX 0; LdClass 0].
Proof. eexists. split; [vm_compute; reflexivity|]. split; reflexivity. Qed.

(* before the repair the partner was loaded with the request's dictionary: that context does not describe sample 0 *)
Example unrepaired_ctx_refuted :
  ~ ctx_describes 0 {| s_x := ds_x ds_ex 0; s_cls := []; s_mix := Some (1%nat, 1 # 4);
                       s_loads := [LdX 0; LdClass 0; LdX 1; LdClass 1]; s_ctx := [LdX 0; LdClass 0; LdX 1; LdClass 1] |}.
Proof.
  unfold ctx_describes. simpl. intro H. inversion H as [|? ? _ Ha]. inversion Ha as [|? ? _ Hb].
  inversion Hb as [|? ? E _]. simpl in E. discriminate.
Qed.

(* a sample mixed with itself *)
Example self_partner_example :
  exists s, getitem_xclass ds_ex c_ex 0 [DUnit (1 # 3); DInt 3 0; DBeta (4 # 5) (1 # 4)] = Ok (s, []) /\
    s_mix s = Some (0%nat, 1 # 4) /\ Forall2 Qeq (flatten (s_x s)) [1; 2; 3; 4; 5; 6]%Q /\ Forall2 Qeq (s_cls s) [1; 0; 0]%Q.
Proof. eexists. split; [vm_compute; reflexivity|]. split; [reflexivity|]. split; vm_compute; repeat constructor. Qed.

(* ---------- aliasing examples ---------- *)
(* a dataset that hands out its stored tensors: samples [1;2] and [10;20] at addresses 0 and 1 *)
Definition h_ex : heap := [of_flat [2]%nat [1; 2]%Q; of_flat [2]%nat [10; 20]%Q].
Definition st_ex : store :=
  {| st_len := 2; st_addr := fun k => Nat.min k 1; st_alias := true; st_cls := fun k => LInt (Z.of_nat (Nat.min k 1)); st_ncls := 2 |}.
Definition c_al : cfg :=
  {| total_p := 1; cutmix_p := 0; mixup_alpha := Some 1%Q; cutmix_alpha := None; unify := UNone; seed := Some 0; with_ctx := false |}.
Definition dr_self : list draw := [DUnit (1 # 3); DInt 2 0; DBeta 1 (1 # 4)].
Definition dr_other : list draw := [DUnit (1 # 3); DInt 2 1; DBeta 1 (1 # 4)].

Example aliasing_premises_satisfiable : store_wf st_ex h_ex /\ draws_ok dr_self /\ draws_ok dr_other.
Proof.
  split; [|split].
  - intro k. simpl. lia.
  - unfold dr_self. repeat constructor; simpl; try lia; unfold Qle, Qlt; simpl; lia.
  - unfold dr_other. repeat constructor; simpl; try lia; unfold Qle, Qlt; simpl; lia.
Qed.

(* the same request three times with another one in between: the results are new tensors (addresses 2.., the store has
   0 and 1), the two mixes of sample 0 with sample 1 are equal, the self-mix is sample 0, the store is unchanged *)
Example aliasing_history_example :
  let '(h', rs) := run_history st_ex c_al [(0%nat, dr_other); (0%nat, dr_self); (0%nat, dr_other)] h_ex in
  rs = [Ok 2%nat; Ok 4%nat; Ok 6%nat] /\
  map flatten (firstn 2 h') = [[1; 2]%Q; [10; 20]%Q] /\
  Forall2 Qeq (flatten (deref h' 2)) [31 # 4; 31 # 2]%Q /\ Forall2 Qeq (flatten (deref h' 6)) [31 # 4; 31 # 2]%Q /\
  Forall2 Qeq (flatten (deref h' 4)) [1; 2]%Q.
Proof. vm_compute. repeat split; repeat constructor. Qed.

(* BEFORE the repair (x.mul_(x_lamb).add_(x2.mul_(1. - x_lamb)) on what the dataset returned): with the stored tensors
   handed out, partner == idx gives 2*lam*(1-lam)*x = 3/8*x and overwrites the stored sample; another partner is
   overwritten with (1-lam)*x2 and sample idx with the mix *)
Example unrepaired_inplace_refuted :
  (let '(h', a) := h_mix_inplace h_ex (1 # 4) 0 0 in
   a = 0%nat /\ Forall2 Qeq (flatten (deref h' 0)) [3 # 8; 3 # 4]%Q) /\
  (let '(h', a) := h_mix_inplace h_ex (1 # 4) 0 1 in
   a = 0%nat /\ Forall2 Qeq (flatten (deref h' 0)) [31 # 4; 31 # 2]%Q /\ Forall2 Qeq (flatten (deref h' 1)) [15 # 2; 15]%Q).
Proof. vm_compute. repeat split; repeat constructor. Qed.


(* labels as objects: the stored labels of ds_ex at addresses 0..2 (class ids are not tensors); sample 0 (class id 0)
   untouched -> a new object at address 3 holding [1;0;0]; mixed with sample 1 -> the new object at address 7 *)
Definition lh_ex : lheap := [[]; []; [1 # 4; 1 # 4; 1 # 2]%Q].
Example label_heap_premises_satisfiable : lstore_wf ds_ex lh_ex.
Proof.
  intros k v H. destruct k as [|[|[|k]]]; cbn in H; try discriminate.
  - inversion H. split; [cbn; lia|reflexivity].
  - destruct k; cbn in H; discriminate.
Qed.
Example label_heap_example :
  label_request_h ds_ex c_ex 0 [DUnit (1 # 3); DInt 3 1; DBeta (4 # 5) (1 # 4)] lh_ex
    = Some (lh_ex ++ [[1; 0; 0]; [0; 0; 1]; [1 * (1 # 4); 0 * (1 # 4); 0 * (1 # 4)];
                      [0 * (1 - (1 # 4)); 0 * (1 - (1 # 4)); 1 * (1 - (1 # 4))];
                      [1 * (1 # 4) + 0 * (1 - (1 # 4)); 0 * (1 # 4) + 0 * (1 - (1 # 4)); 0 * (1 # 4) + 1 * (1 - (1 # 4))]]%Q, 7%nat)
  /\ option_map snd (label_request_h ds_ex {| total_p := 1 # 2; cutmix_p := 0; mixup_alpha := Some (4 # 5); cutmix_alpha := None;
                                    unify := UPadOrCutEnd; seed := Some 5; with_ctx := true |} 0 [DUnit (9 # 10)] lh_ex) = Some 3%nat
  /\ option_map snd (label_request_h ds_ex {| total_p := 1 # 2; cutmix_p := 0; mixup_alpha := Some (4 # 5); cutmix_alpha := None;
                                    unify := UPadOrCutEnd; seed := Some 5; with_ctx := true |} 2 [DUnit (9 # 10)] lh_ex) = Some 2%nat.
Proof. split; [|split]; vm_compute; reflexivity. Qed.
