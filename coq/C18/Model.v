(* Implementation model of
     kappadata/collators/base/kd_collator_base.py      (KDCollatorBase._call_impl)
     kappadata/collators/base/kd_compose_collator.py   (KDComposeCollator.__call__)
     kappadata/collators/base/kd_single_collator.py    (KDSingleCollator.__call__)
     kappadata/collators/base/kd_single_collator_wrapper.py (KDSingleCollatorWrapper.__call__, repaired)
     kappadata/collators/pad_sequences_collator.py     (PadSequencesCollator.collate, repaired)
   as they are with the patches /verif/fixes/C18_*.patch applied.
   Mirrors the code statement by statement; no proofs here.

   Data universe.  One sample as ModeWrapper returns it is a list of items in
   the order of the dataset mode (a single item is a bare value in Python and a
   one-element list here) plus, with return_ctx, a per-sample context dict.
   An item is a scalar (Python int / float / 0-d tensor) or a tensor of shape
   (L, *trailing): a sequence of L steps, every step one block of
   prod(trailing) numbers (stored flattened, row-major); a 1-d tensor has
   trailing = [] and one number per step.  Every tensor carries its dtype.
   Numbers are integers (the harness only uses integral values, also for the
   float dtypes, so that they are exact).
   Collation turns a column of scalars into a vector and a column of equally
   long sequences of one dtype and trailing shape into a (B, L, *trailing)
   tensor (torch.stack); ragged columns raise. *)
From Coq Require Import ZArith List Bool.
Import ListNotations.
Open Scope Z_scope.

Inductive cmode := MNone | MBefore | MAfter.          (* default_collate_mode *)

Inductive dtype := DI64 | DI32 | DF32 | DF64.
Definition dtype_eqb (a b : dtype) : bool :=
  match a, b with DI64, DI64 | DI32, DI32 | DF32, DF32 | DF64, DF64 => true | _, _ => false end.
Fixpoint shape_eqb (a b : list nat) : bool :=
  match a, b with
  | [], [] => true
  | x :: a', y :: b' => Nat.eqb x y && shape_eqb a' b'
  | _, _ => false
  end.
(* one step of a sequence: the prod(trailing) numbers of tensor[i], flattened *)
Definition elem := list Z.
Definition numel (tr : list nat) : nat := fold_right Nat.mul 1%nat tr.

Inductive field :=
| FScalar (d : dtype) (z : Z)                               (* Python int (DI64) / float (DF64) / 0-d tensor *)
| FSeq (d : dtype) (tr : list nat) (steps : list elem).     (* tensor of shape (length steps, *tr) *)
Inductive cfield :=
| CVec (d : dtype) (l : list Z)                             (* shape (B,) *)
| CMat (d : dtype) (tr : list nat) (rows : list (list elem)). (* shape (B, L, *tr) *)
Definition sctx := list (Z * Z).          (* per-sample context: key -> value, insertion order *)
Definition bctx := list (Z * list Z).     (* batched context: key -> values over the batch *)

(* the Python object bound to the variable `batch` at the various stages *)
Inductive batch :=
| BRaw (l : list (list field * sctx))     (* [(items, ctx), ...] as ModeWrapper(return_ctx=True) yields *)
| BItems (l : list (list field))          (* [items, ...] *)
| BColl (c : list cfield)                 (* default-collated, one entry per mode item *)
| BCollCtx (c : list cfield) (x : bctx).  (* default_collate of BRaw: [collated items, collated ctx] *)

Fixpoint map_opt {A B} (f : A -> option B) (l : list A) : option (list B) :=
  match l with
  | [] => Some []
  | a :: l' => match f a, map_opt f l' with Some b, Some r => Some (b :: r) | _, _ => None end
  end.

(* the members of one column must agree in dtype (and trailing shape) with the first *)
Definition get_scalar (d : dtype) (f : field) : option Z :=
  match f with FScalar d' z => if dtype_eqb d d' then Some z else None | _ => None end.
Definition get_seq (d : dtype) (tr : list nat) (f : field) : option (list elem) :=
  match f with
  | FSeq d' tr' s => if dtype_eqb d d' && shape_eqb tr tr' then Some s else None
  | _ => None
  end.

Definition same_len {A} (rows : list (list A)) : bool :=
  match rows with [] => true | r :: rs => forallb (fun r' => Nat.eqb (length r') (length r)) rs end.

(* torch.utils.data.default_collate on one column (cited behaviour) *)
Definition collate_col (col : list field) : option cfield :=
  match col with
  | [] => None
  | FScalar d _ :: _ => option_map (CVec d) (map_opt (get_scalar d) col)
  | FSeq d tr _ :: _ => match map_opt (get_seq d tr) col with
                        | Some rows => if same_len rows then Some (CMat d tr rows) else None
                        | None => None
                        end
  end.

Definition column (i : nat) (l : list (list field)) : option (list field) :=
  map_opt (fun s => nth_error s i) l.

(* default_collate of a list of item tuples: equal sizes required, then column-wise *)
Definition collate_items (l : list (list field)) : option (list cfield) :=
  match l with
  | [] => None
  | s0 :: _ =>
      if forallb (fun s => Nat.eqb (length s) (length s0)) l
      then map_opt (fun i => match column i l with Some c => collate_col c | None => None end)
                   (seq 0 (length s0))
      else None
  end.

Fixpoint lookup (k : Z) (c : sctx) : option Z :=
  match c with [] => None | (k', v) :: c' => if k =? k' then Some v else lookup k c' end.

(* default_collate of a sequence of dicts: keys (and their order) of the first,
   KeyError if a later sample lacks one *)
Definition collate_ctx (l : list sctx) : option bctx :=
  match l with
  | [] => None
  | c0 :: _ => map_opt (fun kv => option_map (fun vs => (fst kv, vs)) (map_opt (lookup (fst kv)) l)) c0
  end.

Definition default_collate (b : batch) : option batch :=
  match b with
  | BRaw l => match collate_items (map fst l), collate_ctx (map snd l) with
              | Some c, Some x => Some (BCollCtx c x)
              | _, _ => None
              end
  | BItems l => option_map BColl (collate_items l)
  | _ => None   (* collating a collated batch is outside the model's data universe *)
  end.

(* a member collator: its default_collate_mode and its collate(batch, dataset_mode, ctx);
   the ctx dict is mutable in Python, so the function returns the ctx as well;
   None = the member raised *)
Record member := { mmode : cmode; mcollate : batch -> bctx -> option (batch * bctx) }.

Inductive op := DefaultCollate | UnpackCtx | SplitCtx | CollateCtx | Call (k : nat).
Inductive err := EAssert | ECollate | EUnpack | EMember.
Inductive result := Ok (b : batch) (x : option bctx) | Fail (e : err).

Definition is_none (m : cmode) := match m with MNone => true | _ => false end.
Definition is_before (m : cmode) := match m with MBefore => true | _ => false end.
Definition is_after (m : cmode) := match m with MAfter => true | _ => false end.

Definition emit (o : list op) (r : list op * result) : list op * result := (o ++ fst r, snd r).

(* `if collator.default_collate_mode == "before" and not called_default_collate: ...`
   -> operations, then the raised error or the new (called_default_collate, batch, ctx).
   [gx] = the unpacking is guarded by `not removed_ctx_from_batch` (true in the repaired code) *)
Definition step_before (gx rc : bool) (m : cmode) (called removed : bool) (b : batch) (x : bctx)
  : list op * (err + bool * batch * bctx) :=
  if is_before m && negb called then
    match default_collate b with
    | None => ([DefaultCollate], inl ECollate)
    | Some b' =>
        if rc && (negb gx || negb removed) then
          match b' with
          | BCollCtx c x' => ([DefaultCollate; UnpackCtx], inr (true, BColl c, x'))
          | _ => ([DefaultCollate; UnpackCtx], inl EUnpack)
          end
        else ([DefaultCollate], inr (true, b', x))
    end
  else ([], inr (called, b, x)).

(* `if not called_default_collate and return_ctx and not removed_ctx_from_batch: ...`
   -> operations, then the raised error or the new (removed_ctx_from_batch, batch, ctx) *)
Definition step_split (rc called removed : bool) (b : batch) (x : bctx)
  : list op * (err + bool * batch * bctx) :=
  if negb called && rc && negb removed then
    match b with
    | BRaw l => match collate_ctx (map snd l) with
                | Some x' => ([SplitCtx; CollateCtx], inr (true, BItems (map fst l), x'))
                | None => ([SplitCtx; CollateCtx], inl ECollate)
                end
    | _ => ([SplitCtx], inl EUnpack)
    end
  else ([], inr (removed, b, x)).

(* the body of `for collator in collators` of _call_impl.
   [fx] = the flag is set after an "after" collation (true in the repaired code, D22) *)
Fixpoint loop_gen (fx gx : bool) (rc : bool) (k : nat) (ms : list member)
         (called removed : bool) (b : batch) (x : bctx) {struct ms} : list op * result :=
  match ms with
  | [] => ([], Ok b (if rc then Some x else None))
  | m :: ms' =>
      (* if collator.default_collate_mode is None: assert not called_default_collate *)
      if is_none (mmode m) && called then ([], Fail EAssert) else
      match step_before gx rc (mmode m) called removed b x with
      | (o1, inl e) => (o1, Fail e)
      | (o1, inr (called1, b1, x1)) =>
          match step_split rc called1 removed b1 x1 with
          | (o2, inl e) => (o1 ++ o2, Fail e)
          | (o2, inr (removed2, b2, x2)) =>
              (* batch = collator.collate(batch, dataset_mode, ctx) *)
              match mcollate m b2 x2 with
              | None => (o1 ++ o2 ++ [Call k], Fail EMember)
              | Some (b3, x3) =>
                  if is_after (mmode m) then
                    (* assert not called_default_collate; batch = default_collate(batch) *)
                    if called1 then (o1 ++ o2 ++ [Call k], Fail EAssert) else
                    match default_collate b3 with
                    | None => (o1 ++ o2 ++ [Call k; DefaultCollate], Fail ECollate)
                    | Some b4 =>
                        emit (o1 ++ o2 ++ [Call k; DefaultCollate])
                             (loop_gen fx gx rc (S k) ms' fx removed2 b4 x3)
                    end
                  else emit (o1 ++ o2 ++ [Call k]) (loop_gen fx gx rc (S k) ms' called1 removed2 b3 x3)
              end
          end
      end
  end.

Definition call_impl_gen (fx gx rc : bool) (ms : list member) (b : batch) : list op * result :=
  loop_gen fx gx rc 0 ms false false b [].

(* the repaired code *)
Definition call_impl := call_impl_gen true true.
(* the code before C18_after_flag.patch / C18_before_after_ctx_split.patch *)
Definition call_impl_old := call_impl_gen false false.

(* the three entry points *)
Definition compose_call (rc : bool) (ms : list member) (b : batch) : list op * result :=
  match ms with [] => ([], Fail EAssert) | _ => call_impl rc ms b end.   (* ctor: len(collators) > 0 *)
Definition single_call (rc : bool) (m : member) (b : batch) := call_impl rc [m] b.
Definition wrapper_call (rc : bool) (m : member) (b : batch) := call_impl rc [m] b.

(* ---------------------------------------------------------------------- *)
(* PadSequencesCollator                                                     *)

(* max(len(seq) for seq in sequences): the number of STEPS (size of dimension 0), not of numbers *)
Definition max_len {A} (rows : list (list A)) : nat :=
  fold_right (fun r a => Nat.max (length r) a) 0%nat rows.
Definition pad_row {A} (z : A) (M : nat) (r : list A) : list A := r ++ repeat z (M - length r).
(* the padding step: a block of prod(trailing) zeros *)
Definition zero_elem (tr : list nat) : elem := repeat 0 (numel tr).
(* torch.nn.utils.rnn.pad_sequence(batch_first=True) on tensors of shape (L_i, *tr) (cited behaviour):
   result (B, max L_i, *tr), row i = sequence i followed by zero steps *)
Definition pad_sequence (tr : list nat) (rows : list (list elem)) : list (list elem) :=
  map (pad_row (zero_elem tr) (max_len rows)) rows.

(* `if torch.is_tensor(first_item) and first_item.ndim > 0: pad_sequence(...) else default_collate(items)` *)
Definition pad_col (col : list field) : option cfield :=
  match col with
  | [] => None
  | FSeq d tr _ :: _ => option_map (fun rows => CMat d tr (pad_sequence tr rows)) (map_opt (get_seq d tr) col)
  | FScalar _ _ :: _ => collate_col col
  end.

(* `for i in range(len(batch[0]))`; the bare single-item branch is the case of one column *)
Definition pad_items (l : list (list field)) : option (list cfield) :=
  match l with
  | [] => None
  | s0 :: _ => map_opt (fun i => match column i l with Some c => pad_col c | None => None end)
                       (seq 0 (length s0))
  end.

Definition pad_collate (b : batch) : option batch :=
  match b with
  | BRaw l => match pad_items (map fst l), collate_ctx (map snd l) with   (* (collate(data), collate(contexts)) *)
              | Some c, Some x => Some (BCollCtx c x)
              | _, _ => None
              end
  | BItems l => option_map BColl (pad_items l)
  | _ => None
  end.

Definition pad_member : member :=
  {| mmode := MNone; mcollate := fun b x => option_map (fun b' => (b', x)) (pad_collate b) |}.

(* ---------------------------------------------------------------------- *)
(* The control skeleton of _call_impl alone: the state machine over the members'
   modes and the two flags, emitting the abstract operations; second component =
   no assertion fired.  (Proofs.v shows every successful run of [loop_gen true true]
   emits exactly this trace.) *)
Fixpoint ctl (rc : bool) (k : nat) (ms : list cmode) (called removed : bool) {struct ms} : list op * bool :=
  match ms with
  | [] => ([], true)
  | m :: ms' =>
      if is_none m && called then ([], false) else
      let do_before := is_before m && negb called in
      let o1 := if do_before then (if rc && negb removed then [DefaultCollate; UnpackCtx] else [DefaultCollate]) else [] in
      let called1 := called || do_before in
      let do_split := negb called1 && rc && negb removed in
      let o2 := if do_split then [SplitCtx; CollateCtx] else [] in
      let removed2 := removed || do_split in
      if is_after m then
        if called1 then (o1 ++ o2 ++ [Call k], false)
        else let r := ctl rc (S k) ms' true removed2 in ((o1 ++ o2 ++ [Call k; DefaultCollate]) ++ fst r, snd r)
      else let r := ctl rc (S k) ms' called1 removed2 in ((o1 ++ o2 ++ [Call k]) ++ fst r, snd r)
  end.

(* ---------------------------------------------------------------------- *)
(* Entry points as OBJECTS built around SHARED member objects.
   A member collator object carries the attributes dataset_mode / return_ctx it was constructed with
   (None, None unless it is meant to be called standalone) next to its behaviour.  An entry point
   (KDComposeCollator / KDSingleCollatorWrapper) stores ITS OWN dataset_mode / return_ctx and REFERENCES to
   the member objects; its __call__ hands its own configuration to _call_impl.  A KDSingleCollator called
   standalone reads its own attributes.  A dataset mode is represented by a number (its identity is all that
   matters here); what a call hands to the members as `dataset_mode` is part of its outcome. *)
Record cfg := { c_mode : nat; c_rc : bool }.
Record mobj := { mo_cfg : option cfg; mo_impl : member }.
Definition heap := list mobj.
Inductive ekind := EKCompose | EKWrapper | EKSingle.
Record epoint := { ep_kind : ekind; ep_cfg : cfg; ep_ids : list nat }.

Definition dummy_member : member := {| mmode := MNone; mcollate := fun _ _ => None |}.
Definition impl_at (h : heap) (i : nat) : member :=
  match nth_error h i with Some o => mo_impl o | None => dummy_member end.
Definition cfg_at (h : heap) (i : nat) : option cfg :=
  match nth_error h i with Some o => mo_cfg o | None => None end.
Fixpoint set_cfg (i : nat) (c : option cfg) (h : heap) : heap :=
  match h, i with
  | [], _ => []
  | o :: r, O => {| mo_cfg := c; mo_impl := mo_impl o |} :: r
  | o :: r, S i' => o :: set_cfg i' c r
  end.

(* outcome of a call: the dataset_mode handed to the members, the operations, the result *)
Definition call_out := (nat * (list op * result))%type.
Definition run_cfg (c : cfg) (ms : list member) (b : batch) : call_out := (c_mode c, call_impl (c_rc c) ms b).
Definition fail_out : call_out := (0%nat, ([], Fail EAssert)).

(* [wr] = false: the code that exists.  [wr] = true, for contrast only: a wrapper whose constructor writes its
   configuration INTO the member (`collator.dataset_mode = ...`) and whose __call__ delegates to the member *)
Definition ep_of (k : ekind) (c : cfg) (ids : list nat) : epoint := {| ep_kind := k; ep_cfg := c; ep_ids := ids |}.
Definition ep_build_gen (wr : bool) (h : heap) (k : ekind) (c : cfg) (ids : list nat) : heap * epoint :=
  match k, ids with
  | EKWrapper, [i] => ((if wr then set_cfg i (Some c) h else h), ep_of k c ids)
  | _, _ => (h, ep_of k c ids)
  end.
Definition ep_call_gen (wr : bool) (h : heap) (e : epoint) (b : batch) : call_out :=
  match ep_kind e, ep_ids e with
  | EKCompose, _ :: _ => run_cfg (ep_cfg e) (map (impl_at h) (ep_ids e)) b
  | EKWrapper, [i] => if wr then match cfg_at h i with Some c => run_cfg c [impl_at h i] b | None => fail_out end
                      else run_cfg (ep_cfg e) [impl_at h i] b
  | EKSingle, [i] => match cfg_at h i with Some c => run_cfg c [impl_at h i] b | None => fail_out end
  | _, _ => fail_out
  end.

(* a construction / call history on one heap of member objects *)
Inductive hop := HBuild (k : ekind) (c : cfg) (ids : list nat) | HCall (e : nat) (b : batch).
Fixpoint run_hist_gen (wr : bool) (h : heap) (eps : list epoint) (ops : list hop) : heap * list call_out :=
  match ops with
  | [] => (h, [])
  | HBuild k c ids :: r =>
      let '(h', e) := ep_build_gen wr h k c ids in run_hist_gen wr h' (eps ++ [e]) r
  | HCall j b :: r =>
      let o := match nth_error eps j with Some e => ep_call_gen wr h e b | None => fail_out end in
      let '(h', outs) := run_hist_gen wr h eps r in (h', o :: outs)
  end.
Definition ep_call := ep_call_gen false.
Definition run_hist := run_hist_gen false.

(* the same calls, each answered by a FRESH configuration: the entry point as its own constructor arguments
   describe it, over the member objects as they were before the history began *)
Fixpoint calls_fresh (h0 : heap) (eps : list epoint) (ops : list hop) : list call_out :=
  match ops with
  | [] => []
  | HBuild k c ids :: r => calls_fresh h0 (eps ++ [ep_of k c ids]) r
  | HCall j b :: r =>
      (match nth_error eps j with Some e => ep_call h0 e b | None => fail_out end) :: calls_fresh h0 eps r
  end.
