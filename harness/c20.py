"""C20 — copy_folder_from_global_to_local / copy_imagefolder_from_global_to_local are crash-safe and idempotent.

The REAL functions run in a throw-away sandbox directory.  The file-system-modifying primitives they reach
(os.mkdir / os.rmdir / os.unlink / os.rename / open(.., "w"|"wb") / file.write / os.sendfile, including the
ones inside pathlib, shutil.copytree, shutil.rmtree and ZipFile.extractall) are wrapped: every call that
succeeds on a path below the sandbox is recorded, and right after the k-th one a BaseException is raised --
the process "dies" between two operations.  A case is a history: some killed invocations, then two
uninterrupted ones.  After every invocation the sandbox is snapshotted.  The recorded operation sequences,
snapshots and results are compared with the Coq model (plan / run / crash prefix) and the independent Python
oracle below states the property on the snapshots alone.

Thorough tier adds real SIGKILLs at system-call granularity: a child interpreter running the real function
under `strace -e inject=<syscall>:signal=SIGKILL:when=<n>` is killed on entry to its n-th mkdir / openat /
write / sendfile / unlink / rmdir / rename below the destination; a fresh process then runs the function
to completion."""
import json
import os
import random
import shutil
import subprocess
import sys
import tempfile
import zipfile

from .common import C, Nat, Opt, Raw, Rec, coq

ID = "C20"
COQ_FILES = ["C20/Model.v", "C20/Spec.v", "C20/Check.v", "C20/Proofs.v", "C20/Property.v"]
COQ_PRELUDE = ("From Coq Require Import ZArith List String Bool.\nImport ListNotations.\n"
               "From KD Require Import C20.Model C20.Spec C20.Check.\nOpen Scope Z_scope.\n")
COQ_CHECK = "check"
COQ_CASE_TYPE = "case_t"
SHARD = 60
TRUSTED = [
    "hand-written model coq/C20/Model.v of copy_folder_from_global_to_local, copy_imagefolder_from_global_to_local, "
    "create_folder_with_file, delete_folder_content, folder_contains_mostly_zips, run_unzip_jobs(num_workers<=1) with "
    "both C20 patches applied; tied to KD_REPO by this run's comparison of operation traces, trees and results",
    "cited behaviour of the primitives the code calls: Path.mkdir(parents, exist_ok), shutil.copytree(dirs_exist_ok) "
    "(pre-order, copy2 = create + one write, nothing written for an empty file), shutil.rmtree (post-order), "
    "ZipFile.extractall (makedirs of missing parents, then the member), os.rename of a directory is atomic -- the "
    "Python-level sequence is exercised against the real stdlib on every case, atomicity of rename(2) is assumed",
    "process death only: what a completed system call wrote is there afterwards (no power loss / fsync reasoning); "
    "kills inside one system call are not modelled beyond create-then-write of a file",
    "path arithmetic (relative_path, with_suffix('.zip'), stripping of a '.zip' relative_path in image_folder.py) is "
    "done by the harness, the model receives dst_path",
    "num_workers >= 2 (joblib processes): only the final tree and result are checked, the workers' operations are not "
    "traced and the model treats the extraction as sequential",
    "harness/c20.py: Tracer (operation wrappers), sandbox construction, snapshotting; thorough tier: strace 6.1 fault "
    "injection delivers SIGKILL on syscall entry (checked on every run: the call is absent afterwards); there the "
    "kappadata package __init__ is bypassed (only kappadata.copying.* and kappadata.utils.logging are loaded from the "
    "real files) to keep one kill below a second; strace cases are checked by the Python oracle only",
    "Check.complete_copyb is proved sound (complete_copyb_sound); Check.spec_step is the executable reading of the "
    "theorems on the implementation's observations",
]
ASSUMPTIONS = [
    "before the first call the destination either does not exist (and the sibling name <dst>.autocopy_tmp is unused) "
    "or is a user-provided folder without autocopy_start.txt; the same arguments are used by every call of a history",
    "the source does not change during a history; sibling names / zip member names are distinct, no zip member is "
    "both a file and a directory prefix, nothing directly inside the source is named autocopy_start.txt / "
    "autocopy_end.txt (src_ok)",
    "one process at a time works on a destination (no concurrent copies); a directory scan returns every entry",
    "a folder of zips yields the union of the archives' members; other files in it (README) are not copied (by design "
    "of folder_contains_mostly_zips)",
]
ALLOWED_AXIOMS = []
RULE = ("sources: random trees (depth <= 3, empty files, empty directories) as plain folder / single zip / folder of 1-3 "
        "zips (+ README), for both functions, relative_path none / 'ds' / 'a/ds' (image: also 'ds.zip'), local root "
        "present or absent, destination fresh or a manual folder; histories: EVERY kill point k of the first call for "
        "directed and sampled configurations, every kill point of a second call over an interrupted first one (the "
        "wipe), random 2-3 successive kills; always followed by two uninterrupted calls; non-trivial = at least one "
        "killed invocation that had performed an operation; distinct by (function, format, rel, init, kill points, "
        "state class at each kill)")

SNAME = "autocopy_start.txt"
ENAME = "autocopy_end.txt"
START_TEXT = b"this file indicates that an attempt to copy the dataset automatically was started"
END_TEXT = b"this file indicates that copying the dataset automatically was successful"


# ---------------------------------------------------------------------------
# the operation tracer
# ---------------------------------------------------------------------------
class Kill(BaseException):
    """the simulated death of the process"""


class Tracer:
    """wraps the file-system-modifying primitives; records every successful one on a path below root; raises Kill
    right after the kill_at-th recorded operation"""
    P1 = [("mkdir", "mkdir"), ("rmdir", "rmdir"), ("unlink", "unlink"), ("remove", "unlink"), ("truncate", "truncate")]
    P2 = [("rename", "rename"), ("replace", "rename"), ("symlink", "symlink"), ("link", "link")]

    def __init__(self, root, kill_at=None):
        self.root = os.path.realpath(root)
        self.kill_at = kill_at
        self.ops = []
        self.dead = False
        self.zombie = []
        self._saved = {}

    def _rel(self, p, dir_fd=None):
        p = os.fspath(p)
        if isinstance(p, bytes):
            p = os.fsdecode(p)
        if dir_fd is not None and not os.path.isabs(p):
            p = os.path.join(os.readlink(f"/proc/self/fd/{dir_fd}"), p)
        p = os.path.abspath(p)
        if p == self.root:
            return []
        if p.startswith(self.root + os.sep):
            return p[len(self.root) + 1:].split(os.sep)
        return None

    def _pre(self, what):
        if self.dead:
            self.zombie.append(what)
            raise Kill("operation after death: %r" % (what,))

    def _post(self, op):
        self.ops.append(op)
        if self.kill_at is not None and len(self.ops) >= self.kill_at:
            self.dead = True
            raise Kill(f"killed after operation {len(self.ops)}")

    def _wrap1(self, name, tag):
        real = self._saved[name]

        def w(path, *a, dir_fd=None, **kw):
            rel = self._rel(path, dir_fd)
            if dir_fd is not None:
                kw["dir_fd"] = dir_fd
            if rel is None:
                return real(path, *a, **kw)
            self._pre([tag, rel])
            r = real(path, *a, **kw)
            self._post([tag, rel])
            return r
        return w

    def _wrap2(self, name, tag):
        real = self._saved[name]

        def w(src, dst, *a, **kw):
            r1, r2 = self._rel(src), self._rel(dst)
            if r1 is None and r2 is None:
                return real(src, dst, *a, **kw)
            self._pre([tag, r1, r2])
            r = real(src, dst, *a, **kw)
            self._post([tag, r1, r2])
            return r
        return w

    def _open(self, file, mode="r", *a, **kw):
        real = self._saved["open"]
        if isinstance(file, int) or not any(ch in mode for ch in "wax+"):
            return real(file, mode, *a, **kw)
        rel = self._rel(file)
        if rel is None:
            return real(file, mode, *a, **kw)
        self._pre(["create", rel])
        f = real(file, mode, *a, **kw)
        try:
            self._post(["create", rel])
        except Kill:
            f.close()
            raise
        return _FileProxy(self, f, rel)

    def _sendfile(self, out_fd, in_fd, offset, count, *a, **kw):
        real = self._saved["sendfile"]
        rel = self._rel(os.readlink(f"/proc/self/fd/{out_fd}"))
        if rel is None:
            return real(out_fd, in_fd, offset, count, *a, **kw)
        self._pre(["write", rel])
        n = real(out_fd, in_fd, offset, count, *a, **kw)
        if n > 0:
            self._post(["write", rel, list(os.pread(in_fd, n, offset))])
        return n

    def __enter__(self):
        import builtins
        import io
        for n, _ in self.P1 + self.P2:
            self._saved[n] = getattr(os, n)
        self._saved["sendfile"] = os.sendfile
        self._saved["open"] = builtins.open
        for n, tag in self.P1:
            setattr(os, n, self._wrap1(n, tag))
        for n, tag in self.P2:
            setattr(os, n, self._wrap2(n, tag))
        os.sendfile = self._sendfile
        builtins.open = self._open
        io.open = self._open
        return self

    def __exit__(self, *exc):
        import builtins
        import io
        for n, f in self._saved.items():
            if n == "open":
                builtins.open = f
                io.open = f
            else:
                setattr(os, n, f)
        return False


class _FileProxy:
    def __init__(self, tr, f, rel):
        self.__dict__["_tr"] = tr
        self.__dict__["_f"] = f
        self.__dict__["_rel"] = rel

    def write(self, data):
        if len(data) == 0:
            return self._f.write(data)
        self._tr._pre(["write", self._rel])
        n = self._f.write(data)
        self._f.flush()
        b = data.encode() if isinstance(data, str) else bytes(data)
        self._tr._post(["write", self._rel, list(b)])
        return n

    def __getattr__(self, k):
        return getattr(self._f, k)

    def __enter__(self):
        self._f.__enter__()
        return self

    def __exit__(self, *a):
        return self._f.__exit__(*a)

    def __iter__(self):
        return iter(self._f)


# ---------------------------------------------------------------------------
# sources
# ---------------------------------------------------------------------------
FILES = ["a.txt", "b.bin", "c", "d.dat", "e.jpg", "f"]
DIRS = ["sub", "x", "deep", "emptydir", "y"]


def gen_tree(rng, depth, tag=""):
    """[[name, {"f": bytes} | {"d": children}]] with distinct names"""
    n = rng.choice([1, 2, 2, 3, 3, 4]) if depth > 0 else rng.choice([0, 1, 2])
    names = rng.sample(FILES, min(n, len(FILES)))
    out = []
    for nm in names:
        out.append([nm + tag, {"f": [rng.randrange(256) for _ in range(rng.choice([0, 0, 1, 2, 3, 6]))]}])
    if depth > 0:
        for dn in rng.sample(DIRS, rng.choice([0, 1, 1, 2])):
            out.append([dn + tag, {"d": gen_tree(rng, depth - 1 if rng.random() < 0.7 else 0) if rng.random() < 0.8 else []}])
    rng.shuffle(out)
    return out


def tree_members(tree, rng, pre=()):
    """zip members of a tree: files, explicit directory entries for empty directories and (randomly) others"""
    out = []
    for nm, node in tree:
        p = list(pre) + [nm]
        if "f" in node:
            out.append([p, node["f"]])
        else:
            sub = tree_members(node["d"], rng, p)
            if not sub or rng.random() < 0.4:
                out.append([p, None])
            out += sub
    return out


def gen_source(rng, fmt, variant):
    if fmt == "plain":
        t = gen_tree(rng, rng.choice([1, 2, 2, 3]))
        if not t:
            t = [["a.txt", {"f": [1]}]]
        return {"tree": t}
    if fmt == "zip":
        ms = tree_members(gen_tree(rng, rng.choice([1, 2, 2])), rng)
        if rng.random() < 0.5:
            rng.shuffle(ms)
            # a directory entry may come after its content, but keep parents-before-children irrelevant: any order
        return {"members": ms}
    nz = rng.choice([1, 2, 2, 3])
    items = []
    for i in range(nz):
        tag = "" if variant == "image" else str(i)
        ms = tree_members(gen_tree(rng, rng.choice([0, 1, 1, 2]), tag), rng)
        items.append([f"n{i}.zip", {"zip": ms}])
    if rng.random() < 0.4 and nz >= 1:
        items.append(["README", {"f": [82, 69]}])
        if nz >= 2 and rng.random() < 0.5:
            items.append(["LICENSE.txt", {"f": []}])
    rng.shuffle(items)
    return {"items": items}


def expected_content(case):
    """independent description of what a complete copy contains: {relative path tuple: None (dir) | bytes}"""
    out = {}
    src = case["src"]

    def add_member(pre, p, data):
        full = tuple(pre) + tuple(p)
        for i in range(1, len(full)):
            out.setdefault(full[:i], None)
        out[full] = None if data is None else bytes(data)

    def walk(tree, pre):
        for nm, node in tree:
            if "f" in node:
                out[pre + (nm,)] = bytes(node["f"])
            else:
                out[pre + (nm,)] = None
                walk(node["d"], pre + (nm,))

    if case["fmt"] == "plain":
        walk(src["tree"], ())
    elif case["fmt"] == "zip":
        for p, data in src["members"]:
            add_member((), p, data)
    else:
        for nm, it in src["items"]:
            if "zip" in it:
                pre = (nm[:-4],) if case["variant"] == "image" else ()
                for p, data in it["zip"]:
                    add_member(pre, p, data)
    return out


# ---------------------------------------------------------------------------
# sandbox
# ---------------------------------------------------------------------------
def _write_zip(path, members):
    with zipfile.ZipFile(path, "w") as z:
        for p, data in members:
            if data is None:
                z.writestr(zipfile.ZipInfo("/".join(p) + "/"), b"")
            else:
                z.writestr("/".join(p), bytes(data))


def _write_tree(base, tree):
    os.makedirs(base, exist_ok=True)
    for nm, node in tree:
        p = os.path.join(base, nm)
        if "f" in node:
            with open(p, "wb") as f:
                f.write(bytes(node["f"]))
        else:
            _write_tree(p, node["d"])


def dst_comps(case):
    rel = case["rel"]
    return ["l"] + (rel.split("/") if rel else [])


def build_sandbox(case):
    root = os.path.realpath(tempfile.mkdtemp(prefix="kd_c20_"))
    g = os.path.join(root, "g")
    rel = case["rel"]
    sp = os.path.join(g, rel) if rel else g
    fmt, src = case["fmt"], case["src"]
    if fmt == "plain":
        _write_tree(sp, src["tree"])
        if case.get("also_zip"):
            _write_zip(sp + ".zip", [[["other.txt"], [1, 2, 3]]])
    elif fmt == "zip":
        os.makedirs(os.path.dirname(sp), exist_ok=True)
        _write_zip(sp + ".zip", src["members"])
    else:
        os.makedirs(sp, exist_ok=True)
        for nm, it in src["items"]:
            if "zip" in it:
                _write_zip(os.path.join(sp, nm), it["zip"])
            else:
                with open(os.path.join(sp, nm), "wb") as f:
                    f.write(bytes(it["f"]))
    l = os.path.join(root, "l")
    if case["local_exists"]:
        os.makedirs(l, exist_ok=True)
    if case["init"] != "fresh":
        d = os.path.join(root, *dst_comps(case))
        os.makedirs(d, exist_ok=True)
        for p, data in case["manual"]:
            fp = os.path.join(d, *p)
            if data is None:
                os.makedirs(fp, exist_ok=True)
            else:
                os.makedirs(os.path.dirname(fp), exist_ok=True)
                with open(fp, "wb") as f:
                    f.write(bytes(data))
    return root, g, l, sp


def snapshot(root, skip=("g", "g.zip")):
    """[[path components, None | [bytes]]] of everything below root except the global side, root first"""
    out = [[[], None]]
    for d, ds, fs in os.walk(root):
        relc = [] if d == root else os.path.relpath(d, root).split(os.sep)
        if not relc:
            ds[:] = [x for x in ds if x not in skip]
            fs = [x for x in fs if x not in skip]
        ds.sort()
        for x in ds:
            out.append([relc + [x], None])
        for x in sorted(fs):
            with open(os.path.join(d, x), "rb") as f:
                out.append([relc + [x], list(f.read())])
    return out


def listing(case, sp):
    """the source as the implementation will see it: directory listings in os.listdir order"""
    fmt = case["fmt"]

    def ls(path):
        out = []
        for nm in os.listdir(path):
            p = os.path.join(path, nm)
            if os.path.isdir(p):
                out.append([nm, {"d": ls(p)}])
            else:
                with open(p, "rb") as f:
                    out.append([nm, {"f": list(f.read())}])
        return out

    info = {"dir": None, "zips": [], "zip": None}
    if os.path.isdir(sp):
        info["dir"] = ls(sp)
        for nm in os.listdir(sp):
            if nm.endswith(".zip") and os.path.isfile(os.path.join(sp, nm)):
                try:
                    with zipfile.ZipFile(os.path.join(sp, nm)) as z:
                        info["zips"].append([nm, _members_of(z)])
                except zipfile.BadZipFile:
                    info["zips"].append([nm, []])
    if os.path.isfile(sp + ".zip"):
        with zipfile.ZipFile(sp + ".zip") as z:
            info["zip"] = _members_of(z)
    return info


def _members_of(z):
    out = []
    for zi in z.infolist():
        name = zi.filename
        if name.endswith("/"):
            out.append([name.rstrip("/").split("/"), None])
        else:
            out.append([name.split("/"), list(z.read(zi))])
    return out


def _result(case, r):
    if case["variant"] == "folder":
        return {"was_copied": bool(r.was_copied), "was_deleted": bool(r.was_deleted), "fmt": r.source_format}
    fmt = "zip" if r.was_zip else ("zips" if r.was_zip_classwise else ("raw" if r.was_copied else None))
    both = bool(r.was_zip and r.was_zip_classwise)
    return {"was_copied": bool(r.was_copied), "was_deleted": bool(r.was_deleted), "fmt": fmt, "both_flags": both}


def _get_fn(case):
    if case["variant"] == "folder":
        from kappadata.copying.folder import copy_folder_from_global_to_local as fn
    else:
        from kappadata.copying.image_folder import copy_imagefolder_from_global_to_local as fn
    return fn


def _rel_arg(case):
    rel = case["rel"]
    if rel is not None and case.get("rel_zip_suffix"):
        return rel + ".zip"
    return rel


def one_call(case, fn, root, g, l, kill_at):
    att = {"kill_at": kill_at, "ret": None, "error": None}
    with Tracer(root, kill_at) as t:
        try:
            r = fn(g, l, relative_path=_rel_arg(case), num_workers=case.get("workers", 0))
            att["ret"] = _result(case, r)
        except Kill:
            pass
        except Exception as e:  # an OSError etc. is an abnormal return, recorded
            att["error"] = repr(e)[:300]
    att["trace"] = t.ops
    att["zombie"] = t.zombie
    att["tree"] = snapshot(root)
    return att


# ---------------------------------------------------------------------------
# strace (thorough tier): a real SIGKILL on entry to a system call
# ---------------------------------------------------------------------------
RUNNER = r'''
import sys, types, json, os
repo, variant, g, l, rel = sys.argv[1:6]
for name in ("kappadata", "kappadata.utils"):
    m = types.ModuleType(name); m.__path__ = [os.path.join(repo, *name.split("."))]; sys.modules[name] = m
if variant == "folder":
    from kappadata.copying.folder import copy_folder_from_global_to_local as fn
else:
    from kappadata.copying.image_folder import copy_imagefolder_from_global_to_local as fn
assert os.path.abspath(sys.modules[fn.__module__].__file__).startswith(os.path.abspath(repo))
r = fn(g, l, relative_path=None if rel == "-" else rel)
print("RESULT " + json.dumps(r.__dict__))
'''
SYSCALLS = ["mkdir", "mkdirat", "openat", "unlink", "unlinkat", "rmdir", "rename", "renameat", "renameat2",
            "write", "sendfile", "copy_file_range"]


def _strace_env():
    env = dict(os.environ)
    env.update(OMP_NUM_THREADS="1", OPENBLAS_NUM_THREADS="1", MKL_NUM_THREADS="1", PYTHONDONTWRITEBYTECODE="1",
               PYTHONHASHSEED="0")
    return env


def _runner_cmd(case, root, g, l):
    from . import common
    runner = os.path.join(root, "runner.py")
    if not os.path.exists(runner):
        with open(runner, "w") as f:
            f.write(RUNNER)
    return [sys.executable, runner, common.KD_REPO, case["variant"], g, l, _rel_arg(case) or "-"]


def parse_strace(logfile, root):
    """the file-system-modifying system calls below root/l* : [(syscall name, ordinal among all calls of that
    name in the log, completed?)] in order"""
    import re
    counts = {}
    fds = {}
    out = []
    lroot = os.path.join(root, "l")
    for line in open(logfile, errors="replace"):
        m = re.match(r"^(\d+)\s+(\w+)\((.*)$", line)
        if not m:
            continue
        name, rest = m.group(2), m.group(3)
        if name == "close":
            mm = re.match(r"(\d+)\)", rest)
            if mm:
                fds.pop(int(mm.group(1)), None)
            continue
        if name not in SYSCALLS:
            continue
        counts[name] = counts.get(name, 0) + 1
        done = "<unfinished" not in rest and not rest.rstrip().endswith("= ?")
        rel = False
        if name in ("write", "sendfile", "copy_file_range"):
            mm = re.match(r"(\d+)", rest)
            fd = int(mm.group(1)) if mm else -1
            if name == "copy_file_range":
                mm = re.match(r"\d+,\s*\w+,\s*(\d+)", rest)
                fd = int(mm.group(1)) if mm else -1
            rel = fd in fds
        else:
            paths = re.findall(r'"([^"]*)"', rest)
            hit = [p for p in paths if p == lroot or p.startswith(lroot + "/") or p.startswith(lroot + ".")]
            if name == "openat":
                if hit and ("O_WRONLY" in rest or "O_RDWR" in rest or "O_CREAT" in rest):
                    rel = True
                    mm = re.search(r"=\s*(\d+)\s*$", rest)
                    if mm:
                        fds[int(mm.group(1))] = hit[0]
                else:
                    mm = re.search(r"=\s*(\d+)\s*$", rest)
                    if mm:
                        fds.pop(int(mm.group(1)), None)
            else:
                rel = bool(hit)
                if name in ("unlinkat",) and not hit:
                    # rmtree works relative to directory descriptors: unlinkat(5, "name", ..)
                    mm = re.match(r"(\d+),", rest)
                    rel = bool(mm) and not rest.startswith("AT_FDCWD")
        if rel:
            out.append((name, counts[name], done))
    return out


def strace_run(case, root, g, l, inject=None, log=None):
    cmd = ["strace", "-f", "-o", log or os.path.join(root, "strace.log"),
           "-e", "trace=" + ",".join(SYSCALLS + ["close"])]
    if inject:
        cmd += ["-e", f"inject={inject[0]}:signal=SIGKILL:when={inject[1]}"]
    cmd += _runner_cmd(case, root, g, l)
    p = subprocess.run(cmd, capture_output=True, text=True, timeout=120, env=_strace_env(), cwd=root)
    return p


# ---------------------------------------------------------------------------
# running the implementation
# ---------------------------------------------------------------------------
def run_impl(case):
    fn = _get_fn(case)
    root, g, l, sp = build_sandbox(case)
    try:
        obs = {"s0": snapshot(root), "src": listing(case, sp), "attempts": []}
        gsnap0 = snapshot(root, skip=tuple(x for x in os.listdir(root) if x not in ("g", "g.zip")))
        for k in case["kills"]:
            obs["attempts"].append(one_call(case, fn, root, g, l, k))
        if case.get("strace"):
            name, when = case["strace"]
            log = os.path.join(root, "inject.log")
            p = strace_run(case, root, g, l, inject=(name, when), log=log)
            calls = parse_strace(log, root)
            killed = p.returncode in (137, -9) or "RESULT" not in p.stdout
            obs["strace"] = {"rc": p.returncode, "killed": killed, "completed_calls": sum(1 for c in calls if c[2]),
                             "last": list(calls[-1]) if calls else None, "stderr": p.stderr[-300:]}
            for f in ("inject.log", "runner.py", "strace.log"):
                if os.path.exists(os.path.join(root, f)):
                    os.unlink(os.path.join(root, f))
            obs["attempts"].append({"kill_at": "SIGKILL", "ret": None, "error": None, "trace": None, "zombie": [],
                                    "tree": snapshot(root)})
        for _ in range(2):
            obs["attempts"].append(one_call(case, fn, root, g, l, None))
        obs["global_unchanged"] = gsnap0 == snapshot(root, skip=tuple(x for x in os.listdir(root)
                                                                       if x not in ("g", "g.zip")))
        return obs
    finally:
        shutil.rmtree(root, ignore_errors=True)


# ---------------------------------------------------------------------------
# the independent oracle
# ---------------------------------------------------------------------------
def _as_dict(tree):
    return {tuple(p): (None if v is None else bytes(v)) for p, v in tree}


def oracle(case, obs):
    if "harness_exception" in obs:
        return "harness exception: " + obs["harness_exception"] + " " + obs.get("tb", "")
    dst = tuple(dst_comps(case))
    exp = expected_content(case)
    s0 = _as_dict(obs["s0"])
    manual = dst in s0 and dst + (SNAME,) not in s0
    if not obs.get("global_unchanged", True):
        return "the source (global) side was modified"
    if case.get("strace") and not obs["strace"]["killed"]:
        return None  # the injection point was not reached (environment-dependent ordinal): nothing to check
    prev = s0
    for i, att in enumerate(obs["attempts"]):
        cur = _as_dict(att["tree"])
        tag = f"call {i + 1} ({'killed at ' + str(att['kill_at']) if att['ret'] is None else 'returned'})"
        if att["zombie"]:
            return f"{tag}: file-system operation during the unwinding after the kill: {att['zombie'][:3]}"
        if att["error"]:
            return f"{tag}: unexpected exception {att['error']}"
        nops = None if att["trace"] is None else len(att["trace"])
        prev_done = all(dst + x in prev for x in ((), (SNAME,), (ENAME,)))
        if manual or prev_done:
            if (nops not in (0, None)) or cur != prev:
                what = "a manual folder" if manual else "a completed automatic copy"
                return f"{tag}: {what} was touched ({nops} operations): {att['trace'][:4] if att['trace'] else ''}"
        r = att["ret"]
        if r is not None:
            if r.get("both_flags"):
                return f"{tag}: was_zip and was_zip_classwise both set"
            if manual:
                if cur != s0 or r["was_copied"] or r["was_deleted"] or r["fmt"] is not None:
                    return f"{tag}: manual folder: tree changed or result {r}"
            else:
                sub = {p[len(dst):]: v for p, v in cur.items() if p[:len(dst)] == dst}
                outside = {p for p in cur if p[:len(dst)] != dst and dst[:len(p)] != p}
                if outside:
                    return f"{tag}: left-overs outside the destination: {sorted(outside)[:3]}"
                if sub.get(()) is not None or () not in sub:
                    return f"{tag}: returned but the destination is not a directory"
                if not isinstance(sub.get((SNAME,)), bytes) or not isinstance(sub.get((ENAME,)), bytes):
                    return f"{tag}: returned {r} but a marker is missing: {sorted(sub)[:6]}"
                content = {p: v for p, v in sub.items() if p not in ((), (SNAME,), (ENAME,))}
                if content != exp:
                    missing = sorted(set(exp) - set(content))
                    extra = sorted(set(content) - set(exp))
                    diff = sorted(p for p in set(exp) & set(content) if exp[p] != content[p])
                    return (f"{tag}: returned {r} but the destination is not a complete copy of the source: "
                            f"missing {missing[:4]} extra {extra[:4]} different {diff[:4]}")
                # truthful result
                want_fmt = {"plain": "raw", "zip": "zip", "zips": "zips"}[case["fmt"]]
                if r["was_copied"]:
                    if nops == 0:
                        return f"{tag}: was_copied=True but no operation was performed"
                    if r["fmt"] != want_fmt:
                        return f"{tag}: source format reported as {r['fmt']}, source is {want_fmt}"
                    if r["was_deleted"] != (dst in prev):
                        return f"{tag}: was_deleted={r['was_deleted']} but destination existed before: {dst in prev}"
                else:
                    if nops != 0 or cur != prev or r["was_deleted"] or r["fmt"] is not None:
                        return f"{tag}: was_copied=False but {nops} operations / tree changed / result {r}"
                    if not prev_done:
                        return f"{tag}: reported nothing to do over an incomplete destination"
        prev = cur
    last = obs["attempts"][-1]
    if last["ret"] is None:
        return "the final uninterrupted call did not return"
    return None


# ---------------------------------------------------------------------------
# Coq rendering
# ---------------------------------------------------------------------------
def S(s):
    assert '"' not in s
    return Raw('"' + s + '"%string')


def P(comps):
    return Raw("[" + "; ".join(S(c) for c in comps) + "]")


def B(data):
    b = bytes(data)
    if b == START_TEXT:
        return Raw("start_text")
    if b == END_TEXT:
        return Raw("end_text")
    return Raw("[" + "; ".join(str(x) for x in b) + "]")


def T(node):
    if "f" in node:
        return C("TFile", B(node["f"]))
    return C("TDir", Raw("[" + "; ".join("(" + S(n) + ", " + T(x) + ")" for n, x in node["d"]) + "]"))


def M(m):
    p, data = m
    return Rec(m_path=P(p), m_file=Raw("None") if data is None else Raw("(Some " + B(data) + ")"))


def FS(tree):
    return Raw("[" + "; ".join("(" + P(p) + ", " + ("Dir" if v is None else "File " + B(v)) + ")" for p, v in tree) + "]")


def EV(op):
    tag = op[0]
    if tag == "mkdir":
        return C("EMkdir", P(op[1]))
    if tag == "create":
        return C("ECreate", P(op[1]))
    if tag == "write":
        return C("EWrite", P(op[1]), B(op[2]))
    if tag == "unlink":
        return C("EUnlink", P(op[1]))
    if tag == "rmdir":
        return C("ERmdir", P(op[1]))
    if tag == "rename":
        return C("ERename", P(op[1] or ["?outside"]), P(op[2] or ["?outside"]))
    return C("EMkdir", P(["?" + tag]))   # an operation the model does not have: forces a disagreement


FMT = {"raw": "Raw", "zip": "Zip", "zips": "Zips"}


def RES(r):
    if r is None:
        return Raw("None")
    f = Raw("None") if r["fmt"] is None else Raw("(Some " + FMT[r["fmt"]] + ")")
    return Raw("(Some " + Rec(was_copied=r["was_copied"], was_deleted=r["was_deleted"], source_format=f) + ")")


def coq_applicable(case, obs):
    return ("attempts" in obs and not case.get("strace") and case.get("workers", 0) <= 1
            and all(a["trace"] is not None for a in obs["attempts"]))


def coq_case(case, obs):
    d = dst_comps(case)
    src = obs["src"]
    cfg = Rec(
        c_variant=Raw("VFolder" if case["variant"] == "folder" else "VImage"),
        c_parent=P(d[:-1]), c_name=S(d[-1]),
        c_dir=Raw("None") if src["dir"] is None else
        Raw("(Some [" + "; ".join("(" + S(n) + ", " + T(x) + ")" for n, x in src["dir"]) + "])"),
        c_zips=Raw("[" + "; ".join("(" + S(n) + ", [" + "; ".join(M(m) for m in ms) + "])" for n, ms in src["zips"]) + "]"),
        c_zip=Raw("None") if src["zip"] is None else Raw("(Some [" + "; ".join(M(m) for m in src["zip"]) + "])"),
    )
    obs_terms = []
    for att in obs["attempts"]:
        order = [op[1] for op in att["trace"] if op[0] in ("unlink", "rmdir") and len(op[1]) > len(d)]
        obs_terms.append(Rec(o_order=Raw("[" + "; ".join(P(p) for p in order) + "]"),
                             o_trace=Raw("[" + "; ".join(EV(op) for op in att["trace"]) + "]"),
                             o_ret=RES(att["ret"]),
                             o_tree=FS(att["tree"])))
    return "(" + cfg + ", " + FS(obs["s0"]) + ", [" + "; ".join(obs_terms) + "])"


# ---------------------------------------------------------------------------
# case generation
# ---------------------------------------------------------------------------
def base_case(variant, fmt, rel, src, local_exists=True, init="fresh", manual=None, **kw):
    c = {"variant": variant, "fmt": fmt, "rel": rel, "src": src, "local_exists": local_exists, "init": init,
         "manual": manual or [], "kills": [], "workers": 0}
    c.update(kw)
    return c


D25_SRC = {"tree": [["a.txt", {"f": [65]}], ["z.txt", {"f": [90]}], ["sub", {"d": [["b.txt", {"f": [66]}]]}]]}


def directed_bases():
    out = []
    for variant in ("folder", "image"):
        # the configuration of defect D25 (fixes/C20_*.txt)
        out.append(base_case(variant, "plain", "data", D25_SRC, local_exists=False))
        out.append(base_case(variant, "zip", "ds",
                             {"members": [[["a.txt"], [65, 65]], [["sub", "b.txt"], [66]], [["emptydir"], None],
                                          [["sub", "deep", "e.txt"], []]]}))
        out.append(base_case(variant, "zips", "a/ds",
                             {"items": [["n0.zip", {"zip": [[["a0.txt"], [65]], [["sub0", "b.txt"], [66]]]}],
                                        ["n1.zip", {"zip": [[["x1", "y.txt"], [89]], [["e1"], None]]}],
                                        ["README", {"f": [82]}]]}, local_exists=False))
        out.append(base_case(variant, "plain", None, {"tree": [["e", {"f": []}], ["d", {"d": []}]]}, local_exists=False))
    return out


def random_base(rng):
    variant = rng.choice(["folder", "image"])
    fmt = rng.choice(["plain", "zip", "zips"])
    rel = rng.choice([None, "ds", "ds", "a/ds"])
    c = base_case(variant, fmt, rel, gen_source(rng, fmt, variant), local_exists=rng.random() < 0.6)
    if variant == "image" and rel is not None and fmt == "zip" and rng.random() < 0.5:
        c["rel_zip_suffix"] = True
    if fmt == "plain" and rel is not None and rng.random() < 0.1:
        c["also_zip"] = True
    if fmt == "plain" and len(c["src"]["tree"]) >= 3 and rng.random() < 0.15:
        c["src"]["tree"].append(["stray.zip", {"f": [80, 75, 5, 6] + [0] * 18}])
    if rng.random() < 0.12:
        c["init"] = "manual"
        c["local_exists"] = True
        c["manual"] = rng.choice([[], [[["mine.txt"], [1, 2]]], [[["a.txt"], [9]], [["sub"], None], [["sub", "k"], []]],
                                  [[[ENAME], [1]]]])
    return c


def count_ops(case, kills=()):
    """number of operations of the next uninterrupted call after the given kills (a measurement for the enumeration)"""
    fn = _get_fn(case)
    root, g, l, sp = build_sandbox(case)
    try:
        for k in kills:
            one_call(case, fn, root, g, l, k)
        return len(one_call(case, fn, root, g, l, None)["trace"])
    finally:
        shutil.rmtree(root, ignore_errors=True)


def with_kills(base, kills):
    c = dict(base)
    c["kills"] = list(kills)
    return c


def gen_cases(rng, tier):
    out = []
    bases = directed_bases()
    n_rand = 14 if tier == "quick" else 60
    bases += [random_base(rng) for _ in range(n_rand)]
    for bi, b in enumerate(bases):
        n = count_ops(b)
        out.append(with_kills(b, []))
        if n == 0:
            out += [with_kills(b, [1]), with_kills(b, [2, 1])]
            continue
        # every kill point of the first call
        for k in range(1, n + 1):
            out.append(with_kills(b, [k]))
        # every kill point of a call that finds an interrupted copy (the wipe and everything after it)
        pick = [rng.randint(2, n)] if (tier == "quick" and bi >= 8) else sorted({rng.randint(2, n), n - 1, max(1, n // 2)})
        for k1 in pick:
            n2 = count_ops(b, [k1])
            ks = range(1, n2 + 1) if (tier == "thorough" or bi < 8) else rng.sample(range(1, n2 + 1), min(n2, 6))
            for k2 in ks:
                out.append(with_kills(b, [k1, k2]))
        # 2-3 successive random kills
        for _ in range(4 if tier == "quick" else 12):
            m = rng.choice([2, 3, 3])
            out.append(with_kills(b, [rng.randint(1, n + 2) for _ in range(m)]))
    # manual folders
    for variant in ("folder", "image"):
        for man in ([], [[["mine.txt"], [1, 2]], [["sub"], None]], [[["a.txt"], [9]]]):
            b = base_case(variant, "plain", "data", D25_SRC, init="manual", manual=man)
            out += [with_kills(b, []), with_kills(b, [1]), with_kills(b, [3, 1])]
    # joblib workers (final tree and result only)
    for variant in (("folder", "image") if tier == "thorough" else ("image",)):
        b = [x for x in directed_bases() if x["variant"] == variant and x["fmt"] == "zips"][0]
        b = dict(b, workers=2)
        out += [with_kills(b, [3]), with_kills(b, [8, 2])]
    if tier == "thorough":
        out += strace_cases(rng)
    return out


def strace_cases(rng):
    """every file-system-modifying system call of (a) a fresh copy and (b) a copy over an interrupted one, for a few
    configurations: one case per call, the child is SIGKILLed on entry to it"""
    if shutil.which("strace") is None:
        return []
    out = []
    bases = directed_bases()[:3] + directed_bases()[4:7]
    for b in bases:
        n = count_ops(b)
        for prefix in ([], [max(2, n - 3)]):
            c = with_kills(b, prefix)
            fn = _get_fn(c)
            root, g, l, sp = build_sandbox(c)
            try:
                for k in prefix:
                    one_call(c, fn, root, g, l, k)
                log = os.path.join(root, "dry.log")
                p = strace_run(c, root, g, l, log=log)
                if "RESULT" not in p.stdout:
                    continue
                calls = parse_strace(log, root)
            finally:
                shutil.rmtree(root, ignore_errors=True)
            for name, ordinal, done in calls:
                cc = dict(c)
                cc["strace"] = [name, ordinal]
                out.append(cc)
    return out


def search_cases(rng, tier):
    for b in directed_bases():
        n = count_ops(b)
        for k in range(1, n + 1):
            yield with_kills(b, [k])
        for k1 in range(2, n + 1):
            n2 = count_ops(b, [k1])
            for k2 in range(1, n2 + 1):
                yield with_kills(b, [k1, k2])
    for _ in range(300):
        b = random_base(rng)
        n = count_ops(b)
        for _ in range(10):
            yield with_kills(b, [rng.randint(1, n + 1) for _ in range(rng.choice([1, 2, 3]))])


def shrink(case):
    ks = case["kills"]
    for i in range(len(ks)):
        yield dict(case, kills=ks[:i] + ks[i + 1:])
    if case["fmt"] == "plain" and len(case["src"]["tree"]) > 1 and not case.get("strace"):
        for i in range(len(case["src"]["tree"])):
            t = case["src"]["tree"]
            yield dict(case, src={"tree": t[:i] + t[i + 1:]})


# ---------------------------------------------------------------------------
# evidence helpers
# ---------------------------------------------------------------------------
def _state_class(case, tree):
    d = _as_dict(tree)
    dst = tuple(dst_comps(case))
    if dst not in d:
        tmp = dst[:-1] + (dst[-1] + ".autocopy_tmp",)
        return "absent+tmp" if tmp in d else "absent"
    if dst + (SNAME,) not in d:
        return "no-start-marker"
    if dst + (ENAME,) in d:
        return "complete"
    n = sum(1 for p in d if p[:len(dst)] == dst) - 2
    return "started-empty" if n == 0 else "started-partial"


def features(case, obs):
    f = [f"fn={case['variant']}", f"fmt={case['fmt']}", f"rel={case['rel']}", f"init={case['init']}",
         f"kills={len(case['kills'])}", f"workers={case.get('workers', 0)}"]
    if case.get("strace"):
        f.append("strace=" + case["strace"][0])
        if "strace" in obs:
            f.append("strace_killed=" + str(obs["strace"]["killed"]))
            f.append("strace_hit_target=" + str(obs["strace"]["last"] == [case["strace"][0], case["strace"][1], False]))
    for att in obs.get("attempts", []):
        if att["ret"] is None:
            f.append("state_after_kill=" + _state_class(case, att["tree"]))
            if att["trace"]:
                f.append("last_op_before_kill=" + att["trace"][-1][0])
    return f


def nontrivial_key(case, obs):
    atts = obs.get("attempts", [])
    killed = [a for a in atts if a["ret"] is None and (a["trace"] is None or len(a["trace"]) > 0)]
    if not killed:
        return None
    return (case["variant"], case["fmt"], case["rel"], case["init"], tuple(case["kills"]), str(case.get("strace")),
            tuple(_state_class(case, a["tree"]) for a in killed), json.dumps(case["src"], sort_keys=True)[:200])
