(* C15 — lemmas about the shared definitions of Base.v (truncation, between, all3). *)
From Coq Require Import ZArith QArith Qminmax Qround Qabs List Bool Lia Lqa.
Import ListNotations.
From KD Require Import C15.Base.
Open Scope Q_scope.

Lemma Qtrunc_comp : forall a b, a == b -> Qtrunc a = Qtrunc b.
Proof.
  intros a b H. unfold Qtrunc.
  assert (E : Qle_bool 0 a = Qle_bool 0 b).
  { destruct (Qle_bool 0 a) eqn:Ea, (Qle_bool 0 b) eqn:Eb; try reflexivity.
    - apply Qle_bool_iff in Ea. rewrite H in Ea. apply Qle_bool_iff in Ea. congruence.
    - apply Qle_bool_iff in Eb. rewrite <- H in Eb. apply Qle_bool_iff in Eb. congruence. }
  rewrite E. destruct (Qle_bool 0 b).
  - apply Qfloor_comp; exact H.
  - apply Qceiling_comp; exact H.
Qed.

Lemma Qtrunc_inject_Z : forall z, Qtrunc (inject_Z z) = z.
Proof.
  intros z. unfold Qtrunc. destruct (Qle_bool 0 (inject_Z z)).
  - apply Qfloor_Z.
  - apply Qceiling_Z.
Qed.

Lemma Qtrunc_eq_Z : forall q z, q == inject_Z z -> Qtrunc q = z.
Proof. intros q z H. rewrite (Qtrunc_comp _ _ H). apply Qtrunc_inject_Z. Qed.

Lemma Qceiling_neg_le0 : forall a, a < 0 -> (Qceiling a <= 0)%Z.
Proof.
  intros a H. unfold Qceiling.
  assert (0 <= Qfloor (- a))%Z.
  { change 0%Z with (Qfloor 0). apply Qfloor_resp_le. lra. }
  lia.
Qed.

Lemma Qfloor_nonneg : forall a, 0 <= a -> (0 <= Qfloor a)%Z.
Proof. intros a H. change 0%Z with (Qfloor 0). apply Qfloor_resp_le. exact H. Qed.

Lemma Qtrunc_mono : forall a b, a <= b -> (Qtrunc a <= Qtrunc b)%Z.
Proof.
  intros a b H. unfold Qtrunc.
  destruct (Qle_bool 0 a) eqn:Ea, (Qle_bool 0 b) eqn:Eb.
  - apply Qfloor_resp_le; exact H.
  - apply Qle_bool_iff in Ea. assert (0 <= b) by lra. apply Qle_bool_iff in H0. congruence.
  - assert (a < 0). { apply Qnot_le_lt. intro C. apply Qle_bool_iff in C. congruence. }
    apply Qle_bool_iff in Eb. pose proof (Qceiling_neg_le0 a H0). pose proof (Qfloor_nonneg b Eb). lia.
  - apply Qceiling_resp_le; exact H.
Qed.

Lemma inject_Z_le : forall x y, (x <= y)%Z -> inject_Z x <= inject_Z y.
Proof. intros. rewrite <- Zle_Qle. assumption. Qed.

(* ---- between ---- *)
Lemma between_refl : forall a, between a a a.
Proof. intros a. left. split; apply Qle_refl. Qed.

Lemma between_mono_fun : forall (h : Q -> Q), (forall x y, x <= y -> h x <= h y) ->
  forall a x b, between a x b -> between (h a) (h x) (h b).
Proof. intros h M a x b [[H1 H2]|[H1 H2]]; [left|right]; split; apply M; assumption. Qed.

Lemma between_Qmax : forall k a x b, between a x b -> between (Qmax k a) (Qmax k x) (Qmax k b).
Proof. intros k. apply between_mono_fun. intros x y H. apply Q.max_le_compat_l. exact H. Qed.

Lemma between_Qmin : forall k a x b, between a x b -> between (Qmin k a) (Qmin k x) (Qmin k b).
Proof. intros k. apply between_mono_fun. intros x y H. apply Q.min_le_compat_l. exact H. Qed.

Lemma between_trunc : forall a x b, between a x b ->
  between (inject_Z (Qtrunc a)) (inject_Z (Qtrunc x)) (inject_Z (Qtrunc b)).
Proof.
  apply (between_mono_fun (fun q => inject_Z (Qtrunc q))).
  intros x y H. apply inject_Z_le. apply Qtrunc_mono. exact H.
Qed.

(* an affine function of the factor moves monotonically (in one direction or the other) *)
Lemma between_affine : forall (e : Q -> Q) f g,
  (forall x, e x == e 0 + (e 1 - e 0) * x) -> 0 <= f -> f <= g ->
  between (e 0) (e f) (e g).
Proof.
  intros e f g A Hf Hfg. unfold between.
  rewrite (A f), (A g). set (c := e 0). set (d := e 1 - c).
  destruct (Qlt_le_dec d 0) as [Hd|Hd]; [right|left]; split; nra.
Qed.

(* ---- all3 ---- *)
Lemma all3_app : forall P a1 a2 a3 b1 b2 b3,
  all3 P a1 a2 a3 -> all3 P b1 b2 b3 -> all3 P (a1 ++ b1) (a2 ++ b2) (a3 ++ b3).
Proof.
  intros P a1. induction a1 as [|x a1 IH]; intros [|y a2] [|z a3] b1 b2 b3 Ha Hb; simpl in *; try contradiction; auto.
  destruct Ha as [H1 H2]. split; auto.
Qed.

Lemma all3_nil : forall P, all3 P [] [] [].
Proof. intros; exact I. Qed.
