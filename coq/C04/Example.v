(* a concrete accepted constructor call: the premises of the property theorems are satisfiable *)
From Coq Require Import ZArith List Bool Lia.
Import ListNotations.
From KD Require Import C04.Model C04.Spec C04.Lists C04.Arith C04.Sides C04.Proofs C04.Corollaries.
Open Scope Z_scope.

(* a side sampler that yields another order on every other pass *)
Definition ex_side : side_cfg :=
  {| ene := Some 1; enu := Some 3; ens := Some 5; sbs := Some 2;
     sidx := fun p => if Nat.even p then [0; 1; 2] else [2; 0; 1]; slen := 3; dslen := 4 |}.
Definition ex_args : ctor_args :=
  {| a_N := 10; a_dsN := 11; a_B := 2; a_drop_last := true; a_D := Some 4;
     a_epochs := None; a_updates := Some 7; a_samples := None;
     a_start_epoch := None; a_start_update := None; a_start_sample := None;
     a_sides := [ex_side; ex_side] |}.
Definition ex_cfg : cfg := cfg_of_args ex_args.
Definition ex_iter (e : Z) : list Z := [3; 1; 4; 1; 5; 9; 2; 6; 5; 10].

Lemma ex_ctor : ctor ex_args = Ok ex_cfg 0 0 0.
Proof. reflexivity. Qed.

Lemma ex_env : env_ok ex_cfg ex_iter.
Proof.
  split; [intros e; reflexivity|]. split; [|cbn; lia].
  cbn. repeat constructor; cbn; try lia; intros p; destruct (Nat.even p); reflexivity.
Qed.

Lemma ex_wf : WF ex_cfg ex_iter.
Proof. exact (ctor_accepts_wf ex_args ex_cfg 0 0 0 ex_iter ex_ctor ex_env). Qed.

Lemma ex_side_wf : wf_side ex_side.
Proof. pose proof (wf_sides _ _ ex_wf) as H. now inversion H. Qed.
