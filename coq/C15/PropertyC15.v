(* C15 — strength scaling interpolates from identity to the configured augmentation; a scheduled transform
   applies the schedule value of the global batch independent of the worker count.
   Statements only; proofs are in Proofs.v (re-checked against the regenerated gen/Strength.v on every run).
   `tree` ranges over every class that defines _scale_strength (leaf), KDTransforms without scaling (Opaque),
   plain callables (Foreign) and arbitrarily nested containers (Compose: KDComposeTransform and its subclasses,
   KDTransformChoice, and the one-member containers KDRandomApply / PatchwiseTransform); wrappers around a member of
   fixed class (KDRandomColorJitter, KDThreeAugment, ...) are leaves whose record contains the members' records. *)
From Coq Require Import ZArith QArith Qminmax List Bool.
Import ListNotations.
From KD Require Import C15.Base C15.gen.Strength C15.Sched C15.Spec C15.Proofs C15.ProofsInterleave.

(* ---- strength scaling ---- *)
Theorem scale_one_restores : forall t, tree_wf t -> tree_constructed t -> tree_eq (tree_scale t 1) t.
Proof. exact tree_one_restores. Qed.
Print Assumptions scale_one_restores.

Theorem scale_zero_weakest : forall t, tree_weakest (tree_scale t 0).
Proof. exact tree_zero_weakest. Qed.
Print Assumptions scale_zero_weakest.

Theorem scale_monotone : forall t f g, (0 <= f)%Q -> (f <= g)%Q ->
  bounds_between (tree_scale t 0) (tree_scale t f) (tree_scale t g).
Proof. exact tree_monotone. Qed.
Print Assumptions scale_monotone.

Theorem scale_last_wins : forall t f g, tree_scale (tree_scale t f) g = tree_scale t g.
Proof. exact tree_last_wins. Qed.
Print Assumptions scale_last_wins.

Theorem scale_sequence_last_wins : forall fs t f, fold_left tree_scale (fs ++ [f]) t = tree_scale t f.
Proof. exact tree_seq_last_wins. Qed.
Print Assumptions scale_sequence_last_wins.

Theorem scale_one_restores_after_any_history : forall fs t, tree_wf t -> tree_constructed t ->
  tree_eq (fold_left tree_scale (fs ++ [1%Q]) t) t.
Proof. exact tree_one_restores_after. Qed.
Print Assumptions scale_one_restores_after_any_history.

(* every range the sampling draws from stays a range (lb <= ub, magnitude_min <= magnitude <= magnitude_max,
   sigma_lb <= sigma_ub; lower bounds that must be >= 0 stay >= 0) after scaling by any factor in [0, 1], under the
   domain premise: the constructor arguments were in torchvision's domain (tree_wf) and the constructed ranges were
   ordered (tree_dom); both premises are evaluated on every real instance by the check *)
Theorem ranges_stay_ordered : forall t f, (0 <= f)%Q -> (f <= 1)%Q -> tree_wf t -> tree_dom t ->
  tree_ordered (tree_scale t f).
Proof. exact tree_ordered_scaled. Qed.
Print Assumptions ranges_stay_ordered.

Theorem ranges_stay_ordered_after_any_history : forall fs t f, (0 <= f)%Q -> (f <= 1)%Q -> tree_wf t -> tree_dom t ->
  tree_ordered (fold_left tree_scale (fs ++ [f]) t).
Proof. exact tree_ordered_after. Qed.
Print Assumptions ranges_stay_ordered_after_any_history.

Theorem constructed_ranges_ordered : forall t, tree_constructed t -> tree_dom t -> tree_ordered t.
Proof. exact tree_ordered_constructed. Qed.
Print Assumptions constructed_ranges_ordered.

(* ---- scheduled transform ---- *)
Open Scope Z_scope.

(* round-robin bookkeeping: global sample n is the rr_local-th sample of worker rr_owner, and conversely the
   s-th sample of worker r is global sample rr_global, which lies in global batch (s / B) * W + r; the two
   maps are inverse to each other and each worker sees its samples in global order *)
Theorem worker_sample_global_batch : forall W B r s, 0 < W -> 0 < B -> 0 <= r < W -> 0 <= s ->
  rr_owner W B (rr_global W B r s) = r /\
  rr_local W B (rr_global W B r s) = s /\
  rr_batch B (rr_global W B r s) = s / B * W + r /\
  0 <= rr_global W B r s.
Proof. exact rr_inverse. Qed.
Print Assumptions worker_sample_global_batch.

Theorem global_sample_worker_position : forall W B n, 0 < W -> 0 < B -> 0 <= n ->
  rr_local W B n / B * W + rr_owner W B n = rr_batch B n /\
  0 <= rr_owner W B n < W /\ 0 <= rr_local W B n.
Proof. exact rr_forward. Qed.
Print Assumptions global_sample_worker_position.

Theorem round_robin_bijection : forall W B n, 0 < W -> 0 < B -> 0 <= n ->
  rr_global W B (rr_owner W B n) (rr_local W B n) = n.
Proof. exact rr_global_of_local. Qed.
Print Assumptions round_robin_bijection.

Theorem worker_keeps_global_order : forall W B r s s', 0 < W -> 0 < B -> 0 <= r < W -> 0 <= s < s' ->
  rr_global W B r s < rr_global W B r s'.
Proof. exact rr_global_increasing. Qed.
Print Assumptions worker_keeps_global_order.

(* the value written to ctx by the s-th call of worker r (of W, batch size B) is the schedule's value at the
   global batch of that sample, for every schedule, every way n_batches was announced, every wrapped transform *)
Theorem scheduled_value_is_schedule_at_global_batch : forall sched W B r i inner k s,
  0 < W -> 0 < B -> 0 <= r < W -> (s < k)%nat ->
  nth s (fst (worker_run sched k (worker_init r W B i inner))) 0%Q =
    sched (rr_batch B (rr_global W B r (Z.of_nat s))) (n_batches_of i B).
Proof. exact worker_sample_value. Qed.
Print Assumptions scheduled_value_is_schedule_at_global_batch.

(* the value reported in ctx is the value the wrapped transform was scaled with, and the wrapped transform after
   the call is the constructed one scaled by that value only (no compounding over calls) *)
Theorem scheduled_applies_reported_value : forall sched k w,
  ws_inner (snd (worker_run sched (S k) w)) = tree_scale (ws_inner w) (value_at sched w (Z.of_nat k)) /\
  nth k (fst (worker_run sched (S k) w)) 0%Q = value_at sched w (Z.of_nat k).
Proof. exact worker_run_inner_and_value. Qed.
Print Assumptions scheduled_applies_reported_value.

(* end to end: W workers, each starting from a copy of the constructed transform with sample_counter 0 and rank r,
   are fed the global sample stream round-robin (sample n goes to worker (n / B) mod W).  The n-th observation
   (ctx value, wrapped transform after the call) is (schedule(n / B), constructed transform scaled by schedule(n / B)),
   for every worker count W >= 1: every sample of global batch b gets the schedule's value at b. *)
Theorem scheduled_pool_applies_global_batch_value : forall sched W B i inner N, (0 < W)%nat -> 0 < B ->
  pool_run sched (init_pool W B i inner) (map (rr_owner_nat W B) (seq 0 N)) =
  map (fun n => let v := sched (rr_batch B (Z.of_nat n)) (n_batches_of i B) in (v, tree_scale inner v)) (seq 0 N).
Proof. exact pool_run_round_robin. Qed.
Print Assumptions scheduled_pool_applies_global_batch_value.

(* rr_local is the number of earlier samples handled by the same worker (what sample_counter counts) *)
Theorem local_index_counts_earlier_samples : forall W B n, 0 < W -> 0 < B ->
  rr_local W B (Z.of_nat n) =
  Z.of_nat (length (filter (fun m => rr_owner W B (Z.of_nat m) =? rr_owner W B (Z.of_nat n)) (seq 0 n))).
Proof. exact rr_local_counts. Qed.
Print Assumptions local_index_counts_earlier_samples.

(* several DataLoader iterators (one per epoch) over PERSISTENT workers, number of workers dividing the batches per
   epoch: the index computed for every sample (j-th of the batch) of batch k of iterator e is the global batch e*bpe + k *)
Theorem several_iterators_persistent_workers_aligned : forall W B bpe e k j nb inner,
  0 < W -> 0 < B -> bpe mod W = 0 -> 0 <= e -> 0 <= k < bpe -> 0 <= j < B ->
  batch_idx (mk_wstate (k mod W) W B nb ((e * (bpe / W) + k / W) * B + j) inner) = e * bpe + k.
Proof. exact persistent_aligned. Qed.
Print Assumptions several_iterators_persistent_workers_aligned.

(* ... and what the recorded finding is: workers re-created per iterator compute k for batch k of EVERY iterator *)
Theorem several_iterators_fresh_workers_restart_schedule : forall W B k j nb inner, 0 < W -> 0 < B -> 0 <= k -> 0 <= j < B ->
  batch_idx (mk_wstate (k mod W) W B nb ((k / W) * B + j) inner) = k.
Proof. exact fresh_workers_restart. Qed.
Print Assumptions several_iterators_fresh_workers_restart_schedule.

(* ---- shared augmentation objects, interleaved histories ----
   W copies of a pipeline, each with K scheduled transforms (cfgs: batch size, announced length, heap cells reached by
   self.transform.scale_strength) over a heap of augmentation objects (inners0), some shared between scheduled
   transforms and with an outer composition.  gs is ANY interleaving of "scheduled transform k processes its next
   sample" (its samples dealt to the copies in full batches round-robin), "somebody calls scale_strength(f) on object j
   of copy w" and "somebody calls scale_strength(f) on copy w's outer composition".  The model (Sched.v: every call
   writes schedule(batch) to the shared cells, unconditionally, then applies) produces exactly what the spec
   (Spec.v ispec_run) says: each call reports its own schedule's value at its own global batch, the cells it reaches
   are the constructed objects scaled by that value, and every cell always is the constructed object scaled by the
   last factor anybody gave it. *)
Theorem scheduled_applies_schedule_value_after_any_interleaving :
  forall schedules W (cfgs : list scfg) outer inners0 gs,
  (0 < W)%nat -> Forall (fun c : scfg => 0 < fst (fst c)) cfgs ->
  ipool_run schedules outer (iinit_pool W cfgs inners0) (route W cfgs (fun _ => O) gs) =
  ispec_run W cfgs schedules outer inners0 (fun _ => O) (fun _ _ => None) gs.
Proof. exact ipool_run_interleaved. Qed.
Print Assumptions scheduled_applies_schedule_value_after_any_interleaving.

(* the same for ONE call, free of the spec's bookkeeping: after any valid history `pre`, the next call of scheduled
   transform k (batch size B, cells js) is observed with reported value v = schedule_k(n / B) where n is the number of
   samples k has processed before (count_calls k pre), and every cell it reaches is the constructed object scaled by v *)
Theorem interleaved_call_reports_and_applies_own_schedule_value :
  forall schedules W (cfgs : list scfg) outer inners0 pre k B i js post,
  (0 < W)%nat -> Forall (fun c : scfg => 0 < fst (fst c)) cfgs ->
  nth_error cfgs k = Some (B, i, js) -> Forall (gstep_valid W (length cfgs)) pre ->
  let v := schedules k (rr_batch B (Z.of_nat (count_calls k pre))) (n_batches_of i B) in
  exists h,
    nth_error (ipool_run schedules outer (iinit_pool W cfgs inners0)
                         (route W cfgs (fun _ => O) (pre ++ GCall k :: post))) (length pre) = Some (v, h) /\
    forall j, In j js -> nth_error h j = option_map (fun t => tree_scale t v) (nth_error inners0 j).
Proof. exact interleaved_call_obs. Qed.
Print Assumptions interleaved_call_reports_and_applies_own_schedule_value.

(* ---- non-vacuity ---- *)
Open Scope Q_scope.
Definition ex_cj : KDColorJitter_st :=
  KDColorJitter_mk (Some (3 # 5)) (7 # 5) None 0 (Some (- (1 # 10))) (1 # 10)
                   (3 # 5) (7 # 5) 0 0 (- (1 # 10)) (1 # 10) 0 0 None 0.
Definition ex_tree : tree :=
  Compose [Leaf (L_KDColorJitter ex_cj); Opaque; Foreign;
           Compose [Leaf (L_KDSolarize (KDSolarize_mk (NI 128) (NI 128)));
                    Leaf (L_KDRandomRotation (KDRandomRotation_mk (- (30 # 1)) (30 # 1) (- (30 # 1)) (30 # 1)))]].
Example ex_tree_premises : tree_wfb ex_tree = true /\ tree_constructedb ex_tree = true /\ tree_domb ex_tree = true.
Proof. vm_compute. repeat split; reflexivity. Qed.
Example ex_tree_dom : tree_dom ex_tree.
Proof. unfold ex_tree, ex_cj. cbv -[Qeq Qle]. repeat split; try discriminate. Qed.
(* the ordering is not trivially true: it fails on an inverted range *)
Example ex_not_ordered :
  tree_orderedb (Leaf (L_KDRandomRotation (KDRandomRotation_mk (30 # 1) (- (30 # 1)) (30 # 1) (- (30 # 1))))) = false.
Proof. vm_compute. reflexivity. Qed.
Example ex_tree_wf : tree_wf ex_tree /\ tree_constructed ex_tree.
Proof.
  unfold ex_tree, ex_cj. cbv -[Qeq Qle]. repeat split; try reflexivity; try discriminate.
Qed.
(* the scaled parameters really move: brightness [3/5, 7/5] at factor 1/2 is [4/5, 6/5], solarize 128 -> 192 *)
Example ex_tree_half :
  tree_bounds (tree_scale ex_tree (1 # 2)) =
  tree_bounds (Compose [Leaf (L_KDColorJitter
       (KDColorJitter_mk (Some (Qmax 0 (1 - (1 - (3 # 5)) * (1 # 2)))) (1 - (1 - (7 # 5)) * (1 # 2)) None 0
                         (Some (Qmax (- (1 # 2)) (- (1 # 10) * (1 # 2)))) (Qmin (1 # 2) ((1 # 10) * (1 # 2)))
                         (3 # 5) (7 # 5) 0 0 (- (1 # 10)) (1 # 10) 0 0 None 0));
     Leaf (L_KDSolarize (KDSolarize_mk (NI 128) (NI 192)));
     Leaf (L_KDRandomRotation (KDRandomRotation_mk (- (30 # 1) * (1 # 2)) ((30 # 1) * (1 # 2)) (- (30 # 1)) (30 # 1)))]).
Proof. vm_compute. reflexivity. Qed.
Example ex_round_robin : (* W = 3, B = 2: the 5th sample (s = 4) of worker 1 is global sample 14, in global batch 7 *)
  (rr_global 3 2 1 4 = 14 /\ rr_batch 2 14 = 7 /\ rr_owner 3 2 14 = 1 /\ rr_local 3 2 14 = 4)%Z.
Proof. vm_compute. repeat split; reflexivity. Qed.
(* two scheduled transforms (ramp up 0, 1/2; ramp down 1, 1/2; batch size 2) share ONE rotation object; view 0, view 1,
   view 0 again (same batch: same value as its previous call), a manual scale_strength(1), view 0 (next batch):
   every call reports its own value and the shared object is at exactly that value after it *)
Definition ex_rot : tree := Leaf (L_KDRandomRotation (KDRandomRotation_mk (- (30 # 1)) (30 # 1) (- (30 # 1)) (30 # 1))).
Definition ex_scheds : nat -> Z -> Z -> Q :=
  fun k b _ => Qred (match k with O => inject_Z b * (1 # 2) | _ => 1 - inject_Z b * (1 # 2) end).
Example ex_interleaved :
  let run := ipool_run ex_scheds [MSched 0; MSched 1; MInner 0]
                       (iinit_pool 1 [(2%Z, IUpdates 2, [0%nat]); (2%Z, IUpdates 2, [0%nat])] [ex_rot])
                       (route 1 [(2%Z, IUpdates 2, [0%nat]); (2%Z, IUpdates 2, [0%nat])] (fun _ => O)
                              [GCall 0; GCall 1; GCall 0; GScale 0 0 1; GCall 0; GScaleOuter 0 (1 # 4); GCall 1]) in
  map fst run = [0; 1; 0; 1; 1 # 2; 1 # 4; 1] /\
  map snd run = map (fun f => [tree_scale ex_rot f]) [0; 1; 0; 1; 1 # 2; 1 # 4; 1].
Proof. vm_compute. split; reflexivity. Qed.
